use std::fs;
use std::io::Write;
use std::path::PathBuf;

// Copies the daemon's zone-loading modules of the repository under test into
// `src/gen_daemon/` so that `main.rs` can include them with literal `#[path]`s (group `reload`,
// C31). The repository path is the `quandary` path dependency of the generated Cargo.toml
// (bin/check writes it from Cargo.toml.in, honouring VERIF_REPO).

const FILES: [&str; 4] = ["args.rs", "config.rs", "run.rs", "zones.rs"];


// Build script of the harness.
//
// Feature `pool` (C29): copies `src/thread.rs` of the repository under test into OUT_DIR with
// ONLY its `use std::sync…`, `use std::thread…` and `use std::time…` imports rewritten to the
// shim in `crate::pool_shim` (a Mutex/Condvar/thread/Instant implementation on top of the
// `shuttle` controlled scheduler), inner doc comments turned into ordinary comments (they are
// not allowed inside `include!`), and a probe sub-module appended that lets the harness read the
// private records (`GroupRecords`, `PoolRecords`) at lock releases.  Every other line is the
// repository's code, unmodified.

const PROBE: &str = r#"

/// appended by harness/build.rs — read-only access to the private records for the trace log
pub mod verif_probe {
    use super::*;
    /// `G <thread_count> <shutting_down> <pools.len()>` / `P <queue.len()> <available_workers> <shutting_down>`
    pub fn snapshot(any: &dyn std::any::Any) -> Option<(char, usize, usize, usize)> {
        if let Some(g) = any.downcast_ref::<GroupRecords>() {
            Some(('G', g.thread_count, g.shutting_down as usize, g.pools.len()))
        } else if let Some(p) = any.downcast_ref::<PoolRecords>() {
            Some(('P', p.queue.len(), p.available_workers, p.shutting_down as usize))
        } else {
            None
        }
    }
    /// ids of the three condition variables: shutdown_wakeup, task_wakeup, available_wakeup
    pub fn cv_ids(group: &ThreadGroup, pool: &ThreadPool) -> [usize; 3] {
        [group.shutdown_wakeup.id(), pool.task_wakeup.id(), pool.available_wakeup.id()]
    }
}
"#;

/// the repository under test = the `quandary` path dependency of the generated Cargo.toml
fn repo_path() -> String {
    let dir = PathBuf::from(std::env::var("CARGO_MANIFEST_DIR").unwrap());
    let manifest = fs::read_to_string(dir.join("Cargo.toml")).expect("Cargo.toml");
    manifest
        .lines()
        .find(|l| l.trim_start().starts_with("quandary"))
        .and_then(|l| l.split("path = \"").nth(1))
        .and_then(|r| r.split('"').next())
        .expect("quandary path dependency in Cargo.toml")
        .to_string()
}

fn copy_daemon() {
    let dir = PathBuf::from(std::env::var("CARGO_MANIFEST_DIR").unwrap());
    let repo = repo_path();
    let src = PathBuf::from(&repo).join("src/bin/quandaryd");
    let dst = dir.join("src/gen_daemon");
    fs::create_dir_all(&dst).unwrap();
    for f in FILES {
        let text = fs::read_to_string(src.join(f))
            .unwrap_or_else(|e| panic!("cannot read {}: {e}", src.join(f).display()));
        let out = dst.join(f);
        if fs::read_to_string(&out).map_or(true, |old| old != text) {
            fs::write(&out, text).unwrap();
        }
        println!("cargo:rerun-if-changed={}", src.join(f).display());
    }
    println!("cargo:rerun-if-changed=Cargo.toml");
    println!("cargo:rerun-if-changed=build.rs");
}

fn copy_thread() {
    if std::env::var("CARGO_FEATURE_POOL").is_err() {
        return;
    }
    let repo = repo_path();
    let path = format!("{repo}/src/thread.rs");
    println!("cargo:rerun-if-changed={path}");
    let src = std::fs::read_to_string(&path).unwrap_or_else(|e| panic!("cannot read {path}: {e}"));
    let mut out = String::with_capacity(src.len() + PROBE.len());
    let (mut n_sync, mut n_thread, mut n_time) = (0, 0, 0);
    let mut in_tests = false;
    for line in src.lines() {
        let t = line.trim_start();
        if t.starts_with("#[cfg(test)]") {
            in_tests = true; // the unit-test module at the end of the file is not part of the library
        }
        if in_tests {
            continue;
        }
        if let Some(rest) = t.strip_prefix("use std::sync::") {
            out.push_str("use crate::pool_shim::sync::");
            out.push_str(rest);
            n_sync += 1;
        } else if let Some(rest) = t.strip_prefix("use std::thread::") {
            out.push_str("use crate::pool_shim::thread::");
            out.push_str(rest);
            n_thread += 1;
        } else if let Some(rest) = t.strip_prefix("use std::time::") {
            out.push_str("use crate::pool_shim::time::");
            out.push_str(rest);
            n_time += 1;
        } else if let Some(rest) = t.strip_prefix("//!") {
            out.push_str("//");
            out.push_str(rest);
        } else {
            out.push_str(line);
        }
        out.push('\n');
    }
    if n_sync != 1 || n_thread != 1 || n_time != 1 {
        panic!("{path}: expected exactly one `use std::sync::…`, `use std::thread::…` and `use std::time::…` line (found {n_sync}, {n_thread}, {n_time}); the import rewriting of harness/build.rs must be adapted");
    }
    out.push_str(PROBE);
    let dest = std::path::Path::new(&std::env::var("OUT_DIR").unwrap()).join("thread_under_test.rs");
    let mut f = std::fs::File::create(&dest).unwrap();
    f.write_all(out.as_bytes()).unwrap();
}

fn main() {
    // group `reload`, op `daemon`: the harness builds and runs the real `quandaryd` of the
    // repository under test; it needs to know where that repository and this framework are
    println!("cargo:rustc-env=QVH_REPO={}", repo_path());
    println!("cargo:rustc-env=QVH_ROOT={}", PathBuf::from(std::env::var("CARGO_MANIFEST_DIR").unwrap()).parent().unwrap().display());
    copy_daemon();
    copy_thread();
}
