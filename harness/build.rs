//! Copies the daemon's zone-loading modules of the repository under test into
//! `src/gen_daemon/` so that `main.rs` can include them with literal `#[path]`s (group `reload`,
//! C31). The repository path is the `quandary` path dependency of the generated Cargo.toml
//! (bin/check writes it from Cargo.toml.in, honouring VERIF_REPO).
use std::fs;
use std::path::PathBuf;

const FILES: [&str; 4] = ["args.rs", "config.rs", "run.rs", "zones.rs"];

fn main() {
    let dir = PathBuf::from(std::env::var("CARGO_MANIFEST_DIR").unwrap());
    let manifest = fs::read_to_string(dir.join("Cargo.toml")).expect("Cargo.toml");
    let repo = manifest
        .lines()
        .find(|l| l.trim_start().starts_with("quandary"))
        .and_then(|l| l.split("path = \"").nth(1))
        .and_then(|r| r.split('"').next())
        .expect("quandary path dependency in Cargo.toml")
        .to_string();
    let src = PathBuf::from(&repo).join("src/bin/quandaryd");
    let dst = dir.join("src/gen_daemon");
    fs::create_dir_all(&dst).unwrap();
    for f in FILES {
        let text = fs::read_to_string(src.join(f))
            .unwrap_or_else(|e| panic!("cannot read {}: {e}", src.join(f).display()));
        let out = dst.join(f);
        if fs::read_to_string(&out).map_or(true, |old| old != text) {
            fs::write(&out, text).unwrap();
        }
        println!("cargo:rerun-if-changed={}", src.join(f).display());
    }
    println!("cargo:rerun-if-changed=Cargo.toml");
    println!("cargo:rerun-if-changed=build.rs");
}
