//! group `wire` — C14: src/name/wire.rs through the public `Name` API.
use crate::common::*;
use quandary::name::{Error, Name};

fn err(e: Error) -> String {
    format!("err:{:?}", e)
}

fn show_name(n: &Name, len: usize) -> String {
    format!("ok {} {} {}", hex(n.wire_repr()), n.labels().count(), len)
}

pub fn run(op: &str, a: &[&str]) -> Option<String> {
    Some(match (op, a) {
        ("pc", [m, s]) => {
            let (Some(msg), Ok(start)) = (unhex(m), s.parse::<usize>()) else { return Some("bad-op".into()) };
            guarded(|| match Name::try_from_compressed(&msg, start) {
                Ok((n, k)) => show_name(&n, k),
                Err(e) => err(e),
            })
        }
        ("pu", [b, all]) => {
            let Some(buf) = unhex(b) else { return Some("bad-op".into()) };
            guarded(|| {
                if *all == "1" {
                    match Name::try_from_uncompressed_all(&buf) {
                        Ok(n) => {
                            let l = n.wire_repr().len();
                            show_name(&n, l)
                        }
                        Err(e) => err(e),
                    }
                } else {
                    match Name::try_from_uncompressed(&buf) {
                        Ok((n, k)) => show_name(&n, k),
                        Err(e) => err(e),
                    }
                }
            })
        }
        ("vu", [b, all]) => {
            let Some(buf) = unhex(b) else { return Some("bad-op".into()) };
            guarded(|| {
                if *all == "1" {
                    match Name::validate_uncompressed_all(&buf) {
                        Ok(()) => format!("ok {}", buf.len()),
                        Err(e) => err(e),
                    }
                } else {
                    match Name::validate_uncompressed(&buf) {
                        Ok(k) => format!("ok {}", k),
                        Err(e) => err(e),
                    }
                }
            })
        }
        ("sk", [b]) => {
            let Some(buf) = unhex(b) else { return Some("bad-op".into()) };
            guarded(|| match Name::skip_compressed(&buf) {
                Ok(k) => format!("ok {}", k),
                Err(e) => err(e),
            })
        }
        _ => return None,
    })
}

const ALPHABET: [u8; 12] = [0, 1, 2, 3, 62, 63, 64, 0xbf, 0xc0, 0xc1, 0xff, b'a'];

fn emit_all(em: &mut Emitter, buf: &[u8], starts: &[usize]) {
    let h = hex(buf);
    for &s in starts {
        let c = format!("pc {} {}", h, s);
        let r = run("pc", &[&h, &s.to_string()]).unwrap();
        em.emit(&c, &r);
    }
    for op in ["pu", "vu"] {
        for all in ["0", "1"] {
            let c = format!("{} {} {}", op, h, all);
            let r = run(op, &[&h, all]).unwrap();
            em.emit(&c, &r);
        }
    }
    let c = format!("sk {}", h);
    let r = run("sk", &[&h]).unwrap();
    em.emit(&c, &r);
}

/// random label of length `n`
fn label(rng: &mut Rng, n: usize, out: &mut Vec<u8>) {
    out.push(n as u8);
    for _ in 0..n {
        out.push(if rng.chance(1, 8) { rng.byte() } else { b'a' + (rng.below(26) as u8) });
    }
}

/// A structured message: several names, later ones ending in pointers to earlier label starts
/// (or near misses). Returns (message, interesting start offsets).
fn structured(rng: &mut Rng) -> (Vec<u8>, Vec<usize>) {
    let mut msg: Vec<u8> = Vec::new();
    let mut starts: Vec<usize> = Vec::new();
    let mut label_starts: Vec<usize> = Vec::new();
    let pre = rng.below(14);
    for _ in 0..pre {
        msg.push(rng.byte());
    }
    let n_names = rng.range(1, 5);
    for _ in 0..n_names {
        let name_start = msg.len();
        starts.push(name_start);
        let style = rng.below(10);
        let nlab = match style {
            0 => rng.range(100, 130),  // many labels (127/128 boundary)
            1 => rng.range(0, 1),
            _ => rng.range(0, 6),
        };
        let mut total = 0usize;
        for _ in 0..nlab {
            let len = match (style, rng.below(12)) {
                (0, _) => 1,
                (_, 0) => 63,
                (_, 1) => 64,
                (_, 2) => 62,
                (2, _) => rng.range(40, 63), // long names (255 boundary)
                _ => rng.range(1, 12),
            };
            label_starts.push(msg.len());
            if len <= 63 {
                label(rng, len, &mut msg);
            } else {
                msg.push(len as u8);
                for _ in 0..len { msg.push(b'x'); }
            }
            total += len + 1;
            if total > 300 { break; }
        }
        // terminator: root, pointer, or nothing
        match rng.below(10) {
            0..=3 => msg.push(0),
            4..=8 => {
                // pointer: to an earlier label start, chunk start, +-1, or random
                let target = match rng.below(8) {
                    0 => name_start,
                    1 => name_start.saturating_sub(1),
                    2 => name_start + 1,
                    3 => rng.below(msg.len() + 4),
                    4 => msg.len(), // itself
                    _ => {
                        if label_starts.is_empty() { 0 } else { *rng.pick(&label_starts) }
                    }
                };
                let t = target.min(0x3fff);
                msg.push(0xc0 | ((t >> 8) as u8));
                msg.push(t as u8);
            }
            _ => {}
        }
    }
    // mutations
    if rng.chance(1, 4) && !msg.is_empty() {
        let i = rng.below(msg.len());
        msg[i] = *rng.pick(&ALPHABET);
    }
    if rng.chance(1, 6) && !msg.is_empty() {
        let k = rng.below(msg.len());
        msg.truncate(k);
    }
    if msg.len() > 600 {
        msg.truncate(600);
    }
    starts.push(msg.len());
    starts.push(msg.len() + 1);
    if !msg.is_empty() {
        starts.push(rng.below(msg.len()));
        starts.push(msg.len() - 1);
    }
    starts.sort();
    starts.dedup();
    (msg, starts)
}

pub fn gen(rng: &mut Rng, thorough: bool, em: &mut Emitter) {
    // 1. exhaustive: all buffers of length <= L over the 12-symbol alphabet at every start 0..=len
    let max_len = if thorough { 5 } else { 3 };
    for len in 0..=max_len {
        let total = 12usize.pow(len as u32);
        let mut buf = vec![0u8; len];
        for code in 0..total {
            let mut c = code;
            for slot in buf.iter_mut() {
                *slot = ALPHABET[c % 12];
                c /= 12;
            }
            let starts: Vec<usize> = (0..=len).collect();
            emit_all(em, &buf, &starts);
        }
    }
    // 2. structured random messages
    let n = if thorough { 120_000 } else { 6_000 };
    for _ in 0..n {
        let (msg, starts) = structured(rng);
        emit_all(em, &msg, &starts);
    }
    // 3. pure random short buffers over the alphabet + random bytes
    let n = if thorough { 100_000 } else { 4_000 };
    for _ in 0..n {
        let len = rng.below(24);
        let buf: Vec<u8> = (0..len)
            .map(|_| if rng.chance(3, 4) { *rng.pick(&ALPHABET) } else { rng.byte() })
            .collect();
        let starts: Vec<usize> = (0..=len).collect();
        emit_all(em, &buf, &starts);
    }
}
