//! group `zonefile` — C23, C24: src/zone_file (in-memory parser) through the public API.
//!
//! ops (see lean/QV/Driver/Zonefile.lean): zf, zfc, zfp, zfv, zf.u32 … zf.utf8
//! group `zonewks` — C23 only: pretty-printed files holding IN WKS records with ports, op zfw
//! (the verdict that isolates known finding D18, the bit order of the WKS bit map)
use crate::common::*;
use quandary::class::Class;
use quandary::rr::Type;
use quandary::zone_file::{Error, Line, LineContent, Parser};
use std::io::{Cursor, Read};
use std::net::{Ipv4Addr, Ipv6Addr};

// ------------------------------------------------------------------------------------------
// running the real parser
// ------------------------------------------------------------------------------------------

/// A `Read` that hands out at most `k` octets per call (k = 0: everything that fits).
pub struct ChunkRead {
    data: Vec<u8>,
    pos: usize,
    k: usize,
}

impl ChunkRead {
    pub fn new(data: &[u8], k: usize) -> Self {
        ChunkRead { data: data.to_vec(), pos: 0, k }
    }
}

impl Read for ChunkRead {
    fn read(&mut self, buf: &mut [u8]) -> std::io::Result<usize> {
        let left = self.data.len() - self.pos;
        let mut n = left.min(buf.len());
        if self.k > 0 {
            n = n.min(self.k);
        }
        buf[..n].copy_from_slice(&self.data[self.pos..self.pos + n]);
        self.pos += n;
        Ok(n)
    }
}

pub fn show_line(l: &Line) -> String {
    match &l.content {
        LineContent::Record(r) => format!(
            "rec:{}:{}:{}:{}:{}:{}",
            l.number,
            hex(r.owner.wire_repr()),
            u32::from(r.ttl),
            u16::from(r.class),
            u16::from(r.rr_type),
            hex(r.rdata.octets())
        ),
        LineContent::Include(i) => format!(
            "inc:{}:{}:{}",
            l.number,
            hex(&i.path),
            match &i.origin {
                Some(o) => hex(o.wire_repr()),
                None => "none".to_string(),
            }
        ),
    }
}

pub enum Y {
    Item(Line),
    Err(Error),
}

fn err_line(e: &Error) -> usize {
    match e {
        Error::Syntax(d) => d.line(),
        Error::Io(_) => 0,
    }
}

fn err_kind(e: &Error) -> String {
    match e {
        Error::Syntax(d) => {
            let s = format!("{:?}", d.kind());
            s.split(|c: char| !c.is_ascii_alphanumeric()).next().unwrap_or("").to_string()
        }
        Error::Io(_) => "Io".to_string(),
    }
}

fn parse_chunk(ch: &str) -> Option<(bool, usize)> {
    let (ro, n) = match ch.strip_prefix('r') {
        Some(r) => (true, r),
        None => (false, ch),
    };
    let k: usize = n.parse().ok()?;
    if k > 7 {
        return None;
    }
    Some((ro, k))
}

/// Everything the iterator yields; after the iterator stops (None or Err) `next` is called three
/// more times and whatever it still yields is appended (the error latch).
pub fn run_parser(prelude: &[u8], input: &[u8], ro: bool, k: usize) -> Vec<Y> {
    let mut pre = Parser::new(Cursor::new(prelude.to_vec()));
    for _ in pre.by_ref() {}
    let p = pre.new_for_include(ChunkRead::new(input, k), None);
    let mut out = Vec::new();
    if ro {
        let mut it = p.records_only();
        let mut after = 0;
        while after < 4 {
            match it.next() {
                Some(Ok(l)) => out.push(Y::Item(Line { number: l.number, content: LineContent::Record(l.record) })),
                Some(Err(e)) => {
                    out.push(Y::Err(e));
                    after += 1;
                }
                None => after += 1,
            }
        }
    } else {
        let mut it = p;
        let mut after = 0;
        while after < 4 {
            match it.next() {
                Some(Ok(l)) => out.push(Y::Item(l)),
                Some(Err(e)) => {
                    out.push(Y::Err(e));
                    after += 1;
                }
                None => after += 1,
            }
        }
    }
    out
}

fn show_ys(ys: &[Y]) -> String {
    if ys.is_empty() {
        return "ok -".to_string();
    }
    let v: Vec<String> = ys
        .iter()
        .map(|y| match y {
            Y::Item(l) => show_line(l),
            Y::Err(e) => format!("err@{}", err_line(e)),
        })
        .collect();
    format!("ok {}", v.join(";"))
}

/// an item with the bit-map octets of an IN WKS record bit-reversed (other items unchanged)
fn rev_wks_item(item: &str) -> String {
    let f: Vec<&str> = item.split(':').collect();
    if f.len() == 7 && f[0] == "rec" && f[4] == "1" && f[5] == "11" {
        if let Some(mut rd) = unhex(f[6]) {
            for b in rd.iter_mut().skip(5) {
                *b = b.reverse_bits();
            }
            return format!("{}:{}:{}:{}:{}:{}:{}", f[0], f[1], f[2], f[3], f[4], f[5], hex(&rd));
        }
    }
    item.to_string()
}

/// op zfw: `same` / `wks-bits-reversed` (item by item equal to the expectation, or equal once
/// the bit-map octets of an IN WKS record are bit-reversed — known finding D18) / `differs`
fn wks_verdict(ys: &[Y], expected: &str) -> String {
    let shown = show_ys(ys);
    let body = shown.strip_prefix("ok ").unwrap_or(&shown).to_string();
    let a: Vec<&str> = if body == "-" { Vec::new() } else { body.split(';').collect() };
    let e: Vec<&str> = if expected == "-" { Vec::new() } else { expected.split(';').collect() };
    if a == e {
        format!("ok same {}", body)
    } else if a.len() == e.len() && a.iter().zip(e.iter()).all(|(x, y)| x == y || rev_wks_item(x) == *y) {
        format!("ok wks-bits-reversed {}", body)
    } else {
        format!("ok differs {}", body)
    }
}

/// does an expectation hold an IN WKS record with a non-empty bit map?
fn has_wks_ports(expected: &[String]) -> bool {
    expected.iter().any(|it| {
        let f: Vec<&str> = it.split(':').collect();
        f.len() == 7 && f[0] == "rec" && f[4] == "1" && f[5] == "11" && f[6].len() > 10
    })
}

fn verdict(ys: &[Y]) -> String {
    for (i, y) in ys.iter().enumerate() {
        match y {
            Y::Err(_) => {
                if i + 1 != ys.len() {
                    return "bad:yield-after-error".into();
                }
            }
            Y::Item(l) => match &l.content {
                LineContent::Include(inc) => {
                    if let Some(o) = &inc.origin {
                        if quandary::name::Name::validate_uncompressed_all(o.wire_repr()).is_err() {
                            return "bad:include-origin".into();
                        }
                    }
                }
                LineContent::Record(r) => {
                    if quandary::name::Name::validate_uncompressed_all(r.owner.wire_repr()).is_err() {
                        return "bad:owner".into();
                    }
                    if r.rr_type == Type::NULL || r.rr_type == Type::OPT || r.rr_type == Type::TSIG {
                        return "bad:type".into();
                    }
                    if r.rdata.validate(r.class, r.rr_type).is_err() {
                        return "bad:rdata".into();
                    }
                }
            },
        }
    }
    "ok".into()
}

fn final_kind(ys: &[Y]) -> String {
    match ys.last() {
        Some(Y::Err(e)) => format!("err:{}", err_kind(e)),
        _ => "ok".into(),
    }
}

fn std_op<T, F: Fn(&str) -> Option<T>, S: Fn(T) -> String>(h: &str, f: F, s: S) -> Option<String> {
    let b = unhex(h)?;
    Some(guarded(|| match std::str::from_utf8(&b) {
        Ok(t) => match f(t) {
            Some(v) => format!("ok {}", s(v)),
            None => "err".into(),
        },
        Err(_) => "err".into(),
    }))
}

pub fn run(op: &str, a: &[&str]) -> Option<String> {
    match (op, a) {
        ("zfw", [pre, inp, ch, exp]) => {
            let (Some(p), Some(i), Some((ro, k))) = (unhex(pre), unhex(inp), parse_chunk(ch)) else {
                return Some("bad-op".into());
            };
            Some(guarded(|| wks_verdict(&run_parser(&p, &i, ro, k), exp)))
        }
        ("zf", [pre, inp, ch]) | ("zfc", [pre, inp, ch]) | ("zfv", [pre, inp, ch]) | ("zfp", [pre, inp, ch, _]) => {
            let (Some(p), Some(i), Some((ro, k))) = (unhex(pre), unhex(inp), parse_chunk(ch)) else {
                return Some("bad-op".into());
            };
            Some(guarded(|| {
                let ys = run_parser(&p, &i, ro, k);
                match op {
                    "zfc" => verdict(&ys),
                    "zfv" => final_kind(&ys),
                    _ => show_ys(&ys),
                }
            }))
        }
        ("zf.u32", [h]) => std_op(h, |t| t.parse::<u32>().ok(), |v| v.to_string()),
        ("zf.u16", [h]) => std_op(h, |t| t.parse::<u16>().ok(), |v| v.to_string()),
        ("zf.u8", [h]) => std_op(h, |t| t.parse::<u8>().ok(), |v| v.to_string()),
        ("zf.ipv4", [h]) => std_op(h, |t| t.parse::<Ipv4Addr>().ok(), |v| hex(&v.octets())),
        ("zf.ipv6", [h]) => std_op(h, |t| t.parse::<Ipv6Addr>().ok(), |v| hex(&v.octets())),
        ("zf.class", [h]) => std_op(h, |t| t.parse::<Class>().ok(), |v| u16::from(v).to_string()),
        ("zf.type", [h]) => std_op(h, |t| t.parse::<Type>().ok(), |v| u16::from(v).to_string()),
        ("zf.utf8", [h]) => {
            let b = unhex(h)?;
            Some(format!("ok {}", if std::str::from_utf8(&b).is_ok() { 1 } else { 0 }))
        }
        _ => None,
    }
}

// ------------------------------------------------------------------------------------------
// the pretty-printer (C23 oracle): a random record list rendered with random presentation
// choices; the expected parse is the record list itself
// ------------------------------------------------------------------------------------------

#[derive(Clone, Debug, PartialEq)]
pub struct Rr {
    pub owner: Vec<Vec<u8>>, // labels (no root)
    pub ttl: u32,
    pub class: u16,
    pub ty: u16,
    pub rdata: Rd,
}

#[derive(Clone, Debug, PartialEq)]
pub enum Rd {
    Name(Vec<Vec<u8>>),
    A([u8; 4]),
    ChA(Vec<Vec<u8>>, u16),
    Soa(Vec<Vec<u8>>, Vec<Vec<u8>>, [u32; 5]),
    Wks([u8; 4], u8, Vec<u16>),
    Hinfo(Vec<u8>, Vec<u8>),
    Minfo(Vec<Vec<u8>>, Vec<Vec<u8>>),
    Mx(u16, Vec<Vec<u8>>),
    Txt(Vec<Vec<u8>>),
    Aaaa([u8; 16]),
    Srv(u16, u16, u16, Vec<Vec<u8>>),
    Raw(Vec<u8>),
}

pub fn name_wire(labels: &[Vec<u8>]) -> Vec<u8> {
    let mut w = Vec::new();
    for l in labels {
        w.push(l.len() as u8);
        w.extend_from_slice(l);
    }
    w.push(0);
    w
}

impl Rd {
    /// the harness's own wire encoding (independent of quandary's `Rdata::new_*`)
    pub fn wire(&self) -> Vec<u8> {
        let mut w = Vec::new();
        match self {
            Rd::Name(n) => w = name_wire(n),
            Rd::A(a) => w.extend_from_slice(a),
            Rd::ChA(n, a) => {
                w = name_wire(n);
                w.extend_from_slice(&a.to_be_bytes());
            }
            Rd::Soa(m, r, v) => {
                w = name_wire(m);
                w.extend(name_wire(r));
                for x in v {
                    w.extend_from_slice(&x.to_be_bytes());
                }
            }
            Rd::Wks(a, p, ports) => {
                w.extend_from_slice(a);
                w.push(*p);
                if let Some(hi) = ports.iter().max() {
                    let mut bm = vec![0u8; (*hi as usize) / 8 + 1];
                    // RFC 1035 §3.4.2: "The first bit corresponds to port 0, the second to port 1,
                    // etc."; bits are numbered from the most significant one (§2.3.2)
                    for q in ports {
                        bm[(*q as usize) / 8] |= 0x80u8 >> (q % 8);
                    }
                    w.extend(bm);
                }
            }
            Rd::Hinfo(c, o) => {
                w.push(c.len() as u8);
                w.extend_from_slice(c);
                w.push(o.len() as u8);
                w.extend_from_slice(o);
            }
            Rd::Minfo(a, b) => {
                w = name_wire(a);
                w.extend(name_wire(b));
            }
            Rd::Mx(p, n) => {
                w.extend_from_slice(&p.to_be_bytes());
                w.extend(name_wire(n));
            }
            Rd::Txt(ss) => {
                for s in ss {
                    w.push(s.len() as u8);
                    w.extend_from_slice(s);
                }
            }
            Rd::Aaaa(a) => w.extend_from_slice(a),
            Rd::Srv(p, wt, port, n) => {
                w.extend_from_slice(&p.to_be_bytes());
                w.extend_from_slice(&wt.to_be_bytes());
                w.extend_from_slice(&port.to_be_bytes());
                w.extend(name_wire(n));
            }
            Rd::Raw(r) => w.extend_from_slice(r),
        }
        w
    }
}

const LABEL_CHARS: &[u8] = b"abcdefghijklmnopqrstuvwxyzABCXYZ0123456789-_";
const ODD_CHARS: &[u8] = b" \t.;()\"\\@$#\n\r*\x00\x7f\x80\xff'/:+";

fn gen_label(rng: &mut Rng) -> Vec<u8> {
    let len = match rng.below(20) {
        0 => 63,
        1 => rng.range(40, 63),
        _ => rng.range(1, 8),
    };
    (0..len)
        .map(|_| if rng.chance(1, 12) { *rng.pick(ODD_CHARS) } else if rng.chance(1, 60) { rng.byte() } else { *rng.pick(LABEL_CHARS) })
        .collect()
}

fn wire_len(labels: &[Vec<u8>]) -> usize {
    labels.iter().map(|l| l.len() + 1).sum::<usize>() + 1
}

/// a random name; with `suffix`, often below it
fn gen_name(rng: &mut Rng, suffix: Option<&Vec<Vec<u8>>>, pool: &mut Vec<Vec<Vec<u8>>>) -> Vec<Vec<u8>> {
    if !pool.is_empty() && rng.chance(1, 3) {
        return rng.pick(pool).clone();
    }
    let mut n: Vec<Vec<u8>> = Vec::new();
    let k = match rng.below(12) {
        0 => 0,
        1 => rng.range(3, 6),
        _ => rng.range(1, 3),
    };
    for _ in 0..k {
        n.push(gen_label(rng));
    }
    if let Some(s) = suffix {
        if rng.chance(3, 4) {
            n.extend(s.iter().cloned());
        }
    }
    while wire_len(&n) > 255 {
        n.remove(0);
    }
    if pool.len() < 6 {
        pool.push(n.clone());
    }
    n
}

/// escape one octet for the given context. `must`: characters that cannot appear raw.
fn esc_octet(rng: &mut Rng, b: u8, must: bool, out: &mut Vec<u8>) {
    let choice = if must { rng.range(1, 2) } else if rng.chance(1, 10) { rng.range(1, 2) } else { 0 };
    // `\#` would be read as the RFC 3597 marker in first RDATA position; digits after `\` start a
    // decimal escape; so character escapes are only used for non-digits other than '#'
    let char_ok = !b.is_ascii_digit() && b != b'#';
    match choice {
        0 => out.push(b),
        1 if char_ok => {
            out.push(b'\\');
            out.push(b);
        }
        _ => out.extend_from_slice(format!("\\{:03}", b).as_bytes()),
    }
}

fn name_special(b: u8) -> bool {
    matches!(b, b' ' | b'\t' | b'(' | b')' | b';' | b'\n' | b'\r' | b'.' | b'\\')
}

/// text of labels (dot-separated, no trailing dot)
fn render_labels(rng: &mut Rng, labels: &[Vec<u8>], out: &mut Vec<u8>, line_start: bool) {
    let start = out.len();
    for (i, l) in labels.iter().enumerate() {
        if i > 0 {
            out.push(b'.');
        }
        for (j, &b) in l.iter().enumerate() {
            let first = i == 0 && j == 0;
            let must = name_special(b) || (first && ((b == b'$' && line_start) || b == b'@' || b == b'"'));
            esc_octet(rng, b, must, out);
        }
    }
    // a lone "@" is escaped above; a lone "\#" cannot arise (no char escape for '#')
    let _ = start;
}

/// render a name given the current origin; returns false if impossible (never)
fn render_name(rng: &mut Rng, name: &[Vec<u8>], origin: Option<&Vec<Vec<u8>>>, out: &mut Vec<u8>, line_start: bool) {
    if let Some(o) = origin {
        if name == &o[..] && rng.chance(2, 3) {
            out.push(b'@');
            return;
        }
        if name.len() > o.len() && name[name.len() - o.len()..] == o[..] && rng.chance(2, 3) {
            render_labels(rng, &name[..name.len() - o.len()], out, line_start);
            return;
        }
    }
    if name.is_empty() {
        out.push(b'.');
        return;
    }
    render_labels(rng, name, out, line_start);
    out.push(b'.');
}

fn render_string(rng: &mut Rng, s: &[u8], out: &mut Vec<u8>, lines: &mut usize) -> bool {
    let quoted = s.is_empty() || rng.chance(1, 2);
    if quoted {
        out.push(b'"');
        for &b in s {
            let must = b == b'"' || b == b'\\';
            let before = out.len();
            esc_octet(rng, b, must, out);
            if b == b'\n' && out.len() - before <= 2 {
                *lines += 1; // raw or `\`+newline: the reader counts it
            }
        }
        out.push(b'"');
    } else {
        for (j, &b) in s.iter().enumerate() {
            let must = matches!(b, b' ' | b'\t' | b'(' | b')' | b';' | b'\n' | b'\r' | b'\\') || (j == 0 && b == b'"');
            let before = out.len();
            esc_octet(rng, b, must, out);
            if b == b'\n' && out.len() - before == 2 {
                *lines += 1;
            }
        }
    }
    quoted
}

fn case_mix(rng: &mut Rng, s: &str) -> Vec<u8> {
    s.bytes().map(|b| if rng.chance(1, 3) { b.to_ascii_lowercase() } else { b }).collect()
}

fn render_u(rng: &mut Rng, v: u64) -> Vec<u8> {
    let mut s = String::new();
    if rng.chance(1, 8) {
        s.push('+');
    }
    if rng.chance(1, 8) {
        for _ in 0..rng.range(1, 3) {
            s.push('0');
        }
    }
    s.push_str(&v.to_string());
    s.into_bytes()
}

const TYPES: &[(&str, u16)] = &[
    ("A", 1), ("NS", 2), ("MD", 3), ("MF", 4), ("CNAME", 5), ("SOA", 6), ("MB", 7), ("MG", 8), ("MR", 9),
    ("WKS", 11), ("PTR", 12), ("HINFO", 13), ("MINFO", 14), ("MX", 15), ("TXT", 16), ("AAAA", 28), ("SRV", 33),
];

fn render_type(rng: &mut Rng, ty: u16) -> Vec<u8> {
    if let Some((m, _)) = TYPES.iter().find(|(_, v)| *v == ty) {
        if rng.chance(3, 4) {
            return case_mix(rng, m);
        }
    }
    let mut v = case_mix(rng, "TYPE");
    v.extend(render_u_plain(rng, ty as u64));
    v
}

fn render_u_plain(rng: &mut Rng, v: u64) -> Vec<u8> {
    let mut s = String::new();
    if rng.chance(1, 10) {
        s.push('+');
    }
    if rng.chance(1, 10) {
        s.push('0');
    }
    s.push_str(&v.to_string());
    s.into_bytes()
}

fn render_class(rng: &mut Rng, c: u16) -> Vec<u8> {
    let m = match c {
        1 => Some("IN"),
        3 => Some("CH"),
        4 => Some("HS"),
        _ => None,
    };
    if let Some(m) = m {
        if rng.chance(3, 4) {
            return case_mix(rng, m);
        }
    }
    let mut v = case_mix(rng, "CLASS");
    v.extend(render_u_plain(rng, c as u64));
    v
}

fn render_ipv6(rng: &mut Rng, a: &[u8; 16]) -> Vec<u8> {
    let g: Vec<u16> = (0..8).map(|i| u16::from_be_bytes([a[2 * i], a[2 * i + 1]])).collect();
    let hexg = |rng: &mut Rng, x: u16| -> String {
        let s = if rng.chance(1, 4) { format!("{:04x}", x) } else { format!("{:x}", x) };
        if rng.chance(1, 3) { s.to_uppercase() } else { s }
    };
    // choose a zero run to compress (any run of >= 1 zero groups), or none
    let mut runs: Vec<(usize, usize)> = Vec::new();
    let mut i = 0;
    while i < 8 {
        if g[i] == 0 {
            let mut j = i;
            while j < 8 && g[j] == 0 {
                j += 1;
            }
            runs.push((i, j));
            i = j;
        } else {
            i += 1;
        }
    }
    let v4tail = rng.chance(1, 4);
    let ngroups = if v4tail { 6 } else { 8 };
    let mut s = String::new();
    let pick = if !runs.is_empty() && rng.chance(3, 4) {
        let (a0, b0) = *rng.pick(&runs);
        let b0 = b0.min(ngroups);
        if a0 < b0 {
            // optionally compress only part of the run
            let a1 = if rng.chance(1, 4) { rng.range(a0, b0 - 1) } else { a0 };
            Some((a1, b0))
        } else {
            None
        }
    } else {
        None
    };
    let mut k = 0;
    let mut first = true;
    while k < ngroups {
        if let Some((a1, b1)) = pick {
            if k == a1 {
                s.push_str("::");
                k = b1;
                first = true;
                continue;
            }
        }
        if !first {
            s.push(':');
        }
        s.push_str(&hexg(rng, g[k]));
        first = false;
        k += 1;
    }
    if v4tail {
        if !first {
            s.push(':');
        }
        s.push_str(&format!("{}.{}.{}.{}", a[12], a[13], a[14], a[15]));
    }
    s.into_bytes()
}

pub struct Ctx {
    pub origin: Option<Vec<Vec<u8>>>,
    pub prev_owner: Option<Vec<Vec<u8>>>,
    pub prev_ttl: Option<u32>,
    pub prev_class: Option<u16>,
    pub default_ttl: Option<u32>,
}

impl Ctx {
    pub fn new() -> Self {
        Ctx { origin: None, prev_owner: None, prev_ttl: None, prev_class: None, default_ttl: None }
    }
}

pub struct Printer {
    pub out: Vec<u8>,
    pub line: usize,
    pub paren: bool,
    pub allow_paren: bool,
    pub crlf_mode: usize, // 0 = LF, 1 = CRLF, 2 = mixed
    pub expected: Vec<String>,
    pub names: Vec<Vec<Vec<u8>>>,
}

impl Printer {
    pub fn new(rng: &mut Rng) -> Self {
        Printer {
            out: Vec::new(),
            line: 1,
            paren: false,
            allow_paren: rng.chance(2, 3),
            crlf_mode: rng.below(3),
            expected: Vec::new(),
            names: Vec::new(),
        }
    }

    fn newline(&mut self, rng: &mut Rng) {
        let crlf = match self.crlf_mode {
            0 => false,
            1 => true,
            _ => rng.chance(1, 2),
        };
        if crlf {
            self.out.push(b'\r');
        }
        self.out.push(b'\n');
        self.line += 1;
    }

    fn comment(&mut self, rng: &mut Rng) {
        self.out.push(b';');
        for _ in 0..rng.below(12) {
            let b = if rng.chance(1, 6) { *rng.pick(ODD_CHARS) } else { *rng.pick(LABEL_CHARS) };
            if b != b'\n' && b != b'\r' {
                self.out.push(b);
            }
        }
    }

    fn ws(&mut self, rng: &mut Rng, min: usize) {
        let n = if rng.chance(1, 6) { rng.range(min, 5) } else { min.max(1) - (1 - min.min(1)) };
        for _ in 0..n {
            self.out.push(if rng.chance(1, 4) { b'\t' } else { b' ' });
        }
    }

    /// a gap between two fields: at least one separator
    fn gap(&mut self, rng: &mut Rng) {
        let mut sep = false;
        let steps = if self.allow_paren && rng.chance(1, 4) { rng.range(1, 4) } else { 0 };
        for _ in 0..steps {
            match rng.below(5) {
                0 => {
                    self.ws(rng, 1);
                    sep = true;
                }
                1 | 2 => {
                    if self.paren {
                        if rng.chance(1, 2) {
                            self.out.push(b')');
                            self.paren = false;
                            sep = true;
                        }
                    } else {
                        self.out.push(b'(');
                        self.paren = true;
                        sep = true;
                    }
                }
                _ => {
                    if self.paren {
                        if rng.chance(1, 3) {
                            self.comment(rng);
                        }
                        self.newline(rng);
                        sep = true;
                    }
                }
            }
        }
        if !sep || rng.chance(1, 2) {
            self.ws(rng, 1);
        }
    }

    /// the end of an entry: close parentheses, optional comment, line ending (or nothing at EOF)
    fn eol(&mut self, rng: &mut Rng, last: bool) {
        if rng.chance(1, 4) {
            self.ws(rng, 1);
        }
        if self.allow_paren && rng.chance(1, 8) {
            self.gap(rng);
        }
        if self.paren {
            self.out.push(b')');
            self.paren = false;
            if rng.chance(1, 3) {
                self.ws(rng, 1);
            }
        }
        if rng.chance(1, 6) {
            self.comment(rng);
        }
        if !(last && rng.chance(1, 2)) {
            self.newline(rng);
        }
    }

    fn name(&mut self, rng: &mut Rng, n: &[Vec<u8>], ctx: &Ctx, line_start: bool) {
        let mut tmp = Vec::new();
        render_name(rng, n, ctx.origin.as_ref(), &mut tmp, line_start);
        // escaped raw newlines inside names bump the line counter
        let mut i = 0;
        while i < tmp.len() {
            if tmp[i] == b'\\' {
                if i + 1 < tmp.len() && tmp[i + 1] == b'\n' {
                    self.line += 1;
                }
                i += if i + 1 < tmp.len() && tmp[i + 1].is_ascii_digit() { 4 } else { 2 };
            } else {
                i += 1;
            }
        }
        self.out.extend(tmp);
    }

    fn field(&mut self, text: &[u8]) {
        self.out.extend_from_slice(text);
    }

    fn generic(&mut self, rng: &mut Rng, wire: &[u8]) {
        self.field(b"\\#");
        self.gap(rng);
        let l = render_u_plain(rng, wire.len() as u64);
        self.field(&l);
        if !wire.is_empty() {
            self.gap(rng);
            for b in wire {
                let s = if rng.chance(1, 3) { format!("{:02X}", b) } else { format!("{:02x}", b) };
                self.out.extend_from_slice(s.as_bytes());
            }
        }
    }

    fn rdata(&mut self, rng: &mut Rng, r: &Rr, ctx: &Ctx) {
        let typed_ok = !matches!(r.rdata, Rd::Raw(_));
        if !typed_ok || rng.chance(1, 6) {
            let w = r.rdata.wire();
            self.generic(rng, &w);
            return;
        }
        match &r.rdata {
            Rd::Name(n) => self.name(rng, n, ctx, false),
            Rd::A(a) => self.field(format!("{}.{}.{}.{}", a[0], a[1], a[2], a[3]).as_bytes()),
            Rd::ChA(n, a) => {
                self.name(rng, n, ctx, false);
                self.gap(rng);
                let s = if rng.chance(1, 6) { format!("0{:o}", a) } else { format!("{:o}", a) };
                self.field(s.as_bytes());
            }
            Rd::Soa(m, rn, v) => {
                self.name(rng, m, ctx, false);
                self.gap(rng);
                self.name(rng, rn, ctx, false);
                for x in v {
                    self.gap(rng);
                    let t = render_u(rng, *x as u64);
                    self.field(&t);
                }
            }
            Rd::Wks(a, p, ports) => {
                self.field(format!("{}.{}.{}.{}", a[0], a[1], a[2], a[3]).as_bytes());
                self.gap(rng);
                let t = match p {
                    6 if rng.chance(2, 3) => case_mix(rng, "TCP"),
                    17 if rng.chance(2, 3) => case_mix(rng, "UDP"),
                    _ => render_u(rng, *p as u64),
                };
                self.field(&t);
                for q in ports {
                    self.gap(rng);
                    let t = render_u(rng, *q as u64);
                    self.field(&t);
                }
            }
            Rd::Hinfo(c, o) => {
                let mut l = 0;
                let mut t = Vec::new();
                render_string(rng, c, &mut t, &mut l);
                self.field(&t);
                self.gap(rng);
                t.clear();
                render_string(rng, o, &mut t, &mut l);
                self.field(&t);
                self.line += l;
            }
            Rd::Minfo(a, b) => {
                self.name(rng, a, ctx, false);
                self.gap(rng);
                self.name(rng, b, ctx, false);
            }
            Rd::Mx(p, n) => {
                let t = render_u(rng, *p as u64);
                self.field(&t);
                self.gap(rng);
                self.name(rng, n, ctx, false);
            }
            Rd::Txt(ss) => {
                let mut prev_quoted = false;
                for (i, s) in ss.iter().enumerate() {
                    let mut l = 0;
                    let mut t = Vec::new();
                    let q = render_string(rng, s, &mut t, &mut l);
                    if i > 0 {
                        // a closing quote ends a field by itself
                        if !(prev_quoted && rng.chance(1, 4)) {
                            self.gap(rng);
                        }
                    }
                    self.field(&t);
                    self.line += l;
                    prev_quoted = q;
                }
            }
            Rd::Aaaa(a) => {
                let t = render_ipv6(rng, a);
                self.field(&t);
            }
            Rd::Srv(p, w, port, n) => {
                for x in [p, w, port] {
                    let t = render_u(rng, *x as u64);
                    self.field(&t);
                    self.gap(rng);
                }
                self.name(rng, n, ctx, false);
            }
            Rd::Raw(_) => unreachable!(),
        }
    }

    /// render one record and update the simulated context
    pub fn record(&mut self, rng: &mut Rng, r: &Rr, ctx: &mut Ctx, last: bool) {
        let start_line = self.line;
        // owner
        if ctx.prev_owner.as_ref() == Some(&r.owner) && rng.chance(2, 3) {
            self.ws(rng, 1);
            if self.allow_paren && rng.chance(1, 10) {
                self.gap(rng);
            }
        } else {
            self.name(rng, &r.owner, ctx, true);
            self.gap(rng);
        }
        // ttl / class
        let implicit_ttl = ctx.default_ttl.or(ctx.prev_ttl);
        let omit_ttl = implicit_ttl == Some(r.ttl) && rng.chance(1, 2);
        let omit_class = ctx.prev_class == Some(r.class) && rng.chance(1, 2);
        let ttl_t = render_u(rng, r.ttl as u64);
        let class_t = render_class(rng, r.class);
        match (omit_ttl, omit_class) {
            (true, true) => {}
            (true, false) => {
                self.field(&class_t);
                self.gap(rng);
            }
            (false, true) => {
                self.field(&ttl_t);
                self.gap(rng);
            }
            (false, false) => {
                if rng.chance(1, 2) {
                    self.field(&ttl_t);
                    self.gap(rng);
                    self.field(&class_t);
                } else {
                    self.field(&class_t);
                    self.gap(rng);
                    self.field(&ttl_t);
                }
                self.gap(rng);
            }
        }
        let t = render_type(rng, r.ty);
        self.field(&t);
        // an RDATA-less generic form still needs `\# 0`
        self.gap(rng);
        self.rdata(rng, r, ctx);
        self.eol(rng, last);
        self.expected.push(format!(
            "rec:{}:{}:{}:{}:{}:{}",
            start_line,
            hex(&name_wire(&r.owner)),
            r.ttl,
            r.class,
            r.ty,
            hex(&r.rdata.wire())
        ));
        ctx.prev_owner = Some(r.owner.clone());
        ctx.prev_ttl = Some(r.ttl);
        ctx.prev_class = Some(r.class);
    }

    pub fn blank(&mut self, rng: &mut Rng, last: bool) {
        if rng.chance(1, 2) {
            self.ws(rng, 1);
        }
        if rng.chance(1, 2) {
            self.comment(rng);
        }
        if !(last && rng.chance(1, 2)) {
            self.newline(rng);
        }
    }

    pub fn origin(&mut self, rng: &mut Rng, o: &[Vec<u8>], ctx: &mut Ctx) {
        let t = case_mix(rng, "$ORIGIN");
        self.field(&t);
        self.gap(rng);
        self.name(rng, o, ctx, false);
        self.eol(rng, false);
        ctx.origin = Some(o.to_vec());
    }

    pub fn ttl(&mut self, rng: &mut Rng, v: u32, ctx: &mut Ctx) {
        let t = case_mix(rng, "$TTL");
        self.field(&t);
        self.gap(rng);
        let t = render_u(rng, v as u64);
        self.field(&t);
        self.eol(rng, false);
        ctx.default_ttl = Some(v);
    }
}

fn gen_cstr(rng: &mut Rng) -> Vec<u8> {
    let len = match rng.below(30) {
        0 => 255,
        1 => 0,
        2 => rng.range(100, 254),
        _ => rng.range(1, 12),
    };
    (0..len)
        .map(|_| if rng.chance(1, 8) { *rng.pick(ODD_CHARS) } else if rng.chance(1, 40) { rng.byte() } else { *rng.pick(LABEL_CHARS) })
        .collect()
}

fn gen_u32(rng: &mut Rng) -> u32 {
    match rng.below(8) {
        0 => 0,
        1 => u32::MAX,
        2 => 0x7fff_ffff,
        3 => 0x8000_0000,
        _ => rng.next() as u32 >> rng.below(32),
    }
}

fn gen_u16(rng: &mut Rng) -> u16 {
    match rng.below(8) {
        0 => 0,
        1 => u16::MAX,
        _ => (rng.next() as u16) >> rng.below(16),
    }
}

fn gen_ipv6(rng: &mut Rng) -> [u8; 16] {
    let mut a = [0u8; 16];
    for i in 0..8 {
        let g: u16 = match rng.below(4) {
            0 | 1 => 0,
            2 => rng.below(256) as u16,
            _ => rng.next() as u16,
        };
        a[2 * i] = (g >> 8) as u8;
        a[2 * i + 1] = g as u8;
    }
    a
}

pub fn gen_rr(rng: &mut Rng, ctx: &Ctx, pool: &mut Vec<Vec<Vec<u8>>>, last_class: u16) -> Rr {
    let o = ctx.origin.clone();
    let owner = if ctx.prev_owner.is_some() && rng.chance(1, 3) {
        ctx.prev_owner.clone().unwrap()
    } else {
        gen_name(rng, o.as_ref(), pool)
    };
    let class = if rng.chance(3, 4) {
        last_class
    } else {
        *rng.pick(&[1u16, 1, 1, 3, 4, 2, 254, 65535, 0])
    };
    let ttl = match rng.below(6) {
        0 => ctx.prev_ttl.unwrap_or(3600),
        1 => ctx.default_ttl.unwrap_or(300),
        2 => gen_u32(rng) & 0x7fff_ffff,
        _ => *rng.pick(&[0u32, 60, 300, 3600, 86400, 0x7fff_ffff]),
    };
    let mut nm = |rng: &mut Rng| gen_name(rng, o.as_ref(), pool);
    let (ty, rdata) = match rng.below(16) {
        0 => (*rng.pick(&[2u16, 3, 4, 5, 7, 8, 9, 12]), Rd::Name(nm(rng))),
        1 => {
            if class == 1 {
                (1, Rd::A([rng.byte(), rng.byte(), rng.byte(), rng.byte()]))
            } else if class == 3 {
                (1, Rd::ChA(nm(rng), gen_u16(rng)))
            } else {
                (1, Rd::Raw((0..rng.below(6)).map(|_| rng.byte()).collect()))
            }
        }
        2 => (6, Rd::Soa(nm(rng), nm(rng), [gen_u32(rng), gen_u32(rng), gen_u32(rng), gen_u32(rng), gen_u32(rng)])),
        3 => {
            if class == 1 {
                let n = if rng.chance(1, 4) { 0 } else { rng.range(1, 5) };
                let ports = (0..n).map(|_| if rng.chance(1, 8) { gen_u16(rng) } else { rng.below(1024) as u16 }).collect();
                (11, Rd::Wks([rng.byte(), rng.byte(), rng.byte(), rng.byte()], *rng.pick(&[6u8, 17, 0, 1, 255]), ports))
            } else {
                (11, Rd::Raw((0..rng.below(8)).map(|_| rng.byte()).collect()))
            }
        }
        4 => (13, Rd::Hinfo(gen_cstr(rng), gen_cstr(rng))),
        5 => (14, Rd::Minfo(nm(rng), nm(rng))),
        6 => (15, Rd::Mx(gen_u16(rng), nm(rng))),
        7 | 8 => {
            let n = rng.range(1, 4);
            (16, Rd::Txt((0..n).map(|_| gen_cstr(rng)).collect()))
        }
        9 => {
            if class == 1 {
                (28, Rd::Aaaa(gen_ipv6(rng)))
            } else {
                (28, Rd::Raw((0..rng.below(20)).map(|_| rng.byte()).collect()))
            }
        }
        10 => {
            if class == 1 {
                (33, Rd::Srv(gen_u16(rng), gen_u16(rng), gen_u16(rng), nm(rng)))
            } else {
                (33, Rd::Raw((0..rng.below(12)).map(|_| rng.byte()).collect()))
            }
        }
        11 => {
            // unknown type: anything
            let ty = *rng.pick(&[0u16, 17, 18, 24, 27, 29, 99, 255, 256, 65280, 65535, 251, 40, 42, 249]);
            let n = if rng.chance(1, 4) { 0 } else { rng.below(24) };
            (ty, Rd::Raw((0..n).map(|_| rng.byte()).collect()))
        }
        12 => (2, Rd::Name(nm(rng))),
        13 => {
            if class == 1 {
                (1, Rd::A([rng.byte(), rng.byte(), rng.byte(), rng.byte()]))
            } else {
                (16, Rd::Txt(vec![gen_cstr(rng)]))
            }
        }
        14 => (5, Rd::Name(nm(rng))),
        _ => (15, Rd::Mx(gen_u16(rng), nm(rng))),
    };
    Rr { owner, ttl, class, ty, rdata }
}

/// a whole pretty-printed zone file: (text, expected items)
pub fn pretty_file(rng: &mut Rng, max_entries: usize) -> (Vec<u8>, Vec<String>) {
    let mut p = Printer::new(rng);
    let mut ctx = Ctx::new();
    let mut pool: Vec<Vec<Vec<u8>>> = Vec::new();
    let n = rng.range(1, max_entries);
    let mut class = *rng.pick(&[1u16, 1, 1, 1, 3, 4, 7]);
    // a plausible start: $ORIGIN most of the time
    if rng.chance(4, 5) {
        let o = gen_name(rng, None, &mut pool);
        p.origin(rng, &o, &mut ctx);
    }
    if rng.chance(1, 2) {
        let v = *rng.pick(&[0u32, 300, 3600, 86400, 0x7fff_ffff]);
        p.ttl(rng, v, &mut ctx);
    }
    for i in 0..n {
        let last = i + 1 == n;
        match rng.below(14) {
            0 => p.blank(rng, last),
            1 => {
                let cur = ctx.origin.clone();
                let o = gen_name(rng, cur.as_ref(), &mut pool);
                p.origin(rng, &o, &mut ctx);
            }
            2 => {
                let v = if rng.chance(1, 2) { gen_u32(rng) & 0x7fff_ffff } else { *rng.pick(&[0u32, 60, 3600]) };
                p.ttl(rng, v, &mut ctx);
            }
            _ => {
                if rng.chance(1, 10) {
                    class = *rng.pick(&[1u16, 3, 4, 1, 9]);
                }
                let r = gen_rr(rng, &ctx, &mut pool, class);
                p.record(rng, &r, &mut ctx, last);
            }
        }
    }
    (p.out, p.expected)
}

// ------------------------------------------------------------------------------------------
// malformed streams (C24)
// ------------------------------------------------------------------------------------------

const TOKENS: &[&[u8]] = &[
    b"a", b"b.c", b"example.", b"@", b".", b"..", b"a..b", b"\\", b"\\1", b"\\12", b"\\300", b"\\255", b"\\.", b"x\\ y",
    b"IN", b"in", b"CH", b"HS", b"CLASS1", b"CLASS65536", b"CLASS+3", b"class3",
    b"A", b"a", b"NS", b"CNAME", b"SOA", b"MX", b"TXT", b"AAAA", b"SRV", b"WKS", b"HINFO", b"MINFO", b"PTR", b"NULL", b"OPT", b"TSIG",
    b"TYPE1", b"TYPE10", b"TYPE41", b"TYPE250", b"TYPE65535", b"TYPE65536", b"TYPE+1", b"type16", b"MB", b"MD",
    b"0", b"1", b"5", b"+5", b"-5", b"007", b"3600", b"4294967295", b"4294967296", b"2147483648", b"65535", b"65536", b"256",
    b"1.2.3.4", b"1.2.3", b"01.2.3.4", b"255.255.255.255", b"256.1.1.1", b"::", b"::1", b"1::", b"1:2:3:4:5:6:7:8", b"::ffff:1.2.3.4", b"1:::2",
    b"(", b")", b"(", b")", b";", b";c", b"; ( comment )", b"\"", b"\"a b\"", b"\"\"", b"\"a\\\"b\"", b"\"x(y;z)\"", b"\"un", b"a\"b",
    b"\\#", b"\\#", b"\\# 0", b"\\# 1 00", b"\\# 4 01020304", b"\\# 2 0102", b"\\# 3 000000", b"0102", b"zz", b"0", b"abc", b"ABCDEF", b"0g",
    b"$ORIGIN", b"$origin", b"$TTL", b"$ttl", b"$INCLUDE", b"$include", b"$FOO", b"$", b"$ORIGINx", b"file.zone", b"\"a file\"", b"sub/f",
    b"TCP", b"udp", b"17", b"\n", b"\n", b"\n", b"\r\n", b"\r", b" ", b"\t", b"  ", b"\x00", b"\xff", b"\xc3\xa9", b"\xc3", b"\xe2\x82",
    b"01234567", b"8", b"177777", b"200000",
];

fn pickb<'a>(rng: &mut Rng, xs: &[&'a [u8]]) -> &'a [u8] {
    xs[rng.below(xs.len())]
}

fn token_soup(rng: &mut Rng) -> Vec<u8> {
    let n = rng.range(1, 24);
    let mut out = Vec::new();
    for _ in 0..n {
        out.extend_from_slice(pickb(rng, TOKENS));
        match rng.below(6) {
            0 => {}
            1 => out.push(b'\n'),
            2 => out.push(b'\t'),
            _ => out.push(b' '),
        }
    }
    out
}

/// record-shaped soup: owner ttl/class type rdata-ish tokens, so that the RDATA parsers are
/// reached with wrong and boundary arguments
fn record_soup(rng: &mut Rng) -> Vec<u8> {
    let mut out = Vec::new();
    let lines = rng.range(1, 5);
    for _ in 0..lines {
        if rng.chance(1, 5) {
            out.extend_from_slice(b"$ORIGIN o.");
            out.push(b'\n');
        }
        match rng.below(4) {
            0 => out.extend_from_slice(b" "),
            1 => out.extend_from_slice(b"@ "),
            _ => {
                out.extend_from_slice(pickb(rng, &[&b"a"[..], b"b.c.", b"x", b"\\@", b"."]));
                out.push(b' ');
            }
        }
        if rng.chance(1, 2) {
            out.extend_from_slice(pickb(rng, &[&b"5 "[..], b"IN ", b"5 IN ", b"IN 5 ", b"CH ", b"CLASS7 ", b"+0 in ", b"5 5 ", b"IN IN "]));
        }
        out.extend_from_slice(pickb(rng, &[
            &b"A"[..], b"NS", b"SOA", b"MX", b"TXT", b"AAAA", b"SRV", b"WKS", b"HINFO", b"MINFO", b"PTR", b"TYPE1", b"TYPE99", b"CNAME", b"TYPE6",
        ]));
        let k = rng.below(9);
        for _ in 0..k {
            out.push(if rng.chance(1, 10) { b'\t' } else { b' ' });
            out.extend_from_slice(pickb(rng, TOKENS));
        }
        out.extend_from_slice(pickb(rng, &[&b"\n"[..], b"\r\n", b"", b" ; c\n", b" )\n", b"\n\n"]));
    }
    out
}

fn mutate(rng: &mut Rng, f: &[u8]) -> Vec<u8> {
    let mut v = f.to_vec();
    let n = rng.range(1, 3);
    for _ in 0..n {
        if v.is_empty() {
            break;
        }
        let i = rng.below(v.len());
        match rng.below(6) {
            0 => v.truncate(i),
            1 => {
                v.remove(i);
            }
            2 | 3 => v.insert(i, *rng.pick(b" \t\n\r();\"\\.@$#0a9:-+")),
            4 => v[i] = *rng.pick(b" \t\n\r();\"\\.@$#0a9:-+"),
            _ => v.insert(i, rng.byte()),
        }
    }
    v
}

// ------------------------------------------------------------------------------------------
// emitting
// ------------------------------------------------------------------------------------------

fn emit_case(em: &mut Emitter, op: &str, pre: &[u8], inp: &[u8], ch: &str, extra: Option<&str>) {
    let (ph, ih) = (hex(pre), hex(inp));
    let case = match extra {
        Some(x) => format!("{} {} {} {} {}", op, ph, ih, ch, x),
        None => format!("{} {} {} {}", op, ph, ih, ch),
    };
    let mut args: Vec<&str> = vec![&ph, &ih, ch];
    if let Some(x) = extra {
        args.push(x);
    }
    let r = run(op, &args).unwrap();
    em.emit(&case, &r);
}

fn chunking(rng: &mut Rng) -> String {
    let k = if rng.chance(1, 3) { 0 } else { rng.range(1, 7) };
    if rng.chance(1, 8) { format!("r{}", k) } else { k.to_string() }
}

/// emit zf + zfc (+ zfv when the parse ends in an error)
fn emit_c24(rng: &mut Rng, em: &mut Emitter, pre: &[u8], inp: &[u8]) {
    let ch = chunking(rng);
    emit_case(em, "zf", pre, inp, &ch, None);
    emit_case(em, "zfc", pre, inp, &ch, None);
    emit_case(em, "zfv", pre, inp, &ch, None);
}

fn emit_std(em: &mut Emitter, op: &str, s: &[u8]) {
    let h = hex(s);
    let r = run(op, &[&h]).unwrap();
    em.emit(&format!("{} {}", op, h), &r);
}

const PRELUDES: &[&[u8]] = &[
    b"",
    b"$ORIGIN example.com.\n",
    b"$ORIGIN example.com.\n$TTL 3600\n",
    b"$ORIGIN .\nprev 300 IN A 1.2.3.4\n",
    b"$ORIGIN t.\n$TTL 60\nhost.other. 77 CH TXT x\n",
    b"p.q. 5 HS TYPE300 \\# 0\n",
];

fn std_streams(rng: &mut Rng, thorough: bool, em: &mut Emitter) {
    // integers
    let ints: &[&[u8]] = &[
        b"", b"+", b"-", b"0", b"+0", b"-0", b"00", b"1", b"255", b"256", b"65535", b"65536", b"4294967295", b"4294967296",
        b"99999999999999999999", b"000000000000000000000001", b"+255", b"++1", b"1+", b" 1", b"1 ", b"0x10", b"1_0", b"12a", b"\xd9\xa1",
        b"2147483647", b"2147483648", b"+4294967295", b"+4294967296", b"-1",
    ];
    for s in ints {
        for op in ["zf.u32", "zf.u16", "zf.u8"] {
            emit_std(em, op, s);
        }
    }
    let n = if thorough { 40_000 } else { 3_000 };
    for _ in 0..n {
        let len = rng.below(13);
        let s: Vec<u8> = (0..len).map(|_| *rng.pick(b"0123456789012345678901234567890123456789+-a ")).collect();
        emit_std(em, *rng.pick(&["zf.u32", "zf.u16", "zf.u8"]), &s);
    }
    // class / type
    let codes: &[&[u8]] = &[
        b"IN", b"in", b"iN", b"CH", b"HS", b"hs", b"CLASS", b"CLASS0", b"CLASS1", b"class65535", b"CLASS65536", b"CLASS+1", b"CLASS-1", b"CLAS1",
        b"CLASSx", b"ANY", b"NONE", b"*", b"", b"A", b"a", b"AAAA", b"aaaa", b"TYPE", b"TYPE0", b"TYPE1", b"type255", b"TYPE65535", b"TYPE65536",
        b"TYPE+28", b"TYP1", b"NULL", b"OPT", b"TSIG", b"AXFR", b"IXFR", b"MAILB", b"SRV", b"WKS", b"TXT", b"TXTT", b"TYPE 1", b"TYPE01",
        b"CLASS01", b"CLASS\xc3\xa9", b"CLAS\xc3\xa9", b"TYP\xc3\xa9", b"\xc3\xa9", b"IN\x00",
    ];
    for s in codes {
        emit_std(em, "zf.class", s);
        emit_std(em, "zf.type", s);
    }
    // utf-8
    let n = if thorough { 40_000 } else { 3_000 };
    for _ in 0..n {
        let len = rng.below(6);
        let s: Vec<u8> = (0..len)
            .map(|_| *rng.pick(&[0x00u8, 0x41, 0x7f, 0x80, 0x8f, 0x90, 0x9f, 0xa0, 0xbf, 0xc0, 0xc1, 0xc2, 0xdf, 0xe0, 0xe1, 0xec, 0xed, 0xee, 0xef, 0xf0, 0xf1, 0xf3, 0xf4, 0xf5, 0xff]))
            .collect();
        emit_std(em, "zf.utf8", &s);
    }
    // IPv4
    let v4: &[&[u8]] = &[
        b"", b"1.2.3.4", b"0.0.0.0", b"255.255.255.255", b"256.0.0.0", b"1.2.3", b"1.2.3.4.5", b"1.2.3.", b".1.2.3", b"1..2.3", b"01.2.3.4", b"1.2.3.04",
        b"00.0.0.0", b"0.0.0.00", b"1.2.3.4 ", b" 1.2.3.4", b"1.2.3.4a", b"a.b.c.d", b"1234.1.1.1", b"001.1.1.1", b"1.1.1.0001", b"+1.2.3.4", b"1.2.3.-4",
        b"127.0.0.1", b"100.100.100.100", b"255.255.255.2555", b"1.2.3.4\x00", b"\xd9\xa1.2.3.4", b"0x1.2.3.4", b"1.2.3.4.", b"192.168.001.1",
    ];
    for s in v4 {
        emit_std(em, "zf.ipv4", s);
        emit_std(em, "zf.ipv6", s);
    }
    let v6: &[&[u8]] = &[
        b"::", b"::1", b"1::", b"::1:2", b"1:2::", b"1:2:3:4:5:6:7:8", b"1:2:3:4:5:6:7::", b"::2:3:4:5:6:7:8", b"1:2:3:4:5:6:7:8:9", b"1:2:3:4:5:6:7",
        b"1::2::3", b":::", b"::::", b":", b":1", b"1:", b"1:2:3:4:5:6:7:", b":1:2:3:4:5:6:7", b"12345::", b"::12345", b"0000::", b"00000::", b"g::",
        b"::ffff:1.2.3.4", b"::1.2.3.4", b"1.2.3.4::", b"1:2:3:4:5:6:1.2.3.4", b"1:2:3:4:5:6:7:1.2.3.4", b"1:2:3:4:5:1.2.3.4", b"1::1.2.3.4", b"::1.2.3.4:5",
        b"::1.2.3", b"::1.2.3.4.5", b"::01.2.3.4", b"::256.2.3.4", b"1:2:3:4:5:6:7:8::", b"::1:2:3:4:5:6:7:8", b"1:2:3:4::5:6:7:8", b"1:2:3:4::5:6:7",
        b"1:2:3::4:5:6:7", b"FFFF::ffff", b"AbCd::Ef01", b"fe80::1%eth0", b"fe80::1%1", b"[::1]", b"::1 ", b" ::1", b"1:2:3:4:5:6:7:8 ", b"::ffff:1.2.3.4 ",
        b"1:2::3:4::5", b"::0.0.0.0", b"0:0:0:0:0:0:0:0", b"0:0:0:0:0:0:0.0.0.0", b"1:2:3:4:5:6:7.8.9.10:11", b"::1:2.3.4.5", b"1::2:3.4.5.6", b"::.1.2.3",
        b"1:2:3:4:5:6::1.2.3.4", b"1:2:3:4:5::1.2.3.4", b"::1.2.3.4.", b"::1.2.3.256", b"1:2:3:4:5:6:7::8", b"::ffff:999.1.1.1", b"::f:1234567.1.1.1",
    ];
    for s in v6 {
        emit_std(em, "zf.ipv6", s);
        emit_std(em, "zf.ipv4", s);
    }
    let n = if thorough { 300_000 } else { 25_000 };
    for i in 0..n {
        // structured random: tokens of hex groups, colons, dots
        let mut s = Vec::new();
        let toks = rng.range(1, 12);
        for _ in 0..toks {
            match rng.below(10) {
                0..=3 => {
                    let l = rng.range(1, 5);
                    for _ in 0..l {
                        s.push(*rng.pick(b"0123456789abcdefABCF00"));
                    }
                }
                4 | 5 => s.push(b':'),
                6 => s.extend_from_slice(b"::"),
                7 => s.push(b'.'),
                8 => s.extend_from_slice(rng.below(300).to_string().as_bytes()),
                _ => s.push(*rng.pick(b"g%/ +-\x00")),
            }
        }
        emit_std(em, if i % 4 == 0 { "zf.ipv4" } else { "zf.ipv6" }, &s);
    }
    // rendered valid addresses
    let n = if thorough { 100_000 } else { 8_000 };
    for _ in 0..n {
        let a = gen_ipv6(rng);
        let s = render_ipv6(rng, &a);
        emit_std(em, "zf.ipv6", &s);
        let q = format!("{}.{}.{}.{}", rng.byte(), rng.byte(), rng.below(300), rng.below(12));
        emit_std(em, "zf.ipv4", q.as_bytes());
    }
}

fn boundary_streams(rng: &mut Rng, em: &mut Emitter, thorough: bool) {
    // field-size limit: MAX_READ_FIELD_SIZE = 65536
    for n in [65_535usize, 65_536, 65_537, 70_000] {
        let mut f = b"a 5 IN TXT x\nb ".to_vec();
        f.extend(std::iter::repeat(b'7').take(n));
        f.extend_from_slice(b" IN A 1.2.3.4\n");
        emit_c24(rng, em, b"$ORIGIN o.\n", &f);
        // a long type field, a long u16 field
        let mut g = b"a 5 IN ".to_vec();
        g.extend(std::iter::repeat(b'A').take(n));
        g.extend_from_slice(b" x\n");
        emit_c24(rng, em, b"$ORIGIN o.\n", &g);
    }
    // include path limit: INCLUDE_PATH_MAX = 65536 (unquoted and quoted)
    for n in [65_535usize, 65_536, 65_537] {
        let mut f = b"$INCLUDE ".to_vec();
        f.extend(std::iter::repeat(b'p').take(n));
        f.extend_from_slice(b"\nx 1 IN A 1.1.1.1\n");
        emit_c24(rng, em, b"$ORIGIN o.\n", &f);
        let mut g = b"$INCLUDE \"".to_vec();
        g.extend(std::iter::repeat(b'p').take(n));
        g.extend_from_slice(b"\" o.\n");
        emit_c24(rng, em, b"$ORIGIN o.\n", &g);
    }
    // character-string limit 255/256, quoted and unquoted, with escapes at the boundary
    for n in [254usize, 255, 256] {
        for quoted in [false, true] {
            let mut f = b"a 5 IN TXT ".to_vec();
            if quoted {
                f.push(b'"');
            }
            f.extend(std::iter::repeat(b'x').take(n - 1));
            f.extend_from_slice(if rng.chance(1, 2) { b"\\065" } else { b"y" });
            if quoted {
                f.push(b'"');
            }
            f.push(b'\n');
            emit_c24(rng, em, b"$ORIGIN o.\n", &f);
        }
    }
    // TXT RDATA limit: 65535 octets (255 strings of 255 octets + … )
    for extra in [0usize, 1, 2] {
        let mut f = b"a 5 IN TXT".to_vec();
        for _ in 0..255 {
            f.push(b' ');
            f.extend(std::iter::repeat(b'x').take(255));
        }
        // 255 * 256 = 65280 so far; add strings to reach 65535 / 65536
        f.push(b' ');
        f.extend(std::iter::repeat(b'y').take(253 + extra));
        f.push(b'\n');
        emit_c24(rng, em, b"$ORIGIN o.\n", &f);
    }
    // names: 255-octet limit, 63-octet labels, 127 labels, relative + origin overflow
    let l63 = "a".repeat(63);
    let l64 = "a".repeat(64);
    let mut cases: Vec<String> = vec![
        format!("{l63}.{l63}.{l63}.{}. 5 IN A 1.2.3.4\n", "b".repeat(61)),
        format!("{l63}.{l63}.{l63}.{}. 5 IN A 1.2.3.4\n", "b".repeat(62)),
        format!("{l64}. 5 IN A 1.2.3.4\n"),
        format!("{}. 5 IN A 1.2.3.4\n", "a.".repeat(126) + "a"),
        format!("{}. 5 IN A 1.2.3.4\n", "a.".repeat(127) + "a"),
        format!("$ORIGIN {l63}.{l63}.{l63}.\n{} 5 IN A 1.2.3.4\n", "b".repeat(61)),
        format!("$ORIGIN {l63}.{l63}.{l63}.\n{} 5 IN A 1.2.3.4\n", "b".repeat(62)),
        format!("$ORIGIN {}.\n{} 5 IN NS x\n", "o.".repeat(100) + "o", "a.".repeat(26) + "a"),
        format!("$ORIGIN {}.\n{} 5 IN NS x\n", "o.".repeat(100) + "o", "a.".repeat(25) + "a"),
    ];
    cases.push("a 5 IN WKS 1.2.3.4 TCP 65535 0 7 8\n".into());
    cases.push("a 5 IN WKS 1.2.3.4 256\n".into());
    cases.push("a 5 CH A ch. 177777\nb CH A ch. 200000\n".into());
    cases.push("a 5 CH A ch. 17777777777777777777777\n".into());
    for c in &cases {
        emit_c24(rng, em, b"$ORIGIN o.\n", c.as_bytes());
    }
    // WKS with very many ports (the u16::MAX cap) — thorough only (large)
    if thorough {
        for n in [65_534usize, 65_535, 65_536] {
            let mut f = b"a 5 IN WKS 1.2.3.4 6".to_vec();
            for i in 0..n {
                f.extend_from_slice(format!(" {}", i % 50).as_bytes());
            }
            f.push(b'\n');
            emit_c24(rng, em, b"$ORIGIN o.\n", &f);
        }
    }
    // generic RDATA lengths
    for n in [0usize, 1, 255, 256, 65_535] {
        if n > 300 && !thorough {
            continue;
        }
        let mut f = format!("a 5 IN TYPE999 \\# {} ", n).into_bytes();
        f.extend(std::iter::repeat(b"ab").take(n).flatten());
        f.push(b'\n');
        emit_c24(rng, em, b"$ORIGIN o.\n", &f);
    }
}

/// records in RFC 3597 `\#` form: refused types with well-formed RDATA, and known types whose
/// RDATA is valid, slightly damaged, or random (the validators must be applied)
fn generic_streams(rng: &mut Rng, em: &mut Emitter, thorough: bool) {
    let n = if thorough { 20_000 } else { 1_500 };
    let mut pool: Vec<Vec<Vec<u8>>> = Vec::new();
    for i in 0..n {
        let mut ctx = Ctx::new();
        ctx.origin = Some(vec![b"o".to_vec()]);
        let class = *rng.pick(&[1u16, 1, 1, 3, 4, 255]);
        let r = gen_rr(rng, &ctx, &mut pool, class);
        let mut wire = r.rdata.wire();
        let mut ty = r.ty;
        match i % 5 {
            0 => {
                // a refused type (NULL, OPT, TSIG) by mnemonic or number, with plausible RDATA
                ty = *rng.pick(&[10u16, 41, 250]);
                if rng.chance(1, 2) {
                    wire.clear();
                }
            }
            1 => {} // valid RDATA in generic form
            2 => {
                // damage: truncate / extend / flip one octet
                if !wire.is_empty() && rng.chance(1, 2) {
                    let k = rng.below(wire.len());
                    wire.truncate(k);
                } else if rng.chance(1, 2) {
                    wire.push(rng.byte());
                } else if !wire.is_empty() {
                    let k = rng.below(wire.len());
                    wire[k] = rng.byte();
                }
            }
            3 => {
                wire = (0..rng.below(12)).map(|_| rng.byte()).collect();
            }
            _ => {
                // known type, other class (the class-specific arms)
            }
        }
        let tyt: Vec<u8> = match (ty, rng.below(2)) {
            (10, 0) => b"NULL".to_vec(),
            (41, 0) => b"OPT".to_vec(),
            (250, 0) => b"TSIG".to_vec(),
            _ => render_type(rng, ty),
        };
        let mut f = b"x. 5 ".to_vec();
        f.extend(render_class(rng, r.class));
        f.push(b' ');
        f.extend(tyt);
        f.extend_from_slice(format!(" \\# {} ", wire.len()).as_bytes());
        for b in &wire {
            f.extend_from_slice(format!("{:02x}", b).as_bytes());
        }
        f.extend_from_slice(b"\nnext. 5 IN A 1.2.3.4\n");
        emit_c24(rng, em, b"", &f);
    }
}

/// group `zonewks`: the pretty-printer stream restricted to files with IN WKS records that list
/// ports, plus fixed cases; op zfw
pub fn gen_wks(rng: &mut Rng, thorough: bool, em: &mut Emitter) {
    let w = |a: [u8; 4], p: u8, ports: &[u16]| hex(&Rd::Wks(a, p, ports.to_vec()).wire());
    let fixed: Vec<(String, String)> = vec![
        ("a. 5 IN WKS 1.2.3.4 TCP 25\n".into(), format!("rec:1:016100:5:1:11:{}", w([1, 2, 3, 4], 6, &[25]))),
        ("a. 5 IN WKS 1.2.3.4 TCP\n".into(), format!("rec:1:016100:5:1:11:{}", w([1, 2, 3, 4], 6, &[]))),
        ("a. 5 IN WKS 1.2.3.4 udp 0 7\n".into(), format!("rec:1:016100:5:1:11:{}", w([1, 2, 3, 4], 17, &[0, 7]))),
        ("a. 5 IN WKS 1.2.3.4 6 ( 65535\n 0 80 80 )\n".into(), format!("rec:1:016100:5:1:11:{}", w([1, 2, 3, 4], 6, &[65535, 0, 80]))),
        (
            "a. 5 IN WKS 1.2.3.4 TCP 25\nb. 5 IN WKS \\# 6 010203040640\nc. 5 IN A 1.2.3.4\n".into(),
            format!("rec:1:016100:5:1:11:{};rec:2:016200:5:1:11:010203040640;rec:3:016300:5:1:1:01020304", w([1, 2, 3, 4], 6, &[25])),
        ),
        ("a. 5 IN WKS 1.2.3.4 255 8 9 10 11 12 13 14 15 23\n".into(), format!("rec:1:016100:5:1:11:{}", w([1, 2, 3, 4], 255, &[8, 9, 10, 11, 12, 13, 14, 15, 23]))),
    ];
    for (text, exp) in &fixed {
        for ch in ["0", "1", "3"] {
            emit_case(em, "zfw", b"", text.as_bytes(), ch, Some(exp));
        }
    }
    let n = if thorough { 20_000 } else { 1_500 };
    let mut kept = 0;
    while kept < n {
        let (text, expected) = pretty_file(rng, if kept % 10 == 0 { 25 } else { 6 });
        if !has_wks_ports(&expected) {
            continue;
        }
        kept += 1;
        let ch = chunking(rng);
        let ch = ch.trim_start_matches('r').to_string();
        emit_case(em, "zfw", b"", &text, &ch, Some(&expected.join(";")));
    }
}

pub fn gen(rng: &mut Rng, thorough: bool, em: &mut Emitter) {
    std_streams(rng, thorough, em);
    boundary_streams(rng, em, thorough);
    generic_streams(rng, em, thorough);
    // 1. pretty-printer stream (C23): zfp with the generating record list as the expectation
    let n = if thorough { 60_000 } else { 5_000 };
    let mut valid_files: Vec<Vec<u8>> = Vec::new();
    for i in 0..n {
        let (text, expected) = pretty_file(rng, if i % 10 == 0 { 25 } else { 6 });
        let exp = if expected.is_empty() { "-".to_string() } else { expected.join(";") };
        let ch = chunking(rng);
        let ch = ch.trim_start_matches('r').to_string();
        if has_wks_ports(&expected) {
            // IN WKS with ports: the bit map's bit order is known finding D18, judged by op zfw in
            // group `zonewks` (C23 only); here the file still runs model ↔ implementation
            emit_case(em, "zf", b"", &text, &ch, None);
        } else {
            emit_case(em, "zfp", b"", &text, &ch, Some(&exp));
        }
        if i % 4 == 0 {
            emit_case(em, "zfc", b"", &text, &ch, None);
        }
        if valid_files.len() < 400 || rng.chance(1, 20) {
            if valid_files.len() >= 400 {
                let k = rng.below(valid_files.len());
                valid_files[k] = text;
            } else {
                valid_files.push(text);
            }
        }
    }
    // 2. mutations of valid files
    let n = if thorough { 120_000 } else { 8_000 };
    for _ in 0..n {
        let f = rng.pick(&valid_files).clone();
        let m = mutate(rng, &f);
        emit_c24(rng, em, b"", &m);
    }
    // 3. token soups, with and without a prelude
    let n = if thorough { 120_000 } else { 8_000 };
    for i in 0..n {
        let s = if i % 2 == 0 { token_soup(rng) } else { record_soup(rng) };
        let pre = *rng.pick(PRELUDES);
        emit_c24(rng, em, pre, &s);
    }
    // 4. random bytes (biased to the syntax alphabet)
    let n = if thorough { 60_000 } else { 4_000 };
    for _ in 0..n {
        let len = rng.below(40);
        let s: Vec<u8> = (0..len)
            .map(|_| if rng.chance(2, 3) { *rng.pick(b" \t\n\r();\"\\.@$#0123456789abcINATX:") } else { rng.byte() })
            .collect();
        let pre = *rng.pick(PRELUDES);
        emit_c24(rng, em, pre, &s);
    }
    // 5. thorough: every single-octet deletion (and every truncation) of a few valid files
    if thorough {
        for f in valid_files.iter().take(12) {
            for i in 0..f.len() {
                let mut v = f.clone();
                v.remove(i);
                emit_c24(rng, em, b"", &v);
                emit_c24(rng, em, b"", &f[..i]);
            }
        }
    } else {
        for f in valid_files.iter().take(2) {
            for i in 0..f.len().min(150) {
                let mut v = f.clone();
                v.remove(i);
                emit_c24(rng, em, b"", &v);
            }
        }
    }
}
