//! group `framing` (C30) — real loopback sockets against BOTH I/O providers of the repository
//! under test (`quandary::io::BlockingIoProvider` in several worker configurations and
//! `quandary::io::TokioIoProvider`), random request batches (valid, malformed, response-less),
//! random segmentation and small delays (milliseconds; the providers' read timeout is 5 s).
//!
//! case lines (see lean/QV/Driver/Framing.lean):
//!   tcp <provider> <mode> <segments> <table>      one TCP conversation
//!   udp <provider> <payload> <datagram> <resp|~>  one datagram
//! The table / expected response is the real `Server::handle_message` applied to each request
//! alone; it is the `handler` of the Lean model and spec.  The implementation column is what the
//! client socket received.
//!
//! Robustness: ports are probed free and the bind is retried; the listening sockets exist before
//! `bind` returns, so a connect cannot be refused; every wait has a generous bound (10 s) that is
//! never the expected path; everything is shut down at the end.
#![allow(unused)]
use crate::common::*;

#[cfg(not(feature = "framing"))]
pub fn run(_op: &str, _a: &[&str]) -> Option<String> {
    None
}

#[cfg(not(feature = "framing"))]
pub fn gen(_rng: &mut Rng, _thorough: bool, _em: &mut Emitter) {
    eprintln!("group framing: harness built without feature `framing`");
    std::process::exit(2);
}

#[cfg(feature = "framing")]
pub use real::{gen, run};

#[cfg(feature = "framing")]
mod real {
    use crate::common::*;
    use crate::g_snapshot::{make_catalog, Cat};
    use quandary::io::{BlockingIoConfig, BlockingIoProvider, TokioIoProvider};
    use quandary::server::{ReceivedInfo, Response, Server, Transport};
    use quandary::thread::ThreadGroup;
    use std::io::{Read, Write};
    use std::net::{IpAddr, Ipv4Addr, Shutdown, SocketAddr, TcpListener, TcpStream, UdpSocket};
    use std::sync::Arc;
    use std::time::{Duration, Instant};

    const LONG: Duration = Duration::from_secs(10);

    fn local(port: u16) -> SocketAddr {
        SocketAddr::new(IpAddr::V4(Ipv4Addr::LOCALHOST), port)
    }

    /// a port that is free for TCP and UDP right now
    fn free_port() -> u16 {
        for _ in 0..200 {
            let l = TcpListener::bind(local(0)).expect("probe listener");
            let p = l.local_addr().unwrap().port();
            if UdpSocket::bind(local(p)).is_ok() {
                return p;
            }
        }
        panic!("no free port");
    }

    enum Running {
        Blocking(Arc<ThreadGroup>),
        Tokio(std::sync::mpsc::Sender<()>, std::thread::JoinHandle<()>),
    }

    struct Provider {
        name: &'static str,
        port: u16,
        server: Arc<Server<Cat>>,
        running: Running,
    }

    fn new_server(payload: u16) -> Arc<Server<Cat>> {
        let mut s = Server::new(Arc::new(make_catalog(7)));
        s.set_edns_udp_payload_size(payload).unwrap();
        Arc::new(s)
    }

    fn start_blocking(name: &'static str, workers: usize, linger_ms: u64, udp_workers: usize, payload: u16) -> Provider {
        let server = new_server(payload);
        for _ in 0..50 {
            let port = free_port();
            let cfg = BlockingIoConfig {
                tcp_base_workers: workers,
                tcp_worker_linger: Duration::from_millis(linger_ms),
                udp_workers_per_socket: udp_workers,
            };
            match BlockingIoProvider::bind(cfg, [local(port)], [local(port)]) {
                Ok(p) => {
                    let group = ThreadGroup::new();
                    p.start(&server, &group).expect("start blocking provider");
                    return Provider { name, port, server, running: Running::Blocking(group) };
                }
                Err(_) => continue,
            }
        }
        panic!("cannot bind the blocking provider");
    }

    fn start_tokio(name: &'static str, payload: u16) -> Provider {
        let server = new_server(payload);
        let (ready_tx, ready_rx) = std::sync::mpsc::channel::<Option<u16>>();
        let (stop_tx, stop_rx) = std::sync::mpsc::channel::<()>();
        let srv = server.clone();
        let handle = std::thread::spawn(move || {
            let rt = tokio_rt::runtime::Builder::new_current_thread().enable_all().build().expect("tokio runtime");
            rt.block_on(async move {
                let mut bound = None;
                for _ in 0..50 {
                    let port = free_port();
                    if let Ok(p) = TokioIoProvider::bind([local(port)], [local(port)]).await {
                        bound = Some((port, p));
                        break;
                    }
                }
                let Some((port, provider)) = bound else {
                    let _ = ready_tx.send(None);
                    return;
                };
                let controller = provider.start(&srv);
                let _ = ready_tx.send(Some(port));
                // serve until the harness says stop (poll the std channel without blocking the runtime)
                loop {
                    tokio_rt::time::sleep(Duration::from_millis(20)).await;
                    match stop_rx.try_recv() {
                        Ok(()) | Err(std::sync::mpsc::TryRecvError::Disconnected) => break,
                        Err(std::sync::mpsc::TryRecvError::Empty) => (),
                    }
                }
                controller.shut_down().await;
            });
        });
        let port = ready_rx.recv_timeout(LONG).ok().flatten().expect("cannot start the tokio provider");
        Provider { name, port, server, running: Running::Tokio(stop_tx, handle) }
    }

    fn stop(p: Provider) {
        match p.running {
            Running::Blocking(group) => {
                group.shut_down();
                group.await_shutdown();
            }
            Running::Tokio(tx, h) => {
                let _ = tx.send(());
                let _ = h.join();
            }
        }
    }

    // ------------------------------------------------------------------------------------------
    // requests
    // ------------------------------------------------------------------------------------------

    fn name_wire(s: &str) -> Vec<u8> {
        let mut v = Vec::new();
        for l in s.split('.').filter(|l| !l.is_empty()) {
            v.push(l.len() as u8);
            v.extend_from_slice(l.as_bytes());
        }
        v.push(0);
        v
    }

    fn query(id: u16, qname: &str, qtype: u16, flags: u16) -> Vec<u8> {
        let mut m = Vec::new();
        m.extend_from_slice(&id.to_be_bytes());
        m.extend_from_slice(&flags.to_be_bytes());
        m.extend_from_slice(&[0, 1, 0, 0, 0, 0, 0, 0]);
        m.extend_from_slice(&name_wire(qname));
        m.extend_from_slice(&qtype.to_be_bytes());
        m.extend_from_slice(&[0, 1]);
        m
    }

    /// (request, is it meant to be response-less)
    fn random_request(rng: &mut Rng, allow_none: bool, thorough: bool) -> Vec<u8> {
        let names = ["gen.test.", "mail.gen.test.", "alias.gen.test.", "nx.gen.test.", "x.sub.gen.test.", "other.example."];
        let types = [1u16, 2, 5, 6, 15, 16, 28, 255, 252];
        let id = rng.next() as u16;
        match rng.below(20) {
            0..=11 => query(id, names[rng.below(names.len())], *rng.pick(&types), if rng.chance(1, 4) { 0x0100 } else { 0 }),
            12 | 13 => {
                // garbage with QR = 0: always answered (FORMERR or worse), never ignored
                let n = rng.range(12, 60);
                let mut m: Vec<u8> = (0..n).map(|_| rng.byte()).collect();
                m[2] &= 0x7f;
                m
            }
            14 => {
                // a large frame: several reads
                let n = if thorough && rng.chance(1, 6) { 65535 } else { rng.range(600, 6000) };
                let mut m: Vec<u8> = (0..n).map(|_| rng.byte()).collect();
                m[2] &= 0x7f;
                if rng.chance(2, 3) {
                    // all four counts zero: certainly answered (random counts usually announce several
                    // questions, which is response-less)
                    for b in &mut m[4..12] { *b = 0; }
                }
                m
            }
            15 => query(id, names[rng.below(names.len())], 1, 0x2800), // opcode 5: NOTIMP
            16 | 17 if allow_none => {
                // response-less: a response (QR = 1), a truncated header, or nothing at all
                match rng.below(3) {
                    0 => query(id, names[rng.below(names.len())], 1, 0x8000),
                    1 => (0..rng.below(12)).map(|_| rng.byte()).collect(),
                    _ => Vec::new(),
                }
            }
            _ => query(id, names[rng.below(names.len())], *rng.pick(&types), 0),
        }
    }

    fn handle(server: &Server<Cat>, req: &[u8], transport: Transport, bufsize: usize) -> Option<Vec<u8>> {
        let mut out = vec![0u8; bufsize];
        let info = ReceivedInfo::new(IpAddr::V4(Ipv4Addr::LOCALHOST), transport);
        match server.handle_message(req, info, &mut out) {
            Response::Single(n) => Some(out[..n].to_vec()),
            Response::None => None,
        }
    }

    fn frame(m: &[u8]) -> Vec<u8> {
        let mut v = (m.len() as u16).to_be_bytes().to_vec();
        v.extend_from_slice(m);
        v
    }

    /// the complete frames of a stream (the harness's own splitter, used only to build the table
    /// and to know how many octets to wait for; the Lean side re-derives the frames itself)
    fn split_frames(stream: &[u8]) -> Vec<Vec<u8>> {
        let mut out = Vec::new();
        let mut i = 0;
        while i + 2 <= stream.len() {
            let len = u16::from_be_bytes([stream[i], stream[i + 1]]) as usize;
            if i + 2 + len > stream.len() {
                break;
            }
            out.push(stream[i + 2..i + 2 + len].to_vec());
            i += 2 + len;
        }
        out
    }

    // ------------------------------------------------------------------------------------------
    // one TCP conversation
    // ------------------------------------------------------------------------------------------

    struct Conv {
        segments: Vec<Vec<u8>>,
        delays_ms: Vec<u64>,
        wait_mode: bool,
    }

    fn random_conv(rng: &mut Rng, thorough: bool) -> Conv {
        let n = if rng.chance(1, 10) { rng.range(7, 20) } else { rng.range(1, 6) };
        let mut stream = Vec::new();
        let mut ends_with_none = false;
        let trailing_after_none = rng.chance(1, 5);
        for i in 0..n {
            // a response-less request is usually the last one of the conversation
            let allow_none = rng.chance(1, 5);
            let req = random_request(rng, allow_none, thorough);
            stream.extend_from_slice(&frame(&req));
            let _ = i;
        }
        if rng.chance(1, 8) {
            // the peer stops in the middle of a frame
            let req = random_request(rng, false, false);
            let f = frame(&req);
            let k = rng.range(1, f.len() - 1);
            stream.extend_from_slice(&f[..k]);
        }
        let _ = (ends_with_none, trailing_after_none);
        // segmentation: cut points anywhere, biased to the neighbourhood of frame boundaries
        let mut cuts = std::collections::BTreeSet::new();
        let n_cuts = match rng.below(6) {
            0 => 0,
            1 => stream.len().min(40), // many tiny segments
            _ => rng.range(1, 8),
        };
        let mut boundaries = vec![0usize];
        {
            let mut i = 0;
            while i + 2 <= stream.len() {
                let len = u16::from_be_bytes([stream[i], stream[i + 1]]) as usize;
                i += 2 + len;
                if i < stream.len() {
                    boundaries.push(i);
                } else {
                    break;
                }
            }
        }
        for _ in 0..n_cuts {
            let c = if rng.chance(1, 2) {
                let b = *rng.pick(&boundaries) as i64 + rng.range(0, 4) as i64 - 1;
                b.clamp(1, stream.len() as i64 - 1) as usize
            } else if stream.len() > 1 {
                rng.range(1, stream.len() - 1)
            } else {
                1
            };
            if c > 0 && c < stream.len() {
                cuts.insert(c);
            }
        }
        let mut segments = Vec::new();
        let mut prev = 0;
        for c in cuts {
            segments.push(stream[prev..c].to_vec());
            prev = c;
        }
        segments.push(stream[prev..].to_vec());
        let delays_ms = segments.iter().map(|_| if rng.chance(1, 3) { rng.range(1, 3) as u64 } else { 0 }).collect();
        Conv { segments, delays_ms, wait_mode: rng.chance(1, 12) }
    }

    /// returns (case line, implementation result)
    fn run_conv(p: &Provider, conv: &Conv) -> (String, String) {
        let stream: Vec<u8> = conv.segments.concat();
        let frames = split_frames(&stream);
        // Octets that follow a response-less request are written only after everything expected
        // has been read: the server closes a socket with unread data by a reset, and a reset may
        // discard responses the client has not read yet (TCP semantics, not the providers').
        let mut conv = Conv { segments: conv.segments.clone(), delays_ms: conv.delays_ms.clone(), wait_mode: conv.wait_mode };
        let mut pause_after: Option<usize> = None;
        {
            let mut off = 0usize;
            let mut cut = None;
            for f in &frames {
                off += 2 + f.len();
                if handle(&p.server, f, Transport::Tcp, 65535).is_none() {
                    cut = Some(off);
                    break;
                }
            }
            if let Some(cut) = cut {
                if cut < stream.len() {
                    let mut segs = Vec::new();
                    let mut delays = Vec::new();
                    let mut pos = 0usize;
                    for (seg, d) in conv.segments.iter().zip(conv.delays_ms.iter()) {
                        let end = pos + seg.len();
                        if pos < cut && cut < end {
                            segs.push(seg[..cut - pos].to_vec());
                            delays.push(*d);
                            segs.push(seg[cut - pos..].to_vec());
                            delays.push(0);
                        } else {
                            segs.push(seg.clone());
                            delays.push(*d);
                        }
                        pos = end;
                    }
                    let mut acc = 0usize;
                    for (i, sg) in segs.iter().enumerate() {
                        acc += sg.len();
                        if acc == cut {
                            pause_after = Some(i);
                            break;
                        }
                    }
                    conv.segments = segs;
                    conv.delays_ms = delays;
                }
            }
        }
        let conv = &conv;
        // the table: real handle_message on each request alone
        let mut table: Vec<(Vec<u8>, Option<Vec<u8>>)> = Vec::new();
        let mut expected = Vec::new();
        let mut closes = false;
        for f in &frames {
            let r = handle(&p.server, f, Transport::Tcp, 65535);
            if !table.iter().any(|(q, _)| q == f) {
                table.push((f.clone(), r.clone()));
            }
            if !closes {
                match r {
                    Some(r) => expected.extend_from_slice(&frame(&r)),
                    None => closes = true,
                }
            }
        }
        // wait for the close whenever one is expected; else only in sampled conversations
        let wait_mode = closes || conv.wait_mode;
        let table_s = if table.is_empty() {
            "-".to_string()
        } else {
            table
                .iter()
                .map(|(q, r)| format!("{}={}", hex(q), r.as_ref().map(|r| hex(r)).unwrap_or_else(|| "~".into())))
                .collect::<Vec<_>>()
                .join(",")
        };
        let case = format!(
            "tcp {} {} {} {}",
            p.name,
            if wait_mode { "w" } else { "h" },
            conv.segments.iter().map(|s| hex(s)).collect::<Vec<_>>().join("/"),
            table_s
        );
        // Timing never decides a verdict: an outcome that can be produced by scheduling delays alone (a
        // close that is expected but not yet seen, a read that timed out) is re-run on a fresh
        // connection and reported only if it reproduces; `skip:` results are not emitted at all.
        let mut result = converse(p.port, conv, expected.len(), wait_mode, pause_after, closes);
        for _ in 0..2 {
            let suspicious = result.starts_with("err:timeout") || result.starts_with("err:no-close")
                || result.starts_with("skip:") || (closes && result.ends_with(" open"));
            if !suspicious {
                break;
            }
            std::thread::sleep(Duration::from_millis(200));
            result = converse(p.port, conv, expected.len(), wait_mode, pause_after, closes);
        }
        (case, result)
    }

    fn drain_nonblocking(s: &mut TcpStream, got: &mut Vec<u8>, eof: &mut bool) {
        if s.set_nonblocking(true).is_err() {
            return;
        }
        let mut buf = [0u8; 4096];
        loop {
            match s.read(&mut buf) {
                Ok(0) => {
                    *eof = true;
                    break;
                }
                Ok(n) => got.extend_from_slice(&buf[..n]),
                Err(_) => break,
            }
        }
        let _ = s.set_nonblocking(false);
    }

    fn converse(port: u16, conv: &Conv, expect_len: usize, wait_mode: bool, pause_after: Option<usize>, closes: bool) -> String {
        let mut s = match TcpStream::connect_timeout(&local(port), LONG) {
            Ok(s) => s,
            Err(e) => return format!("err:connect:{:?}", e.kind()),
        };
        let _ = s.set_nodelay(true);
        let mut got = Vec::new();
        let mut eof = false;
        let mut buf = [0u8; 8192];
        for (i, (seg, d)) in conv.segments.iter().zip(conv.delays_ms.iter()).enumerate() {
            if *d > 0 {
                std::thread::sleep(Duration::from_millis(*d));
            }
            if s.write_all(seg).is_err() {
                break; // the server has closed: nothing more can be delivered
            }
            drain_nonblocking(&mut s, &mut got, &mut eof);
            if eof {
                break;
            }
            if pause_after == Some(i) {
                // read everything that is expected before writing what follows the response-less request
                let _ = s.set_read_timeout(Some(LONG));
                while !eof && got.len() < expect_len {
                    match s.read(&mut buf) {
                        Ok(0) => eof = true,
                        Ok(n) => got.extend_from_slice(&buf[..n]),
                        Err(e) if e.kind() == std::io::ErrorKind::Interrupted => (),
                        Err(e) if matches!(e.kind(), std::io::ErrorKind::WouldBlock | std::io::ErrorKind::TimedOut) => {
                            return format!("err:timeout-after-{}-octets", got.len())
                        }
                        Err(_) => eof = true,
                    }
                }
                if eof {
                    break;
                }
            }
        }
        let start = Instant::now();
        let mut state = "-";
        if wait_mode {
            // wait for the server to close; once everything expected has arrived give it a quiet
            // period before declaring the connection open: 250 ms when no close is expected (a
            // correct server keeps the connection for its 5 s read timeout), 3.5 s when one is (a
            // correct server closes at once, a loaded machine may take a while to schedule it; a
            // server that wrongly keeps the connection does so until its 5 s timeout)
            let quiet = if closes { Duration::from_millis(3500) } else { Duration::from_millis(250) };
            let mut quiet_deadline: Option<Instant> = None;
            while !eof {
                if got.len() >= expect_len && quiet_deadline.is_none() {
                    quiet_deadline = Some(Instant::now() + quiet);
                }
                let timeout = match quiet_deadline {
                    Some(d) => match d.checked_duration_since(Instant::now()) {
                        Some(t) if !t.is_zero() => t,
                        _ => {
                            // the deadline passed while this thread was not running: look once more
                            drain_nonblocking(&mut s, &mut got, &mut eof);
                            break;
                        }
                    },
                    None => LONG,
                };
                let _ = s.set_read_timeout(Some(timeout));
                match s.read(&mut buf) {
                    Ok(0) => eof = true,
                    Ok(n) => {
                        got.extend_from_slice(&buf[..n]);
                        quiet_deadline = None;
                    }
                    Err(e) if matches!(e.kind(), std::io::ErrorKind::WouldBlock | std::io::ErrorKind::TimedOut) => {
                        if quiet_deadline.is_some() {
                            break;
                        }
                        return format!("err:timeout-after-{}-octets", got.len());
                    }
                    Err(e) if e.kind() == std::io::ErrorKind::Interrupted => (),
                    Err(_) => eof = true, // reset by the server: it has closed
                }
                if start.elapsed() > LONG * 2 {
                    return "err:timeout".into();
                }
            }
            if eof && !closes && start.elapsed() > Duration::from_millis(2500) {
                // this client was starved for so long that the server's own read timeout may have fired
                return "skip:timing".into();
            }
            state = if eof { "closed" } else { "open" };
            let _ = s.shutdown(Shutdown::Both);
        } else {
            let _ = s.set_read_timeout(Some(LONG));
            while !eof && got.len() < expect_len {
                match s.read(&mut buf) {
                    Ok(0) => eof = true,
                    Ok(n) => got.extend_from_slice(&buf[..n]),
                    Err(e) if e.kind() == std::io::ErrorKind::Interrupted => (),
                    Err(e) if matches!(e.kind(), std::io::ErrorKind::WouldBlock | std::io::ErrorKind::TimedOut) => {
                        return format!("err:timeout-after-{}-octets", got.len())
                    }
                    Err(_) => eof = true,
                }
            }
            // half-close: the server sees the peer closing and must not send anything more
            let _ = s.shutdown(Shutdown::Write);
            while !eof {
                match s.read(&mut buf) {
                    Ok(0) => eof = true,
                    Ok(n) => got.extend_from_slice(&buf[..n]),
                    Err(e) if e.kind() == std::io::ErrorKind::Interrupted => (),
                    Err(e) if matches!(e.kind(), std::io::ErrorKind::WouldBlock | std::io::ErrorKind::TimedOut) => {
                        return format!("err:no-close-after-{}-octets", got.len())
                    }
                    Err(_) => eof = true,
                }
            }
        }
        format!("ok {} {}", hex(&got), state)
    }

    // ------------------------------------------------------------------------------------------
    // one UDP datagram
    // ------------------------------------------------------------------------------------------

    fn run_udp(p: &Provider, rng: &mut Rng, thorough: bool) -> (String, String) {
        let payload = p.server.edns_udp_payload_size() as usize;
        let allow_none = rng.chance(1, 4);
        let mut req = random_request(rng, allow_none, false);
        if rng.chance(1, 15) {
            // larger than the receive buffer: the provider sees the first `payload` octets
            req = (0..payload + rng.range(1, 400)).map(|_| rng.byte()).collect();
            req[2] &= 0x7f;
        }
        if req.is_empty() {
            req = vec![0u8; 3];
        }
        let seen: &[u8] = if req.len() > payload { &req[..payload] } else { &req };
        let expected = handle(&p.server, seen, Transport::Udp, payload);
        let case = format!(
            "udp {} {} {} {}",
            p.name,
            payload,
            hex(&req),
            expected.as_ref().map(|r| hex(r)).unwrap_or_else(|| "~".into())
        );
        let sock = match UdpSocket::bind(local(0)) {
            Ok(s) => s,
            Err(_) => return (case, "err:bind".into()),
        };
        let server_addr = local(p.port);
        if sock.send_to(&req, server_addr).is_err() {
            return (case, "err:send".into());
        }
        let mut buf = vec![0u8; 70000];
        let mut responses: Vec<Vec<u8>> = Vec::new();
        // first response: generous bound when one is expected, short when none is
        let first_wait = if expected.is_some() { LONG } else { Duration::from_millis(120) };
        let _ = sock.set_read_timeout(Some(first_wait));
        let mut wrong_source = false;
        let mut first = sock.recv_from(&mut buf);
        if first.is_err() && expected.is_some() {
            // UDP may lose a datagram (a full socket buffer on a loaded machine): a missing response
            // is reported only if it is missing again after one retransmission
            let _ = sock.send_to(&req, server_addr);
            first = sock.recv_from(&mut buf);
        }
        if let Ok((n, from)) = first {
            if from != server_addr {
                wrong_source = true;
            }
            responses.push(buf[..n].to_vec());
            // a second datagram would violate "at most one": look for it in sampled cases
            if thorough || rng.chance(1, 6) {
                let _ = sock.set_read_timeout(Some(Duration::from_millis(60)));
                if let Ok((n, _)) = sock.recv_from(&mut buf) {
                    responses.push(buf[..n].to_vec());
                }
            }
        }
        let r = if wrong_source {
            "err:wrong-source".to_string()
        } else if responses.iter().any(|r| r.len() > payload) {
            format!("err:oversize-{}", responses.iter().map(|r| r.len()).max().unwrap())
        } else {
            format!("ok {} {}", responses.len(), responses.first().map(|r| hex(r)).unwrap_or_else(|| "-".into()))
        };
        (case, r)
    }

    pub fn run(op: &str, a: &[&str]) -> Option<String> {
        // a conversation is re-run against a freshly started provider of the recorded kind
        match op {
            "tcp" if a.len() == 4 => {
                let p = start_named(a[0])?;
                let segments: Vec<Vec<u8>> = if a[2] == "-" { vec![] } else { a[2].split('/').map(|x| unhex(x)).collect::<Option<_>>()? };
                let conv = Conv { delays_ms: segments.iter().map(|_| 1).collect(), segments, wait_mode: a[1] == "w" };
                let (_, r) = run_conv(&p, &conv);
                stop(p);
                Some(r)
            }
            "udp" if a.len() == 4 => {
                let p = start_named(a[0])?;
                let req = unhex(a[2])?;
                let sock = UdpSocket::bind(local(0)).ok()?;
                let _ = sock.send_to(&req, local(p.port));
                let _ = sock.set_read_timeout(Some(if a[3] == "~" { Duration::from_millis(300) } else { LONG }));
                let mut buf = vec![0u8; 70000];
                let r = match sock.recv_from(&mut buf) {
                    Ok((n, from)) if from == local(p.port) => {
                        let first = hex(&buf[..n]);
                        let _ = sock.set_read_timeout(Some(Duration::from_millis(150)));
                        let more = if sock.recv_from(&mut buf).is_ok() { 2 } else { 1 };
                        format!("ok {more} {first}")
                    }
                    Ok(_) => "err:wrong-source".into(),
                    Err(_) => "ok 0 -".into(),
                };
                stop(p);
                Some(r)
            }
            _ => None,
        }
    }

    fn start_named(name: &str) -> Option<Provider> {
        Some(match name {
            "b2" => start_blocking("b2", 2, 50, 2, 1232),
            "b0" => start_blocking("b0", 0, 0, 1, 512),
            "b1" => start_blocking("b1", 1, 200, 1, 900),
            "tk" => start_tokio("tk", 1232),
            _ => return None,
        })
    }

    pub fn gen(rng: &mut Rng, thorough: bool, em: &mut Emitter) {
        let t0 = Instant::now();
        let providers: Vec<Provider> = ["b2", "b0", "b1", "tk"].iter().map(|n| start_named(n).unwrap()).collect();
        let providers = Arc::new(providers);
        let n_threads = 8;
        let per_thread = if thorough { 1500 } else { 150 };
        let udp_per_thread = if thorough { 500 } else { 60 };
        let mut handles = Vec::new();
        for t in 0..n_threads {
            let providers = providers.clone();
            let seed = rng.next();
            handles.push(std::thread::spawn(move || {
                let mut rng = Rng::new(seed ^ t as u64);
                let mut out = Vec::new();
                if t == 0 {
                    // frame-size boundaries in both tiers: the largest messages the two-octet length
                    // prefix can announce (65533..65535), alone and followed by a pipelined query,
                    // written whole and in 16384-/1021-octet segments
                    for p in providers.iter() {
                        for size in [65533usize, 65534, 65535] {
                            for (seg, follow) in [(usize::MAX, true), (16384, true), (1021, false)] {
                                let mut m: Vec<u8> = (0..size).map(|_| rng.byte()).collect();
                                m[2] &= 0x7f;
                                for b in &mut m[4..12] { *b = 0; } // no question: answered (FORMERR), not ignored
                                let mut stream = frame(&m);
                                if follow {
                                    stream.extend_from_slice(&frame(&query(rng.next() as u16, "gen.test.", 1, 0)));
                                }
                                let segments: Vec<Vec<u8>> = stream.chunks(seg.min(stream.len())).map(|c| c.to_vec()).collect();
                                let conv = Conv { delays_ms: segments.iter().map(|_| 0).collect(), segments, wait_mode: false };
                                out.push(run_conv(p, &conv));
                            }
                        }
                    }
                }
                for i in 0..per_thread {
                    let p = &providers[(i + t) % providers.len()];
                    let conv = random_conv(&mut rng, thorough);
                    out.push(run_conv(p, &conv));
                }
                for i in 0..udp_per_thread {
                    let p = &providers[(i + t) % providers.len()];
                    out.push(run_udp(p, &mut rng, thorough));
                }
                out
            }));
        }
        let mut skipped = 0usize;
        for h in handles {
            for (case, r) in h.join().expect("client thread panicked") {
                if r.starts_with("skip:") {
                    skipped += 1;
                    continue;
                }
                em.emit(&case, &r);
            }
        }
        let providers = Arc::try_unwrap(providers).ok().expect("providers still shared");
        for p in providers {
            stop(p);
        }
        eprintln!("framing: {} cases, {} discarded for timing, {:.1} s", em.n, skipped, t0.elapsed().as_secs_f64());
    }
}
