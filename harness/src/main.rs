//! qvh — correspondence harness (DESIGN.md §2.6).
//!
//!   qvh gen <group> <tier> <seed> <out>    generate cases for a group, run the real code on
//!                                          each, write `<case>\t<impl result>` lines
//!   qvh run <group> <in> <out>             re-run the cases of a file (replay / corpus)
//!
//! A case is one line of the driver's protocol, so the same text is fed to the Lean driver.
mod common;
mod g_wire;

use common::*;

fn main() {
    let args: Vec<String> = std::env::args().collect();
    silence_panics();
    if args.len() >= 6 && args[1] == "gen" {
        let group = args[2].as_str();
        let thorough = args[3] == "thorough";
        let seed: u64 = args[4].parse().expect("seed");
        let mut em = Emitter::new(&args[5]);
        let mut rng = Rng::new(seed);
        match group {
            "wire" => g_wire::gen(&mut rng, thorough, &mut em),
            _ => {
                eprintln!("unknown group {group}");
                std::process::exit(2);
            }
        }
        em.finish();
    } else if args.len() >= 5 && args[1] == "run" {
        let text = std::fs::read_to_string(&args[3]).expect("read cases");
        let mut em = Emitter::new(&args[4]);
        for line in text.lines() {
            let case = line.split('\t').next().unwrap().trim();
            if case.is_empty() || case.starts_with('#') {
                continue;
            }
            let r = run_case(case);
            em.emit(case, &r);
        }
        em.finish();
    } else {
        eprintln!("usage: qvh gen <group> <tier> <seed> <out> | qvh run <group> <in> <out>");
        std::process::exit(2);
    }
}

/// Execute one case line against the real code.
pub fn run_case(case: &str) -> String {
    let mut it = case.split(' ');
    let op = it.next().unwrap_or("");
    let args: Vec<&str> = it.collect();
    if let Some(r) = g_wire::run(op, &args) {
        return r;
    }
    "bad-op".to_string()
}
