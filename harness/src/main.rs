//! qvh — correspondence harness (DESIGN.md §2.6).
//!
//!   qvh gen <group> <tier> <seed> <out>    generate cases for a group, run the real code on
//!                                          each, write `<case>\t<impl result>` lines
//!   qvh run <group> <in> <out>             re-run the cases of a file (replay / corpus)
//!
//! A case is one line of the driver's protocol, so the same text is fed to the Lean driver.
mod common;
#[cfg(feature = "pool")]
mod pool_shim;
mod dns;
// the daemon's own modules, copied from the repository under test by build.rs (group `reload`)
#[allow(dead_code, unused_imports)]
#[path = "gen_daemon/args.rs"]
mod args;
#[allow(dead_code, unused_imports)]
#[path = "gen_daemon/config.rs"]
mod config;
#[allow(dead_code, unused_imports)]
#[path = "gen_daemon/run.rs"]
mod run;
#[allow(dead_code, unused_imports)]
#[path = "gen_daemon/zones.rs"]
mod zones;
mod g_wire;
mod g_codes;
mod g_name;
mod g_rdata;
mod g_catalog;
mod g_zone;
mod g_rrl;
mod g_reader;
mod g_tsig;
mod g_writer;
mod g_server;
mod g_srvscan;
mod g_srvsafe;
mod g_srvtsig;
mod g_srvans;
mod g_zonefile;
mod g_include;
mod g_pool;
mod g_framing;
mod g_reload;
mod g_snapshot;

use common::*;

fn main() {
    let args: Vec<String> = std::env::args().collect();
    silence_panics();
    #[cfg(feature = "pool")]
    if args.len() >= 2 && (args[1] == "pool-worker" || args[1] == "pool-exec") {
        std::process::exit(g_pool::sub_main(&args));
    }
    if args.len() >= 6 && args[1] == "gen" {
        let group = args[2].as_str();
        let thorough = args[3] == "thorough";
        let seed: u64 = args[4].parse().expect("seed");
        let mut em = Emitter::new(&args[5]);
        let mut rng = Rng::new(seed);
        match group {
            "wire" => g_wire::gen(&mut rng, thorough, &mut em),
            "codes" => g_codes::gen(&mut rng, thorough, &mut em),
            "name" => g_name::gen(&mut rng, thorough, &mut em),
            "rdata" => g_rdata::gen(&mut rng, thorough, &mut em),
            "catalog" => g_catalog::gen(&mut rng, thorough, &mut em),
            "zone" => g_zone::gen(&mut rng, thorough, &mut em),
            "rrl" => g_rrl::gen(&mut rng, thorough, &mut em),
            "rrlkey" => g_rrl::gen_group("rrlkey", &mut rng, thorough, &mut em),
            "rrlburst" => g_rrl::gen_group("rrlburst", &mut rng, thorough, &mut em),
            "reader" => g_reader::gen(&mut rng, thorough, &mut em),
            "tsig" => g_tsig::gen(&mut rng, thorough, &mut em),
            "writer" => g_writer::gen(&mut rng, thorough, &mut em),
            "writerptr" => g_writer::gen_ptr(&mut rng, thorough, &mut em),
            "server" => g_server::gen(&mut rng, thorough, &mut em),
            "srvhdr" => g_srvscan::gen_hdr(&mut rng, thorough, &mut em),
            "srvzone" => g_srvscan::gen_zone_sel(&mut rng, thorough, &mut em),
            "srvform" => g_srvscan::gen_form(&mut rng, thorough, &mut em),
            "srvedns" => g_srvscan::gen_edns(&mut rng, thorough, &mut em),
            "srvsafe" => g_srvsafe::gen(&mut rng, thorough, &mut em),
            "srvtsig" => g_srvtsig::gen(&mut rng, thorough, &mut em),
            "srvans" => g_srvans::gen(&mut rng, thorough, &mut em),
            "serverdbg" => g_server::debug_big(&mut rng),
            "zonefile" => g_zonefile::gen(&mut rng, thorough, &mut em),
            "zonewks" => g_zonefile::gen_wks(&mut rng, thorough, &mut em),
            "include" => g_include::gen(&mut rng, thorough, &mut em),
            "pool" => g_pool::gen(&mut rng, thorough, &mut em),
            "framing" => g_framing::gen(&mut rng, thorough, &mut em),
            "reload" => g_reload::gen(&mut rng, thorough, &mut em),
            "snapshot" => g_snapshot::gen(&mut rng, thorough, &mut em),
            _ => {
                eprintln!("unknown group {group}");
                std::process::exit(2);
            }
        }
        em.finish();
    } else if args.len() >= 5 && args[1] == "run" {
        let text = std::fs::read_to_string(&args[3]).expect("read cases");
        let mut em = Emitter::new(&args[4]);
        for line in text.lines() {
            let case = line.split('\t').next().unwrap().trim();
            if case.is_empty() || case.starts_with('#') {
                continue;
            }
            let r = run_case(case);
            em.emit(case, &r);
        }
        em.finish();
    } else {
        eprintln!("usage: qvh gen <group> <tier> <seed> <out> | qvh run <group> <in> <out>");
        std::process::exit(2);
    }
}

/// Execute one case line against the real code.
pub fn run_case(case: &str) -> String {
    let mut it = case.split(' ');
    let op = it.next().unwrap_or("");
    let args: Vec<&str> = it.collect();
    if let Some(r) = g_wire::run(op, &args) {
        return r;
    }
    if let Some(r) = g_codes::run(op, &args) {
        return r;
    }
    if let Some(r) = g_name::run(op, &args) {
        return r;
    }
    if let Some(r) = g_rdata::run(op, &args) {
        return r;
    }
    if let Some(r) = g_catalog::run(op, &args) {
        return r;
    }
    if let Some(r) = g_zone::run(op, &args) {
        return r;
    }
    if let Some(r) = g_rrl::run(op, &args) {
        return r;
    }
    if let Some(r) = g_reader::run(op, &args) {
        return r;
    }
    if let Some(r) = g_tsig::run(op, &args) {
        return r;
    }
    if let Some(r) = g_writer::run(op, &args) {
        return r;
    }
    if let Some(r) = g_server::run(op, &args) {
        return r;
    }
    if let Some(r) = g_srvsafe::run(op, &args) {
        return r;
    }
    if let Some(r) = g_srvtsig::run(op, &args) {
        return r;
    }
    if let Some(r) = g_srvans::run(op, &args) {
        return r;
    }
    if let Some(r) = g_zonefile::run(op, &args) {
        return r;
    }
    if let Some(r) = g_include::run(op, &args) {
        return r;
    }
    if let Some(r) = g_pool::run(op, &args) {
        return r;
    }
    if let Some(r) = g_framing::run(op, &args) {
        return r;
    }
    if let Some(r) = g_reload::run(op, &args) {
        return r;
    }
    if let Some(r) = g_snapshot::run(op, &args) {
        return r;
    }
    "bad-op".to_string()
}
