//! group `rdata` — C18, C19: src/rr/rdata/*.rs and src/rr/rdata_set.rs through the public API
//! (`Rdata::{validate, read, equals, components}`, `RdataSetOwned::from_iter`, `RdataSet::iter`).
use crate::common::*;
use quandary::class::Class;
use quandary::rr::rdata::{Component, ReadRdataError};
use quandary::rr::{Rdata, RdataSetOwned, Type};

fn err(e: ReadRdataError) -> String {
    format!("err:{:?}", e)
}

fn ct(c: &str, t: &str) -> Option<(Class, Type)> {
    Some((Class::from(c.parse::<u16>().ok()?), Type::from(t.parse::<u16>().ok()?)))
}

fn rdata(b: &[u8]) -> Option<&Rdata> {
    <&Rdata>::try_from(b).ok()
}

fn list(items: Vec<String>) -> String {
    if items.is_empty() {
        ".".to_string()
    } else {
        items.join(",")
    }
}

fn parse_list(s: &str) -> Option<Vec<Vec<u8>>> {
    if s == "." {
        return Some(vec![]);
    }
    s.split(',').map(unhex).collect()
}

pub fn run(op: &str, a: &[&str]) -> Option<String> {
    let bad = || Some("bad-op".to_string());
    Some(match (op, a) {
        ("rv", [c, t, r]) => {
            let (Some((class, ty)), Some(buf)) = (ct(c, t), unhex(r)) else { return bad() };
            let Some(rd) = rdata(&buf) else { return bad() };
            guarded(|| match rd.validate(class, ty) {
                Ok(()) => "ok".to_string(),
                Err(e) => err(e),
            })
        }
        ("rr", [c, t, m, cur, len]) => {
            let (Some((class, ty)), Some(msg), Ok(cursor), Ok(rdlength)) =
                (ct(c, t), unhex(m), cur.parse::<usize>(), len.parse::<u16>())
            else {
                return bad();
            };
            guarded(|| match Rdata::read(class, ty, &msg, cursor, rdlength) {
                Ok(r) => format!("ok {}", hex(r.octets())),
                Err(e) => err(e),
            })
        }
        ("rcomp", [c, t, r]) => {
            let (Some((class, ty)), Some(buf)) = (ct(c, t), unhex(r)) else { return bad() };
            let Some(rd) = rdata(&buf) else { return bad() };
            guarded(|| {
                let mut out = Vec::new();
                for comp in rd.components(class, ty) {
                    match comp {
                        Ok(Component::CompressibleName(n)) => out.push(format!("C:{}", hex(n.wire_repr()))),
                        Ok(Component::UncompressibleName(n)) => out.push(format!("U:{}", hex(n.wire_repr()))),
                        Ok(Component::Other(o)) => out.push(format!("O:{}", hex(o))),
                        Err(e) => return err(e),
                    }
                    if out.len() > 16 {
                        return "hang".to_string();
                    }
                }
                format!("ok {}", list(out))
            })
        }
        ("req", [c, t, x, y]) => {
            let (Some((class, ty)), Some(x), Some(y)) = (ct(c, t), unhex(x), unhex(y)) else { return bad() };
            let (Some(x), Some(y)) = (rdata(&x), rdata(&y)) else { return bad() };
            guarded(|| format!("ok {}", x.equals(y, class, ty)))
        }
        ("req3", [c, t, x, y, z]) => {
            let (Some((class, ty)), Some(x), Some(y), Some(z)) = (ct(c, t), unhex(x), unhex(y), unhex(z)) else {
                return bad();
            };
            let (Some(x), Some(y), Some(z)) = (rdata(&x), rdata(&y), rdata(&z)) else { return bad() };
            guarded(|| {
                let mut s = String::from("ok ");
                for (p, q) in [(x, y), (y, x), (y, z), (z, y), (x, z), (z, x), (x, x), (y, y), (z, z)] {
                    s.push(if p.equals(q, class, ty) { '1' } else { '0' });
                }
                s
            })
        }
        ("rset", [c, t, l]) => {
            let (Some((class, ty)), Some(items)) = (ct(c, t), parse_list(l)) else { return bad() };
            let mut rds = Vec::new();
            for i in &items {
                let Some(r) = rdata(i) else { return bad() };
                rds.push(r);
            }
            guarded(|| match RdataSetOwned::from_iter(class, ty, rds.iter().copied()) {
                None => "ok none".to_string(),
                Some(set) => format!("ok {}", list(set.iter().map(|r| hex(r.octets())).collect())),
            })
        }
        _ => return None,
    })
}

// ------------------------------------------------------------------------------------------
// generators
// ------------------------------------------------------------------------------------------

#[derive(Clone, Copy, PartialEq, Debug)]
enum F {
    Name,
    Fixed(usize),
}

#[derive(Clone, Copy, PartialEq, Debug)]
enum Kind {
    Layout(&'static [F]),
    Len(usize),   // exactly n octets
    AtLeast(usize),
    Hinfo,
    Txt,
    Opt,
    Tsig,
    Opaque,
}

/// the 20 class/type rows of the property + other classes + unknown types (generator vocabulary,
/// written from the RFCs — not read from the code under test)
const ROWS: &[(u16, u16, Kind)] = &[
    (1, 1, Kind::Len(4)),
    (1, 2, Kind::Layout(&[F::Name])),
    (1, 3, Kind::Layout(&[F::Name])),
    (1, 4, Kind::Layout(&[F::Name])),
    (1, 5, Kind::Layout(&[F::Name])),
    (1, 6, Kind::Layout(&[F::Name, F::Name, F::Fixed(20)])),
    (1, 7, Kind::Layout(&[F::Name])),
    (1, 8, Kind::Layout(&[F::Name])),
    (1, 9, Kind::Layout(&[F::Name])),
    (1, 10, Kind::Opaque),
    (1, 11, Kind::AtLeast(5)),
    (1, 12, Kind::Layout(&[F::Name])),
    (1, 13, Kind::Hinfo),
    (1, 14, Kind::Layout(&[F::Name, F::Name])),
    (1, 15, Kind::Layout(&[F::Fixed(2), F::Name])),
    (1, 16, Kind::Txt),
    (1, 28, Kind::Len(16)),
    (1, 33, Kind::Layout(&[F::Fixed(6), F::Name])),
    (1, 41, Kind::Opt),
    (1, 250, Kind::Tsig),
    (3, 1, Kind::Layout(&[F::Name, F::Fixed(2)])),
    // class-independent types in other classes
    (3, 2, Kind::Layout(&[F::Name])),
    (4, 6, Kind::Layout(&[F::Name, F::Name, F::Fixed(20)])),
    (255, 15, Kind::Layout(&[F::Fixed(2), F::Name])),
    (3, 16, Kind::Txt),
    (0, 14, Kind::Layout(&[F::Name, F::Name])),
    (3, 250, Kind::Tsig),
    (4, 41, Kind::Opt),
    (65535, 13, Kind::Hinfo),
    // class-specific types outside their class: opaque
    (4, 1, Kind::Opaque),
    (3, 11, Kind::Opaque),
    (3, 28, Kind::Opaque),
    (3, 33, Kind::Opaque),
    (0, 33, Kind::Opaque),
    (2, 1, Kind::Opaque),
    // unknown types
    (1, 0, Kind::Opaque),
    (1, 17, Kind::Opaque),
    (1, 27, Kind::Opaque),
    (1, 29, Kind::Opaque),
    (1, 32, Kind::Opaque),
    (1, 34, Kind::Opaque),
    (1, 99, Kind::Opaque),
    (1, 249, Kind::Opaque),
    (1, 251, Kind::Opaque),
    (1, 255, Kind::Opaque),
    (3, 65535, Kind::Opaque),
];

const N_MAIN: usize = 21; // the property's 20 rows + CH A come first

const ALPHABET: [u8; 14] = [0, 1, 2, 3, 5, 62, 63, 64, 0xbf, 0xc0, 0xc1, 0xff, b'a', b'A'];
const WORDS: [&[u8]; 8] = [b"a", b"b", b"ab", b"www", b"example", b"com", b"x-1", b"mail"];

fn word(rng: &mut Rng) -> Vec<u8> {
    let mut w = rng.pick(&WORDS).to_vec();
    match rng.below(4) {
        0 => w.make_ascii_uppercase(),
        1 => {
            let i = rng.below(w.len());
            w[i] = w[i].to_ascii_uppercase();
        }
        _ => {}
    }
    if rng.chance(1, 24) {
        // octets around the letters: '@' (0x40), '[' (0x5b), '`' (0x60), '{' (0x7b), high bit
        let i = rng.below(w.len());
        w[i] = *rng.pick(&[0x40u8, 0x5b, 0x60, 0x7b, 0xc1, 0xe1, 0x00, 0x2e]);
    }
    w
}

/// a valid uncompressed name as a list of labels (without the root)
fn labels(rng: &mut Rng) -> Vec<Vec<u8>> {
    match rng.below(40) {
        0 => vec![],                                              // root
        1 => vec![vec![b'x'; 63]],                                // longest label
        2 => vec![vec![b'l'; 63], vec![b'M'; 63], vec![b'n'; 63], vec![b'o'; 61]], // 255 octets
        3 => (0..127).map(|_| vec![b'z']).collect(),              // 128 labels with the root: 255 octets
        _ => (0..rng.range(1, 3)).map(|_| word(rng)).collect(),
    }
}

fn wire(ls: &[Vec<u8>]) -> Vec<u8> {
    let mut w = Vec::new();
    for l in ls {
        w.push(l.len() as u8);
        w.extend_from_slice(l);
    }
    w.push(0);
    w
}

/// an invalid "name"
fn bad_name(rng: &mut Rng) -> Vec<u8> {
    match rng.below(8) {
        0 => vec![],                                                   // nothing
        1 => vec![3, b'a', b'b'],                                      // truncated label
        2 => vec![1, b'a'],                                            // no root
        3 => { let mut w = vec![64]; w.extend(vec![b'y'; 64]); w.push(0); w }       // label too long
        4 => vec![0xc0, 0x00],                                         // pointer in uncompressed data
        5 => vec![1, b'a', 0xc0, 0x00],
        6 => wire(&[vec![b'l'; 63], vec![b'm'; 63], vec![b'n'; 63], vec![b'o'; 62]]), // 256 octets
        _ => (0..128).flat_map(|_| vec![1u8, b'z']).chain(std::iter::once(0)).collect(), // 129 labels, 257 octets
    }
}

fn char_string(rng: &mut Rng) -> Vec<u8> {
    let n = match rng.below(12) {
        0 => 0,
        1 => 255,
        2 => 254,
        _ => rng.below(9),
    };
    let mut s = vec![n as u8];
    for _ in 0..n {
        s.push(if rng.chance(1, 6) { rng.byte() } else { b'a' + rng.below(26) as u8 });
    }
    s
}

fn bytes(rng: &mut Rng, n: usize) -> Vec<u8> {
    (0..n).map(|_| if rng.chance(1, 3) { *rng.pick(&ALPHABET) } else { rng.byte() }).collect()
}

fn option(rng: &mut Rng) -> Vec<u8> {
    let n = match rng.below(10) {
        0 => 0,
        1 => 256,
        2 => 300,
        _ => rng.below(12),
    };
    let mut o = vec![rng.byte(), rng.byte(), (n >> 8) as u8, n as u8];
    o.extend(bytes(rng, n));
    o
}

fn tsig(rng: &mut Rng) -> Vec<u8> {
    let mut r = wire(&labels(rng));
    r.extend(bytes(rng, 8));
    let mac = *rng.pick(&[0usize, 1, 16, 20, 32, 255, 256, 300]);
    r.extend([(mac >> 8) as u8, mac as u8]);
    r.extend(bytes(rng, mac));
    r.extend(bytes(rng, 4));
    let other = *rng.pick(&[0usize, 0, 0, 6, 1, 256]);
    r.extend([(other >> 8) as u8, other as u8]);
    r.extend(bytes(rng, other));
    r
}

/// well-formed RDATA of a kind
fn valid(rng: &mut Rng, k: Kind) -> Vec<u8> {
    match k {
        Kind::Layout(fs) => {
            let mut r = Vec::new();
            for f in fs {
                match f {
                    F::Name => r.extend(wire(&labels(rng))),
                    F::Fixed(n) => r.extend(if rng.chance(1, 2) { vec![0; *n] } else { bytes(rng, *n) }),
                }
            }
            r
        }
        Kind::Len(n) => bytes(rng, n),
        Kind::AtLeast(n) => { let extra = rng.below(6); bytes(rng, n + extra) }
        Kind::Hinfo => { let mut r = char_string(rng); r.extend(char_string(rng)); r }
        Kind::Txt => { let mut r = Vec::new(); for _ in 0..rng.range(1, 4) { r.extend(char_string(rng)); } r }
        Kind::Opt => { let mut r = Vec::new(); for _ in 0..rng.below(4) { r.extend(option(rng)); } r }
        Kind::Tsig => tsig(rng),
        Kind::Opaque => { let n = rng.below(12); bytes(rng, n) }
    }
}

/// near-valid: ±1 octet, wrong counts, bad embedded names, case changes
fn mutate(rng: &mut Rng, k: Kind, mut r: Vec<u8>) -> Vec<u8> {
    match rng.below(14) {
        0 => r.push(rng.byte()),
        1 => { r.pop(); }
        2 => { if !r.is_empty() { r.remove(0); } }
        3 => { let n = rng.below(r.len() + 1); r.truncate(n); }
        4 => { let n = rng.range(1, 5); r.extend(bytes(rng, n)); }
        5 => { if !r.is_empty() { let i = rng.below(r.len()); r[i] = *rng.pick(&ALPHABET); } }
        6 => { if !r.is_empty() { let i = rng.below(r.len()); r[i] ^= 0x20; } }
        7 => { let c = r.clone(); r.extend(c); }
        8 => r.clear(),
        9 => r.insert(0, 0),
        10 | 11 => {
            // a bad embedded name in place of a good one
            if let Kind::Layout(fs) = k {
                let which = rng.below(fs.iter().filter(|f| **f == F::Name).count().max(1));
                let mut seen = 0;
                r.clear();
                for f in fs {
                    match f {
                        F::Name => {
                            r.extend(if seen == which { bad_name(rng) } else { wire(&labels(rng)) });
                            seen += 1;
                        }
                        F::Fixed(n) => r.extend(bytes(rng, *n)),
                    }
                }
            } else {
                r.push(0);
            }
        }
        12 => {
            // wrong count of strings / options / one more fixed octet
            match k {
                Kind::Hinfo | Kind::Txt => r.extend(char_string(rng)),
                Kind::Opt => r.extend(option(rng)),
                _ => r.push(0),
            }
        }
        _ => {
            // length field off by one
            match k {
                Kind::Hinfo | Kind::Txt => { if !r.is_empty() { r[0] = r[0].wrapping_add(1); } }
                Kind::Opt => { if r.len() >= 4 { r[3] = r[3].wrapping_add(1); } }
                Kind::Tsig => { if let Some(i) = r.iter().position(|b| *b == 0) { if r.len() > i + 10 { r[i + 10] = r[i + 10].wrapping_add(1); } } }
                _ => { r.pop(); r.pop(); }
            }
        }
    }
    r.truncate(4000);
    r
}

fn emit(em: &mut Emitter, case: String) {
    let mut it = case.split(' ');
    let op = it.next().unwrap();
    let args: Vec<&str> = it.collect();
    let r = run(op, &args).unwrap_or_else(|| "bad-op".into());
    em.emit(&case, &r);
}

fn row(rng: &mut Rng) -> (u16, u16, Kind) {
    if rng.chance(3, 4) { ROWS[rng.below(N_MAIN)] } else { *rng.pick(ROWS) }
}

/// rows whose RDATA embeds names (for equality and the read boundary cases)
fn name_rows() -> Vec<(u16, u16, Kind)> {
    ROWS.iter().copied().filter(|r| matches!(r.2, Kind::Layout(_))).collect()
}

// ---- validate / components ----

fn gen_validate(rng: &mut Rng, n: usize, em: &mut Emitter) {
    // every row on a few fixed inputs first
    for &(c, t, k) in ROWS {
        for r in [vec![], vec![0], vec![0, 0], vec![0; 4], vec![0; 16], vec![0, 0, 0], vec![0; 7], vec![0; 22], vec![0xc0, 0]] {
            emit(em, format!("rv {} {} {}", c, t, hex(&r)));
            emit(em, format!("rcomp {} {} {}", c, t, hex(&r)));
        }
        let _ = k;
    }
    for _ in 0..n {
        let (c, t, k) = row(rng);
        let mut r = valid(rng, k);
        if rng.chance(1, 2) {
            r = mutate(rng, k, r);
        }
        // sometimes interpret under a different row (type confusion)
        let (c2, t2) = if rng.chance(1, 8) { let x = *rng.pick(ROWS); (x.0, x.1) } else { (c, t) };
        emit(em, format!("rv {} {} {}", c2, t2, hex(&r)));
        if rng.chance(1, 2) {
            emit(em, format!("rcomp {} {} {}", c2, t2, hex(&r)));
        }
    }
    // large TXT / OPT / opaque RDATA up to the 65535 cap
    for len in [65535usize, 65534, 40000] {
        let mut r = Vec::new();
        while r.len() + 256 <= len { r.push(255); r.extend(vec![b'q'; 255]); }
        let rest = len - r.len();
        if rest > 0 { r.push((rest - 1) as u8); r.extend(vec![b'r'; rest - 1]); }
        emit(em, format!("rv 1 16 {}", hex(&r)));
        emit(em, format!("rv 1 10 {}", hex(&r)));
        emit(em, format!("rv 1 41 {}", hex(&r)));
    }
}

// ---- read ----

/// a message prefix holding names that later pointers may target; returns label start offsets
fn prefix(rng: &mut Rng) -> (Vec<u8>, Vec<usize>) {
    let mut msg = Vec::new();
    let mut targets = Vec::new();
    let pre = rng.below(13);
    for _ in 0..pre { msg.push(rng.byte()); }
    for _ in 0..rng.below(3) {
        let ls = labels(rng);
        if ls.len() > 8 { continue; }
        for l in &ls {
            targets.push(msg.len());
            msg.push(l.len() as u8);
            msg.extend_from_slice(l);
        }
        targets.push(msg.len());
        msg.push(0);
    }
    (msg, targets)
}

/// one name inside the RDATA region: uncompressed, compressed towards `targets`, or broken
fn region_name(rng: &mut Rng, msg: &mut Vec<u8>, targets: &[usize], region_start: usize) {
    let style = rng.below(16);
    let ls = if style == 1 { vec![] } else { labels(rng) };
    let ls: Vec<Vec<u8>> = if ls.len() > 20 && style >= 2 && style <= 9 { vec![] } else { ls };
    let ptr = |t: usize| vec![0xc0 | ((t.min(0x3fff) >> 8) as u8), t as u8];
    match style {
        0 | 1 | 10 | 11 => msg.extend(wire(&ls)),
        2..=7 if !targets.is_empty() => {
            // labels then a pointer to an earlier label start
            let k = rng.below(ls.len() + 1);
            for l in &ls[..k] { msg.push(l.len() as u8); msg.extend_from_slice(l); }
            let t = *rng.pick(targets);
            msg.extend(ptr(t));
        }
        8 => {
            // pointer to the region itself / forward / itself
            let here = msg.len();
            let t = *rng.pick(&[region_start, here, here + 2, here.saturating_sub(1)]);
            msg.extend(ptr(t));
        }
        9 => { let t = rng.below(msg.len() + 6); msg.extend(ptr(t)); }
        12 => msg.extend(bad_name(rng)),
        13 => { let mut w = wire(&ls); w.pop(); msg.extend(w); }     // root label missing
        14 => { msg.push(0xc0); }                                     // half a pointer
        _ => msg.extend(wire(&ls)),
    }
}

fn gen_read(rng: &mut Rng, n: usize, em: &mut Emitter) {
    let names = name_rows();
    for _ in 0..n {
        let (c, t, k) = if rng.chance(2, 3) { *rng.pick(&names) } else { row(rng) };
        let (mut msg, targets) = prefix(rng);
        let cursor = msg.len();
        let mut bounds = vec![0usize]; // field boundaries relative to cursor
        match k {
            Kind::Layout(fs) => {
                for f in fs {
                    match f {
                        F::Name => region_name(rng, &mut msg, &targets, cursor),
                        F::Fixed(n) => { let b = bytes(rng, *n); msg.extend(b); }
                    }
                    bounds.push(msg.len() - cursor);
                }
            }
            _ => {
                let mut r = valid(rng, k);
                if rng.chance(1, 3) { r = mutate(rng, k, r); }
                r.truncate(600);
                msg.extend(r);
                bounds.push(msg.len() - cursor);
            }
        }
        let rdlen = msg.len() - cursor;
        let suffix = rng.below(4);
        for _ in 0..suffix { msg.push(rng.byte()); }
        if rng.chance(1, 10) && !msg.is_empty() {
            let i = rng.below(msg.len());
            msg[i] = *rng.pick(&ALPHABET);
        }
        let h = hex(&msg);
        // RDLENGTH: exact, ±1, every field boundary (an embedded name then starts exactly at
        // cursor + RDLENGTH), 0, to the end of the message and one past it
        let mut lens: Vec<usize> = vec![rdlen, rdlen + 1, rdlen.saturating_sub(1), 0, msg.len() - cursor, msg.len() - cursor + 1];
        lens.extend(bounds.iter().copied());
        lens.extend(bounds.iter().map(|b| b + 1));
        lens.sort();
        lens.dedup();
        for l in lens {
            if l <= 65535 {
                emit(em, format!("rr {} {} {} {} {}", c, t, h, cursor, l));
            }
        }
        // cursor variations
        for cur in [cursor + 1, cursor.saturating_sub(1), msg.len(), msg.len() + 1, 0] {
            if rng.chance(1, 3) {
                let l = if rng.chance(1, 2) { rdlen } else { msg.len().saturating_sub(cur) };
                emit(em, format!("rr {} {} {} {} {}", c, t, h, cur, l.min(65535)));
            }
        }
        // the same region read as another type
        if rng.chance(1, 3) {
            let (c2, t2, _) = row(rng);
            emit(em, format!("rr {} {} {} {} {}", c2, t2, h, cursor, rdlen.min(65535)));
        }
    }
    // the boundary cases of the repaired defect, spelled out: name starting exactly at
    // cursor + RDLENGTH (RDLENGTH 0 NS-like, 2 MX, 6 SRV, |mname| SOA/MINFO), at the end of the
    // message and inside it
    for &(c, t, k) in ROWS {
        for (m, cur, len) in [("-", 0usize, 0usize), ("00", 1, 0), ("0000", 0, 2), ("000000000000", 0, 6),
                              ("016100", 0, 3), ("00", 0, 1), ("0001", 0, 1), ("ffffffffffffffff016100", 8, 0),
                              ("0000016100", 0, 2), ("000000000000016100", 0, 6), ("016100016200", 0, 3)] {
            emit(em, format!("rr {} {} {} {} {}", c, t, m, cur, len));
        }
        let _ = k;
    }
    // `cursor + rdlength` overflowing usize (no constraint from the property: such a cursor is not
    // an offset into any message); checks the model's overflow panic against the real code
    for (cur, len) in [(usize::MAX, 1usize), (usize::MAX, 0), (usize::MAX - 65534, 65535), (usize::MAX - 65535, 65535), (usize::MAX - 3, 4)] {
        for (c, t) in [(1u16, 1u16), (1, 2), (1, 15), (1, 99)] {
            emit(em, format!("rr {} {} 00000000 {} {}", c, t, cur, len));
        }
    }
}

/// thorough: every (cursor, rdlength) pair on short messages for every name-bearing row
fn gen_read_exhaustive(rng: &mut Rng, n_msgs: usize, rows: &[(u16, u16, Kind)], em: &mut Emitter) {
    const SYMS: [u8; 9] = [0, 1, 2, 0xc0, 0xc1, b'a', 63, 64, 0xff];
    for i in 0..n_msgs {
        let len = if i < 13 { i } else { rng.range(1, 12) };
        let mut msg: Vec<u8> = (0..len).map(|_| *rng.pick(&SYMS)).collect();
        // bias towards parsable content: small labels, pointers to small offsets
        for j in 0..len {
            if msg[j] == 0xc0 && j + 1 < len && rng.chance(2, 3) { msg[j + 1] = rng.below(len) as u8; }
        }
        let h = hex(&msg);
        for &(c, t, _) in rows {
            for cur in 0..=len + 1 {
                for l in 0..=len + 1 {
                    emit(em, format!("rr {} {} {} {} {}", c, t, h, cur, l));
                }
            }
        }
    }
}

// ---- equality, sets ----

/// a pool of RDATA for one row: a few base values, case variants, junk, truncations
fn pool(rng: &mut Rng, k: Kind) -> Vec<Vec<u8>> {
    let mut p: Vec<Vec<u8>> = Vec::new();
    for _ in 0..rng.range(1, 3) {
        let base = valid(rng, k);
        p.push(base.clone());
        for _ in 0..rng.below(4) {
            let mut v = base.clone();
            match rng.below(10) {
                0 | 1 | 2 => { // flip the case of letters
                    for b in v.iter_mut() { if b.is_ascii_alphabetic() && rng.chance(1, 2) { *b ^= 0x20; } }
                }
                3 => { for b in v.iter_mut() { if b.is_ascii_alphabetic() { *b = b.to_ascii_uppercase(); } } }
                4 => v.push(0xff),                                        // trailing junk
                5 => { v.pop(); }                                         // truncation
                6 => { for b in v.iter_mut() { if b.is_ascii_alphabetic() { *b ^= 0x20; } } v.push(0xff); }
                7 => { if !v.is_empty() { let i = rng.below(v.len()); v[i] ^= 0x20; } } // any octet (also non-letters, lengths)
                8 => { if !v.is_empty() { let i = rng.below(v.len()); v[i] = v[i].wrapping_add(1); } }
                _ => v = mutate(rng, k, v),
            }
            p.push(v);
        }
    }
    if rng.chance(1, 3) { let m = { let v = valid(rng, k); mutate(rng, k, v) }; p.push(m); }
    p
}

fn gen_equality(rng: &mut Rng, n: usize, thorough: bool, em: &mut Emitter) {
    let names = name_rows();
    // the recorded asymmetry witness (D08) and friends, for every name-bearing row
    for &(c, t, _) in &names {
        for (a, b) in [("016100", "016100ff"), ("016100ff", "016100"), ("016100", "014100"), ("016100ff", "014100ff"),
                       ("-", "-"), ("-", "00"), ("00", "00"), ("0000016100", "0000014100"), ("0000016100", "0001014100")] {
            emit(em, format!("req {} {} {} {}", c, t, a, b));
        }
    }
    // … and the case-only witness for every name-bearing row under the other classes
    for &(c0, t, k) in &names {
        for c in [1u16, 3, 4, 254, 4660] {
            if c == c0 { continue; }
            let base = valid(rng, k);
            let mut up = base.clone();
            for b in up.iter_mut() { if b.is_ascii_alphabetic() { *b ^= 0x20; } }
            emit(em, format!("req {} {} {} {}", c, t, hex(&base), hex(&up)));
            emit(em, format!("rset {} {} {}", c, t, list(vec![hex(&base), hex(&up), hex(&base)])));
        }
    }
    for _ in 0..n {
        let (c, t, k) = match rng.below(10) {
            0..=6 => *rng.pick(&names),
            7 => *rng.pick(&[ROWS[0], ROWS[15], ROWS[9], ROWS[12]]), // A, TXT, NULL, HINFO
            _ => row(rng),
        };
        // the same octets under *another* class: rows that are class-specific (SRV and A are
        // name-bearing in one class only) must fall back to octet-wise equality elsewhere
        let c = if rng.chance(1, 6) { *rng.pick(&[1u16, 3, 4, 254, 4660]) } else { c };
        let p = pool(rng, k);
        let a = rng.pick(&p).clone();
        let b = rng.pick(&p).clone();
        let d = rng.pick(&p).clone();
        match rng.below(if thorough { 3 } else { 4 }) {
            0 => emit(em, format!("req {} {} {} {}", c, t, hex(&a), hex(&b))),
            1 | 3 => emit(em, format!("req3 {} {} {} {} {}", c, t, hex(&a), hex(&b), hex(&d))),
            _ => {
                let m = rng.range(0, 7);
                let items: Vec<String> = (0..m).map(|_| { let i = rng.below(p.len()); hex(&p[i]) }).collect();
                emit(em, format!("rset {} {} {}", c, t, list(items)));
            }
        }
    }
    // sets with a large member (length prefix 0xffff) and an empty member
    let big = vec![7u8; 65535];
    emit(em, format!("rset 1 10 {},{},-,{},-", hex(&big), hex(&big[..300]), hex(&big)));
    emit(em, format!("rset 1 16 {},{}", hex(&big[..256]), hex(&big[..255])));
}

pub fn gen(rng: &mut Rng, thorough: bool, em: &mut Emitter) {
    let scale = if thorough { 20 } else { 1 };
    gen_validate(rng, 12_000 * scale, em);
    gen_read(rng, 3_000 * scale, em);
    gen_equality(rng, 10_000 * scale, thorough, em);
    let names = name_rows();
    if thorough {
        gen_read_exhaustive(rng, 400, &names, em);
    } else {
        let few: Vec<(u16, u16, Kind)> = [1usize, 5, 13, 14, 17, 20].iter().map(|i| ROWS[*i]).collect();
        gen_read_exhaustive(rng, 40, &few, em);
    }
}
