//! group `srvsafe` — C01 (no panic) and C02 (well-formed responses): generators aimed at the
//! panic sites and at the response structure of `Server::handle_message`.
//!
//! Case lines (the formats of group `server`, with the one time-dependent field made relative so
//! that requests carrying TSIG records replay deterministically):
//!   audq <payload> <catalog> <reqhex> <udp> <tcp>   → ok      (as `aud`: the driver audits the
//!        implementation's own octets; never re-compared on replay because of the TSIG time)
//!   srvq <u|t|r> <payload> <catalog> <reqhex>       → response hex | none | panic
//!        u / t: UDP / TCP; r: UDP on a server with response rate limiting ENABLED (a fresh server
//!        per case: the first response is never limited, so the octets are those of the RRL-less
//!        model). In the result the "time signed" field of a response TSIG record (last record,
//!        empty MAC — no keys are configured in this group) is replaced by `time − now`.
//!        Spec column `?` = anything but a panic.
//!   srvh <payload> <catalog> <keys> <ne> <nx> <er> <window> <slip> <v4len> <v6len> <size> <steps>
//!        one whole HISTORY against one server with response rate limiting enabled
//!        (→ `resp;resp;…`, one result per request step). `keys` as in group `srvtsig`.
//!        steps are `;`-separated:
//!          s<secs>                                        the hook `verif_rrl_shift(secs)`
//!          q,<src>,<u|t>,<reqhex>,<rcode>,<rnd>,<cands>   one request, result `hex|none|panic`
//!          g,<src>,<u|t>,<reqhex>,<sign>,<now>,<rcode>,<rnd>,<cands>
//!             one request SIGNED by the harness at the current wall-clock second (`sign` = the
//!             signing parameters of group `srvtsig` with `~` for `,`; `now` = that second, for the
//!             driver); result = `canonical_t` of group `srvtsig` (times relative, MAC replaced by
//!             the verdict of the harness's own RFC 8945 verification) | none | panic
//!          recorded inputs of the model (DESIGN §3.5): `rcode` = extended RCODE of the same request
//!          on a twin server without RRL (only used to key the probes); `cands` = `/`-separated
//!          `namehex:idx:dest:qhash`: the probe `verif_rrl_probe(src, name, rcode)` of the table's
//!          RandomState for every name the handler could hash (NOERROR: root, QNAME, every wildcard
//!          node `*.<ancestor of QNAME>` of the catalog, owner or empty non-terminal; other categories do not hash a name: one
//!          probe). The model decides itself which name is hashed. `rnd` = 1 iff a response was
//!          sent: for slip ≥ 2 this is the recorded outcome of `should_slip`'s random draw, which
//!          the model reads only when it has decided that the response is limited.
//!        The model runs on times (sum of shifts)·10⁹ ns; a history whose real duration exceeds
//!        0.4 s, or in which the wall-clock second changes during a request, is discarded (the
//!        whole seconds since a bucket's last refill are then exactly the shifts).
//!        Replay: the table's `RandomState` is fresh in every process, so `run` repeats the history
//!        until the pattern of equal bucket indices and equal name hashes among the recorded probes
//!        is reproduced (the model depends on nothing else of them) and the `rnd` bits are the
//!        recorded ones (at most 20000 times / 30 s; then the last result is reported).
//!
//! Streams: exhaustive short messages; zones with records of type 41/250/10/0/65535; malformed
//! RDATA of every name-bearing type; names of 255 octets and 63-octet labels in zone data and
//! QNAME; maximal CNAME chains; RRsets overflowing 65535-octet TCP responses; huge counts with
//! short bodies; compression pointers in the QNAME (backward into the header, forward, loops,
//! self); requests carrying (unauthenticated) TSIG records with short and maximal names, with and
//! without a question; every request mutated by `dns::mutate`.
#![allow(unused)]
use crate::common::*;
use crate::dns;
use crate::g_server::{self, emit_pair, enc_catalog, make_server, dec_catalog, Cat, Rec, ZoneCfg};
use quandary::server::{ReceivedInfo, Response, RrlParams, Server, Transport};
use std::net::{IpAddr, Ipv4Addr, Ipv6Addr};
use quandary::name::Name;
use quandary::message::ExtendedRcode;
use crate::g_srvtsig::{self, KeyCfg, Sign};

fn lname(labels: &[&[u8]]) -> Vec<u8> {
    dns::name_from_labels(&labels.iter().map(|l| l.to_vec()).collect::<Vec<_>>())
}

fn prefixed(label: &[u8], rest: &[u8]) -> Vec<u8> {
    let mut w = vec![label.len() as u8];
    w.extend_from_slice(label);
    w.extend_from_slice(rest);
    w
}

/// a name of exactly `total` octets (wire form) ending in `suffix`, made of maximal labels
fn long_name(total: usize, suffix: &[u8], fill: u8) -> Vec<u8> {
    let mut w = suffix.to_vec();
    while w.len() < total {
        let room = total - w.len();
        let l = if room >= 64 { 63 } else { room - 1 };
        if l == 0 { break; }
        let mut n = vec![l as u8];
        n.extend(std::iter::repeat(fill).take(l));
        n.extend_from_slice(&w);
        w = n;
    }
    w
}

fn soa_rdata(apex: &[u8], minimum: u32) -> Vec<u8> {
    let mut v = prefixed(b"ns", apex);
    v.extend(prefixed(b"h", apex));
    for x in [1u32, 7200, 3600, 86400, minimum] { v.extend_from_slice(&x.to_be_bytes()); }
    v
}

fn query(id: u16, qname: &[u8], qtype: u16, qclass: u16, edns: Option<u16>) -> Vec<u8> {
    let mut m = dns::header(id, 0x0100, 1, 0, 0, if edns.is_some() { 1 } else { 0 });
    m.extend(dns::question(qname, qtype, qclass));
    if let Some(p) = edns { m.extend(dns::rr(&[0], 41, p, 0, &[])); }
    m
}

/// an (unsigned, unauthenticated) TSIG record: RFC 8945 §4.2 layout
fn tsig_rr(key: &[u8], alg: &[u8], mac_len: usize, time: u64, id: u16) -> Vec<u8> {
    let mut rd = alg.to_vec();
    rd.extend_from_slice(&time.to_be_bytes()[2..8]);
    rd.extend_from_slice(&300u16.to_be_bytes());
    rd.extend_from_slice(&(mac_len as u16).to_be_bytes());
    rd.extend(std::iter::repeat(0xabu8).take(mac_len));
    rd.extend_from_slice(&id.to_be_bytes());
    rd.extend_from_slice(&[0, 0, 0, 0]);
    dns::rr(key, 250, 255, 0, &rd)
}

pub fn make_rrl_server(zs: &[ZoneCfg], payload: u16) -> Option<Server<Cat>> {
    let mut s = make_server(zs, payload)?;
    s.set_rrl_params(Some(RrlParams::new(1000, 1000, 1000, 15).ok()?));
    Some(s)
}

fn unix_now() -> u64 {
    std::time::SystemTime::now().duration_since(std::time::UNIX_EPOCH).map(|d| d.as_secs()).unwrap_or(0)
}

/// replace the "time signed" field of a trailing unsigned TSIG record by `time − now`
fn mask_time(resp: &[u8], now: u64) -> Vec<u8> {
    let mut out = resp.to_vec();
    let Some(d) = dns::decode_message(resp) else { return out };
    let Some(last) = d.ar.last() else { return out };
    if last.ty != 250 || last.rdata.len() < 16 || resp.len() < 16 { return out; }
    let n = resp.len();
    // … time(6) fudge(2) macsize(2)=0 origid(2) error(2) otherlen(2)=0
    if resp[n - 8] != 0 || resp[n - 7] != 0 || resp[n - 2] != 0 || resp[n - 1] != 0 { return out; }
    let mut t: u64 = 0;
    for b in &resp[n - 16..n - 10] { t = (t << 8) | *b as u64; }
    let rel = (t as i64).wrapping_sub(now as i64) as u64;
    out[n - 16..n - 10].copy_from_slice(&rel.to_be_bytes()[2..8]);
    out
}

/// run one request; the clock is sampled before and after and the call repeated until both
/// samples agree, so `now` is the second the server saw
fn handle_q(server: &Server<Cat>, req: &[u8], tcp: bool) -> (String, String) {
    for _ in 0..8 {
        let t0 = unix_now();
        let r = g_server::handle(server, req, tcp);
        let t1 = unix_now();
        if t0 != t1 { continue; }
        return match r {
            Ok(Some(b)) => (hex(&b), hex(&mask_time(&b, t0))),
            Ok(None) => ("none".into(), "none".into()),
            Err(()) => ("panic".into(), "panic".into()),
        };
    }
    ("none".into(), "clock".into())
}

pub fn run(op: &str, a: &[&str]) -> Option<String> {
    match (op, a) {
        ("srvq", [tr, payload, cat, req]) => {
            let (Some(zs), Some(req), Ok(payload)) = (dec_catalog(cat), unhex(req), payload.parse::<u16>()) else { return Some("bad-op".into()) };
            let server = if *tr == "r" { make_rrl_server(&zs, payload) } else { make_server(&zs, payload) };
            let Some(server) = server else { return Some("bad-op".into()) };
            Some(handle_q(&server, &req, *tr == "t").1)
        }
        ("audq", [_payload, _cat, _req, _udp, _tcp]) => Some("ok".into()),
        ("srvh", [payload, cat, keys, ne, nx, er, w, slip, v4, v6, size, steps]) => {
            let (Some(zs), Some(ks), Ok(payload)) = (dec_catalog(cat), dec_keys(keys), payload.parse::<u16>()) else { return Some("bad-op".into()) };
            let p: Option<Vec<u64>> = [ne, nx, er, w, slip, v4, v6, size].iter().map(|x| x.parse::<u64>().ok()).collect();
            let Some(p) = p else { return Some("bad-op".into()) };
            let mut hs = Vec::new();
            let mut recorded: Vec<&str> = Vec::new();
            let mut rec_rnd: Vec<bool> = Vec::new();
            for st in steps.split(';') {
                if let Some(r) = st.strip_prefix('s') { hs.push(HStep::Shift(r.parse().ok()?)); continue; }
                let f: Vec<&str> = st.split(',').collect();
                match f[0] {
                    "q" if f.len() == 7 => { hs.push(HStep::Q { src: src_unhex(f[1])?, udp: f[2] == "u", req: unhex(f[3])?, sign: None }); recorded.push(f[6]); rec_rnd.push(f[5] == "1"); }
                    "g" if f.len() == 9 => {
                        let sg = dec_sign(&f[4].replace('~', ","))?;
                        let req = unhex(f[3])?;
                        if req.len() < 12 { return Some("bad-op".into()); }
                        hs.push(HStep::Q { src: src_unhex(f[1])?, udp: f[2] == "u", req, sign: Some(sg) }); recorded.push(f[8]); rec_rnd.push(f[7] == "1");
                    }
                    _ => return Some("bad-op".into()),
                }
            }
            let want = pattern_of(&recorded);
            // replays: until the clock holds still, the collision pattern is the recorded one and (slip ≥ 2)
            // the random draws fall as recorded
            let t0 = std::time::Instant::now();
            let mut last: Option<String> = None;
            for _ in 0..20000 {
                if let Some(h) = exec_history(&zs, &ks, payload, &p, &hs) {
                    let got = pattern_of(&h.cands.iter().map(|x| x.as_str()).collect::<Vec<_>>());
                    if got == want && h.rnds == rec_rnd { return Some(h.res); }
                    last = Some(h.res);
                }
                if t0.elapsed() > std::time::Duration::from_secs(30) { break; }
            }
            Some(last.unwrap_or_else(|| "clock".into()))
        }
        _ => None,
    }
}

/// one request against one catalog: UDP/TCP pair (audit + model) and the RRL-enabled probe
fn emit_all(em: &mut Emitter, zs: &[ZoneCfg], payload: u16, cat: &str, server: &Server<Cat>, req: &[u8], rrl: bool) {
    let u = handle_q(server, req, false);
    let t = handle_q(server, req, true);
    let rh = hex(req);
    em.emit(&format!("audq {} {} {} {} {}", payload, cat, rh, u.0, t.0), "ok");
    em.emit(&format!("srvq u {} {} {}", payload, cat, rh), &u.1);
    em.emit(&format!("srvq t {} {} {}", payload, cat, rh), &t.1);
    if rrl {
        if let Some(s) = make_rrl_server(zs, payload) {
            em.emit(&format!("srvq r {} {} {}", payload, cat, rh), &handle_q(&s, req, false).1);
        }
    }
}

// ------------------------------------------------------------------------------------------
// zones
// ------------------------------------------------------------------------------------------

/// records of meta / odd types stored through the public zone API
fn odd_zone(rng: &mut Rng) -> ZoneCfg {
    let apex = lname(&[b"odd"]);
    let mut recs = vec![
        Rec { owner: apex.clone(), ty: 6, ttl: 60, rdata: soa_rdata(&apex, 30) },
        Rec { owner: apex.clone(), ty: 2, ttl: 60, rdata: prefixed(b"ns", &apex) },
        Rec { owner: prefixed(b"ns", &apex), ty: 1, ttl: 60, rdata: vec![192, 0, 2, 1] },
    ];
    let x = prefixed(b"x", &apex);
    for (ty, rd) in [(41u16, vec![0u8, 1, 0, 2, 0xab, 0xcd]), (250, vec![1, 2]), (10, vec![]), (10, vec![1, 2, 3]),
                     (0, vec![9]), (65535, vec![7, 7]), (255, vec![1]), (251, vec![2]), (252, vec![3]), (249, vec![4])] {
        if rng.chance(4, 5) { recs.push(Rec { owner: x.clone(), ty, ttl: 60, rdata: rd.clone() }); }
        if rng.chance(1, 3) { recs.push(Rec { owner: apex.clone(), ty, ttl: 60, rdata: rd.clone() }); }
        if rng.chance(1, 3) { recs.push(Rec { owner: prefixed(b"*", &apex), ty, ttl: 60, rdata: rd }); }
    }
    let mut uniq = std::collections::HashSet::new();
    recs.retain(|r| uniq.insert((r.owner.clone(), r.ty, r.rdata.clone())));
    ZoneCfg { kind: 'L', apex, class: *rng.pick(&[1u16, 1, 3]), glue_wide: rng.chance(1, 2), recs }
}

/// malformed RDATA for every type whose RDATA the server or the writer parses
fn malformed_zone(rng: &mut Rng) -> ZoneCfg {
    let apex = lname(&[b"bad"]);
    let class = *rng.pick(&[1u16, 1, 3]);
    let mut recs = Vec::new();
    if rng.chance(2, 3) {
        let soa = match rng.below(5) {
            0 => soa_rdata(&apex, 5),
            1 => vec![],
            2 => { let mut v = soa_rdata(&apex, 5); v.truncate(v.len() - 1); v }
            3 => { let mut v = soa_rdata(&apex, 5); v.push(0); v }
            _ => vec![0xc0, 0x0c, 0],
        };
        recs.push(Rec { owner: apex.clone(), ty: 6, ttl: 60, rdata: soa });
    }
    let bads: Vec<Vec<u8>> = vec![
        vec![], vec![0], vec![0, 0], vec![5, b'a'], vec![1, b'a', 0, 7], vec![0xc0, 0x0c], vec![64, b'a'],
        vec![1, b'a'], { let mut v = long_name(255, &[0], b'q'); v[0] = 63; v.insert(0, 1); v.insert(1, b'z'); v },
        vec![0, 1], vec![0, 1, 5, b'a'], vec![0, 0, 0, 0, 0, 0], vec![0, 0, 0, 0, 0, 0, 3, b'a'],
    ];
    let good = prefixed(b"t", &apex);
    // name-bearing types: NS MD MF CNAME SOA MB MG MR PTR MINFO MX SRV, A in class CH
    for ty in [2u16, 3, 4, 5, 7, 8, 9, 12, 14, 15, 33, 1, 6] {
        let owner = if ty == 5 { prefixed(b"c", &apex) } else if rng.chance(1, 2) { prefixed(b"m", &apex) } else { prefixed(&[b'a' + (ty % 26) as u8], &apex) };
        let k = rng.range(1, 3);
        for _ in 0..k {
            let rd = if rng.chance(1, 4) {
                match ty { 15 => { let mut v = vec![0, 1]; v.extend(&good); v } 33 => { let mut v = vec![0; 6]; v.extend(&good); v } 1 => vec![10, 0, 0, 1], _ => good.clone() }
            } else { rng.pick(&bads).clone() };
            recs.push(Rec { owner: owner.clone(), ty, ttl: 30, rdata: rd });
        }
    }
    // a delegation whose NS RDATA is partly malformed
    let child = prefixed(b"sub", &apex);
    recs.push(Rec { owner: child.clone(), ty: 2, ttl: 30, rdata: rng.pick(&bads).clone() });
    recs.push(Rec { owner: child.clone(), ty: 2, ttl: 30, rdata: prefixed(b"ns", &child) });
    recs.push(Rec { owner: prefixed(b"ns", &child), ty: 1, ttl: 30, rdata: vec![10, 0, 0, 2] });
    recs.push(Rec { owner: good.clone(), ty: 1, ttl: 30, rdata: vec![10, 0, 0, 3] });
    let mut uniq = std::collections::HashSet::new();
    recs.retain(|r| uniq.insert((r.owner.clone(), r.ty, r.rdata.clone())));
    ZoneCfg { kind: 'L', apex, class, glue_wide: rng.chance(1, 2), recs }
}

/// 255-octet names and 63-octet labels everywhere
fn long_zone(rng: &mut Rng) -> (ZoneCfg, Vec<Vec<u8>>) {
    let apex = if rng.chance(1, 2) { lname(&[b"l"]) } else { long_name(130, &[0], b'p') };
    let l63 = vec![b'x'; 63];
    let max = long_name(255, &apex, b'm');
    let max2 = long_name(255, &apex, b'n');
    let near = long_name(254, &apex, b'k');
    let below = prefixed(&l63, &apex);
    let mut recs = vec![
        Rec { owner: apex.clone(), ty: 6, ttl: 60, rdata: { let mut v = max.clone(); v.extend(&max2); for x in [1u32, 2, 3, 4, 5] { v.extend_from_slice(&x.to_be_bytes()); } v } },
        Rec { owner: apex.clone(), ty: 2, ttl: 60, rdata: max.clone() },
        Rec { owner: max.clone(), ty: 1, ttl: 60, rdata: vec![10, 1, 1, 1] },
        Rec { owner: max.clone(), ty: 28, ttl: 60, rdata: vec![0x20; 16] },
        Rec { owner: max2.clone(), ty: 5, ttl: 60, rdata: max.clone() },
        Rec { owner: near.clone(), ty: 15, ttl: 60, rdata: { let mut v = vec![0, 5]; v.extend(&max); v } },
        Rec { owner: below.clone(), ty: 33, ttl: 60, rdata: { let mut v = vec![0; 6]; v.extend(&max); v } },
        Rec { owner: below.clone(), ty: 16, ttl: 60, rdata: { let mut v = vec![255]; v.extend(vec![b't'; 255]); v } },
    ];
    // a delegation below a long name, with glue at maximal names
    if apex.len() < 100 {
        let child = long_name(180, &apex, b'd');
        let ns1 = long_name(255, &child, b'g');
        recs.push(Rec { owner: child.clone(), ty: 2, ttl: 60, rdata: ns1.clone() });
        recs.push(Rec { owner: ns1, ty: 1, ttl: 60, rdata: vec![10, 2, 2, 2] });
        recs.push(Rec { owner: child.clone(), ty: 2, ttl: 60, rdata: max.clone() });
    }
    let names = vec![apex.clone(), max, max2, near, below, long_name(255, &apex, b'z'), prefixed(b"*", &apex)];
    (ZoneCfg { kind: 'L', apex, class: 1, glue_wide: rng.chance(1, 2), recs }, names)
}

/// CNAME chains of every length around MAX_CNAME_CHAIN_LEN, loops, chains into delegations / NXDOMAIN
fn chain_zone(rng: &mut Rng, len: usize, end: usize) -> (ZoneCfg, Vec<u8>) {
    let apex = lname(&[b"ch"]);
    let nm = |i: usize| -> Vec<u8> { prefixed(format!("c{}", i).as_bytes(), &apex) };
    let mut recs = vec![
        Rec { owner: apex.clone(), ty: 6, ttl: 60, rdata: soa_rdata(&apex, 10) },
        Rec { owner: apex.clone(), ty: 2, ttl: 60, rdata: prefixed(b"ns", &apex) },
    ];
    for i in 0..len { recs.push(Rec { owner: nm(i), ty: 5, ttl: 20, rdata: nm(i + 1) }); }
    match end {
        0 => recs.push(Rec { owner: nm(len), ty: 1, ttl: 20, rdata: vec![10, 9, 9, 9] }),
        1 => recs.push(Rec { owner: nm(len), ty: 5, ttl: 20, rdata: nm(rng.below(len + 1)) }), // loop
        2 => recs.push(Rec { owner: nm(len), ty: 5, ttl: 20, rdata: lname(&[b"out", b"side"]) }), // leaves the zone
        3 => { recs.push(Rec { owner: nm(len), ty: 2, ttl: 20, rdata: prefixed(b"ns", &nm(len)) }); // delegation
               recs.push(Rec { owner: prefixed(b"ns", &nm(len)), ty: 1, ttl: 20, rdata: vec![10, 8, 8, 8] }); }
        4 => recs.push(Rec { owner: nm(len), ty: 15, ttl: 20, rdata: { let mut v = vec![0, 1]; v.extend(nm(0)); v } }),
        _ => {} // NXDOMAIN at the end
    }
    let first = nm(0);
    (ZoneCfg { kind: 'L', apex: apex.clone(), class: 1, glue_wide: false, recs }, first)
}

/// RRsets that do not fit 65535 octets
fn huge_zone(rng: &mut Rng, n: usize, ty: u16) -> ZoneCfg {
    let apex = lname(&[b"huge"]);
    let mut recs = vec![Rec { owner: apex.clone(), ty: 6, ttl: 60, rdata: soa_rdata(&apex, 10) }];
    let owner = prefixed(b"w", &apex);
    for i in 0..n {
        let rd: Vec<u8> = match ty {
            16 => { let mut v = vec![99u8]; v.extend(format!("{:099}", i).as_bytes()); v }
            2 => prefixed(format!("n{}", i).as_bytes(), &long_name(200, &apex, b'h')),
            _ => { let mut v = vec![(i >> 8) as u8, i as u8]; v.extend(prefixed(format!("m{}", i).as_bytes(), &long_name(200, &apex, b'h'))); v }
        };
        recs.push(Rec { owner: owner.clone(), ty, ttl: 10, rdata: rd });
    }
    ZoneCfg { kind: 'L', apex, class: 1, glue_wide: false, recs }
}

/// An MX RRset of `pairs` pairs of records sharing an exchange name (the second of a pair is written
/// as a pointer to the first's exchange name), after one record whose exchange name is `pad` octets
/// longer: over TCP the response passes 16 KiB and, for one `pad`, an exchange name starts exactly at
/// offset 16384 — the first offset a 14-bit compression pointer cannot express (C02/C13).
fn pointer_limit_zone(pad: usize, pairs: usize) -> (ZoneCfg, Vec<u8>) {
    let apex = lname(&[b"pl"]);
    let owner = prefixed(b"q", &apex);
    let mut recs = vec![Rec { owner: apex.clone(), ty: 6, ttl: 60, rdata: soa_rdata(&apex, 10) }];
    let mx = |pref: u16, ex: &[u8]| { let mut v = pref.to_be_bytes().to_vec(); v.extend_from_slice(ex); v };
    let first = prefixed(&vec![b'p'; 1 + pad], &apex);
    recs.push(Rec { owner: owner.clone(), ty: 15, ttl: 10, rdata: mx(0, &first) });
    for k in 0..pairs {
        let ex = prefixed(format!("e{:04}", k).as_bytes(), &apex);
        recs.push(Rec { owner: owner.clone(), ty: 15, ttl: 10, rdata: mx(1, &ex) });
        recs.push(Rec { owner: owner.clone(), ty: 15, ttl: 10, rdata: mx(2, &ex) });
    }
    (ZoneCfg { kind: 'L', apex, class: 1, glue_wide: false, recs }, owner)
}

// ------------------------------------------------------------------------------------------
// requests
// ------------------------------------------------------------------------------------------

/// QNAMEs that use compression pointers: into the header, forward, to themselves, in loops
fn pointer_queries(rng: &mut Rng) -> Vec<Vec<u8>> {
    let mut out = Vec::new();
    let bodies: Vec<Vec<u8>> = vec![
        vec![0xc0, 0x00], vec![0xc0, 0x02], vec![0xc0, 0x0b], vec![0xc0, 0x0c], vec![0xc0, 0x0d], vec![0xc0, 0x0e],
        vec![0xff, 0xff], vec![0xc0], vec![1, b'a', 0xc0, 0x0c], vec![1, b'a', 0xc0, 0x0e], vec![1, b'a', 0xc0, 0x00],
        vec![1, b'a', 0xc0, 0x04], vec![3, b'o', b'd', b'd', 0xc0, 0x05], vec![0xc0, 0x10, 0, 1, 0, 1, 1, b'a', 0],
        vec![1, b'a', 0xc0, 0x12, 0, 1, 0, 1, 3, b'o', b'd', b'd', 0], vec![63, b'a'], vec![64], vec![0x80, 0x00], vec![0x40, 0x00],
    ];
    // well-delimited names whose length octets use the reserved label types 0b01 / 0b10 (0x40–0xBF)
    // *with* that many octets following and a proper end — a parser that masks the wrong bits reads
    // them as labels of 64–191 octets and echoes an illegal name (C02: every name well formed)
    let mut bodies = bodies;
    for first in [0x40u8, 0x41, 0x7f, 0x80, 0x85, 0xa0, 0xbf] {
        for prefix in [false, true] {
            let mut b: Vec<u8> = if prefix { vec![3, b'w', b'w', b'w'] } else { vec![] };
            b.push(first);
            b.extend(std::iter::repeat(b'x').take(first as usize));
            b.extend_from_slice(&[3, b'o', b'd', b'd', 0, 0, 1, 0, 1]);
            bodies.push(b);
        }
    }
    for b in bodies {
        for (qd, an, ar) in [(1u16, 0u16, 0u16), (1, 1, 0), (1, 0, 1), (0, 1, 0), (0, 0, 1)] {
            let mut m = dns::header(rng.next() as u16, if rng.chance(1, 2) { 0x0100 } else { 0 }, qd, an, 0, ar);
            // the header octets a pointer may land on
            if rng.chance(1, 2) { m[4] = 3; m[5] = b'o'; }
            m.extend_from_slice(&b);
            if b.len() <= 6 { m.extend_from_slice(&[0, 1, 0, 1]); }
            if rng.chance(1, 3) { m.extend_from_slice(&[0, 0, 41, 4, 208, 0, 0, 0, 0, 0, 0]); }
            out.push(m);
        }
    }
    out
}

/// huge counts, short bodies
fn count_queries(rng: &mut Rng) -> Vec<Vec<u8>> {
    let mut out = Vec::new();
    for qd in [0u16, 1] {
        for (an, ns, ar) in [(65535u16, 0u16, 0u16), (0, 65535, 0), (0, 0, 65535), (65535, 65535, 65535), (32768, 32768, 1), (1, 0, 65535), (0, 1, 2)] {
            let mut m = dns::header(rng.next() as u16, 0x0100, qd, an, ns, ar);
            if qd == 1 { m.extend(dns::question(&lname(&[b"odd"]), 1, 1)); }
            let k = rng.below(4);
            for _ in 0..k {
                match rng.below(4) {
                    0 => m.extend(dns::rr(&[0], 41, 1232, 0, &[])),
                    1 => m.extend(dns::rr(&dns::pointer(12), 1, 1, 5, &[1, 2, 3, 4])),
                    2 => m.extend(dns::rr(&[0], 16, 1, 0, &[0])),
                    _ => m.extend(tsig_rr(&lname(&[b"k"]), &lname(&[b"hmac-sha256"]), 32, 1_700_000_000, 7)),
                }
            }
            out.push(m);
        }
    }
    out
}

/// requests carrying TSIG records (no keys are configured: BADKEY; unknown algorithms; the record
/// too large for the response limit; no question; TSIG not last; bad class / TTL; short MACs)
fn tsig_queries(rng: &mut Rng, qnames: &[Vec<u8>]) -> Vec<Vec<u8>> {
    let mut out = Vec::new();
    let keys: Vec<Vec<u8>> = vec![lname(&[b"k"]), long_name(255, &[0], b'k'), long_name(200, &[0], b'K'), vec![0]];
    let algs: Vec<Vec<u8>> = vec![lname(&[b"hmac-sha256"]), lname(&[b"HMAC-SHA1"]), lname(&[b"hmac-md5", b"sig-alg", b"reg", b"int"]),
        long_name(255, &[0], b'a'), long_name(230, &[0], b'b'), vec![0]];
    for key in &keys {
        for alg in &algs {
            for qd in [0u16, 1] {
                let qname = rng.pick(qnames).clone();
                let with_opt = rng.chance(1, 3);
                let mut m = dns::header(rng.next() as u16, 0x0100, qd, 0, 0, 1 + with_opt as u16);
                if qd == 1 { m.extend(dns::question(&qname, *rng.pick(&[1u16, 255, 6]), 1)); }
                if with_opt { m.extend(dns::rr(&[0], 41, *rng.pick(&[512u16, 1232, 4096]), 0, &[])); }
                let mac = *rng.pick(&[0usize, 9, 10, 16, 20, 32, 33]);
                m.extend(tsig_rr(key, alg, mac, 1_700_000_000, 7));
                match rng.below(10) {
                    0 => { m.extend(dns::rr(&[0], 16, 1, 0, &[0])); m[11] += 1; } // TSIG not last
                    1 => { let n = m.len(); m[n - 1] ^= 1; }
                    _ => {}
                }
                out.push(m);
            }
        }
    }
    out
}

fn requests_for(rng: &mut Rng, zs: &[ZoneCfg], extra_names: &[Vec<u8>], n: usize) -> Vec<Vec<u8>> {
    let mut names: Vec<Vec<u8>> = extra_names.to_vec();
    let mut types: Vec<u16> = vec![1, 2, 5, 6, 15, 16, 28, 33, 255, 41, 250, 10, 0, 65535, 12, 14];
    for z in zs {
        names.push(z.apex.clone());
        for r in &z.recs {
            names.push(r.owner.clone());
            types.push(r.ty);
            if r.owner.len() + 2 <= 255 { names.push(prefixed(b"q", &r.owner)); }
        }
    }
    names.push(lname(&[b"nowhere"]));
    let mut out = Vec::new();
    for _ in 0..n {
        let mut qname = rng.pick(&names).clone();
        if rng.chance(1, 5) { for b in qname.iter_mut() { if b.is_ascii_lowercase() && rng.chance(1, 2) { *b ^= 0x20; } } }
        let qtype = *rng.pick(&types);
        let qclass = if rng.chance(1, 12) { *rng.pick(&[255u16, 3, 4, 254]) } else { zs.first().map(|z| z.class).unwrap_or(1) };
        let edns = if rng.chance(1, 2) { Some(*rng.pick(&[0u16, 512, 1232, 4096, 65535])) } else { None };
        out.push(query(rng.next() as u16, &qname, qtype, qclass, edns));
    }
    out
}

/// every length 0..=14 × counts × a small alphabet in the variable part
fn short_messages(rng: &mut Rng, thorough: bool, em: &mut Emitter, zs: &[ZoneCfg], server: &Server<Cat>, cat: &str) {
    let alphabet: [u8; 6] = [0, 1, 0xc0, 0x0c, 41, 250];
    for len in 0..=14usize {
        for flags in [0x0100u16, 0x0000, 0x8000, 0x2800] {
            for qd in 0..=2u16 { for an in 0..=1u16 { for ns in 0..=1u16 { for ar in 0..=2u16 {
                if !thorough && flags != 0x0100 && rng.chance(2, 3) { continue; }
                let hdr = dns::header(7, flags, qd, an, ns, ar);
                let tail = len.saturating_sub(12);
                let combos: Vec<Vec<u8>> = match tail {
                    0 => vec![vec![]],
                    1 => alphabet.iter().map(|a| vec![*a]).collect(),
                    _ => {
                        let mut v = Vec::new();
                        for a in alphabet { for b in alphabet { v.push(vec![a, b]); } }
                        v
                    }
                };
                for c in combos {
                    if !thorough && tail == 2 && rng.chance(3, 4) { continue; }
                    let mut m = hdr.clone();
                    m.extend_from_slice(&c);
                    m.truncate(len);
                    emit_all(em, zs, 1232, cat, server, &m, thorough || rng.chance(1, 4));
                }
            }}}}
        }
    }
}

// ------------------------------------------------------------------------------------------
// histories against one RRL-enabled server (op `srvh`)
// ------------------------------------------------------------------------------------------

#[derive(Clone, Debug)]
enum HStep { Shift(u64), Q { src: IpAddr, udp: bool, req: Vec<u8>, sign: Option<Sign> } }

// the encodings of group `srvtsig` (private there)
fn enc_keys(ks: &[KeyCfg]) -> String {
    if ks.is_empty() { return "-".into(); }
    ks.iter().map(|k| format!("{}/{}/{}", hex(&k.name), if k.sha256 { 256 } else { 1 }, hex(&k.secret))).collect::<Vec<_>>().join(",")
}

fn dec_keys(s: &str) -> Option<Vec<KeyCfg>> {
    if s == "-" { return Some(vec![]); }
    let mut out = Vec::new();
    for k in s.split(',') {
        let f: Vec<&str> = k.split('/').collect();
        if f.len() != 3 { return None; }
        out.push(KeyCfg { name: unhex(f[0])?, sha256: match f[1] { "1" => false, "256" => true, _ => return None }, secret: unhex(f[2])? });
    }
    Some(out)
}

fn enc_sign(s: &Sign) -> String {
    format!("{},{},{},{},{},{},{},{},{},{},{},{},{},{},{}", hex(&s.skey), hex(&s.salg), if s.sha256 { 256 } else { 1 }, hex(&s.secret),
            s.offset, s.fudge, s.maclen, match s.tamper { None => "-".to_string(), Some((p, x)) => format!("{}x{}", p, x) },
            s.tweak, s.idmode, s.err, hex(&s.other), s.cls, s.ttl, s.place)
}

fn dec_sign(s: &str) -> Option<Sign> {
    let f: Vec<&str> = s.split(',').collect();
    if f.len() != 15 { return None; }
    let tamper = if f[7] == "-" { None } else {
        let g: Vec<&str> = f[7].split('x').collect();
        if g.len() != 2 { return None; }
        Some((g[0].parse().ok()?, g[1].parse().ok()?))
    };
    Some(Sign {
        skey: unhex(f[0])?, salg: unhex(f[1])?, sha256: match f[2] { "1" => false, "256" => true, _ => return None },
        secret: unhex(f[3])?, offset: f[4].parse().ok()?, fudge: f[5].parse().ok()?, maclen: f[6].parse().ok()?, tamper,
        tweak: f[8].parse().ok()?, idmode: f[9].parse().ok()?, err: f[10].parse().ok()?, other: unhex(f[11])?,
        cls: f[12].parse().ok()?, ttl: f[13].parse().ok()?, place: f[14].to_string(),
    })
}

fn src_hex(a: &IpAddr) -> String {
    match a { IpAddr::V4(v) => format!("{:08x}", u32::from(*v)), IpAddr::V6(v) => format!("{:032x}", u128::from(*v)) }
}

fn src_unhex(s: &str) -> Option<IpAddr> {
    if s.len() == 8 { Some(IpAddr::V4(Ipv4Addr::from(u32::from_str_radix(s, 16).ok()?))) }
    else if s.len() == 32 { Some(IpAddr::V6(Ipv6Addr::from(u128::from_str_radix(s, 16).ok()?))) }
    else { None }
}

/// "IPv4-mapped IPv6 counts as IPv4" (for the probe only; the server does its own canonicalisation)
fn canonical(a: IpAddr) -> IpAddr {
    match a {
        IpAddr::V6(v) => { let n = u128::from(v); if n >> 32 == 0xffff { IpAddr::V4(Ipv4Addr::from(n as u32)) } else { a } }
        _ => a,
    }
}

fn ext_rcode_of(resp: &[u8]) -> u16 {
    let low = (resp.get(3).copied().unwrap_or(0) & 0x0f) as u16;
    match dns::decode_message(resp) {
        Some(d) => match d.ar.iter().find(|r| r.ty == 41) { Some(o) => low | (((o.ttl >> 24) as u16) << 4), None => low },
        None => low,
    }
}

fn lower(w: &[u8]) -> Vec<u8> { w.iter().map(|b| b.to_ascii_lowercase()).collect() }

/// every name the handler could hash for a NOERROR response to this request: root, QNAME, every
/// wildcard node `*.<ancestor of QNAME>` of the catalog
fn candidate_names(zs: &[ZoneCfg], req: &[u8]) -> Vec<Vec<u8>> {
    let mut v: Vec<Vec<u8>> = vec![vec![0]];
    let qname = if req.len() > 12 { dns::decode_name(req, 12).map(|x| x.0) } else { None };
    if let Some(q) = &qname {
        v.push(q.clone());
        // proper suffixes (ancestors) of QNAME, lower case
        let mut anc: Vec<Vec<u8>> = Vec::new();
        let mut p = 0usize;
        while p < q.len() && q[p] != 0 { p += 1 + q[p] as usize; if p <= q.len() { anc.push(lower(&q[p..])); } }
        // wildcard nodes of the zones (owners and empty non-terminals): every `*.<ancestor of QNAME>` suffix of an owner
        for z in zs { for r in &z.recs {
            let mut p = 0usize;
            while p < r.owner.len() && r.owner[p] != 0 {
                let l = r.owner[p] as usize;
                if l == 1 && r.owner.get(p + 1) == Some(&b'*') && anc.contains(&lower(&r.owner[p + 2..])) { v.push(r.owner[p..].to_vec()); }
                p += 1 + l;
            }
        }}
    }
    v.sort(); v.dedup();
    v
}

/// which probes share a bucket index / a name hash (first-occurrence numbering)
fn pattern_of(cands: &[&str]) -> Vec<(usize, usize)> {
    let mut idx: Vec<&str> = Vec::new();
    let mut qh: Vec<&str> = Vec::new();
    let mut out = Vec::new();
    for step in cands { for c in step.split('/') {
        let f: Vec<&str> = c.split(':').collect();
        if f.len() != 4 { continue; }
        let a = match idx.iter().position(|x| *x == f[1]) { Some(i) => i, None => { idx.push(f[1]); idx.len() - 1 } };
        let b = match qh.iter().position(|x| *x == f[3]) { Some(i) => i, None => { qh.push(f[3]); qh.len() - 1 } };
        out.push((a, b));
    }}
    out
}

struct History { text: String, res: String, cands: Vec<String>, rnds: Vec<bool> }

/// run a history; `None` = the real clock advanced too far (or crossed a second during a request)
fn exec_history(zs: &[ZoneCfg], keys: &[KeyCfg], payload: u16, p: &[u64], steps: &[HStep]) -> Option<History> {
    let reference = g_srvtsig::make_server(zs, payload, keys)?;
    let mut server = g_srvtsig::make_server(zs, payload, keys)?;
    let mut params = RrlParams::new(p[0] as u32, p[1] as u32, p[2] as u32, p[3] as u32).ok()?;
    params.set_slip(p[4] as usize);
    params.set_ipv4_prefix_len(p[5] as u8).ok()?;
    params.set_ipv6_prefix_len(p[6] as u8).ok()?;
    params.set_size(p[7] as usize).ok()?;
    let t_start = std::time::Instant::now();
    server.set_rrl_params(Some(params));
    let mut parts = Vec::new();
    let mut res = Vec::new();
    let mut all_cands = Vec::new();
    let mut rnds = Vec::new();
    let mut buf = vec![0u8; 65535];
    for st in steps {
        match st {
            HStep::Shift(secs) => { server.verif_rrl_shift(*secs); parts.push(format!("s{}", secs)); }
            HStep::Q { src, udp, req, sign } => {
                let tr = if *udp { Transport::Udp } else { Transport::Tcp };
                let t0 = unix_now();
                if let Some(s) = sign.as_ref() { if g_srvtsig::degenerate(req, s) { return None; } }
                let signed = sign.as_ref().map(|s| g_srvtsig::sign_request(req, s, t0));
                let wire: &[u8] = match &signed { Some(sg) => &sg.msg[..], None => &req[..] };
                let rcode = match reference.handle_message(wire, ReceivedInfo::new(*src, tr), &mut buf[..]) {
                    Response::Single(n) => ext_rcode_of(&buf[..n]),
                    Response::None => 0,
                };
                let names = if rcode == 0 { candidate_names(zs, req) } else { vec![vec![0]] };
                let mut cands = Vec::new();
                for w in names {
                    if let Ok(n) = Name::try_from_uncompressed_all(&w[..]) {
                        let (idx, dest, qh) = server.verif_rrl_probe(canonical(*src), &n, ExtendedRcode::from(rcode))?;
                        cands.push(format!("{}:{}:{}:{}", hex(&w), idx, dest, qh));
                    }
                }
                let got = std::panic::catch_unwind(std::panic::AssertUnwindSafe(|| {
                    match server.handle_message(wire, ReceivedInfo::new(*src, tr), &mut buf[..]) {
                        Response::Single(n) => Some(n),
                        Response::None => None,
                    }
                }));
                // the wall clock enters signed requests and TSIG records of responses: it must hold still
                if unix_now() != t0 { return None; }
                let rnd = matches!(got, Ok(Some(_)));
                let cands = cands.join("/");
                match (&signed, sign) {
                    (Some(sg), Some(s)) => {
                        let e = (sg.mac_off + sg.mac_len).min(sg.msg.len());
                        let prior = sg.msg[sg.mac_off.min(e)..e].to_vec();
                        res.push(match got { Ok(Some(n)) => g_srvtsig::canonical_t(&buf[..n], t0, keys, &prior), Ok(None) => "none".into(), Err(_) => "panic".into() });
                        parts.push(format!("g,{},{},{},{},{},{},{},{}", src_hex(src), if *udp { "u" } else { "t" }, hex(req), enc_sign(s).replace(',', "~"), t0, rcode, rnd as u8, cands));
                    }
                    _ => {
                        // the one wall-clock field of such a response (time signed of an unsigned TSIG error) is made relative
                        res.push(match got { Ok(Some(n)) => hex(&mask_time(&buf[..n], t0)), Ok(None) => "none".into(), Err(_) => "panic".into() });
                        parts.push(format!("q,{},{},{},{},{},{}", src_hex(src), if *udp { "u" } else { "t" }, hex(req), rcode, rnd as u8, cands));
                    }
                }
                all_cands.push(cands);
                rnds.push(rnd);
                // a panic inside the RRL step poisons the bucket mutex: nothing more can be asked of
                // this server (the history ends here, with the panic recorded as its last result)
                if res.last().map(|r| r == "panic").unwrap_or(false) { break; }
            }
        }
    }
    if t_start.elapsed() > std::time::Duration::from_millis(400) { return None; }
    Some(History { text: parts.join(";"), res: res.join(";"), cands: all_cands, rnds })
}

/// a zone with wildcards at several depths, an empty non-terminal `*`, a delegation, CNAMEs
fn wild_zone(rng: &mut Rng) -> ZoneCfg {
    let apex = lname(&[b"w"]);
    let mut recs = vec![
        Rec { owner: apex.clone(), ty: 6, ttl: 60, rdata: soa_rdata(&apex, 30) },
        Rec { owner: apex.clone(), ty: 2, ttl: 60, rdata: prefixed(b"ns", &apex) },
        Rec { owner: prefixed(b"ns", &apex), ty: 1, ttl: 60, rdata: vec![192, 0, 2, 1] },
        Rec { owner: prefixed(b"*", &apex), ty: 1, ttl: 60, rdata: vec![192, 0, 2, 9] },
        Rec { owner: prefixed(b"*", &apex), ty: 16, ttl: 60, rdata: vec![1, b'x'] },
        Rec { owner: prefixed(b"*", &prefixed(b"sub", &apex)), ty: 15, ttl: 60, rdata: { let mut v = vec![0, 1]; v.extend(prefixed(b"ns", &apex)); v } },
        Rec { owner: prefixed(b"a", &prefixed(b"*", &prefixed(b"ent", &apex))), ty: 1, ttl: 60, rdata: vec![192, 0, 2, 7] },
        Rec { owner: prefixed(b"host", &apex), ty: 1, ttl: 60, rdata: vec![192, 0, 2, 2] },
        Rec { owner: prefixed(b"al", &apex), ty: 5, ttl: 60, rdata: prefixed(b"zz", &apex) },
        Rec { owner: prefixed(b"deleg", &apex), ty: 2, ttl: 60, rdata: prefixed(b"ns", &prefixed(b"deleg", &apex)) },
        Rec { owner: prefixed(b"ns", &prefixed(b"deleg", &apex)), ty: 1, ttl: 60, rdata: vec![192, 0, 2, 3] },
    ];
    if rng.chance(1, 2) { recs.push(Rec { owner: prefixed(b"*", &apex), ty: 5, ttl: 60, rdata: prefixed(b"host", &apex) }); recs.retain(|r| !(r.owner == prefixed(b"*", &apex) && r.ty != 5)); }
    ZoneCfg { kind: 'L', apex, class: 1, glue_wide: false, recs }
}

fn gen_histories(rng: &mut Rng, thorough: bool, em: &mut Emitter) {
    let n = if thorough { 1500 } else { 160 };
    let d17 = {
        let mut m = dns::header(0x1234, 0x0100, 0, 0, 0, 1);
        m.extend(tsig_rr(&long_name(255, &[0], b'k'), &long_name(220, &[0], b'a'), 0, 1_700_000_000, 7));
        m
    };
    for _ in 0..n {
        let zs: Vec<ZoneCfg> = match rng.below(4) { 0 => vec![odd_zone(rng)], 1 => vec![wild_zone(rng), odd_zone(rng)], _ => vec![wild_zone(rng)] };
        let payload = *rng.pick(&[512u16, 1232, 4096]);
        let rate = rng.range(1, 3) as u64;
        let size = *rng.pick(&[1u64, 2, 3, 17, 1009, 65537, 65537]);
        // small tables: few streams, so that the collision pattern of a history can be reproduced on replay
        let small = size < 1000;
        let p: Vec<u64> = vec![rate, rng.range(1, 2) as u64, rng.range(1, 2) as u64, rng.range(1, 2) as u64, *rng.pick(&[0u64, 1, 1, 2, 3]),
            *rng.pick(&[24u64, 32, 8, 0]), *rng.pick(&[56u64, 64, 0]), size];
        let keys: Vec<KeyCfg> = if rng.chance(1, 2) { vec![] } else {
            let sha256 = rng.chance(2, 3);
            vec![KeyCfg { name: lname(&[b"Hk", b"keys"]), sha256, secret: (0..*rng.pick(&[16usize, 32, 64, 100])).map(|_| rng.byte()).collect() }]
        };
        let apex = zs[0].apex.clone();
        let mut srcs: Vec<IpAddr> = vec![
            IpAddr::V4(Ipv4Addr::new(192, 0, 2, 1)), IpAddr::V4(Ipv4Addr::new(192, 0, 2, 77)), IpAddr::V4(Ipv4Addr::new(198, 51, 100, 5)),
            IpAddr::V6(Ipv6Addr::from(0x2001_0db8_0000_0000_0000_0000_0000_0001u128)),
            IpAddr::V6(Ipv6Addr::from(0x0000_0000_0000_0000_0000_ffff_c000_0201u128)), // ::ffff:192.0.2.1
        ];
        if small { let k = rng.below(srcs.len()); srcs = vec![srcs[0], srcs[k]]; }
        // a small pool of requests; histories repeat them so that streams get limited
        let mut pool: Vec<(Vec<u8>, Option<Sign>)> = Vec::new();
        let names: Vec<Vec<u8>> = vec![
            prefixed(b"host", &apex), prefixed(b"x1", &apex), prefixed(b"x2", &apex), prefixed(b"X1", &apex),
            prefixed(b"q", &prefixed(b"sub", &apex)), prefixed(b"r", &prefixed(b"sub", &apex)),
            prefixed(b"a", &prefixed(b"b", &prefixed(b"ent", &apex))), prefixed(b"k", &prefixed(b"ent", &apex)),
            prefixed(b"al", &apex), prefixed(b"u", &prefixed(b"deleg", &apex)), apex.clone(), lname(&[b"nowhere"]), prefixed(b"x", &lname(&[b"odd"])),
        ];
        for _ in 0..rng.range(2, if small { 3 } else { 5 }) {
            let qn = rng.pick(&names).clone();
            let qt = *rng.pick(&[1u16, 1, 16, 15, 255, 28, 5, 41]);
            let edns = if rng.chance(1, 3) { Some(*rng.pick(&[512u16, 1232, 4096])) } else { None };
            pool.push((query(rng.next() as u16, &qn, qt, 1, edns), None));
        }
        if let Some(k) = keys.first() {
            // signed requests: answered with a signed response — also when that response is slipped
            let good = Sign { skey: k.name.clone(), salg: if k.sha256 { b"\x0bhmac-sha256\x00".to_vec() } else { b"\x09hmac-sha1\x00".to_vec() },
                sha256: k.sha256, secret: k.secret.clone(), offset: *rng.pick(&[0i64, 0, 1, -100]), fudge: 300,
                maclen: if k.sha256 { 32 } else { 20 }, tamper: None, tweak: 0, idmode: 0, err: 0, other: vec![], cls: 255, ttl: 0, place: "last".into() };
            for _ in 0..rng.range(1, 2) {
                let qn = rng.pick(&names).clone();
                let edns = if rng.chance(1, 3) { Some(1232u16) } else { None };
                pool.push((query(rng.next() as u16, &qn, *rng.pick(&[1u16, 16, 255]), 1, edns), Some(good.clone())));
            }
            if rng.chance(1, 3) {
                // BADSIG / BADTIME / truncated MAC / unknown key: TSIG errors through RRL
                let mut bad = good.clone();
                match rng.below(4) { 0 => { bad.secret = vec![1, 2, 3]; } 1 => { bad.offset = 1_000_000; } 2 => { bad.maclen = 10; } _ => { bad.skey = lname(&[b"unknown", b"keys"]); } }
                pool.push((pool[0].0.clone(), Some(bad)));
            }
            if rng.chance(1, 4) {
                // a signed request without question
                pool.push((dns::header(rng.next() as u16, 0x0100, 0, 0, 0, 0), Some(good.clone())));
            }
        }
        if rng.chance(1, 4) { pool.push((d17.clone(), None)); }
        if rng.chance(1, 3) {
            // a question that matches a wildcard + a TSIG record too long to answer within 512 octets:
            // RFC 8945 §5.3 truncation (NOERROR, AA clear) — the name hashed is QNAME, not the wildcard
            let mut m = query(rng.next() as u16, &prefixed(b"x1", &apex), 1, 1, None);
            m[11] = 1;
            m.extend(tsig_rr(&long_name(255, &[0], b'k'), &long_name(220, &[0], b'a'), 0, 1_700_000_000, 7));
            pool.push((m, None));
        }
        if rng.chance(1, 4) { let mut m = pool[0].0.clone(); m[2] |= 0x28; pool.push((m, None)); }          // opcode 5
        if rng.chance(1, 4) { let mut m = pool[0].0.clone(); let k = m.len(); m.truncate(k - 1); pool.push((m, None)); } // FORMERR
        if rng.chance(1, 5) { let mut m = pool[0].0.clone(); m.push(0); pool.push((m, None)); }                // trailing octet
        if rng.chance(1, 6) { pool.push((dns::header(7, 0x0100, 0, 0, 0, 0), None)); }                       // no question
        if rng.chance(1, 8) { let mut m = pool[0].0.clone(); dns::mutate(rng, &mut m); if m.len() >= 12 { pool.push((m, None)); } }
        let mut steps = Vec::new();
        let len = rng.range(6, if thorough { 24 } else { 14 });
        for _ in 0..len {
            if rng.chance(1, 4) { steps.push(HStep::Shift(*rng.pick(&[0u64, 1, 1, 2, 3, 10, 4294967296]))); }
            let src = if rng.chance(2, 3) { srcs[0] } else { *rng.pick(&srcs) };
            let (req, sign) = rng.pick(&pool).clone();
            steps.push(HStep::Q { src, udp: !rng.chance(1, 8), req, sign });
        }
        if let Some(h) = exec_history(&zs, &keys, payload, &p, &steps) {
            let ps: Vec<String> = p.iter().map(|x| x.to_string()).collect();
            em.emit(&format!("srvh {} {} {} {} {}", payload, enc_catalog(&zs), enc_keys(&keys), ps.join(" "), h.text), &h.res);
        }
    }
}

pub fn gen(rng: &mut Rng, thorough: bool, em: &mut Emitter) {
    gen_histories(rng, thorough, em);
    let k = if thorough { 12 } else { 1 };
    // 1. exhaustive short messages against a small catalog
    {
        let zs = vec![odd_zone(rng)];
        if let Some(server) = make_server(&zs, 1232) {
            let cat = enc_catalog(&zs);
            short_messages(rng, thorough, em, &zs, &server, &cat);
            for m in pointer_queries(rng) { emit_all(em, &zs, 1232, &cat, &server, &m, true); }
            for m in count_queries(rng) { emit_all(em, &zs, 1232, &cat, &server, &m, true); }
        }
    }
    // 2. odd types, malformed RDATA, long names: structured queries + TSIG-carrying + mutated
    for round in 0..(6 * k) {
        let (zs, extra): (Vec<ZoneCfg>, Vec<Vec<u8>>) = match round % 3 {
            0 => (vec![odd_zone(rng)], vec![]),
            1 => (vec![malformed_zone(rng)], vec![]),
            _ => { let (z, n) = long_zone(rng); (vec![z], n) }
        };
        let payload = *rng.pick(&[512u16, 1232, 4096, 65535]);
        let Some(server) = make_server(&zs, payload) else { continue };
        let cat = enc_catalog(&zs);
        let mut reqs = requests_for(rng, &zs, &extra, if thorough { 120 } else { 60 });
        let mut qn: Vec<Vec<u8>> = extra.clone(); qn.push(zs[0].apex.clone());
        let ts = tsig_queries(rng, &qn);
        for m in ts { if thorough || rng.chance(1, 2) { reqs.push(m); } }
        for m in reqs {
            emit_all(em, &zs, payload, &cat, &server, &m, true);
            // every request mutated
            let mut mm = m.clone();
            dns::mutate(rng, &mut mm);
            emit_all(em, &zs, payload, &cat, &server, &mm, rng.chance(1, 2));
        }
    }
    // 7. CNAMEs leaving a zone whose apex has several labels, to targets with fewer, as many and more
    //    labels than the apex (the re-run lookup of a CNAME target must be the *checked* one: an
    //    unchecked lookup panics on names shorter than the apex — C01 / C06)
    {
        let apex = lname(&[b"z", b"y", b"x"]);
        let mut recs = vec![
            Rec { owner: apex.clone(), ty: 6, ttl: 60, rdata: soa_rdata(&apex, 10) },
            Rec { owner: apex.clone(), ty: 2, ttl: 60, rdata: prefixed(b"ns", &apex) },
        ];
        let targets: Vec<Vec<u8>> = vec![
            vec![0], lname(&[b"out"]), lname(&[b"q", b"x"]), lname(&[b"a", b"b", b"c"]), lname(&[b"w", b"y", b"x"]),
            lname(&[b"a", b"b", b"c", b"d"]), lname(&[b"y", b"x"]), lname(&[b"x"]),
        ];
        let mut owners = Vec::new();
        for (i, t) in targets.iter().enumerate() {
            let o = prefixed(format!("c{}", i).as_bytes(), &apex);
            recs.push(Rec { owner: o.clone(), ty: 5, ttl: 20, rdata: t.clone() });
            // … and one in-zone link in front of it
            let o2 = prefixed(format!("d{}", i).as_bytes(), &apex);
            recs.push(Rec { owner: o2.clone(), ty: 5, ttl: 20, rdata: o.clone() });
            owners.push(o);
            owners.push(o2);
        }
        let zs = vec![ZoneCfg { kind: 'L', apex: apex.clone(), class: 1, glue_wide: false, recs }];
        if let Some(server) = make_server(&zs, 1232) {
            let cat = enc_catalog(&zs);
            for o in &owners {
                for qtype in [1u16, 5, 255, 28] {
                    let m = query(rng.next() as u16, o, qtype, 1, if rng.chance(1, 3) { Some(1232) } else { None });
                    emit_all(em, &zs, 1232, &cat, &server, &m, false);
                }
            }
        }
    }
    // 3. CNAME chains around the limit
    for len in 0..=10usize {
        for end in 0..6usize {
            if !thorough && end > 1 && rng.chance(1, 2) { continue; }
            let (z, first) = chain_zone(rng, len, end);
            let zs = vec![z];
            let Some(server) = make_server(&zs, 1232) else { continue };
            let cat = enc_catalog(&zs);
            for qtype in [1u16, 5, 255, 15] {
                for edns in [None, Some(4096u16)] {
                    let m = query(rng.next() as u16, &first, qtype, 1, edns);
                    emit_all(em, &zs, 1232, &cat, &server, &m, edns.is_none());
                }
            }
        }
    }
    // 5. reservation boundaries: OPT + TSIG on requests whose question, reserved OPT record and reserved
    //    TSIG record together sit exactly around the negotiated UDP limit (the writer's `available` vs
    //    `limit` bookkeeping: a TSIG reservation must not overlap the OPT reservation)
    {
        let zs = vec![odd_zone(rng)];
        if let Some(server) = make_server(&zs, 4096) {
            let cat = enc_catalog(&zs);
            let combos: &[(usize, usize, &[u8])] = &[
                (255, 255, b"hmac-sha256"), (255, 255, b"hmac-sha1"), (255, 230, b"hmac-sha256"),
                (200, 255, b"hmac-sha256"), (255, 250, b"hmac-sha384"),
            ];
            for (ql, kl, alg) in combos.iter().take(if thorough { 5 } else { 3 }) {
                let qname = long_name(*ql, &[0], b'q');
                let key = long_name(*kl, &[0], b'k');
                let algn = lname(&[alg]);
                for mac in [0usize, 32] {
                    // question + TSIG record with an empty MAC (error replies) or a full one
                    let base = 12 + qname.len() + 4 + key.len() + 10 + algn.len() + 16;
                    let lo = base.saturating_sub(4).max(512);
                    for pay in lo..=(base + mac + 11 + 4) {
                        let mut m = dns::header(rng.next() as u16, 0x0100, 1, 0, 0, 2);
                        m.extend(dns::question(&qname, 1, 1));
                        m.extend(dns::rr(&[0], 41, pay as u16, 0, &[]));
                        m.extend(tsig_rr(&key, &algn, mac, 1_700_000_000, 7));
                        emit_all(em, &zs, 4096, &cat, &server, &m, false);
                    }
                }
            }
        }
    }
    // 6. a name at offset 16384 (pad 28 by the layout arithmetic; neighbours for safety, the whole
    //    residue class in the thorough tier)
    {
        let pads: Vec<usize> = if thorough { (0..38).collect() } else { vec![27, 28, 29] };
        for pad in pads {
            let (z, owner) = pointer_limit_zone(pad, 440);
            let zs = vec![z];
            let Some(server) = make_server(&zs, 1232) else { continue };
            let cat = enc_catalog(&zs);
            let m = query(rng.next() as u16, &owner, 15, 1, None);
            emit_all(em, &zs, 1232, &cat, &server, &m, false);
        }
    }
    // 4. RRsets overflowing the 65535-octet TCP limit
    let sizes: &[(usize, u16)] = if thorough { &[(700, 16), (640, 16), (300, 2), (330, 15), (1200, 16)] } else { &[(700, 16), (330, 15)] };
    for (n, ty) in sizes {
        let zs = vec![huge_zone(rng, *n, *ty)];
        let Some(server) = make_server(&zs, 65535) else { continue };
        let cat = enc_catalog(&zs);
        let owner = prefixed(b"w", &zs[0].apex);
        for qtype in [*ty, 255] {
            for edns in [None, Some(65535u16)] {
                let m = query(rng.next() as u16, &owner, qtype, 1, edns);
                emit_all(em, &zs, 65535, &cat, &server, &m, false);
            }
        }
    }
}
