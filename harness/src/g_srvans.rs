//! group `srvans` — C05 / C04: clean QUERYs against loaded zones, audited against `specResolve`.
//!
//! Case lines:
//!   audans <payload> <catalog> <reqhex> <udp> <tcp>   → ok   (same shape as `aud`; the driver's spec
//!        column compares the decoded TCP response with the RFC 1034 §4.3.2 resolution of the question
//!        in the flat-record zone, and the UDP response with the TCP one)
//!   srv <u|t> <payload> <catalog> <reqhex>            → response hex (byte-exact model correspondence)
//!
//! Generators: scenario zones (delegations with in-bailiwick / sibling / in-zone / out-of-zone /
//! wildcard-covered name servers, glue present or not, occluded data, wildcards incl. wildcard CNAMEs
//! and NS at wildcards, empty non-terminals, CNAME chains of 0–10 links ending in data / no data /
//! name error / referral / out of zone / wildcard / loop, MX / SRV / NS / MB with duplicate targets,
//! classes IN / CH / HS, missing or malformed SOA, malformed RDATA), queried at and around every name
//! they mention with every type they contain; catalogs of nested zones; size-limit zones (RRsets of
//! 1–400 records, names up to 255 octets, long CNAME chains, referrals with many name servers) under
//! request payload sizes 0/511/512/513/1232/4096/65535 and server sizes 512..65535; thorough: every
//! zone of ≤ 4 records out of a 22-record pool over the labels {a, b, *} × 10 names × 6 types.
#![allow(unused)]
use crate::common::*;
use crate::dns;
use crate::g_server::{self, dec_catalog, enc_catalog, handle, make_server, Cat, Rec, ZoneCfg};
use quandary::server::Server;
use std::collections::{HashMap, HashSet};

fn resp_hex(r: &Result<Option<Vec<u8>>, ()>) -> String {
    match r { Ok(Some(b)) => hex(b), Ok(None) => "none".into(), Err(()) => "panic".into() }
}

pub fn run(op: &str, a: &[&str]) -> Option<String> {
    match (op, a) {
        ("audans", [payload, cat, req, udp, tcp]) => {
            // re-run and check that the recorded octets are what the implementation returns now
            let (Some(zs), Some(req), Ok(payload)) = (dec_catalog(cat), unhex(req), payload.parse::<u16>()) else { return Some("bad-op".into()) };
            let Some(server) = make_server(&zs, payload) else { return Some("bad-op".into()) };
            let u = resp_hex(&handle(&server, &req, false));
            let t = resp_hex(&handle(&server, &req, true));
            Some(if u == *udp && t == *tcp { "ok".into() } else { format!("stale {} {}", u, t) })
        }
        _ => None,
    }
}

fn emit(em: &mut Emitter, server: &Server<Cat>, payload: u16, cat: &str, req: &[u8], srv: bool) {
    let u = handle(server, req, false);
    let t = handle(server, req, true);
    let rh = hex(req);
    em.emit(&format!("audans {} {} {} {} {}", payload, cat, rh, resp_hex(&u), resp_hex(&t)), "ok");
    if srv {
        for (tr, r) in [("u", &u), ("t", &t)] {
            em.emit(&format!("srv {} {} {} {}", tr, payload, cat, rh), &resp_hex(r));
        }
    }
}

// ------------------------------------------------------------------------------------------
// names
// ------------------------------------------------------------------------------------------

fn lbl(l: &[u8]) -> Vec<u8> { let mut v = vec![l.len() as u8]; v.extend_from_slice(l); v }

/// labels (leftmost first) prepended to the wire name `base`
fn below(labels: &[&[u8]], base: &[u8]) -> Vec<u8> {
    let mut w = Vec::new();
    for l in labels { w.extend(lbl(l)); }
    w.extend_from_slice(base);
    w
}

fn lower(w: &[u8]) -> Vec<u8> { w.iter().map(|b| b.to_ascii_lowercase()).collect() }

fn case_flip(rng: &mut Rng, w: &[u8]) -> Vec<u8> {
    let mut out = w.to_vec();
    let mut p = 0;
    while p < out.len() {
        let l = out[p] as usize;
        if l == 0 || l > 63 { break; }
        for i in p + 1..(p + 1 + l).min(out.len()) {
            if out[i].is_ascii_alphabetic() && rng.chance(1, 2) { out[i] ^= 0x20; }
        }
        p += 1 + l;
    }
    out
}

fn parent(w: &[u8]) -> Option<Vec<u8>> {
    if w.len() <= 1 { return None; }
    let l = w[0] as usize;
    if 1 + l >= w.len() + 1 { return None; }
    Some(w[1 + l..].to_vec())
}

fn rand_bytes(rng: &mut Rng, n: usize) -> Vec<u8> { (0..n).map(|_| rng.byte()).collect() }

// ------------------------------------------------------------------------------------------
// zone builder
// ------------------------------------------------------------------------------------------

struct ZB {
    apex: Vec<u8>,
    class: u16,
    recs: Vec<Rec>,
    seen: HashSet<(Vec<u8>, u16, Vec<u8>)>,
    ttls: HashMap<(Vec<u8>, u16), u32>,
    /// names worth asking about (owners, targets)
    names: Vec<Vec<u8>>,
    /// in-zone hosts that have (or may have) address records
    hosts: Vec<Vec<u8>>,
}

impl ZB {
    fn new(apex: Vec<u8>, class: u16) -> Self {
        ZB { apex: apex.clone(), class, recs: vec![], seen: Default::default(), ttls: Default::default(), names: vec![apex], hosts: vec![] }
    }
    fn n(&self, labels: &[&[u8]]) -> Vec<u8> { below(labels, &self.apex) }
    fn push(&mut self, rng: &mut Rng, owner: &[u8], ty: u16, rdata: Vec<u8>) {
        if owner.len() > 255 { return; }
        let key = (lower(owner), ty);
        let ttl = *self.ttls.entry(key.clone()).or_insert_with(|| *rng.pick(&[0u32, 1, 60, 300, 3600, 86400, 0x7fff_ffff]));
        if self.seen.insert((key.0.clone(), ty, lower(&rdata))) {
            let o = if rng.chance(1, 8) { case_flip(rng, owner) } else { owner.to_vec() };
            self.recs.push(Rec { owner: o, ty, ttl, rdata });
            self.names.push(owner.to_vec());
        }
    }
    /// address records for `owner`: A and/or AAAA (class-appropriate), possibly several
    fn addrs(&mut self, rng: &mut Rng, owner: &[u8]) {
        let na = rng.below(3);
        for _ in 0..na {
            let rd = if self.class == 3 {
                // CH A: a domain name + 16-bit address (RFC 1034 §3.6); sometimes four arbitrary octets
                if rng.chance(3, 4) { let mut v = self.n(&[b"chaos"]); v.extend(rand_bytes(rng, 2)); v } else { rand_bytes(rng, 4) }
            } else { rand_bytes(rng, 4) };
            self.push(rng, owner, 1, rd);
        }
        if rng.chance(1, 2) { let rd = rand_bytes(rng, 16); self.push(rng, owner, 28, rd); }
        self.hosts.push(owner.to_vec());
    }
    fn finish(mut self, rng: &mut Rng) -> (ZoneCfg, Vec<Vec<u8>>) {
        for i in (1..self.recs.len()).rev() { if rng.chance(1, 3) { let j = rng.below(i + 1); self.recs.swap(i, j); } }
        (ZoneCfg { kind: 'L', apex: self.apex, class: self.class, glue_wide: rng.chance(1, 4), recs: self.recs }, self.names)
    }
}

fn soa_rdata(zb: &ZB, minimum: u32) -> Vec<u8> {
    let mut v = zb.n(&[b"ns"]);
    v.extend(zb.n(&[b"Hostmaster"]));
    for x in [2024u32, 7200, 3600, 86400, minimum] { v.extend_from_slice(&x.to_be_bytes()); }
    v
}

fn malformed_name_rdata(rng: &mut Rng) -> Vec<u8> {
    match rng.below(7) {
        0 => vec![],
        1 => vec![5, b'a'],
        2 => vec![1, b'a', 0, 7],                        // a name followed by junk
        3 => { let mut v = vec![64]; v.extend(vec![b'x'; 64]); v.push(0); v }   // 64-octet label
        4 => { let mut v = Vec::new(); for _ in 0..5 { v.push(63); v.extend(vec![b'y'; 63]); } v.push(0); v } // 321 octets
        5 => vec![0xc0, 0x0c],                           // a compression pointer
        _ => vec![1, b'a'],                              // no root label
    }
}

/// a target name of one of the kinds a record can point to
fn pick_target(rng: &mut Rng, zb: &ZB) -> Vec<u8> {
    match rng.below(8) {
        0 | 1 | 2 => if zb.hosts.is_empty() { zb.n(&[b"host"]) } else { rng.pick(&zb.hosts).clone() },
        3 => zb.n(&[b"nx", b"void"]),                       // does not exist
        4 => below(&[b"ns", b"elsewhere"], &[0]),           // out of zone
        5 => zb.n(&[b"any", b"wild"]),                      // covered by *.wild (if present)
        6 => rng.pick(&zb.names).clone(),
        _ => zb.apex.clone(),
    }
}

/// One zone exercising many features of the resolution algorithm at once.
fn scenario_zone(rng: &mut Rng, apex: Vec<u8>, class: u16) -> (ZoneCfg, Vec<Vec<u8>>) {
    let mut zb = ZB::new(apex.clone(), class);
    // SOA: present / missing / malformed; MINIMUM around the interesting values
    match rng.below(20) {
        0 | 1 => {}
        2 => { let mut rd = soa_rdata(&zb, 60); match rng.below(3) { 0 => { rd.pop(); } 1 => rd.push(0), _ => rd = malformed_name_rdata(rng) }; zb.push(rng, &apex, 6, rd); }
        _ => {
            let min = *rng.pick(&[0u32, 1, 30, 60, 300, 3600, 86400, 0x7fff_ffff, 0x8000_0000, 0xffff_ffff]);
            let rd = soa_rdata(&zb, min);
            zb.push(rng, &apex, 6, rd);
            if rng.chance(1, 25) { let rd2 = soa_rdata(&zb, 5); zb.push(rng, &apex, 6, rd2); }   // a second SOA
        }
    }
    // a few ordinary hosts
    for h in [&b"host"[..], b"ns", b"mail", b"www"] {
        if rng.chance(3, 4) { let o = zb.n(&[h]); zb.addrs(rng, &o); }
    }
    // wildcards
    if rng.chance(1, 2) {
        let w = zb.n(&[b"*", b"wild"]);
        match rng.below(5) {
            0 | 1 => zb.addrs(rng, &w),
            2 => { let t = pick_target(rng, &zb); zb.push(rng, &w, 5, t); }              // wildcard CNAME
            3 => { let mut rd = vec![0, 10]; rd.extend(pick_target(rng, &zb)); zb.push(rng, &w, 15, rd); }
            _ => { zb.push(rng, &w, 16, vec![2, b'h', b'i']); }
        }
        if rng.chance(1, 3) { let o = zb.n(&[b"exact", b"wild"]); zb.addrs(rng, &o); }
        if rng.chance(1, 4) { let o = zb.n(&[b"x", b"*", b"wild"]); zb.push(rng, &o, 16, vec![1, b'e']); } // * becomes an ENT
    }
    if rng.chance(1, 4) { let w = zb.n(&[b"*"]); if rng.chance(1, 2) { zb.addrs(rng, &w) } else { zb.push(rng, &w, 16, vec![1, b'w']) } }
    if rng.chance(1, 8) { let w = zb.n(&[b"*", b"nsw"]); let t = pick_target(rng, &zb); zb.push(rng, &w, 2, t); }   // NS at a wildcard
    // empty non-terminals
    if rng.chance(1, 2) { let o = zb.n(&[b"leaf", b"ent2", b"ent1"]); zb.addrs(rng, &o); zb.names.push(zb.n(&[b"ent1"])); zb.names.push(zb.n(&[b"ent2", b"ent1"])); }
    // delegations
    let n_del = rng.below(4);
    let del_names: Vec<Vec<u8>> = [&[&b"sub"[..]][..], &[b"sib"], &[b"deep", b"mid"], &[b"*", b"wdel"], &[b"sub2", b"*", b"wild"]]
        .iter().map(|l| zb.n(l)).collect();
    let mut dels: Vec<Vec<u8>> = Vec::new();
    for i in 0..n_del { dels.push(del_names[(i + rng.below(5)) % 5].clone()); }
    for d in dels.clone() {
        let k = rng.range(1, 4);
        for j in 0..k {
            let lab = format!("ns{}", j);
            let t = match rng.below(9) {
                0 | 1 | 2 => below(&[lab.as_bytes()], &d),                                  // in-bailiwick
                3 => below(&[lab.as_bytes(), b"x"], &d),                                    // deeper in-bailiwick
                4 => { let other = rng.pick(&del_names).clone(); below(&[lab.as_bytes()], &other) }   // sibling (maybe delegated)
                5 => zb.n(&[b"ns"]),                                                        // in-zone, authoritative
                6 => zb.n(&[b"glue", b"wild"]),                                             // covered by a wildcard
                7 => below(&[b"ns", b"elsewhere"], &[0]),                                   // out of zone
                _ => d.clone(),                                                             // the delegation point itself
            };
            let t_rd = if rng.chance(1, 40) { malformed_name_rdata(rng) } else if rng.chance(1, 6) { case_flip(rng, &t) } else { t.clone() };
            zb.push(rng, &d, 2, t_rd);
            if rng.chance(3, 4) && t.len() <= 255 && lower(&t).ends_with(&lower(&apex)) { zb.addrs(rng, &t); }
        }
        // occluded data below the cut, and a nested cut
        if rng.chance(1, 3) { let o = below(&[b"www"], &d); zb.addrs(rng, &o); }
        if rng.chance(1, 6) { let o = below(&[b"inner"], &d); let t = below(&[b"ns0"], &o); zb.push(rng, &o, 2, t); }
        if rng.chance(1, 6) { zb.addrs(rng, &d.clone()); }   // addresses at the cut itself
    }
    // MX / SRV / NS / MB / MD / MF with (duplicate) targets
    for _ in 0..rng.below(4) {
        let owner = if rng.chance(1, 3) { apex.clone() } else { zb.n(&[*rng.pick(&[&b"mail"[..], b"svc", b"www"])]) };
        let t = pick_target(rng, &zb);
        let k = rng.range(1, 3);
        let ty = *rng.pick(&[15u16, 15, 33, 7, 3, 4]);
        for j in 0..k {
            let tgt = if rng.chance(2, 3) { t.clone() } else { pick_target(rng, &zb) };
            let tgt = if rng.chance(1, 5) { case_flip(rng, &tgt) } else { tgt };
            let rd = match ty {
                15 => { let mut v = vec![0, j as u8]; v.extend(tgt); v }
                33 => { let mut v = vec![0, j as u8, 0, 5, 0, 80]; v.extend(tgt); v }
                _ => tgt,
            };
            zb.push(rng, &owner, ty, rd);
        }
    }
    // apex NS
    if rng.chance(9, 10) {
        for _ in 0..rng.range(1, 3) { let t = pick_target(rng, &zb); zb.push(rng, &apex, 2, t); }
    }
    // other types, incl. ones with compressible names and opaque ones
    for _ in 0..rng.below(4) {
        let o = zb.n(&[*rng.pick(&[&b"host"[..], b"misc", b"www", b"mail"])]);
        match rng.below(6) {
            0 => zb.push(rng, &o, 16, vec![3, b'a', b'b', b'c']),
            1 => { let t = pick_target(rng, &zb); zb.push(rng, &o, 12, t); }
            2 => { let mut rd = pick_target(rng, &zb); rd.extend(pick_target(rng, &zb)); zb.push(rng, &o, 14, rd); }
            3 => { let k = rng.below(9); let rd = rand_bytes(rng, k); let ty = *rng.pick(&[99u16, 10, 13, 65280, 11]); zb.push(rng, &o, ty, rd); }
            4 => { let rd = malformed_name_rdata(rng); let ty = *rng.pick(&[2u16, 5, 15, 6, 33, 12, 14, 7, 1]); zb.push(rng, &o, ty, rd); }
            _ => { let t = pick_target(rng, &zb); let ty = *rng.pick(&[8u16, 9]); zb.push(rng, &o, ty, t); }
        }
    }
    // CNAME chains: 0–10 links, every kind of ending
    for c in 0..rng.below(3) {
        let len = rng.below(11);
        let nm = |i: usize| -> Vec<u8> { let l = format!("c{}x{}", c, i); below(&[l.as_bytes()], &apex) };
        let start = if rng.chance(1, 6) { zb.n(&[b"*", b"cw"]) } else { nm(0) };
        let mut owner = start.clone();
        for i in 1..=len {
            let t = nm(i);
            let rd = if rng.chance(1, 8) { case_flip(rng, &t) } else { t.clone() };
            zb.push(rng, &owner, 5, rd);
            owner = t;
        }
        // the end of the chain
        match rng.below(11) {
            0 | 1 => zb.addrs(rng, &owner),
            2 => zb.push(rng, &owner, 16, vec![1, b't']),                                         // no data for most types
            3 => {}                                                                               // name error
            4 => { zb.push(rng, &owner, 5, below(&[b"www", b"elsewhere"], &[0])); }               // out of zone
            5 => { if let Some(d) = dels.first() { let t = below(&[b"www"], d); zb.push(rng, &owner, 5, t); } }   // into a delegation
            6 => { let t = zb.n(&[b"via", b"wild"]); zb.push(rng, &owner, 5, t); }                // wildcard synthesis
            7 => { let j = rng.below(len + 1); let t = if j == 0 { start.clone() } else { nm(j) }; zb.push(rng, &owner, 5, t); }   // a loop
            8 => { let o = owner.clone(); zb.push(rng, &owner, 5, o); }                           // self loop
            9 => { let rd = malformed_name_rdata(rng); zb.push(rng, &owner, 5, rd); }
            _ => { let t = zb.n(&[b"ent1"]); zb.push(rng, &owner, 5, t); }                        // an empty non-terminal
        }
    }
    zb.finish(rng)
}

// ------------------------------------------------------------------------------------------
// queries
// ------------------------------------------------------------------------------------------

fn query(rng: &mut Rng, qname: &[u8], qtype: u16, qclass: u16, edns: Option<u16>) -> Vec<u8> {
    let mut body = dns::question(qname, qtype, qclass);
    let mut ar = 0;
    if let Some(p) = edns { body.extend(dns::rr(&[0], 41, p, 0, &[])); ar = 1; }
    let mut m = dns::header(rng.next() as u16, if rng.chance(1, 2) { 0x0100 } else { 0 }, 1, 0, 0, ar);
    m.extend(body);
    m
}

const PAYLOADS: [u16; 8] = [0, 511, 512, 513, 700, 1232, 4096, 65535];
const QTYPES: [u16; 14] = [1, 28, 2, 5, 6, 15, 16, 33, 255, 255, 12, 7, 99, 14];

fn names_around(rng: &mut Rng, zs: &[ZoneCfg], extra: &[Vec<u8>]) -> Vec<Vec<u8>> {
    let mut v: Vec<Vec<u8>> = Vec::new();
    let mut add = |v: &mut Vec<Vec<u8>>, w: Vec<u8>| { if w.len() <= 255 && !w.is_empty() { v.push(w); } };
    for z in zs { add(&mut v, z.apex.clone()); if let Some(p) = parent(&z.apex) { add(&mut v, p); } }
    let mut base: Vec<Vec<u8>> = extra.to_vec();
    for z in zs { for r in &z.recs { base.push(r.owner.clone()); } }
    for w in base {
        add(&mut v, w.clone());
        add(&mut v, below(&[*rng.pick(&[&b"zz"[..], b"*", b"a", b"www"])], &w));
        if let Some(p) = parent(&w) { add(&mut v, p); }
    }
    add(&mut v, below(&[b"nowhere", b"test"], &[0]));
    v
}

fn types_in(zs: &[ZoneCfg]) -> Vec<u16> {
    let mut t: Vec<u16> = zs.iter().flat_map(|z| z.recs.iter().map(|r| r.ty)).collect();
    t.sort(); t.dedup();
    t
}

fn ask(rng: &mut Rng, zs: &[ZoneCfg], names: &[Vec<u8>], tys: &[u16]) -> Vec<u8> {
    let mut qname = rng.pick(names).clone();
    if rng.chance(1, 4) { qname = case_flip(rng, &qname); }
    let loaded: Vec<&ZoneCfg> = zs.iter().filter(|z| z.kind == 'L').collect();
    let qclass = if loaded.is_empty() || rng.chance(1, 30) { *rng.pick(&[1u16, 3, 4]) } else { rng.pick(&loaded).class };
    let qtype = if !tys.is_empty() && rng.chance(1, 2) { *rng.pick(tys) } else { *rng.pick(&QTYPES) };
    let edns = if rng.chance(1, 2) { Some(*rng.pick(&PAYLOADS)) } else { None };
    query(rng, &qname, qtype, qclass, edns)
}

// ------------------------------------------------------------------------------------------
// size-limit zones (C04)
// ------------------------------------------------------------------------------------------

fn long_label(rng: &mut Rng, n: usize) -> Vec<u8> { (0..n).map(|_| b'a' + rng.below(26) as u8).collect() }

/// a name of about `total` octets below `base` (labels of ≤ 63 octets)
fn long_name(rng: &mut Rng, first: &[u8], total: usize, base: &[u8]) -> Vec<u8> {
    let mut w = lbl(first);
    let mut room = total.saturating_sub(w.len() + base.len());
    while room > 2 && w.len() + base.len() + 2 <= 255 {
        let n = room.min(64) - 1;
        let n = n.min(255 - base.len() - w.len() - 1).min(63);
        if n == 0 { break; }
        w.extend(lbl(&long_label(rng, n)));
        room = room.saturating_sub(n + 1);
    }
    w.extend_from_slice(base);
    w
}

/// zones built to cross the size limits: a long CNAME chain with long names (the C04 corner: UDP
/// overflows before the chain is found too long / looping), a referral with many name servers with
/// long names, big RRsets with additional processing
fn limit_zone(rng: &mut Rng) -> (ZoneCfg, Vec<Vec<u8>>) {
    let apex = if rng.chance(1, 2) { below(&[b"lim"], &[0]) } else { let k = rng.range(10, 50); let a = long_label(rng, k); below(&[&a[..]], &[0]) };
    let mut zb = ZB::new(apex.clone(), 1);
    let rd = soa_rdata(&zb, 60);
    zb.push(rng, &apex, 6, rd);
    let t = zb.n(&[b"ns"]); zb.push(rng, &apex, 2, t.clone()); zb.addrs(rng, &t);
    match rng.below(4) {
        0 => {
            // CNAME chain with long names: 1–10 links, ending in data / loop / nothing
            let len = rng.range(1, 10);
            let size = *rng.pick(&[40usize, 60, 100, 150, 190, 250]);
            let names: Vec<Vec<u8>> = (0..=len).map(|i| long_name(rng, format!("l{}", i).as_bytes(), size, &apex)).collect();
            for i in 0..len { zb.push(rng, &names[i], 5, names[i + 1].clone()); }
            match rng.below(4) {
                0 => { let j = rng.below(len + 1); zb.push(rng, &names[len], 5, names[j].clone()); }
                1 => zb.addrs(rng, &names[len].clone()),
                2 => zb.push(rng, &names[len], 16, vec![1, b'x']),
                _ => {}
            }
        }
        1 => {
            // a referral with many name servers
            let child = zb.n(&[b"child"]);
            let sib = zb.n(&[b"sibling"]);
            zb.push(rng, &sib, 2, below(&[b"ns"], &sib));
            let k = rng.range(1, 20);
            let size = *rng.pick(&[20usize, 40, 80, 160]);
            for i in 0..k {
                let base = match rng.below(4) { 0 => sib.clone(), 1 => apex.clone(), _ => child.clone() };
                let t = long_name(rng, format!("n{}", i).as_bytes(), size, &base);
                zb.push(rng, &child, 2, t.clone());
                for _ in 0..rng.below(4) { let rd = rand_bytes(rng, 4); zb.push(rng, &t, 1, rd); }
                if rng.chance(1, 2) { let rd = rand_bytes(rng, 16); zb.push(rng, &t, 28, rd); }
            }
            zb.names.push(below(&[b"www"], &child));
        }
        2 => {
            // a big RRset (1–400 records), possibly with additional processing
            let owner = zb.n(&[b"big"]);
            let n = *rng.pick(&[1usize, 5, 20, 28, 29, 30, 31, 40, 100, 400]);
            let ty = *rng.pick(&[1u16, 16, 15, 28, 33, 2]);
            let targets: Vec<Vec<u8>> = (0..rng.range(1, 6)).map(|i| { let sz = *rng.pick(&[10usize, 30, 90]); long_name(rng, format!("t{}", i).as_bytes(), sz, &apex) }).collect();
            for t in &targets { zb.addrs(rng, t); }
            for i in 0..n {
                let rd: Vec<u8> = match ty {
                    1 => vec![10, (i >> 8) as u8, i as u8, rng.byte()],
                    28 => { let mut v = vec![0x20; 14]; v.push((i >> 8) as u8); v.push(i as u8); v }
                    16 => { let k = rng.range(1, 60); let mut v = vec![k as u8]; v.extend(long_label(rng, k)); v }
                    15 => { let mut v = vec![(i >> 8) as u8, i as u8]; v.extend(targets[i % targets.len()].clone()); v }
                    33 => { let mut v = vec![(i >> 8) as u8, i as u8, 0, 0, 0, 53]; v.extend(targets[i % targets.len()].clone()); v }
                    _ => long_name(rng, format!("s{}", i).as_bytes(), 30, &apex),
                };
                zb.push(rng, &owner, ty, rd);
            }
        }
        _ => {
            // ANY at a node with many RRsets
            let owner = zb.n(&[b"many"]);
            for ty in [1u16, 16, 28, 99, 13, 15, 257, 258, 259] {
                for _ in 0..rng.below(6) { let rd = if ty == 15 { let mut v = vec![0, rng.byte()]; v.extend(zb.n(&[b"ns"])); v } else if ty == 1 { rand_bytes(rng, 4) } else if ty == 28 { rand_bytes(rng, 16) } else { let k = rng.range(1, 80); let mut v = vec![(k - 1) as u8]; v.extend(long_label(rng, k - 1)); v }; zb.push(rng, &owner, ty, rd); }
            }
        }
    }
    zb.finish(rng)
}

// ------------------------------------------------------------------------------------------
// exhaustive small zones (thorough)
// ------------------------------------------------------------------------------------------

fn small_pool() -> (Vec<u8>, Vec<Rec>, Vec<Vec<u8>>) {
    let z = below(&[b"z"], &[0]);
    let n = |l: &[&[u8]]| below(l, &z);
    let a4 = |x: u8| vec![192, 0, 2, x];
    let mx = |t: Vec<u8>| { let mut v = vec![0, 1]; v.extend(t); v };
    let r = |o: Vec<u8>, ty: u16, rd: Vec<u8>| Rec { owner: o, ty, ttl: 60, rdata: rd };
    let pool = vec![
        r(n(&[b"a"]), 1, a4(1)),
        r(n(&[b"a"]), 2, n(&[b"b", b"a"])),          // delegation, in-bailiwick name server
        r(n(&[b"a"]), 2, n(&[b"b"])),                // delegation, name server in the parent zone
        r(n(&[b"b", b"a"]), 1, a4(2)),               // glue / occluded / makes a.z an ENT
        r(n(&[b"b"]), 1, a4(3)),
        r(n(&[b"b"]), 5, n(&[b"a"])),
        r(n(&[b"a"]), 5, n(&[b"b"])),
        r(n(&[b"*"]), 1, a4(4)),
        r(n(&[b"*"]), 5, n(&[b"a"])),
        r(n(&[b"a", b"a"]), 1, a4(5)),
        r(n(&[b"*", b"a"]), 1, a4(6)),
        r(z.clone(), 15, mx(n(&[b"a"]))),
        r(n(&[b"b"]), 15, mx(n(&[b"b", b"a"]))),
        r(n(&[b"*"]), 2, n(&[b"a"])),                // NS at a wildcard
        r(n(&[b"b"]), 5, n(&[b"b"])),                // self loop
        r(n(&[b"b"]), 5, below(&[b"c", b"other"], &[0])),   // out of zone
        r(n(&[b"a"]), 28, vec![0x20; 16]),
        r(z.clone(), 2, n(&[b"a"])),
        r(n(&[b"b"]), 2, n(&[b"*"])),                // delegation whose server is a wildcard name
        r(n(&[b"*", b"b"]), 5, n(&[b"c"])),          // wildcard CNAME to a wildcard-covered name
        r(n(&[b"a"]), 15, mx(n(&[b"a"]))),
        r(n(&[b"b"]), 5, vec![1, b'a']),             // malformed CNAME
    ];
    let qnames = vec![z.clone(), n(&[b"a"]), n(&[b"b"]), n(&[b"*"]), n(&[b"c"]), n(&[b"a", b"a"]), n(&[b"b", b"a"]), n(&[b"c", b"a"]), n(&[b"a", b"b"]), n(&[b"c", b"c"])];
    (z, pool, qnames)
}

fn exhaustive_small(rng: &mut Rng, em: &mut Emitter, max_recs: usize, with_srv_every: usize) {
    let (z, pool, qnames) = small_pool();
    let mut soa = below(&[b"a"], &z); soa.extend(below(&[b"b"], &z));
    for x in [1u32, 2, 3, 4, 30] { soa.extend_from_slice(&x.to_be_bytes()); }
    let n = pool.len();
    let mut idx: Vec<usize> = Vec::new();
    let mut count = 0usize;
    // all subsets of size ≤ max_recs, in lexicographic order of index vectors
    fn rec(start: usize, n: usize, left: usize, idx: &mut Vec<usize>, out: &mut Vec<Vec<usize>>) {
        out.push(idx.clone());
        if left == 0 { return; }
        for i in start..n { idx.push(i); rec(i + 1, n, left - 1, idx, out); idx.pop(); }
    }
    let mut subsets = Vec::new();
    rec(0, n, max_recs, &mut idx, &mut subsets);
    for s in subsets {
        let mut recs: Vec<Rec> = vec![Rec { owner: z.clone(), ty: 6, ttl: 300, rdata: soa.clone() }];
        for &i in &s { recs.push(pool[i].clone()); }
        let zs = vec![ZoneCfg { kind: 'L', apex: z.clone(), class: 1, glue_wide: false, recs }];
        let Some(server) = make_server(&zs, 1232) else { continue };
        let cat = enc_catalog(&zs);
        for q in &qnames {
            for ty in [1u16, 2, 5, 15, 28, 255] {
                let req = query(rng, q, ty, 1, None);
                count += 1;
                emit(em, &server, 1232, &cat, &req, with_srv_every != 0 && count % with_srv_every == 0);
            }
        }
    }
}

// ------------------------------------------------------------------------------------------

/// The documented corner of C04 T3 (DESIGN.md §6 C04), built on purpose: a CNAME chain of nine links
/// (one more than MAX_CNAME_CHAIN_LEN) or a loop, with names of ≈190 octets. Over UDP the 512-octet
/// limit is exceeded after two links, long before the chain is found too long: TC. Over TCP the
/// chain is followed to the end: SERVFAIL. Both responses carry no records.
pub fn gen_corner(rng: &mut Rng, em: &mut Emitter) {
    for looping in [false, true] {
        for size in [190usize, 120, 250] {
            let apex = below(&[b"lim"], &[0]);
            let mut zb = ZB::new(apex.clone(), 1);
            let rd = soa_rdata(&zb, 60);
            zb.push(rng, &apex, 6, rd);
            let len = if looping { 5 } else { 9 };
            let names: Vec<Vec<u8>> = (0..=len).map(|i| long_name(rng, format!("l{}", i).as_bytes(), size, &apex)).collect();
            for i in 0..len { zb.push(rng, &names[i], 5, names[i + 1].clone()); }
            if looping { zb.push(rng, &names[len], 5, names[2].clone()); } else { zb.push(rng, &names[len], 1, vec![192, 0, 2, 1]); }
            let recs = zb.recs.clone();
            let zs = vec![ZoneCfg { kind: 'L', apex, class: 1, glue_wide: false, recs }];
            let Some(server) = make_server(&zs, 1232) else { continue };
            let cat = enc_catalog(&zs);
            let req = query(rng, &names[0], 1, 1, None);
            emit(em, &server, 1232, &cat, &req, true);
        }
    }
}

/// The witness of defect D04 (repaired by 4422821): SOA record TTL 60, MINIMUM 3600 — the negative
/// answer must carry the SOA with TTL 60. Also MINIMUM < TTL, MINIMUM ≥ 2^31, and the NOERROR/no-data form.
pub fn gen_d04(rng: &mut Rng, em: &mut Emitter) {
    for (ttl, min) in [(60u32, 3600u32), (3600, 60), (300, 0x8000_0000), (0, 5), (7, 7)] {
        let apex = below(&[b"ex"], &[0]);
        let mut soa = below(&[b"ns"], &apex); soa.extend(below(&[b"hostmaster"], &apex));
        for x in [1u32, 7200, 3600, 86400, min] { soa.extend_from_slice(&x.to_be_bytes()); }
        let recs = vec![Rec { owner: apex.clone(), ty: 6, ttl, rdata: soa },
                        Rec { owner: below(&[b"www"], &apex), ty: 1, ttl: 30, rdata: vec![192, 0, 2, 1] }];
        let zs = vec![ZoneCfg { kind: 'L', apex: apex.clone(), class: 1, glue_wide: false, recs }];
        let Some(server) = make_server(&zs, 1232) else { continue };
        let cat = enc_catalog(&zs);
        for (q, ty) in [(below(&[b"nx"], &apex), 1u16), (below(&[b"www"], &apex), 16), (below(&[b"nx"], &apex), 255)] {
            let req = query(rng, &q, ty, 1, None);
            emit(em, &server, 1232, &cat, &req, true);
        }
    }
}

/// Responses sized exactly around the limits (C04 T1): one opaque record whose RDATA length is tuned
/// so that the complete response is limit-2 … limit+2 octets, without EDNS (limit 512) and with
/// EDNS payload sizes 513 / 700 / 1232 (the OPT record counts: 11 octets).
pub fn gen_boundary(rng: &mut Rng, em: &mut Emitter) {
    let apex = below(&[b"edge"], &[0]);
    let owner = below(&[b"w"], &apex);                     // 8 octets
    for (edns, limit) in [(None, 512usize), (Some(513u16), 513), (Some(700), 700), (Some(1232), 1232), (Some(0), 512), (Some(65535), 4096)] {
        for delta in [-2i64, -1, 0, 1, 2] {
            // header 12 + question (owner + 4) + record (pointer 2 + 10 + rdlen) + OPT 11
            let fixed = 12 + owner.len() + 4 + 2 + 10 + if edns.is_some() { 11 } else { 0 };
            let total = (limit as i64 + delta) as usize;
            if total <= fixed { continue; }
            let rdlen = total - fixed;
            let recs = vec![Rec { owner: owner.clone(), ty: 65280, ttl: 5, rdata: (0..rdlen).map(|i| i as u8).collect() }];
            let zs = vec![ZoneCfg { kind: 'L', apex: apex.clone(), class: 1, glue_wide: false, recs }];
            let Some(server) = make_server(&zs, 4096) else { continue };
            let cat = enc_catalog(&zs);
            let req = query(rng, &owner, 65280, 1, edns);
            emit(em, &server, 4096, &cat, &req, true);
        }
    }
}

/// A response that does not fit 65 535 octets: the TCP path of the Truncation epilogue
/// (SERVFAIL, never TC). `n` TXT records of 61 octets each.
pub fn gen_tcp_overflow(rng: &mut Rng, em: &mut Emitter, n: usize) {
    let apex = below(&[b"huge"], &[0]);
    let owner = below(&[b"t"], &apex);
    let mut recs = Vec::new();
    for i in 0..n {
        let mut rd = vec![60u8, (i >> 8) as u8, i as u8];
        rd.extend(std::iter::repeat(b'x').take(58));
        recs.push(Rec { owner: owner.clone(), ty: 16, ttl: 5, rdata: rd });
    }
    let zs = vec![ZoneCfg { kind: 'L', apex, class: 1, glue_wide: false, recs }];
    let Some(server) = make_server(&zs, 1232) else { return };
    let cat = enc_catalog(&zs);
    for edns in [None, Some(4096u16)] {
        let req = query(rng, &owner, 16, 1, edns);
        emit(em, &server, 1232, &cat, &req, true);
    }
}

/// Tight CNAME loops (self loop, 2-cycle, 3-cycle back to the QNAME) with names of 20–120 octets:
/// one pass fits 512 octets, eight links do not — loop detection must stop the chase before the
/// size limit does (SERVFAIL over both transports, not TC over UDP).
pub fn gen_tight_loops(rng: &mut Rng, em: &mut Emitter) {
    for size in [20usize, 70, 100, 120] {
        for cycle in [1usize, 2, 3] {
            let apex = below(&[b"loop"], &[0]);
            let mut zb = ZB::new(apex.clone(), 1);
            let rd = soa_rdata(&zb, 60);
            zb.push(rng, &apex, 6, rd);
            let names: Vec<Vec<u8>> = (0..cycle).map(|i| long_name(rng, format!("c{}", i).as_bytes(), size, &apex)).collect();
            for i in 0..cycle { zb.push(rng, &names[i], 5, names[(i + 1) % cycle].clone()); }
            let recs = zb.recs.clone();
            let zs = vec![ZoneCfg { kind: 'L', apex, class: 1, glue_wide: false, recs }];
            let Some(server) = make_server(&zs, 1232) else { continue };
            let cat = enc_catalog(&zs);
            for edns in [None, Some(1232u16)] {
                let req = query(rng, &names[0], 1, 1, edns);
                emit(em, &server, 1232, &cat, &req, true);
            }
        }
    }
}

pub fn gen(rng: &mut Rng, thorough: bool, em: &mut Emitter) {
    gen_d04(rng, em);
    gen_tight_loops(rng, em);
    gen_corner(rng, em);
    gen_boundary(rng, em);
    gen_tcp_overflow(rng, em, 900);
    // scenario zones, alone or nested in a catalog
    let n_zone = if thorough { 4000 } else { 120 };
    let per = if thorough { 60 } else { 30 };
    let apexes: [Vec<u8>; 5] = [below(&[b"ex"], &[0]), below(&[b"Example", b"ORG"], &[0]), vec![0], below(&[b"b", b"a"], &[0]), below(&[b"x", b"y", b"z", b"w"], &[0])];
    for i in 0..n_zone {
        let apex = rng.pick(&apexes).clone();
        let class = *rng.pick(&[1u16, 1, 1, 1, 1, 3, 4]);
        let (z, mut names) = scenario_zone(rng, apex.clone(), class);
        let mut zs = vec![z];
        // sometimes a child zone (a zone of our own below a delegation or an arbitrary name) and a parent
        if rng.chance(1, 4) {
            let child_apex = below(&[*rng.pick(&[&b"sub"[..], b"sib", b"other"])], &apex);
            if child_apex.len() <= 255 { let (c, n2) = scenario_zone(rng, child_apex, class); zs.push(c); names.extend(n2); }
        }
        if rng.chance(1, 8) { zs.push(ZoneCfg { kind: *rng.pick(&['N', 'F']), apex: below(&[b"pending"], &apex), class, glue_wide: false, recs: vec![] }); }
        let payload = *rng.pick(&[512u16, 513, 700, 1232, 4096, 65535]);
        let Some(server) = make_server(&zs, payload) else { continue };
        let cat = enc_catalog(&zs);
        let around = names_around(rng, &zs, &names);
        let tys = types_in(&zs);
        for _ in 0..per {
            let req = ask(rng, &zs, &around, &tys);
            emit(em, &server, payload, &cat, &req, thorough || rng.chance(1, 2));
        }
    }
    // catalogs and queries of group `server` (random zones over a small label alphabet)
    let n_cat = if thorough { 1500 } else { 100 };
    for _ in 0..n_cat {
        let zs = g_server::gen_catalog(rng);
        let payload = *rng.pick(&[512u16, 1232, 4096]);
        let Some(server) = make_server(&zs, payload) else { continue };
        let cat = enc_catalog(&zs);
        for _ in 0..20 {
            let req = g_server::gen_clean_query(rng, &zs);
            emit(em, &server, payload, &cat, &req, false);
        }
    }
    // the size limits (C04)
    let n_big = if thorough { 1500 } else { 60 };
    for i in 0..n_big {
        let (zs, names) = if i % 3 == 0 { (vec![g_server::gen_big_zone(rng)], vec![]) } else { let (z, n) = limit_zone(rng); (vec![z], n) };
        let payload = *rng.pick(&[512u16, 513, 700, 1232, 4096, 65535]);
        let Some(server) = make_server(&zs, payload) else { continue };
        let cat = enc_catalog(&zs);
        let around = names_around(rng, &zs, &names);
        let tys = types_in(&zs);
        for _ in 0..14 {
            let req = if i % 3 == 0 && rng.chance(1, 2) { g_server::gen_clean_query(rng, &zs) } else { ask(rng, &zs, &around, &tys) };
            emit(em, &server, payload, &cat, &req, true);
        }
    }
    // exhaustive small zones
    if thorough { exhaustive_small(rng, em, 4, 25); } else { exhaustive_small(rng, em, 2, 10); }
}
