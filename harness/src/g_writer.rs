//! group `writer` — C12, C13: src/message/writer.rs through the public `Writer` API.
//!
//! One case = one whole writer session:
//!
//!   w <buflen> <limit> <mode> <fill> <op>;<op>;…;fin[:<machex>]
//!
//! with result `ok <status>;<status>;… <msghex> <machex|->` (or `err:Truncation` when
//! `Writer::new` fails).  Every session of the contract-respecting stream is followed by
//!
//!   waudit <buflen> <limit> <mode> <fill> <ops> <statuses> <msghex> <machex|->
//!
//! which embeds the implementation's output so that the Lean driver can decode and audit the
//! *implementation's* octets with the independent decoder (result `ok` when it re-runs to the
//! same output).
//!
//! ops (fields separated by `:`; names and RDATA as wire hex, `-` = empty):
//!   id:<n> qr:<b> aa:<b> tc:<b> rd:<b> ra:<b> oc:<n> rc:<n> xr:<n> lim:<n> m:<s|c|d>
//!   q:<qname>:<qtype>:<qclass>
//!   an|ns|ar:<hint>:<owner>:<type>:<class>:<ttl>:<rdata>:<hv>          add_*_rr
//!   ans|nss|ars:<hint>:<owner>:<type>:<class>:<ttl>:<rdata,rdata…>:<hv> add_*_rrset
//!       hint = n | q | o | r | x<slot>.<idx>      hv = - | <slot>
//!   clr   edns:<payload>   ut:<time48hex>   g (all getters)
//!   tsig:<mode>:<keyname>:<time48hex>:<fudge>:<origid>:<error>:<servertime48hex>
//!       mode = u.<algname> | q.<alg>.<key> | r.<alg>.<key>.<reqmac> | s.<alg>.<key>.<priormac>
//!   tpl:<buflen>   tpls:<buflen>:<priormac>       into_template + try_from_template…
use crate::common::*;
use quandary::class::Class;
use quandary::message::tsig::{Algorithm, PreparedTsigRr};
use quandary::message::writer::{
    CompressionMode, Error, Hint, HintPointerVec, HintedName, Template, TsigMode,
};
use quandary::message::{ExtendedRcode, Opcode, Qclass, Qtype, Question, Rcode, Writer};
use quandary::name::{LowercaseName, Name};
use quandary::rr::rdata::TimeSigned;
use quandary::rr::{Rdata, RdataSetOwned, Ttl, Type};
use std::panic::{catch_unwind, AssertUnwindSafe};

// ------------------------------------------------------------------------------------------
// session executor
// ------------------------------------------------------------------------------------------

struct Sess {
    bufs: Vec<*mut [u8]>,
    cur: *mut [u8],
    fill: u8,
    w: Option<Writer<'static>>,
    hvs: Vec<HintPointerVec>,
}

impl Drop for Sess {
    fn drop(&mut self) {
        self.w = None;
        for b in self.bufs.drain(..) {
            unsafe { drop(Box::from_raw(b)) };
        }
    }
}

fn err_s(e: Error) -> String {
    format!("err:{:?}", e)
}

fn res_s(r: Result<(), Error>) -> String {
    match r {
        Ok(()) => "ok".into(),
        Err(e) => err_s(e),
    }
}

fn name_of(h: &str) -> Option<Box<Name>> {
    Name::try_from_uncompressed_all(&unhex(h)?).ok()
}

fn six(h: &str) -> Option<[u8; 6]> {
    let v = unhex(h)?;
    v.try_into().ok()
}

fn alg_of(s: &str) -> Option<Algorithm> {
    match s {
        "1" => Some(Algorithm::HmacSha1),
        "256" => Some(Algorithm::HmacSha256),
        _ => None,
    }
}

impl Sess {
    fn alloc(&mut self, len: usize) -> &'static mut [u8] {
        let b: Box<[u8]> = vec![self.fill; len].into_boxed_slice();
        let p = Box::into_raw(b);
        self.bufs.push(p);
        self.cur = p;
        unsafe { &mut *p }
    }

    fn new(buflen: usize, limit: usize, mode: &str, fill: u8) -> Result<Sess, String> {
        let mut s = Sess { bufs: vec![], cur: std::ptr::slice_from_raw_parts_mut(std::ptr::null_mut(), 0), fill, w: None, hvs: vec![] };
        let buf = s.alloc(buflen);
        match Writer::new(buf, limit) {
            Ok(mut w) => {
                w.set_compression_mode(match mode {
                    "c" => CompressionMode::CasePreserving,
                    "d" => CompressionMode::Disabled,
                    _ => CompressionMode::Standard,
                });
                s.w = Some(w);
                Ok(s)
            }
            Err(e) => Err(err_s(e)),
        }
    }

    fn hv(&mut self, slot: usize) -> &mut HintPointerVec {
        while self.hvs.len() <= slot {
            self.hvs.push(HintPointerVec::new());
        }
        &mut self.hvs[slot]
    }

    fn hinted<'n>(&mut self, hint: &str, name: &'n Name) -> Option<HintedName<'n>> {
        Some(match hint {
            "n" => HintedName::new(Hint::None, name),
            "q" => HintedName::new(Hint::Qname, name),
            "o" => HintedName::new(Hint::MostRecentOwner, name),
            "r" => HintedName::new(Hint::MostRecentNameInRdata, name),
            _ => {
                let rest = hint.strip_prefix('x')?;
                let (a, b) = rest.split_once('.')?;
                let slot: usize = a.parse().ok()?;
                let idx: usize = b.parse().ok()?;
                let v = self.hv(slot).clone();
                HintedName::from_hint_pointer_vec(&v, idx, name)
            }
        })
    }

    /// Execute one op (not `fin`). `None` = malformed op.
    fn op(&mut self, op: &str) -> Option<String> {
        let f: Vec<&str> = op.split(':').collect();
        let b = |s: &str| s == "1";
        macro_rules! w {
            () => {
                self.w.as_mut()?
            };
        }
        Some(match (f[0], f.len()) {
            ("id", 2) => { w!().set_id(f[1].parse().ok()?); "ok".into() }
            ("qr", 2) => { w!().set_qr(b(f[1])); "ok".into() }
            ("aa", 2) => { w!().set_aa(b(f[1])); "ok".into() }
            ("tc", 2) => { w!().set_tc(b(f[1])); "ok".into() }
            ("rd", 2) => { w!().set_rd(b(f[1])); "ok".into() }
            ("ra", 2) => { w!().set_ra(b(f[1])); "ok".into() }
            ("oc", 2) => { w!().set_opcode(Opcode::try_from(f[1].parse::<u8>().ok()?).ok()?); "ok".into() }
            ("rc", 2) => { w!().set_rcode(Rcode::try_from(f[1].parse::<u8>().ok()?).ok()?); "ok".into() }
            ("xr", 2) => res_s(w!().set_extended_rcode(ExtendedRcode::from(f[1].parse::<u16>().ok()?))),
            ("lim", 2) => { w!().set_limit(f[1].parse().ok()?); "ok".into() }
            ("m", 2) => {
                w!().set_compression_mode(match f[1] {
                    "s" => CompressionMode::Standard,
                    "c" => CompressionMode::CasePreserving,
                    "d" => CompressionMode::Disabled,
                    _ => return None,
                });
                "ok".into()
            }
            ("q", 4) => {
                let q = Question {
                    qname: name_of(f[1])?,
                    qtype: Qtype::from(f[2].parse::<u16>().ok()?),
                    qclass: Qclass::from(f[3].parse::<u16>().ok()?),
                };
                res_s(w!().add_question(&q))
            }
            ("an" | "ns" | "ar", 8) => {
                let owner = name_of(f[2])?;
                let ty = Type::from(f[3].parse::<u16>().ok()?);
                let cl = Class::from(f[4].parse::<u16>().ok()?);
                let ttl = Ttl::from(f[5].parse::<u32>().ok()?);
                let rd = unhex(f[6])?;
                let rdata: &Rdata = rd.as_slice().try_into().ok()?;
                let hn = self.hinted(f[1], &owner)?;
                let mut tmp;
                let hv: Option<&mut HintPointerVec> = if f[7] == "-" { None } else {
                    let slot: usize = f[7].parse().ok()?;
                    tmp = std::mem::take(self.hv(slot));
                    Some(&mut tmp)
                };
                let w = self.w.as_mut()?;
                let (r, hv) = match f[0] {
                    "an" => { let mut hv = hv; (w.add_answer_rr(hn, ty, cl, ttl, rdata, hv.as_deref_mut()), hv) }
                    "ns" => { let mut hv = hv; (w.add_authority_rr(hn, ty, cl, ttl, rdata, hv.as_deref_mut()), hv) }
                    _ => { let mut hv = hv; (w.add_additional_rr(hn, ty, cl, ttl, rdata, hv.as_deref_mut()), hv) }
                };
                if let Some(v) = hv {
                    let slot: usize = f[7].parse().ok()?;
                    self.hvs[slot] = std::mem::take(v);
                }
                res_s(r)
            }
            ("ans" | "nss" | "ars", 8) => {
                let owner = name_of(f[2])?;
                let ty = Type::from(f[3].parse::<u16>().ok()?);
                let cl = Class::from(f[4].parse::<u16>().ok()?);
                let ttl = Ttl::from(f[5].parse::<u32>().ok()?);
                let rds: Vec<Vec<u8>> = f[6].split(',').map(unhex).collect::<Option<_>>()?;
                let set = build_set(cl, ty, &rds)?;
                let hn = self.hinted(f[1], &owner)?;
                let mut tmp;
                let hv: Option<&mut HintPointerVec> = if f[7] == "-" { None } else {
                    let slot: usize = f[7].parse().ok()?;
                    tmp = std::mem::take(self.hv(slot));
                    Some(&mut tmp)
                };
                let w = self.w.as_mut()?;
                let (r, hv) = match f[0] {
                    "ans" => { let mut hv = hv; (w.add_answer_rrset(hn, ty, cl, ttl, &set, hv.as_deref_mut()), hv) }
                    "nss" => { let mut hv = hv; (w.add_authority_rrset(hn, ty, cl, ttl, &set, hv.as_deref_mut()), hv) }
                    _ => { let mut hv = hv; (w.add_additional_rrset(hn, ty, cl, ttl, &set, hv.as_deref_mut()), hv) }
                };
                if let Some(v) = hv {
                    let slot: usize = f[7].parse().ok()?;
                    self.hvs[slot] = std::mem::take(v);
                }
                res_s(r)
            }
            ("clr", 1) => { w!().clear_rrs(); "ok".into() }
            ("edns", 2) => res_s(w!().set_edns(f[1].parse().ok()?)),
            ("ut", 2) => res_s(w!().update_time_signed(TimeSigned::from(six(f[1])?))),
            ("tsig", 8) => {
                let m: Vec<&str> = f[1].split('.').collect();
                let mode = match (m[0], m.len()) {
                    ("u", 2) => {
                        let n: Box<LowercaseName> = name_of(m[1])?.into();
                        TsigMode::Unsigned { algorithm: n }
                    }
                    ("q", 3) => TsigMode::Request { algorithm: alg_of(m[1])?, key: unhex(m[2])?.into() },
                    ("r", 4) => TsigMode::Response { algorithm: alg_of(m[1])?, key: unhex(m[2])?.into(), request_mac: unhex(m[3])?.into() },
                    ("s", 4) => TsigMode::Subsequent { algorithm: alg_of(m[1])?, key: unhex(m[2])?.into(), prior_mac: unhex(m[3])?.into() },
                    _ => return None,
                };
                let rr = PreparedTsigRr {
                    key_name: name_of(f[2])?.into(),
                    time_signed: TimeSigned::from(six(f[3])?),
                    fudge: f[4].parse().ok()?,
                    original_id: f[5].parse().ok()?,
                    error: ExtendedRcode::from(f[6].parse::<u16>().ok()?),
                    server_time: TimeSigned::from(six(f[7])?),
                };
                res_s(w!().set_tsig(mode, rr))
            }
            ("tpl", 2) | ("tpls", 3) => {
                let n: usize = f[1].parse().ok()?;
                let old_len = unsafe { (&*self.cur).len() };
                let t: Template = self.w.take()?.into_template();
                let buf = self.alloc(n);
                let r = if f[0] == "tpl" {
                    Writer::try_from_template(buf, &t)
                } else {
                    Writer::try_from_template_as_tsig_subsequent(buf, &t, unhex(f[2])?.into())
                };
                match r {
                    Ok(w) => { self.w = Some(w); "ok".into() }
                    Err(e) => {
                        let buf = self.alloc(old_len);
                        self.w = Some(Writer::try_from_template(buf, &t).expect("fallback template"));
                        err_s(e)
                    }
                }
            }
            ("g", 1) => {
                let w = self.w.as_ref()?;
                format!(
                    "g={}.{}{}{}{}{}.{}.{}.{}.{}.{}.{}.{}",
                    w.id(), w.qr() as u8, w.aa() as u8, w.tc() as u8, w.rd() as u8, w.ra() as u8,
                    u8::from(w.opcode()), u8::from(w.rcode()), u16::from(w.extended_rcode()),
                    w.qdcount(), w.ancount(), w.nscount(), w.arcount()
                )
            }
            _ => return None,
        })
    }

    fn finish(&mut self) -> Option<(Vec<u8>, Option<Box<[u8]>>)> {
        let w = self.w.take()?;
        let (len, mac) = w.finish_with_mac();
        let buf = unsafe { &*self.cur };
        Some((buf[..len].to_vec(), mac))
    }
}

fn build_set(cl: Class, ty: Type, rds: &[Vec<u8>]) -> Option<RdataSetOwned> {
    let mut refs: Vec<&Rdata> = Vec::new();
    for r in rds {
        refs.push(r.as_slice().try_into().ok()?);
    }
    RdataSetOwned::from_iter(cl, ty, refs.into_iter())
}

/// run a complete session line; result text as documented above
fn exec(buflen: usize, limit: usize, mode: &str, fill: u8, ops: &str) -> String {
    let mut s = match Sess::new(buflen, limit, mode, fill) {
        Ok(s) => s,
        Err(e) => return e,
    };
    let mut st: Vec<String> = Vec::new();
    for op in ops.split(';') {
        if op == "fin" || op.starts_with("fin:") {
            return match catch_unwind(AssertUnwindSafe(|| s.finish())) {
                Ok(Some((msg, mac))) => {
                    st.push("ok".into());
                    format!("ok {} {} {}", st.join(";"), hex(&msg), mac.map_or("-".to_string(), |m| hex(&m)))
                }
                Ok(None) => "bad-op".into(),
                Err(_) => {
                    st.push("panic".into());
                    format!("ok {} - -", st.join(";"))
                }
            };
        }
        match catch_unwind(AssertUnwindSafe(|| s.op(op))) {
            Ok(Some(r)) => st.push(r),
            Ok(None) => return "bad-op".into(),
            Err(_) => {
                st.push("panic".into());
                std::mem::forget(s.w.take());
                return format!("ok {} - -", st.join(";"));
            }
        }
    }
    "bad-op".into()
}

/// finished messages of the prefixes that end before each `clr` op, followed by `last`,
/// joined by `|` (what `waudit` carries: every segment of the session can then be decoded)
fn with_prefix_msgs(buflen: usize, limit: usize, mode: &str, fill: u8, ops: &[&str], last: &str) -> String {
    let mut out: Vec<String> = Vec::new();
    for (i, op) in ops.iter().enumerate() {
        if *op == "clr" {
            let mut pre: Vec<&str> = ops[..i].to_vec();
            pre.push("fin");
            let r = exec(buflen, limit, mode, fill, &pre.join(";"));
            let f: Vec<&str> = r.split(' ').collect();
            out.push(if f.len() == 4 && f[0] == "ok" { f[2].to_string() } else { "-".to_string() });
        }
    }
    out.push(last.to_string());
    out.join("|")
}

/// the `waudit` line for a session whose `w` line is `w <head>` with result `ok <st> <msg> <mac>`
fn audit_line(head: &str, result: &str) -> Option<String> {
    let h: Vec<&str> = head.split(' ').collect();
    let r: Vec<&str> = result.split(' ').collect();
    // sessions that panicked are audited too (the specification says they must not)
    if h.len() != 5 || r.len() != 4 || r[0] != "ok" {
        return None;
    }
    let (bl, li, fi) = (h[0].parse().ok()?, h[1].parse().ok()?, h[2 + 1].parse().ok()?);
    let ops: Vec<&str> = h[4].split(';').collect();
    let msgs = with_prefix_msgs(bl, li, h[2], fi, &ops, r[2]);
    Some(format!("{} {} {} {} {}", AUDIT_OP.with(|c| c.get()), head, r[1], msgs, r[3]))
}

thread_local! {
    /// `waudit` for group `writer` (C12: everything), `paudit` for group `writerptr` (C13: the
    /// pointer audit only)
    static AUDIT_OP: std::cell::Cell<&'static str> = std::cell::Cell::new("waudit");
}

/// group `writerptr`: the same sessions, audited for C13 only
pub fn gen_ptr(rng: &mut Rng, thorough: bool, em: &mut Emitter) {
    AUDIT_OP.with(|c| c.set("paudit"));
    gen(rng, thorough, em);
}

/// contract-violating scenario: a hint pointer recorded by a call that was rolled back is used
/// later, when the cursor is exactly at (or just around) the stale position
fn gen_stale_pointer_session(rng: &mut Rng, em: &mut Emitter) {
    let mut lab = |n: usize| -> Vec<u8> {
        let mut v = vec![n as u8];
        for _ in 0..n { v.push(b'a' + rng.below(26) as u8); }
        v.push(0);
        v
    };
    let (o, n1, n2, o2, x) = (lab(5), lab(6), lab(40), lab(5), lab(5));
    let delta = *rng.pick(&[0usize, 0, 0, 1, 2]);          // extra RDATA octets in the filler record
    let filler: String = std::iter::repeat("00").take(delta).collect();
    let mode = *rng.pick(&["s", "s", "c"]);
    let ops = format!(
        "q:00:1:1;nss:n:{}:2:1:60:{},{}:0;ns:n:{}:65280:1:60:{}:-;ns:x0.0:{}:1:1:60:01020304:-;ns:x0.0:{}:2:1:60:{}:-;fin",
        hex(&o), hex(&n1), hex(&n2), hex(&o2), if delta == 0 { "-".to_string() } else { filler }, hex(&x), hex(&x), hex(&n1)
    );
    let r = exec(200, 60, mode, 0, &ops);
    em.emit(&format!("w 200 60 {} 0 {}", mode, ops), &r);
}

pub fn run(op: &str, a: &[&str]) -> Option<String> {
    match (op, a) {
        ("w", [buflen, limit, mode, fill, ops]) => {
            let (Ok(bl), Ok(li), Ok(fi)) = (buflen.parse::<usize>(), limit.parse::<usize>(), fill.parse::<u8>()) else {
                return Some("bad-op".into());
            };
            Some(exec(bl, li, mode, fi, ops))
        }
        ("waudit" | "paudit", [buflen, limit, mode, fill, ops, st, msg, mac]) => {
            let (Ok(bl), Ok(li), Ok(fi)) = (buflen.parse::<usize>(), limit.parse::<usize>(), fill.parse::<u8>()) else {
                return Some("bad-op".into());
            };
            let now = exec(bl, li, mode, fi, ops);
            let last = msg.rsplit('|').next().unwrap_or("-");
            let embedded = format!("ok {} {} {}", st, last, mac);
            Some(if now == embedded { "ok".into() } else { format!("stale {}", now) })
        }
        _ => None,
    }
}

// ------------------------------------------------------------------------------------------
// generators
// ------------------------------------------------------------------------------------------

const WORDS: [&str; 14] = ["a", "b", "www", "mail", "ns1", "ns2", "example", "com", "net", "org", "x", "sub", "_tcp", "host"];

fn flip_case(rng: &mut Rng, l: &mut [u8]) {
    for c in l.iter_mut() {
        if c.is_ascii_alphabetic() && rng.chance(1, 3) {
            *c ^= 0x20;
        }
    }
}

fn gen_label(rng: &mut Rng) -> Vec<u8> {
    match rng.below(40) {
        0 => (0..63).map(|_| b'a' + rng.below(3) as u8).collect(),
        1 => (0..rng.range(40, 63)).map(|_| b'k').collect(),
        2 => vec![0xc0, 0x0c],                  // label data that looks like a pointer
        3 => (0..rng.range(1, 5)).map(|_| rng.byte()).collect(),
        _ => rng.pick(&WORDS).as_bytes().to_vec(),
    }
}

fn wire_of(labels: &[Vec<u8>]) -> Vec<u8> {
    let mut w = Vec::new();
    for l in labels {
        w.push(l.len() as u8);
        w.extend_from_slice(l);
    }
    w.push(0);
    w
}


/// per-session pool of names with shared suffixes and case variants
struct Pool {
    suffixes: Vec<Vec<Vec<u8>>>,
    recent: Vec<Vec<u8>>,
}

impl Pool {
    fn new(rng: &mut Rng) -> Pool {
        let n = rng.range(1, 3);
        let mut suffixes = Vec::new();
        for _ in 0..n {
            let k = rng.range(1, 3);
            suffixes.push((0..k).map(|_| gen_label(rng)).collect());
        }
        Pool { suffixes, recent: vec![] }
    }

    fn name(&mut self, rng: &mut Rng) -> Vec<u8> {
        let w = match rng.below(20) {
            0 => vec![0],
            1 | 2 | 3 if !self.recent.is_empty() => {
                // a recent name again, possibly in another case
                let mut w = rng.pick(&self.recent).clone();
                if rng.chance(1, 2) {
                    recase(rng, &mut w);
                }
                w
            }
            4 if !self.recent.is_empty() => {
                // a recent name with one more label in front, or its parent
                let w = rng.pick(&self.recent).clone();
                if rng.chance(1, 2) && w.len() > 1 {
                    w[(w[0] as usize + 1)..].to_vec()
                } else {
                    let l = gen_label(rng);
                    let mut v = vec![l.len() as u8];
                    v.extend_from_slice(&l);
                    v.extend_from_slice(&w);
                    v
                }
            }
            5 => {
                // long name (close to 255 octets)
                let mut labels: Vec<Vec<u8>> = Vec::new();
                let mut total = 1;
                loop {
                    let l: Vec<u8> = (0..rng.range(20, 63)).map(|_| b'a' + rng.below(2) as u8).collect();
                    if total + l.len() + 1 > 255 { break; }
                    total += l.len() + 1;
                    labels.push(l);
                }
                wire_of(&labels)
            }
            6 => {
                // many one-octet labels
                let n = rng.range(10, 127);
                wire_of(&(0..n).map(|_| vec![b'a' + rng.below(2) as u8]).collect::<Vec<_>>())
            }
            _ => {
                let mut labels: Vec<Vec<u8>> = (0..rng.below(3)).map(|_| gen_label(rng)).collect();
                let suf = rng.pick(&self.suffixes).clone();
                labels.extend(suf);
                if rng.chance(1, 3) {
                    for l in labels.iter_mut() { flip_case(rng, l); }
                }
                wire_of(&labels)
            }
        };
        let w = if w.len() > 255 || Name::try_from_uncompressed_all(&w).is_err() { vec![0] } else { w };
        if self.recent.len() < 12 { self.recent.push(w.clone()); } else { let i = rng.below(12); self.recent[i] = w.clone(); }
        w
    }
}

fn recase(rng: &mut Rng, w: &mut [u8]) {
    let mut i = 0;
    while i < w.len() && w[i] != 0 {
        let l = w[i] as usize;
        flip_case(rng, &mut w[i + 1..i + 1 + l]);
        i += l + 1;
    }
}

/// the generator's own copy of the RDATA layout table (RFC 1035 §3.3, RFC 2782): positions of
/// embedded names, used to track the "most recent name in RDATA" and hint-vector contents
#[derive(Clone, Copy)]
enum Fld { Name, Fixed(usize) }

fn layout(ty: u16, cl: u16) -> &'static [Fld] {
    match (ty, cl) {
        (2 | 3 | 4 | 5 | 7 | 8 | 9 | 12, _) => &[Fld::Name],
        (1, 3) => &[Fld::Name],
        (6, _) | (14, _) => &[Fld::Name, Fld::Name],
        (15, _) => &[Fld::Fixed(2), Fld::Name],
        (33, 1) => &[Fld::Fixed(6), Fld::Name],
        _ => &[],
    }
}

/// names embedded in `rd` according to `layout` (None = does not parse)
fn rdata_names(ty: u16, cl: u16, rd: &[u8]) -> Option<Vec<Vec<u8>>> {
    let mut pos = 0;
    let mut out = Vec::new();
    for f in layout(ty, cl) {
        match f {
            Fld::Fixed(n) => { if rd.len() < pos + n { return None; } pos += n; }
            Fld::Name => {
                let (n, k) = Name::try_from_uncompressed(&rd[pos..]).ok()?;
                out.push(n.wire_repr().to_vec());
                pos += k;
            }
        }
    }
    Some(out)
}

fn gen_rdata(rng: &mut Rng, pool: &mut Pool, ty: u16, cl: u16) -> Vec<u8> {
    let mut rd = Vec::new();
    let lay = layout(ty, cl);
    for f in lay {
        match f {
            Fld::Fixed(n) => for _ in 0..*n { rd.push(rng.byte()); },
            Fld::Name => rd.extend_from_slice(&pool.name(rng)),
        }
    }
    match (ty, cl) {
        (6, _) => for _ in 0..20 { rd.push(rng.byte()); },
        (1, 3) => for _ in 0..2 { rd.push(rng.byte()); },
        (1, 1) => for _ in 0..4 { rd.push(rng.byte()); },
        (28, _) => for _ in 0..16 { rd.push(rng.byte()); },
        (16, _) => {
            let n = match rng.below(12) { 0 => rng.range(200, 255), 1 => 0, _ => rng.range(1, 20) };
            rd.push(n as u8);
            for _ in 0..n { rd.push(b'a' + rng.below(26) as u8); }
        }
        _ if lay.is_empty() => {
            // unknown / nameless type: arbitrary octets, sometimes containing something that looks
            // like a compressed name
            let n = match rng.below(10) { 0 => 0, 1 => rng.range(30, 300), _ => rng.range(1, 12) };
            for _ in 0..n { rd.push(rng.byte()); }
            if rng.chance(1, 4) { rd.extend_from_slice(&pool.name(rng)); }
            if rng.chance(1, 8) { rd.extend_from_slice(&[0xc0, 0x0c]); }
        }
        _ => {}
    }
    // malformed variants
    match rng.below(40) {
        0 if !rd.is_empty() => { let k = rng.below(rd.len()); rd.truncate(k); }
        1 => rd.extend_from_slice(&[rng.byte(), rng.byte()]),      // trailing octets after the name
        2 if !rd.is_empty() => { let k = rng.below(rd.len()); rd[k] = *rng.pick(&[0u8, 64, 0xc0, 0xff, 1]); }
        _ => {}
    }
    rd
}

fn gen_type_class(rng: &mut Rng) -> (u16, u16) {
    let ty = match rng.below(24) {
        0 | 1 | 2 => 2, 3 | 4 => 5, 5 => 12, 6 | 7 => 15, 8 | 9 => 6, 10 => 14,
        11 | 12 => 33, 13 | 14 => 1, 15 => 16, 16 => 28,
        17 => *rng.pick(&[3u16, 4, 7, 8, 9]),
        18 => *rng.pick(&[10u16, 11, 13, 41, 250, 39, 18, 17]),   // NULL WKS HINFO OPT TSIG DNAME AFSDB RP
        19 => 65280 + rng.below(10) as u16,
        20 => rng.below(65536) as u16,
        _ => 2,
    };
    let cl = match rng.below(12) { 0 | 1 => 3, 2 => 4, 3 => 255, 4 => rng.below(65536) as u16, _ => 1 };
    (ty, cl)
}

/// abstract tracking of what the documented hint contract allows
#[derive(Default)]
struct Track {
    qname: Option<Vec<u8>>,
    owner: Option<Vec<u8>>,
    in_rdata: Option<Vec<u8>>,
    slots: Vec<Option<Vec<Vec<u8>>>>,   // None = poisoned / never to be used again
    n_questions: usize,
    std_mode: bool,
}

struct SessionGen<'r> {
    rng: &'r mut Rng,
    pool: Pool,
    s: Sess,
    ops: Vec<String>,
    st: Vec<String>,
    tr: Track,
    violate: bool,
    buflen: usize,
    dead: bool,
    section: u8,
}

impl<'r> SessionGen<'r> {
    fn push(&mut self, op: String) -> String {
        let r = match catch_unwind(AssertUnwindSafe(|| self.s.op(&op))) {
            Ok(Some(r)) => r,
            Ok(None) => panic!("generator produced a malformed op: {}", op),
            Err(_) => { self.dead = true; std::mem::forget(self.s.w.take()); "panic".to_string() }
        };
        self.ops.push(op);
        self.st.push(r.clone());
        r
    }

    fn pick_hint(&mut self, owner: &mut Vec<u8>) -> String {
        let rng = &mut *self.rng;
        if self.violate {
            return match rng.below(8) {
                0 => "q".into(), 1 => "o".into(), 2 => "r".into(),
                3 | 4 => format!("x{}.{}", rng.below(self.tr.slots.len() + 1), rng.below(4)),
                _ => "n".into(),
            };
        }
        // contract-respecting: choose a hint, then make the owner name agree with it
        match rng.below(10) {
            0 | 1 => { if let Some(q) = &self.tr.qname { *owner = q.clone(); if rng.chance(1, 3) { recase(rng, owner); } } "q".into() }
            2 | 3 => { if let Some(o) = &self.tr.owner { *owner = o.clone(); if rng.chance(1, 3) { recase(rng, owner); } } "o".into() }
            4 => { if let Some(o) = &self.tr.in_rdata { *owner = o.clone(); if rng.chance(1, 3) { recase(rng, owner); } } "r".into() }
            5 | 6 => {
                let live: Vec<usize> = (0..self.tr.slots.len()).filter(|i| self.tr.slots[*i].as_ref().map_or(false, |v| !v.is_empty())).collect();
                if live.is_empty() { return "n".into(); }
                let sl = *rng.pick(&live);
                let v = self.tr.slots[sl].as_ref().unwrap();
                let idx = rng.below(v.len().min(16));
                *owner = v[idx].clone();
                if rng.chance(1, 3) { recase(rng, owner); }
                format!("x{}.{}", sl, idx)
            }
            _ => "n".into(),
        }
    }

    fn pick_hv(&mut self) -> String {
        let rng = &mut *self.rng;
        if self.violate {
            return if rng.chance(1, 2) { "-".into() } else { format!("{}", rng.below(self.tr.slots.len() + 1)) };
        }
        match rng.below(4) {
            0 => {
                // a fresh slot
                self.tr.slots.push(Some(vec![]));
                format!("{}", self.tr.slots.len() - 1)
            }
            1 => {
                let live: Vec<usize> = (0..self.tr.slots.len()).filter(|i| self.tr.slots[*i].is_some()).collect();
                if live.is_empty() { "-".into() } else { format!("{}", rng.pick(&live)) }
            }
            _ => "-".into(),
        }
    }

    fn add_rr(&mut self) {
        let sec = {
            let rng = &mut *self.rng;
            if rng.chance(1, 20) { rng.below(3) as u8 + 1 } else {
                if self.section < 3 && rng.chance(1, 4) { self.section += 1; }
                self.section.max(1)
            }
        };
        let (ty, cl) = gen_type_class(self.rng);
        let mut owner = self.pool.name(self.rng);
        let hint = self.pick_hint(&mut owner);
        let ttl: u32 = match self.rng.below(10) { 0 => 0, 1 => 0x7fff_ffff, 2 => 0x8000_0000, 3 => 0xffff_ffff, 4 => self.rng.next() as u32, _ => self.rng.below(100000) as u32 };
        let hv = self.pick_hv();
        let set = self.rng.chance(3, 10);
        let secname = ["", "an", "ns", "ar"][sec as usize];
        let (op, rds): (String, Vec<Vec<u8>>) = if set {
            let n = match self.rng.below(8) { 0 => 1, 1 => self.rng.range(5, 20), _ => self.rng.range(2, 4) };
            let mut rds: Vec<Vec<u8>> = (0..n).map(|_| gen_rdata(self.rng, &mut self.pool, ty, cl)).collect();
            // the set de-duplicates: list what it will iterate
            let built = catch_unwind(AssertUnwindSafe(|| build_set(Class::from(cl), Type::from(ty), &rds)));
            match built {
                Ok(Some(set)) => { rds = set.iter().map(|r| r.octets().to_vec()).collect(); }
                _ => { rds.truncate(1); }
            }
            (format!("{}s:{}:{}:{}:{}:{}:{}:{}", secname, hint, hex(&owner), ty, cl, ttl,
                     rds.iter().map(|r| hex(r)).collect::<Vec<_>>().join(","), hv), rds)
        } else {
            let rd = gen_rdata(self.rng, &mut self.pool, ty, cl);
            (format!("{}:{}:{}:{}:{}:{}:{}:{}", secname, hint, hex(&owner), ty, cl, ttl, hex(&rd), hv), vec![rd])
        };
        let r = self.push(op);
        let slot: Option<usize> = hv.parse().ok();
        if r == "ok" {
            if sec > self.section { self.section = sec; }
            self.tr.owner = Some(owner);
            let mut names = Vec::new();
            for rd in &rds {
                if let Some(ns) = rdata_names(ty, cl, rd) { names.extend(ns); }
            }
            if let Some(last) = names.last() { self.tr.in_rdata = Some(last.clone()); }
            if let Some(sl) = slot {
                if sl < self.tr.slots.len() {
                    if let Some(v) = self.tr.slots[sl].as_mut() { v.extend(names); }
                }
            }
        } else if let Some(sl) = slot {
            // a failed call may have pushed pointers into rolled-back space: never use this vector again
            if sl < self.tr.slots.len() { self.tr.slots[sl] = None; }
        }
    }

    fn header_op(&mut self) {
        let rng = &mut *self.rng;
        let op = match rng.below(9) {
            0 => format!("id:{}", rng.below(65536)),
            1 => format!("qr:{}", rng.below(2)),
            2 => format!("aa:{}", rng.below(2)),
            3 => format!("tc:{}", rng.below(2)),
            4 => format!("rd:{}", rng.below(2)),
            5 => format!("ra:{}", rng.below(2)),
            6 => format!("oc:{}", rng.below(16)),
            7 => format!("rc:{}", rng.below(16)),
            _ => "g".to_string(),
        };
        self.push(op);
    }

    fn xr_op(&mut self) {
        let rng = &mut *self.rng;
        let v = match rng.below(10) {
            0 => 4095, 1 => 4096, 2 => 2048, 3 => 2047, 4 => rng.range(2048, 4095), 5 => rng.range(4096, 65535),
            6 => rng.below(16), _ => rng.below(4096),
        };
        self.push(format!("xr:{}", v));
    }

    fn tsig_op(&mut self) {
        let key_name = { let mut n = self.pool.name(self.rng); n.make_ascii_lowercase(); n };
        let rng = &mut *self.rng;
        let key: Vec<u8> = (0..rng.range(1, 40)).map(|_| rng.byte()).collect();
        let mac: Vec<u8> = (0..*rng.pick(&[0usize, 10, 20, 32])).map(|_| rng.byte()).collect();
        let alg = *rng.pick(&["1", "256"]);
        let mode = match rng.below(8) {
            0 => format!("q.{}.{}", alg, hex(&key)),
            1 => format!("r.{}.{}.{}", alg, hex(&key), hex(&mac)),
            2 => format!("s.{}.{}.{}", alg, hex(&key), hex(&mac)),
            3 => "u.0b686d61632d73686132353600".to_string(),
            _ => { let mut a = self.pool.name(rng); a.make_ascii_lowercase(); format!("u.{}", hex(&a)) }
        };
        let rng = &mut *self.rng;
        let t: Vec<u8> = (0..6).map(|_| rng.byte()).collect();
        let t2: Vec<u8> = (0..6).map(|_| rng.byte()).collect();
        let error = match rng.below(6) { 0 => 18, 1 => 16, 2 => 17, 3 => rng.below(65536), _ => 0 };
        let (fudge, oid) = (rng.below(65536), rng.below(65536));
        self.push(format!("tsig:{}:{}:{}:{}:{}:{}:{}", mode, hex(&key_name), hex(&t), fudge, oid, error, hex(&t2)));
    }

    fn question(&mut self) {
        let qn = self.pool.name(self.rng);
        let rng = &mut *self.rng;
        let qt = match rng.below(5) { 0 => 255, 1 => 252, 2 => rng.below(65536), _ => *rng.pick(&[1usize, 2, 5, 15, 28, 6]) };
        let qc = match rng.below(6) { 0 => 255, 1 => 3, 2 => rng.below(65536), _ => 1 };
        let r = self.push(format!("q:{}:{}:{}", hex(&qn), qt, qc));
        if r == "ok" {
            if self.tr.n_questions == 0 { self.tr.qname = Some(qn); }
            self.tr.n_questions += 1;
        }
    }

    fn clear(&mut self) {
        self.push("clr".to_string());
        self.tr.owner = None;
        self.tr.in_rdata = None;
        for s in self.tr.slots.iter_mut() { *s = None; }
        self.section = 0;
    }
}

struct Shape {
    buflen: usize,
    limit: usize,
    mode: &'static str,
    fill: u8,
    violate: bool,
    n_ops: usize,
}

fn gen_session(rng: &mut Rng, sh: &Shape, em: &mut Emitter, stats: &mut Stats) {
    let s = match Sess::new(sh.buflen, sh.limit, sh.mode, sh.fill) {
        Ok(s) => s,
        Err(e) => {
            em.emit(&format!("w {} {} {} {} fin", sh.buflen, sh.limit, sh.mode, sh.fill), &e);
            return;
        }
    };
    let pool = Pool::new(rng);
    let mut g = SessionGen { rng, pool, s, ops: vec![], st: vec![], tr: Track::default(), violate: sh.violate,
                             buflen: sh.buflen, dead: false, section: 0 };
    g.tr.std_mode = sh.mode == "s";
    // prologue: header, EDNS/TSIG early in most sessions
    let early_edns = g.rng.chance(1, 3);
    let early_tsig = g.rng.chance(1, 5);
    if g.rng.chance(1, 2) { g.header_op(); }
    if early_edns { let p = g.rng.below(65536); g.push(format!("edns:{}", p)); }
    if early_tsig { g.tsig_op(); }
    let nq = match g.rng.below(10) { 0 => 0, 1 => 2, 2 => 3, _ => 1 };
    for _ in 0..nq { if !g.dead { g.question(); } }
    for _ in 0..sh.n_ops {
        if g.dead { break; }
        match g.rng.below(100) {
            0..=59 => g.add_rr(),
            60..=66 => g.header_op(),
            67..=70 => g.xr_op(),
            71..=73 => { let p = g.rng.below(65536); g.push(format!("edns:{}", p)); }
            74..=75 => g.tsig_op(),
            76..=79 => {
                let v = match g.rng.below(4) { 0 => g.rng.below(sh.buflen + 40), 1 => g.rng.below(100), _ => g.rng.range(sh.limit.saturating_sub(60), sh.limit + 60) };
                g.push(format!("lim:{}", v));
            }
            80..=82 => g.question(),
            83..=85 => g.clear(),
            86..=87 => { let m = *g.rng.pick(&["s", "c", "d"]); g.push(format!("m:{}", m)); }
            88..=90 => {
                let n = match g.rng.below(4) { 0 => g.rng.below(g.buflen + 1), 1 => g.buflen + g.rng.below(50), _ => g.buflen };
                let r = g.push(format!("tpl:{}", n));
                if r == "ok" { g.buflen = n; }
            }
            91 => {
                let n = g.buflen;
                let rng = &mut *g.rng;
                let mac: Vec<u8> = (0..rng.below(33)).map(|_| rng.byte()).collect();
                g.push(format!("tpls:{}:{}", n, hex(&mac)));
            }
            92 => { let rng = &mut *g.rng; let t: Vec<u8> = (0..6).map(|_| rng.byte()).collect(); g.push(format!("ut:{}", hex(&t))); }
            _ => g.add_rr(),
        }
    }
    let (st, msg, mac) = if g.dead {
        (g.st.join(";"), "-".to_string(), "-".to_string())
    } else {
        match catch_unwind(AssertUnwindSafe(|| g.s.finish())) {
            Ok(Some((msg, mac))) => { g.st.push("ok".into()); (g.st.join(";"), hex(&msg), mac.map_or("-".to_string(), |m| hex(&m))) }
            _ => { g.st.push("panic".into()); (g.st.join(";"), "-".to_string(), "-".to_string()) }
        }
    };
    let fin = if g.dead { String::new() } else if mac == "-" { "fin".to_string() } else { format!("fin:{}", mac) };
    let mut ops = g.ops.join(";");
    if !fin.is_empty() { if !ops.is_empty() { ops.push(';'); } ops.push_str(&fin); }
    let head = format!("{} {} {} {} {}", sh.buflen, sh.limit, sh.mode, sh.fill, ops);
    let res = format!("ok {} {} {}", st, msg, mac);
    em.emit(&format!("w {}", head), &res);
    stats.note(&g.ops, &g.st, &msg, sh);
    if !sh.violate {
        if let Some(l) = audit_line(&head, &res) { em.emit(&l, "ok"); }
    }
}

#[derive(Default)]
struct Stats {
    sessions: u64,
    ops: u64,
    errs: std::collections::BTreeMap<String, u64>,
    pointers: u64,
    over_16k: u64,
}

impl Stats {
    fn note(&mut self, ops: &[String], st: &[String], msg: &str, _sh: &Shape) {
        self.sessions += 1;
        self.ops += ops.len() as u64;
        for (o, s) in ops.iter().zip(st.iter()) {
            if s != "ok" && !s.starts_with("g=") {
                let k = format!("{} {}", o.split(':').next().unwrap_or(""), s);
                *self.errs.entry(k).or_insert(0) += 1;
            }
        }
        // rough pointer count: "c0"-prefixed octet pairs are over-counted; informational only
        if msg.len() > 2 * 16384 { self.over_16k += 1; }
        let b = msg.as_bytes();
        let mut i = 0;
        while i + 1 < b.len() { if b[i] == b'c' && b[i + 1] == b'0' { self.pointers += 1; } i += 2; }
    }
}

/// many tiny records to drive a section count to 65535 and beyond
fn gen_count_session(rng: &mut Rng, em: &mut Emitter, which: usize) {
    let per = 500usize;
    let n_sets = 65535 / per + 2;
    let buflen = 12 + 5 + (n_sets * per + 10) * 13 + 64;
    let sec = ["ans", "nss", "ars"][which % 3];
    let mut ops: Vec<String> = vec!["q:00:1:1".into()];
    if which >= 3 { ops.push("edns:1232".into()); }
    let mut total = 0usize;
    let mut k = 0u32;
    while total < 65535 + per {
        let n = if total + per > 65535 && total < 65535 { 65535 - total - (which % 2) } else { per };
        let n = n.max(1);
        let rds: Vec<String> = (0..n).map(|i| format!("{:04x}", (i as u32 + 7 * k) & 0xffff)).collect();
        ops.push(format!("{}:n:00:{}:1:{}:{}:-", sec, 65280 + (k % 3), k, rds.join(",")));
        total += n;
        k += 1;
        if total == 65535 - (which % 2) {
            // exactly at (or one below) the maximum: a single-record add, EDNS, then one more set
            ops.push(format!("{}:n:00:99:1:5:abcd:-", &sec[..2]));
            ops.push(format!("{}:n:00:99:1:5:abce:-", &sec[..2]));
            ops.push("edns:512".into());
            ops.push("g".into());
        }
    }
    let _ = rng;
    ops.push("fin".into());
    let head = format!("{} {} d 0 {}", buflen, buflen, ops.join(";"));
    let r = exec(buflen, buflen, "d", 0, &ops.join(";"));
    em.emit(&format!("w {}", head), &r);
    if let Some(l) = audit_line(&head, &r) { em.emit(&l, "ok"); }
}

/// many questions: QDCOUNT at its maximum
fn gen_qcount_session(em: &mut Emitter) {
    let n = 65537usize;
    let buflen = 12 + n * 5 + 40;
    let mut ops: Vec<String> = (0..n).map(|i| format!("q:00:{}:1", i % 65536)).collect();
    ops.push("g".into());
    ops.push("an:n:00:1:1:0:01020304:-".into());
    ops.push("fin".into());
    let head = format!("{} {} s 0 {}", buflen, buflen, ops.join(";"));
    let r = exec(buflen, buflen, "s", 0, &ops.join(";"));
    em.emit(&format!("w {}", head), &r);
    if let Some(l) = audit_line(&head, &r) { em.emit(&l, "ok"); }
}

pub fn gen(rng: &mut Rng, thorough: bool, em: &mut Emitter) {
    let mut stats = Stats::default();
    // 0. fixed sessions: the unit tests' scenarios and the D07 witness
    for (line, audit) in FIXED {
        let a: Vec<&str> = line.split(' ').collect();
        let r = run(a[0], &a[1..]).unwrap();
        em.emit(line, &r);
        if *audit {
            if let Some(l) = audit_line(&line[2..], &r) { em.emit(&l, "ok"); }
        }
    }
    // 1. ext-RCODE sweep (all values 0..4095 in thorough, a stride in quick; plus > 4095)
    let stride = if thorough { 1 } else { 37 };
    let mut vals: Vec<usize> = (0..=4095).step_by(stride).collect();
    vals.extend_from_slice(&[15, 16, 2047, 2048, 2049, 4095, 4096, 4097, 65535]);
    for v in vals {
        let line = format!("w 64 64 s 0 edns:1232;xr:{};g;fin", v);
        let a: Vec<&str> = line.split(' ').collect();
        let r = run(a[0], &a[1..]).unwrap();
        em.emit(&line, &r);
        if let Some(l) = audit_line(&line[2..], &r) { em.emit(&l, "ok"); }
    }
    // 2. random sessions
    let n = if thorough { 200_000 } else { 5_000 };
    for i in 0..n {
        let violate = i % 5 == 4;
        let mode = match rng.below(10) { 0..=3 => "s", 4..=6 => "c", _ => "d" };
        let n_ops = match rng.below(12) { 0 => rng.range(15, 40), 1 => 0, _ => rng.range(1, 10) };
        // sizes: small enough that truncation happens at every kind of op
        let (buflen, limit) = match rng.below(20) {
            0 => (rng.below(14), rng.below(30)),
            1 => (rng.range(12, 40), rng.range(12, 40)),
            2 => (rng.range(500, 700), rng.range(12, 80)),
            3 | 4 => { let b = rng.range(40, 200); (b, rng.range(12, b + 20)) }
            5 | 6 | 7 => { let b = rng.range(100, 400); (b, rng.range(60, b + 20)) }
            8 => (rng.range(512, 1500), 512),
            _ => { let b = rng.range(200, 900); (b, b) }
        };
        let fill = *rng.pick(&[0u8, 0, 0xaa, 0xc0, 0xff, 0x3f, 1]);
        let sh = Shape { buflen, limit, mode, fill, violate, n_ops };
        gen_session(rng, &sh, em, &mut stats);
    }
    // 2b. stale hint pointers (contract violation; compared with the model only)
    for _ in 0..(if thorough { 400 } else { 40 }) {
        gen_stale_pointer_session(rng, em);
    }
    // 3. sessions that cross POINTER_MAX (0x3fff): a big TXT record first, names afterwards
    let n_big = if thorough { 300 } else { 8 };
    for i in 0..n_big {
        let mode = ["s", "c", "d"][i % 3];
        let pad = rng.range(16383 - 120, 16383 + 20) - 12 - 30;
        let buflen = 16384 + rng.range(100, 1200);
        let s = match Sess::new(buflen, buflen, mode, 0) { Ok(s) => s, Err(_) => continue };
        let pool = Pool::new(rng);
        let mut g = SessionGen { rng, pool, s, ops: vec![], st: vec![], tr: Track::default(), violate: false,
                                 buflen, dead: false, section: 0 };
        g.question();
        let owner = g.pool.name(g.rng);
        let filler: String = std::iter::repeat("61").take(pad).collect();
        g.push(format!("an:n:{}:16:1:60:{}:-", hex(&owner), filler));
        g.tr.owner = Some(owner);
        g.section = 1;
        for _ in 0..g.rng.range(4, 14) { if !g.dead { g.add_rr(); } }
        if g.rng.chance(1, 2) { g.push("edns:4096".into()); }
        let (st, msg, mac) = match catch_unwind(AssertUnwindSafe(|| g.s.finish())) {
            Ok(Some((msg, mac))) if !g.dead => { g.st.push("ok".into()); (g.st.join(";"), hex(&msg), mac.map_or("-".to_string(), |m| hex(&m))) }
            _ => { g.st.push("panic".into()); (g.st.join(";"), "-".to_string(), "-".to_string()) }
        };
        let head = format!("{} {} {} 0 {};fin", buflen, buflen, mode, g.ops.join(";"));
        let res = format!("ok {} {} {}", st, msg, mac);
        em.emit(&format!("w {}", head), &res);
        let sh = Shape { buflen, limit: buflen, mode, fill: 0, violate: false, n_ops: 0 };
        stats.note(&g.ops, &g.st, &msg, &sh);
        if let Some(l) = audit_line(&head, &res) { em.emit(&l, "ok"); }
    }
    // 4. counts near 65535
    let n_cnt = if thorough { 6 } else { 1 };
    for i in 0..n_cnt { gen_count_session(rng, em, if thorough { i } else { 3 }); }
    if thorough { gen_qcount_session(em); }
    eprintln!(
        "[g_writer] sessions={} ops={} pointer-ish octets={} sessions>16k={} failures={:?}",
        stats.sessions, stats.ops, stats.pointers, stats.over_16k, stats.errs
    );
}

/// fixed sessions (second field: emit a `waudit` line too)
const FIXED: &[(&str, bool)] = &[
    // D07 witness: ext-RCODE 2049 must survive (header RCODE 1, OPT TTL 0x80000000)
    ("w 64 64 s 0 edns:1232;xr:2049;g;fin", true),
    ("w 64 64 s 0 edns:1232;xr:4095;rc:3;g;fin", true),
    ("w 64 64 s 0 xr:1;edns:0;edns:1;xr:4096;g;fin", true),
    // writer.rs unit-test scenario: question + hinted answers
    ("w 512 512 s 0 q:076578616d706c65047465737400:1:1;fin", true),
    ("w 512 512 s 0 id:4660;qr:1;aa:1;q:03777777076578616d706c6503636f6d00:1:1;an:q:03777777076578616d706c6503636f6d00:1:1:3600:c0000201:-;ns:n:076578616d706c6503636f6d00:2:1:3600:036e7331076578616d706c6503636f6d00:0;ar:x0.0:036e7331076578616d706c6503636f6d00:1:1:3600:c0000202:-;g;fin", true),
    // SRV / CH A / unknown type: names inside must stay uncompressed
    ("w 512 512 s 0 q:076578616d706c6503636f6d00:33:1;an:q:076578616d706c6503636f6d00:33:1:5:000100020035076578616d706c6503636f6d00:-;an:o:076578616d706c6503636f6d00:1:3:5:076578616d706c6503636f6d000102:-;an:o:076578616d706c6503636f6d00:65280:1:5:076578616d706c6503636f6d00:-;an:o:076578616d706c6503636f6d00:2:1:5:076578616d706c6503636f6d00:-;fin", true),
    // rollback: a record that does not fit leaves the message unchanged
    ("w 60 60 s 0 q:076578616d706c6503636f6d00:1:1;an:q:076578616d706c6503636f6d00:16:1:5:0a61616161616161616161:-;an:q:076578616d706c6503636f6d00:16:1:5:1461616161616161616161616161616161616161616161:-;an:o:076578616d706c6503636f6d00:1:1:5:01020304:-;fin", true),
    // TSIG unsigned, EDNS, clear_rrs, template
    ("w 300 300 s 0 q:076578616d706c6503636f6d00:1:1;edns:1232;tsig:u.0b686d61632d73686132353600:036b6579076578616d706c6503636f6d00:0000632912b4:300:4660:0:0000632912b4;an:q:076578616d706c6503636f6d00:1:1:5:01020304:-;clr;ns:q:076578616d706c6503636f6d00:6:1:5:036e7331076578616d706c6503636f6d000a686f73746d6173746572076578616d706c6503636f6d000000000100000002000000030000000400000005:-;tpl:200;ar:n:036e7331076578616d706c6503636f6d00:1:1:5:01020304:-;g;fin", true),
    ("w 300 300 c 0 q:076578616d706c6503636f6d00:1:1;tsig:u.0b686d61632d73686132353600:036b6579076578616d706c6503636f6d00:0000632912b4:300:4660:18:0000632912b5;an:q:074578614d706c6503636f6d00:1:1:5:01020304:-;fin", true),
];
