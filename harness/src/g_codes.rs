//! group `codes` — C17: src/rr/rr_type.rs, src/class.rs, src/message/{question,opcode,rcode}.rs
//! through the public `FromStr` / `Display` / `TryFrom` implementations.
//!
//! ops (text arguments are the hex of the UTF-8 octets, `-` = empty):
//!   crt <kind> <v>       parse(display(v))              -> `ok <v'>` | `err:<kind>`
//!   cpres <kind> <v> <texthex>   display(v) == text (the text is what the implementation printed when
//!                        the case was generated: a recorded input)  -> `ok` | `differs:<texthex>`
//!   cparse <kind> <hex>  parse(text)                    -> `ok <v>` | `err:Unknown` | `err:BadValue`
//!   copc <x>             Opcode::try_from(x: u8)        -> `ok <x'>` | `err`
//!   crc <x>              Rcode::try_from(x: u8)         -> `ok <x'>` | `err`
//!   cext <e>             Rcode::try_from(ExtendedRcode) -> `ok <x'>` | `err`
//! kind: t = Type, c = Class, qt = Qtype, qc = Qclass.
use crate::common::*;
use quandary::class::Class;
use quandary::message::{ExtendedRcode, Opcode, Qclass, Qtype, Rcode};
use quandary::rr::Type;

fn perr(e: &str) -> String {
    // the two error strings of the FromStr impls
    if e.starts_with("unknown") {
        "err:Unknown".into()
    } else {
        "err:BadValue".into()
    }
}

fn display(kind: &str, v: u16) -> Option<String> {
    Some(match kind {
        "t" => Type::from(v).to_string(),
        "c" => Class::from(v).to_string(),
        "qt" => Qtype::from(v).to_string(),
        "qc" => Qclass::from(v).to_string(),
        _ => return None,
    })
}

fn parse(kind: &str, text: &str) -> Option<String> {
    Some(match kind {
        "t" => match text.parse::<Type>() {
            Ok(x) => format!("ok {}", u16::from(x)),
            Err(e) => perr(e),
        },
        "c" => match text.parse::<Class>() {
            Ok(x) => format!("ok {}", u16::from(x)),
            Err(e) => perr(e),
        },
        "qt" => match text.parse::<Qtype>() {
            Ok(x) => format!("ok {}", u16::from(x)),
            Err(e) => perr(e),
        },
        "qc" => match text.parse::<Qclass>() {
            Ok(x) => format!("ok {}", u16::from(x)),
            Err(e) => perr(e),
        },
        _ => return None,
    })
}

pub fn run(op: &str, a: &[&str]) -> Option<String> {
    let bad = || Some("bad-op".to_string());
    Some(match (op, a) {
        ("crt", [k, v]) => {
            let Ok(v) = v.parse::<u16>() else { return bad() };
            let k = k.to_string();
            guarded(move || match display(&k, v) {
                Some(t) => parse(&k, &t).unwrap(),
                None => "bad-op".into(),
            })
        }
        ("cpres", [k, v, h]) => {
            let Ok(v) = v.parse::<u16>() else { return bad() };
            let Some(bytes) = unhex(h) else { return bad() };
            let k = k.to_string();
            guarded(move || match display(&k, v) {
                Some(t) if t.as_bytes() == &bytes[..] => "ok".into(),
                Some(t) => format!("differs:{}", hex(t.as_bytes())),
                None => "bad-op".into(),
            })
        }
        ("cparse", [k, h]) => {
            let Some(bytes) = unhex(h) else { return bad() };
            let Ok(text) = String::from_utf8(bytes) else { return bad() };
            let k = k.to_string();
            guarded(move || parse(&k, &text).unwrap_or_else(|| "bad-op".into()))
        }
        ("copc", [x]) => {
            let Ok(x) = x.parse::<u8>() else { return bad() };
            guarded(move || match Opcode::try_from(x) {
                Ok(o) => format!("ok {}", u8::from(o)),
                Err(_) => "err".into(),
            })
        }
        ("crc", [x]) => {
            let Ok(x) = x.parse::<u8>() else { return bad() };
            guarded(move || match Rcode::try_from(x) {
                Ok(o) => format!("ok {}", u8::from(o)),
                Err(_) => "err".into(),
            })
        }
        ("cext", [e]) => {
            let Ok(e) = e.parse::<u16>() else { return bad() };
            guarded(move || match Rcode::try_from(ExtendedRcode::from(e)) {
                Ok(o) => format!("ok {}", u8::from(o)),
                Err(_) => "err".into(),
            })
        }
        _ => return None,
    })
}

const KINDS: [&str; 4] = ["t", "c", "qt", "qc"];

/// test vocabulary: mnemonics to try in every case variant (more are discovered from Display)
const TYPE_MNEMONICS: [&str; 20] = [
    "A", "NS", "MD", "MF", "CNAME", "SOA", "MB", "MG", "MR", "NULL", "WKS", "PTR", "HINFO", "MINFO", "MX", "TXT",
    "AAAA", "SRV", "OPT", "TSIG",
];
const QTYPE_MNEMONICS: [&str; 6] = ["IXFR", "AXFR", "MAILB", "MAILA", "ANY", "*"];
const CLASS_MNEMONICS: [&str; 3] = ["IN", "CH", "HS"];
const QCLASS_MNEMONICS: [&str; 3] = ["NONE", "ANY", "*"];

fn emit(em: &mut Emitter, case: String) {
    let mut it = case.split(' ');
    let op = it.next().unwrap();
    let args: Vec<&str> = it.collect();
    let r = run(op, &args).unwrap();
    em.emit(&case, &r);
}

fn emit_parse(em: &mut Emitter, kind: &str, text: &str) {
    emit(em, format!("cparse {} {}", kind, hex(text.as_bytes())));
}

/// every ASCII-case variant of `m` (2^letters of them)
fn case_variants(m: &str) -> Vec<String> {
    let chars: Vec<char> = m.chars().collect();
    let letters: Vec<usize> = (0..chars.len()).filter(|&i| chars[i].is_ascii_alphabetic()).collect();
    let mut out = Vec::new();
    for mask in 0..(1u32 << letters.len()) {
        let mut c = chars.clone();
        for (bit, &i) in letters.iter().enumerate() {
            c[i] = if mask >> bit & 1 == 1 { c[i].to_ascii_lowercase() } else { c[i].to_ascii_uppercase() };
        }
        out.push(c.into_iter().collect());
    }
    out
}

fn random_case(rng: &mut Rng, m: &str) -> String {
    m.chars()
        .map(|c| if rng.chance(1, 2) { c.to_ascii_lowercase() } else { c.to_ascii_uppercase() })
        .collect()
}

fn word_of(kind: &str) -> &'static str {
    if kind == "t" || kind == "qt" { "TYPE" } else { "CLASS" }
}

const NEAR_MISS: [&str; 64] = [
    "", " ", "TYPE", "CLASS", "type", "class", "TYP", "CLAS", "TYPE+5", "TYPE-5", "TYPE+", "TYPE-", "TYPE++5",
    "TYPE+-5", "TYPE065", "TYPE0", "TYPE00", "TYPE+0", "TYPE-0", "TYPE65535", "TYPE65536", "TYPE65537", "TYPE99999",
    "TYPE100000", "TYPE4294967296", "TYPE4294967297", "TYPE18446744073709551617", "TYPE000000000000000000065535",
    "TYPE000000000000000000065536", "TYPE1 ", " TYPE1", "TYPE 1", "TYPE1\n", "TYPE1\0", "type1", "tYpE1", "TYPE1x",
    "TYPEx1", "TYPE0x10", "TYPE1_0", "TYPE1e3", "TYPE1.0", "TYPE١", "TYPE１", "ＴYPE1", "TYPÉ1", "TYP€", "TYP€1",
    "TY€", "T€", "€", "😀", "TYP😀", "TYPE😀", "TYPE1😀", "CLASS+5", "CLASS065", "CLASS65536", "CLASS1 ", "class1",
    "CLAS€", "CLASＳ1", "CLASS255", "TYPECLASS1",
];

const ALPHABET: [&str; 40] = [
    "T", "Y", "P", "E", "t", "y", "p", "e", "C", "L", "A", "S", "c", "l", "a", "s", "0", "1", "2", "5", "6", "9", "+",
    "-", " ", "*", "N", "I", "X", "\u{e9}", "\u{ff34}", "\u{20ac}", "\u{1f600}", "\u{661}", "\u{ff11}", "\0", "\u{7f}",
    "\u{80}", ".", "_",
];

pub fn gen(rng: &mut Rng, thorough: bool, em: &mut Emitter) {
    // 1. exhaustive (both tiers): display -> parse and the displayed text, all 65536 values x 4 kinds
    let mut discovered: Vec<Vec<String>> = vec![Vec::new(); 4];
    for (ki, kind) in KINDS.iter().enumerate() {
        for v in 0..=65535u32 {
            emit(em, format!("crt {} {}", kind, v));
            let text = display(kind, v as u16).unwrap();
            emit(em, format!("cpres {} {} {}", kind, v, hex(text.as_bytes())));
            if !text.to_ascii_uppercase().starts_with(word_of(kind)) && text.len() <= 12 {
                discovered[ki].push(text);
            }
        }
    }
    // 2. exhaustive (both tiers): u8 -> Opcode / Rcode, ExtendedRcode -> Rcode
    for x in 0..=255u32 {
        emit(em, format!("copc {}", x));
        emit(em, format!("crc {}", x));
    }
    for e in 0..=65535u32 {
        emit(em, format!("cext {}", e));
    }
    // 3. exhaustive (both tiers): every case variant of every mnemonic, for every kind
    //    (a mnemonic of another kind must behave as that kind says: e.g. "IN" is no TYPE)
    let mut vocab: Vec<String> = Vec::new();
    for m in TYPE_MNEMONICS.iter().chain(&QTYPE_MNEMONICS).chain(&CLASS_MNEMONICS).chain(&QCLASS_MNEMONICS) {
        vocab.push(m.to_string());
    }
    for d in &discovered {
        vocab.extend(d.iter().cloned());
    }
    vocab.sort();
    vocab.dedup();
    for m in &vocab {
        for variant in case_variants(m) {
            for kind in KINDS {
                emit_parse(em, kind, &variant);
            }
        }
    }
    // 4. RFC 3597 forms for every value: quick = one random case variant of the word per value and
    //    kind (the exact upper-case spelling of every non-mnemonic value is already exercised by
    //    `crt`); thorough = additionally the exact word, all-lower-case and a second random variant
    for kind in KINDS {
        let w = word_of(kind);
        for v in 0..=65535u32 {
            emit_parse(em, kind, &format!("{}{}", random_case(rng, w), v));
            if thorough {
                emit_parse(em, kind, &format!("{}{}", w, v));
                emit_parse(em, kind, &format!("{}{}", w.to_ascii_lowercase(), v));
                emit_parse(em, kind, &format!("{}{}", random_case(rng, w), v));
            }
        }
    }
    //    every case variant of the word, on boundary values
    for kind in KINDS {
        for p in case_variants(word_of(kind)) {
            for v in [0u32, 1, 9, 10, 255, 256, 9999, 10000, 65535, 65536, 70000] {
                emit_parse(em, kind, &format!("{}{}", p, v));
            }
        }
    }
    // 5. near misses, for every kind
    for s in NEAR_MISS {
        for kind in KINDS {
            emit_parse(em, kind, s);
            let other = if s.contains("TYPE") { s.replace("TYPE", "CLASS") } else { s.replace("CLASS", "TYPE") };
            emit_parse(em, kind, &other);
        }
    }
    // 6. random strings: (a) over the alphabet, (b) word + mutated number, (c) mutated mnemonic
    let n = if thorough { 400_000 } else { 30_000 };
    for _ in 0..n {
        let kind = *rng.pick(&KINDS);
        let text = match rng.below(4) {
            0 => {
                let len = rng.below(10);
                (0..len).map(|_| *rng.pick(&ALPHABET)).collect::<String>()
            }
            1 => {
                let w = if rng.chance(1, 8) { word_of(*rng.pick(&KINDS[..])) } else { word_of(kind) };
                let mut t = random_case(rng, w);
                if rng.chance(1, 10) {
                    t.pop();
                }
                match rng.below(6) {
                    0 => t.push('+'),
                    1 => t.push_str(*rng.pick(&ALPHABET[..])),
                    _ => {}
                }
                for _ in 0..rng.below(4) {
                    t.push('0');
                }
                let v: u64 = match rng.below(5) {
                    0 => rng.below(70000) as u64,
                    1 => 65530 + rng.below(12) as u64,
                    2 => rng.next() >> rng.below(64),
                    3 => rng.below(300) as u64,
                    _ => rng.below(10) as u64,
                };
                if !rng.chance(1, 12) {
                    t.push_str(&v.to_string());
                }
                if rng.chance(1, 8) {
                    t.push_str(*rng.pick(&ALPHABET[..]));
                }
                t
            }
            2 => {
                let m = rng.pick(&vocab).clone();
                let mut t = if rng.chance(1, 2) { m } else { random_case(rng, &m) };
                match rng.below(5) {
                    0 => t.push_str(*rng.pick(&ALPHABET[..])),
                    1 => t.insert_str(0, *rng.pick(&ALPHABET[..])),
                    2 => {
                        t.pop();
                    }
                    _ => {}
                }
                t
            }
            _ => {
                // a whole-string mutation of a valid text
                let v = rng.below(65536) as u16;
                let mut chars: Vec<char> = display(kind, v).unwrap().chars().collect();
                if !chars.is_empty() {
                    let i = rng.below(chars.len());
                    match rng.below(3) {
                        0 => chars[i] = (*rng.pick(&ALPHABET[..])).chars().next().unwrap(),
                        1 => {
                            chars.remove(i);
                        }
                        _ => chars.insert(i, (*rng.pick(&ALPHABET[..])).chars().next().unwrap()),
                    }
                }
                chars.into_iter().collect()
            }
        };
        emit_parse(em, kind, &text);
    }
}
