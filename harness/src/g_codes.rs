//! group `codes` — stub (not built yet).
#![allow(unused)]
use crate::common::*;

pub fn run(_op: &str, _a: &[&str]) -> Option<String> {
    None
}

pub fn gen(_rng: &mut Rng, _thorough: bool, _em: &mut Emitter) {}
