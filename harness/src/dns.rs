//! Small independent DNS message builder used by the generators (not the code under test).
#![allow(unused)]
use crate::common::*;

pub fn name_from_labels(labels: &[Vec<u8>]) -> Vec<u8> {
    let mut w = Vec::new();
    for l in labels {
        w.push(l.len() as u8);
        w.extend_from_slice(l);
    }
    w.push(0);
    w
}

pub fn header(id: u16, flags: u16, qd: u16, an: u16, ns: u16, ar: u16) -> Vec<u8> {
    let mut h = Vec::with_capacity(12);
    for v in [id, flags, qd, an, ns, ar] {
        h.extend_from_slice(&v.to_be_bytes());
    }
    h
}

pub fn question(qname: &[u8], qtype: u16, qclass: u16) -> Vec<u8> {
    let mut q = qname.to_vec();
    q.extend_from_slice(&qtype.to_be_bytes());
    q.extend_from_slice(&qclass.to_be_bytes());
    q
}

pub fn rr(owner: &[u8], ty: u16, class: u16, ttl: u32, rdata: &[u8]) -> Vec<u8> {
    let mut r = owner.to_vec();
    r.extend_from_slice(&ty.to_be_bytes());
    r.extend_from_slice(&class.to_be_bytes());
    r.extend_from_slice(&ttl.to_be_bytes());
    r.extend_from_slice(&(rdata.len() as u16).to_be_bytes());
    r.extend_from_slice(rdata);
    r
}

pub fn pointer(to: usize) -> Vec<u8> {
    vec![0xc0 | ((to >> 8) as u8 & 0x3f), to as u8]
}

const LABELS: [&[u8]; 10] = [b"a", b"b", b"www", b"example", b"COM", b"com", b"*", b"ns1", b"x-y", b"\x00\xff."];

pub fn rand_label(rng: &mut Rng) -> Vec<u8> {
    match rng.below(10) {
        0 => {
            let n = rng.range(1, 63);
            (0..n).map(|_| rng.byte()).collect()
        }
        1 => vec![b'x'; 63],
        _ => rng.pick(&LABELS).to_vec(),
    }
}

pub fn rand_name(rng: &mut Rng) -> Vec<u8> {
    let n = match rng.below(8) { 0 => 0, 1 => rng.range(4, 9), _ => rng.range(1, 3) };
    let labels: Vec<Vec<u8>> = (0..n).map(|_| rand_label(rng)).collect();
    let mut w = name_from_labels(&labels);
    while w.len() > 255 {
        // drop leading labels until it fits
        let l = w[0] as usize + 1;
        w.drain(0..l);
    }
    w
}

/// RDATA for `ty` (class IN unless noted), valid most of the time. `names` are offsets of names
/// already in the message that may be pointed to (the caller decides whether compression is legal).
pub fn rand_rdata(rng: &mut Rng, ty: u16, names: &[usize], allow_ptr: bool) -> Vec<u8> {
    let mut name = |rng: &mut Rng| -> Vec<u8> {
        if allow_ptr && !names.is_empty() && rng.chance(1, 2) {
            let mut v = Vec::new();
            if rng.chance(1, 2) {
                let l = rand_label(rng);
                v.push(l.len() as u8);
                v.extend_from_slice(&l);
            }
            v.extend_from_slice(&pointer(*rng.pick(names)));
            v
        } else {
            rand_name(rng)
        }
    };
    let cs = |rng: &mut Rng| -> Vec<u8> {
        let n = rng.below(12);
        let mut v = vec![n as u8];
        for _ in 0..n { v.push(b'a' + rng.below(26) as u8); }
        v
    };
    match ty {
        1 => (0..4).map(|_| rng.byte()).collect(),
        28 => (0..16).map(|_| rng.byte()).collect(),
        2 | 3 | 4 | 5 | 7 | 8 | 9 | 12 => name(rng),
        6 => {
            let mut v = name(rng);
            v.extend(name(rng));
            for _ in 0..20 { v.push(rng.byte()); }
            v
        }
        14 => { let mut v = name(rng); v.extend(name(rng)); v }
        15 => { let mut v = vec![rng.byte(), rng.byte()]; v.extend(name(rng)); v }
        16 => { let k = rng.range(1, 3); let mut v = Vec::new(); for _ in 0..k { v.extend(cs(rng)); } v }
        13 => { let mut v = cs(rng); v.extend(cs(rng)); v }
        11 => { let n = rng.range(5, 12); (0..n).map(|_| rng.byte()).collect() }
        33 => { let mut v: Vec<u8> = (0..6).map(|_| rng.byte()).collect(); v.extend(rand_name(rng)); v }
        41 => {
            let mut v = Vec::new();
            for _ in 0..rng.below(3) {
                let n = rng.below(6);
                v.extend_from_slice(&(rng.next() as u16).to_be_bytes());
                v.extend_from_slice(&(n as u16).to_be_bytes());
                for _ in 0..n { v.push(rng.byte()); }
            }
            v
        }
        _ => { let n = rng.below(10); (0..n).map(|_| rng.byte()).collect() }
    }
}

pub const TYPES: [u16; 24] = [1, 2, 3, 4, 5, 6, 7, 8, 9, 10, 11, 12, 13, 14, 15, 16, 28, 33, 41, 250, 99, 255, 252, 65280];

/// A complete message: header, `qd` questions and records in three sections, with some owners
/// compressed against the first question name. Returns the octets.
pub fn rand_message(rng: &mut Rng) -> Vec<u8> {
    let qd = match rng.below(10) { 0 => 0, 1 => 2, _ => 1 };
    let an = rng.below(3);
    let ns = rng.below(2);
    let ar = rng.below(3);
    let flags = if rng.chance(1, 4) { rng.next() as u16 } else { 0x0100 };
    let mut m = header(rng.next() as u16, flags, qd as u16, an as u16, ns as u16, ar as u16);
    let mut names: Vec<usize> = Vec::new();
    for _ in 0..qd {
        names.push(m.len());
        let q = question(&rand_name(rng), *rng.pick(&TYPES), *rng.pick(&[1u16, 3, 4, 255, 254]));
        m.extend(q);
    }
    for _ in 0..(an + ns + ar) {
        let ty = *rng.pick(&TYPES);
        let owner = if !names.is_empty() && rng.chance(1, 2) { pointer(*rng.pick(&names)) } else { rand_name(rng) };
        let here = m.len();
        let class = *rng.pick(&[1u16, 1, 1, 3, 4]);
        let rd = rand_rdata(rng, ty, &names, true);
        let ttl = if rng.chance(1, 6) { 0x8000_0000u32 | rng.next() as u32 } else { rng.next() as u32 & 0x7fff_ffff };
        m.extend(rr(&owner, ty, class, ttl, &rd));
        if owner.len() > 2 { names.push(here); }
    }
    m
}

/// Mutate: truncate / change counts / corrupt a length or pointer / append junk.
pub fn mutate(rng: &mut Rng, m: &mut Vec<u8>) {
    match rng.below(6) {
        0 => { let k = rng.below(m.len() + 1); m.truncate(k); }
        1 => { if m.len() >= 12 { let i = 4 + 2 * rng.below(4) + 1; m[i] = m[i].wrapping_add(1); } }
        2 => { if m.len() >= 12 { let i = 4 + 2 * rng.below(4) + 1; m[i] = m[i].wrapping_sub(1); } }
        3 => { if !m.is_empty() { let i = rng.below(m.len()); m[i] = rng.byte(); } }
        4 => { for _ in 0..rng.range(1, 4) { m.push(rng.byte()); } }
        _ => { if m.len() > 12 { let i = rng.range(12, m.len() - 1); m[i] = *rng.pick(&[0u8, 0xc0, 0xc1, 63, 64, 0xff]); } }
    }
}

// ------------------------------------------------------------------------------------------
// Independent RFC 1035 decoder, used only to print implementation responses canonically.
// ------------------------------------------------------------------------------------------

/// Decode a possibly compressed name at `pos`; returns (uncompressed wire, octets consumed at pos).
pub fn decode_name(msg: &[u8], pos: usize) -> Option<(Vec<u8>, usize)> {
    let mut out = Vec::new();
    let mut p = pos;
    let mut consumed: Option<usize> = None;
    let mut cs = pos; // start of the current chunk: pointers must go strictly before it
    loop {
        let b = *msg.get(p)? as usize;
        if b & 0xc0 == 0xc0 {
            let b2 = *msg.get(p + 1)? as usize;
            let t = ((b & 0x3f) << 8) | b2;
            if consumed.is_none() { consumed = Some(p + 2 - pos); }
            if t >= cs { return None; }
            cs = t;
            p = t;
        } else if b == 0 {
            out.push(0);
            if consumed.is_none() { consumed = Some(p + 1 - pos); }
            break;
        } else if b <= 63 {
            if p + 1 + b > msg.len() { return None; }
            out.extend_from_slice(&msg[p..p + 1 + b]);
            p += 1 + b;
        } else {
            return None;
        }
        if out.len() > 255 { return None; }
    }
    if out.len() > 255 { return None; }
    Some((out, consumed.unwrap()))
}

#[derive(Clone, Debug)]
pub struct DRr { pub owner: Vec<u8>, pub ty: u16, pub class: u16, pub ttl: u32, pub rdata: Vec<u8> }

#[derive(Clone, Debug, Default)]
pub struct DMsg {
    pub id: u16, pub flags: u16,
    pub questions: Vec<(Vec<u8>, u16, u16)>,
    pub an: Vec<DRr>, pub ns: Vec<DRr>, pub ar: Vec<DRr>,
}

fn u16at(m: &[u8], p: usize) -> Option<u16> { Some(u16::from_be_bytes([*m.get(p)?, *m.get(p + 1)?])) }
fn u32at(m: &[u8], p: usize) -> Option<u32> { Some(((u16at(m, p)? as u32) << 16) | u16at(m, p + 2)? as u32) }

/// expand names inside RDATA of the RFC 1035 types that may be compressed
fn expand_rdata(msg: &[u8], ty: u16, class: u16, start: usize, len: usize) -> Option<Vec<u8>> {
    let end = start + len;
    let name_at = |p: usize| -> Option<(Vec<u8>, usize)> {
        let (w, k) = decode_name(msg, p)?;
        if p + k > end { return None; }
        Some((w, k))
    };
    let _ = class;
    match ty {
        2 | 3 | 4 | 5 | 7 | 8 | 9 | 12 => { let (w, k) = name_at(start)?; if start + k != end { return None; } Some(w) }
        6 => {
            let (a, k1) = name_at(start)?; let (b, k2) = name_at(start + k1)?;
            if start + k1 + k2 + 20 != end { return None; }
            let mut v = a; v.extend(b); v.extend_from_slice(&msg[start + k1 + k2..end]); Some(v)
        }
        14 => { let (a, k1) = name_at(start)?; let (b, k2) = name_at(start + k1)?; if start + k1 + k2 != end { return None; } let mut v = a; v.extend(b); Some(v) }
        15 => { if len < 2 { return None; } let (a, k) = name_at(start + 2)?; if start + 2 + k != end { return None; } let mut v = msg[start..start + 2].to_vec(); v.extend(a); Some(v) }
        _ => Some(msg[start..end].to_vec()),
    }
}

/// Full decode; `None` unless the message decodes completely and ends exactly after the last record.
pub fn decode_message(msg: &[u8]) -> Option<DMsg> {
    if msg.len() < 12 { return None; }
    let mut d = DMsg { id: u16at(msg, 0)?, flags: u16at(msg, 2)?, ..Default::default() };
    let counts = [u16at(msg, 4)?, u16at(msg, 6)?, u16at(msg, 8)?, u16at(msg, 10)?];
    let mut p = 12;
    for _ in 0..counts[0] {
        let (w, k) = decode_name(msg, p)?;
        let t = u16at(msg, p + k)?; let c = u16at(msg, p + k + 2)?;
        d.questions.push((w, t, c));
        p += k + 4;
    }
    for (si, n) in counts[1..].iter().enumerate() {
        for _ in 0..*n {
            let (w, k) = decode_name(msg, p)?;
            let ty = u16at(msg, p + k)?; let class = u16at(msg, p + k + 2)?; let ttl = u32at(msg, p + k + 4)?;
            let rdlen = u16at(msg, p + k + 8)? as usize;
            let rs = p + k + 10;
            if rs + rdlen > msg.len() { return None; }
            let rdata = expand_rdata(msg, ty, class, rs, rdlen)?;
            let rr = DRr { owner: w, ty, class, ttl, rdata };
            match si { 0 => d.an.push(rr), 1 => d.ns.push(rr), _ => d.ar.push(rr) }
            p = rs + rdlen;
        }
    }
    if p != msg.len() { return None; }
    Some(d)
}

fn rr_str(r: &DRr) -> String { format!("{}/{}/{}/{}/{}", hex(&r.owner), r.ty, r.class, r.ttl, hex(&r.rdata)) }

fn sec_str(rrs: &[&DRr]) -> String {
    let mut v: Vec<String> = rrs.iter().map(|r| rr_str(r)).collect();
    v.sort();
    format!("[{}]", v.join(","))
}

/// Canonical text of a response: header, question, the three sections as sorted multisets
/// (OPT and TSIG taken out of the additional section and shown separately).
/// `now` makes TSIG times relative. `undecodable` if the independent decoder rejects it.
pub fn canonical(msg: &[u8], now: u64) -> String {
    let Some(d) = decode_message(msg) else { return format!("undecodable:{}", hex(msg)); };
    let q = if d.questions.is_empty() { "-".to_string() } else {
        d.questions.iter().map(|(w, t, c)| format!("{}/{}/{}", hex(w), t, c)).collect::<Vec<_>>().join("+")
    };
    let opts: Vec<&DRr> = d.ar.iter().filter(|r| r.ty == 41).collect();
    let tsigs: Vec<&DRr> = d.ar.iter().filter(|r| r.ty == 250).collect();
    let rest: Vec<&DRr> = d.ar.iter().filter(|r| r.ty != 41 && r.ty != 250).collect();
    let opt = if opts.is_empty() { "-".to_string() } else {
        opts.iter().map(|o| format!("{}/{}/{:08x}/{}", hex(&o.owner), o.class, o.ttl, hex(&o.rdata))).collect::<Vec<_>>().join("+")
    };
    let tsig = if tsigs.is_empty() { "-".to_string() } else {
        tsigs.iter().map(|t| tsig_str(t, now, d.ar.last().map(|l| l.ty == 250).unwrap_or(false))).collect::<Vec<_>>().join("+")
    };
    format!("R id={} flags={:04x} q={} an={} ns={} ar={} opt={} tsig={} len={}", d.id, d.flags, q,
            sec_str(&d.an.iter().collect::<Vec<_>>()), sec_str(&d.ns.iter().collect::<Vec<_>>()), sec_str(&rest), opt, tsig, msg.len())
}

fn tsig_str(t: &DRr, now: u64, last: bool) -> String {
    // owner/class/ttl/alg/time-now/fudge/maclen:machex/origid/error/otherhex/last
    let r = &t.rdata;
    let Ok(alg_len) = (|| -> Result<usize, ()> {
        let mut p = 0usize;
        loop { let l = *r.get(p).ok_or(())? as usize; p += 1 + l; if l == 0 { return Ok(p); } if l > 63 { return Err(()); } }
    })() else { return format!("badrdata:{}", hex(r)); };
    if r.len() < alg_len + 16 { return format!("badrdata:{}", hex(r)); }
    let time = ((r[alg_len] as u64) << 40) | ((r[alg_len + 1] as u64) << 32) | ((r[alg_len + 2] as u64) << 24)
        | ((r[alg_len + 3] as u64) << 16) | ((r[alg_len + 4] as u64) << 8) | r[alg_len + 5] as u64;
    let fudge = u16::from_be_bytes([r[alg_len + 6], r[alg_len + 7]]);
    let maclen = u16::from_be_bytes([r[alg_len + 8], r[alg_len + 9]]) as usize;
    if r.len() < alg_len + 10 + maclen + 6 { return format!("badrdata:{}", hex(r)); }
    let mac = &r[alg_len + 10..alg_len + 10 + maclen];
    let p = alg_len + 10 + maclen;
    let origid = u16::from_be_bytes([r[p], r[p + 1]]);
    let err = u16::from_be_bytes([r[p + 2], r[p + 3]]);
    let olen = u16::from_be_bytes([r[p + 4], r[p + 5]]) as usize;
    let other = &r[p + 6..];
    if other.len() != olen { return format!("badrdata:{}", hex(r)); }
    format!("{}/{}/{}/{}/{}/{}/{}/{}/{}/{}/{}", hex(&t.owner), t.class, t.ttl, hex(&r[..alg_len]),
            time as i64 - now as i64, fudge, hex(mac), origid, err, hex(other), if last { "last" } else { "notlast" })
}
