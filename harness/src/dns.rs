//! Small independent DNS message builder used by the generators (not the code under test).
#![allow(unused)]
use crate::common::*;

pub fn name_from_labels(labels: &[Vec<u8>]) -> Vec<u8> {
    let mut w = Vec::new();
    for l in labels {
        w.push(l.len() as u8);
        w.extend_from_slice(l);
    }
    w.push(0);
    w
}

pub fn header(id: u16, flags: u16, qd: u16, an: u16, ns: u16, ar: u16) -> Vec<u8> {
    let mut h = Vec::with_capacity(12);
    for v in [id, flags, qd, an, ns, ar] {
        h.extend_from_slice(&v.to_be_bytes());
    }
    h
}

pub fn question(qname: &[u8], qtype: u16, qclass: u16) -> Vec<u8> {
    let mut q = qname.to_vec();
    q.extend_from_slice(&qtype.to_be_bytes());
    q.extend_from_slice(&qclass.to_be_bytes());
    q
}

pub fn rr(owner: &[u8], ty: u16, class: u16, ttl: u32, rdata: &[u8]) -> Vec<u8> {
    let mut r = owner.to_vec();
    r.extend_from_slice(&ty.to_be_bytes());
    r.extend_from_slice(&class.to_be_bytes());
    r.extend_from_slice(&ttl.to_be_bytes());
    r.extend_from_slice(&(rdata.len() as u16).to_be_bytes());
    r.extend_from_slice(rdata);
    r
}

pub fn pointer(to: usize) -> Vec<u8> {
    vec![0xc0 | ((to >> 8) as u8 & 0x3f), to as u8]
}

const LABELS: [&[u8]; 10] = [b"a", b"b", b"www", b"example", b"COM", b"com", b"*", b"ns1", b"x-y", b"\x00\xff."];

pub fn rand_label(rng: &mut Rng) -> Vec<u8> {
    match rng.below(10) {
        0 => {
            let n = rng.range(1, 63);
            (0..n).map(|_| rng.byte()).collect()
        }
        1 => vec![b'x'; 63],
        _ => rng.pick(&LABELS).to_vec(),
    }
}

pub fn rand_name(rng: &mut Rng) -> Vec<u8> {
    let n = match rng.below(8) { 0 => 0, 1 => rng.range(4, 9), _ => rng.range(1, 3) };
    let labels: Vec<Vec<u8>> = (0..n).map(|_| rand_label(rng)).collect();
    let mut w = name_from_labels(&labels);
    while w.len() > 255 {
        // drop leading labels until it fits
        let l = w[0] as usize + 1;
        w.drain(0..l);
    }
    w
}

/// RDATA for `ty` (class IN unless noted), valid most of the time. `names` are offsets of names
/// already in the message that may be pointed to (the caller decides whether compression is legal).
pub fn rand_rdata(rng: &mut Rng, ty: u16, names: &[usize], allow_ptr: bool) -> Vec<u8> {
    let mut name = |rng: &mut Rng| -> Vec<u8> {
        if allow_ptr && !names.is_empty() && rng.chance(1, 2) {
            let mut v = Vec::new();
            if rng.chance(1, 2) {
                let l = rand_label(rng);
                v.push(l.len() as u8);
                v.extend_from_slice(&l);
            }
            v.extend_from_slice(&pointer(*rng.pick(names)));
            v
        } else {
            rand_name(rng)
        }
    };
    let cs = |rng: &mut Rng| -> Vec<u8> {
        let n = rng.below(12);
        let mut v = vec![n as u8];
        for _ in 0..n { v.push(b'a' + rng.below(26) as u8); }
        v
    };
    match ty {
        1 => (0..4).map(|_| rng.byte()).collect(),
        28 => (0..16).map(|_| rng.byte()).collect(),
        2 | 3 | 4 | 5 | 7 | 8 | 9 | 12 => name(rng),
        6 => {
            let mut v = name(rng);
            v.extend(name(rng));
            for _ in 0..20 { v.push(rng.byte()); }
            v
        }
        14 => { let mut v = name(rng); v.extend(name(rng)); v }
        15 => { let mut v = vec![rng.byte(), rng.byte()]; v.extend(name(rng)); v }
        16 => { let k = rng.range(1, 3); let mut v = Vec::new(); for _ in 0..k { v.extend(cs(rng)); } v }
        13 => { let mut v = cs(rng); v.extend(cs(rng)); v }
        11 => { let n = rng.range(5, 12); (0..n).map(|_| rng.byte()).collect() }
        33 => { let mut v: Vec<u8> = (0..6).map(|_| rng.byte()).collect(); v.extend(rand_name(rng)); v }
        41 => {
            let mut v = Vec::new();
            for _ in 0..rng.below(3) {
                let n = rng.below(6);
                v.extend_from_slice(&(rng.next() as u16).to_be_bytes());
                v.extend_from_slice(&(n as u16).to_be_bytes());
                for _ in 0..n { v.push(rng.byte()); }
            }
            v
        }
        _ => { let n = rng.below(10); (0..n).map(|_| rng.byte()).collect() }
    }
}

pub const TYPES: [u16; 24] = [1, 2, 3, 4, 5, 6, 7, 8, 9, 10, 11, 12, 13, 14, 15, 16, 28, 33, 41, 250, 99, 255, 252, 65280];

/// A complete message: header, `qd` questions and records in three sections, with some owners
/// compressed against the first question name. Returns the octets.
pub fn rand_message(rng: &mut Rng) -> Vec<u8> {
    let qd = match rng.below(10) { 0 => 0, 1 => 2, _ => 1 };
    let an = rng.below(3);
    let ns = rng.below(2);
    let ar = rng.below(3);
    let flags = if rng.chance(1, 4) { rng.next() as u16 } else { 0x0100 };
    let mut m = header(rng.next() as u16, flags, qd as u16, an as u16, ns as u16, ar as u16);
    let mut names: Vec<usize> = Vec::new();
    for _ in 0..qd {
        names.push(m.len());
        let q = question(&rand_name(rng), *rng.pick(&TYPES), *rng.pick(&[1u16, 3, 4, 255, 254]));
        m.extend(q);
    }
    for _ in 0..(an + ns + ar) {
        let ty = *rng.pick(&TYPES);
        let owner = if !names.is_empty() && rng.chance(1, 2) { pointer(*rng.pick(&names)) } else { rand_name(rng) };
        let here = m.len();
        let class = *rng.pick(&[1u16, 1, 1, 3, 4]);
        let rd = rand_rdata(rng, ty, &names, true);
        let ttl = if rng.chance(1, 6) { 0x8000_0000u32 | rng.next() as u32 } else { rng.next() as u32 & 0x7fff_ffff };
        m.extend(rr(&owner, ty, class, ttl, &rd));
        if owner.len() > 2 { names.push(here); }
    }
    m
}

/// Mutate: truncate / change counts / corrupt a length or pointer / append junk.
pub fn mutate(rng: &mut Rng, m: &mut Vec<u8>) {
    match rng.below(6) {
        0 => { let k = rng.below(m.len() + 1); m.truncate(k); }
        1 => { if m.len() >= 12 { let i = 4 + 2 * rng.below(4) + 1; m[i] = m[i].wrapping_add(1); } }
        2 => { if m.len() >= 12 { let i = 4 + 2 * rng.below(4) + 1; m[i] = m[i].wrapping_sub(1); } }
        3 => { if !m.is_empty() { let i = rng.below(m.len()); m[i] = rng.byte(); } }
        4 => { for _ in 0..rng.range(1, 4) { m.push(rng.byte()); } }
        _ => { if m.len() > 12 { let i = rng.range(12, m.len() - 1); m[i] = *rng.pick(&[0u8, 0xc0, 0xc1, 63, 64, 0xff]); } }
    }
}
