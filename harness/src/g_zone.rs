//! group `zone` — C06 / C20 / C21: src/db/hash_map_tree/{zone,node}.rs, src/db/rrset.rs,
//! src/db/zone/{mod,validation}.rs through the public `HashMapTreeZone` / `Zone` API.
//!
//! One case = one session (see lean/QV/Driver/Zone.lean for the line format):
//!     zone <apex> <class> <n|w> <step>;<step>;…
#![allow(clippy::too_many_arguments)]
use crate::common::*;
use quandary::class::Class;
use quandary::db::zone::{
    GluePolicy, IteratedRrset, LookupAddrsResult, LookupAllResult, LookupOptions, LookupResult,
    SingleRrset, ValidationIssue,
};
use quandary::db::{HashMapTreeZone, Zone};
use quandary::name::Name;
use quandary::rr::{Rdata, RdataSet, Ttl, Type};
use std::collections::BTreeSet;

// ------------------------------------------------------------------------------------------
// canonical printing (must agree with lean/QV/Driver/Zone.lean)
// ------------------------------------------------------------------------------------------

fn show_name(n: &Name) -> String {
    let w: Vec<u8> = n.wire_repr().iter().map(|b| b.to_ascii_lowercase()).collect();
    hex(&w)
}

fn show_rds(rds: &RdataSet) -> String {
    let mut v: Vec<String> = rds.iter().map(|r| hex(r.octets())).collect();
    v.sort();
    v.join(",")
}

fn show_rrset(s: &SingleRrset) -> String {
    format!("{}:{}", u32::from(s.ttl), show_rds(&s.rdatas))
}

fn show_typed(s: &IteratedRrset) -> String {
    format!("{}:{}:{}", u16::from(s.rr_type), u32::from(s.ttl), show_rds(&s.rdatas))
}

fn show_typed_list<'a, I: Iterator<Item = IteratedRrset<'a>>>(it: I) -> String {
    let mut v: Vec<String> = it.map(|s| show_typed(&s)).collect();
    v.sort();
    format!("[{}]", v.join("|"))
}

fn show_sos(s: &Option<std::borrow::Cow<Name>>) -> String {
    match s {
        Some(n) => format!("sos={}", show_name(n)),
        None => "sos=-".to_string(),
    }
}

fn show_opt_rrset(s: &Option<SingleRrset>) -> String {
    match s {
        Some(s) => show_rrset(s),
        None => "-".to_string(),
    }
}

fn show_issue(i: &ValidationIssue) -> String {
    let sev = if i.is_error() { "E" } else { "W" };
    match i {
        ValidationIssue::MissingApexSoa => format!("{sev}:MissingApexSoa"),
        ValidationIssue::TooManyApexSoas => format!("{sev}:TooManyApexSoas"),
        ValidationIssue::MissingApexNs => format!("{sev}:MissingApexNs"),
        ValidationIssue::MissingNsAddress(n) => format!("{sev}:MissingNsAddress:{}", show_name(n)),
        ValidationIssue::MissingMxAddress(n) => format!("{sev}:MissingMxAddress:{}", show_name(n)),
        ValidationIssue::MissingGlue(n) => format!("{sev}:MissingGlue:{}", show_name(n)),
        ValidationIssue::DuplicateCname(n) => format!("{sev}:DuplicateCname:{}", show_name(n)),
        ValidationIssue::OtherRecordsAtCname(n) => format!("{sev}:OtherRecordsAtCname:{}", show_name(n)),
        ValidationIssue::NsAtWildcard(n) => format!("{sev}:NsAtWildcard:{}", show_name(n)),
    }
}

fn parse_name(h: &str) -> Option<Box<Name>> {
    Name::try_from_uncompressed_all(&unhex(h)?).ok()
}

fn parse_opts(s: &str) -> Option<LookupOptions> {
    let b = s.as_bytes();
    if b.len() != 2 || !b.iter().all(|c| *c == b'0' || *c == b'1') {
        return None;
    }
    Some(LookupOptions { unchecked: b[0] == b'1', search_below_cuts: b[1] == b'1' })
}

fn step(zone: &mut HashMapTreeZone, st: &str) -> Option<String> {
    let f: Vec<&str> = st.split(',').collect();
    Some(match f.as_slice() {
        ["a", o, t, c, ttl, rd] => {
            let owner = parse_name(o)?;
            let t: u16 = t.parse().ok()?;
            let c: u16 = c.parse().ok()?;
            let ttl: u32 = ttl.parse().ok()?;
            let rd = unhex(rd)?;
            let rdata: &Rdata = rd.as_slice().try_into().ok()?;
            guarded(|| match zone.add(&owner, Type::from(t), Class::from(c), Ttl::from(ttl), rdata) {
                Ok(()) => "ok".to_string(),
                Err(e) => format!("e:{:?}", e),
            })
        }
        ["l", n, t, o] => {
            let name = parse_name(n)?;
            let t: u16 = t.parse().ok()?;
            let o = parse_opts(o)?;
            let zone = &*zone;
            guarded(|| match zone.lookup(&name, Type::from(t), o) {
                LookupResult::Found(f) => format!("F {} {}", show_rrset(&f.data), show_sos(&f.source_of_synthesis)),
                LookupResult::Cname(c) => format!("C {} {}", show_rrset(&c.rrset), show_sos(&c.source_of_synthesis)),
                LookupResult::Referral(r) => format!("R {} {}", show_name(&r.child_zone), show_rrset(&r.ns_rrset)),
                LookupResult::NoRecords(n) => format!("N {}", show_sos(&n.source_of_synthesis)),
                LookupResult::NxDomain => "X".to_string(),
                LookupResult::WrongZone => "W".to_string(),
            })
        }
        ["d", n, o] => {
            let name = parse_name(n)?;
            let o = parse_opts(o)?;
            let zone = &*zone;
            guarded(|| match zone.lookup_addrs(&name, o) {
                LookupAddrsResult::Found(f) => format!(
                    "F a={} aaaa={} {}",
                    show_opt_rrset(&f.data.a_rrset),
                    show_opt_rrset(&f.data.aaaa_rrset),
                    show_sos(&f.source_of_synthesis)
                ),
                LookupAddrsResult::Cname(c) => format!("C {} {}", show_rrset(&c.rrset), show_sos(&c.source_of_synthesis)),
                LookupAddrsResult::Referral(r) => format!("R {} {}", show_name(&r.child_zone), show_rrset(&r.ns_rrset)),
                LookupAddrsResult::NxDomain => "X".to_string(),
                LookupAddrsResult::WrongZone => "W".to_string(),
            })
        }
        ["x", n, o] => {
            let name = parse_name(n)?;
            let o = parse_opts(o)?;
            let zone = &*zone;
            guarded(|| match zone.lookup_all(&name, o) {
                LookupAllResult::Found(f) => {
                    let sos = show_sos(&f.source_of_synthesis);
                    format!("F {} {}", show_typed_list(f.data), sos)
                }
                LookupAllResult::Referral(r) => format!("R {} {}", show_name(&r.child_zone), show_rrset(&r.ns_rrset)),
                LookupAllResult::NxDomain => "X".to_string(),
                LookupAllResult::WrongZone => "W".to_string(),
            })
        }
        ["n"] => {
            let zone = &*zone;
            guarded(|| {
                let mut v: Vec<String> = zone
                    .iter_by_node()
                    .map(|(name, rrsets)| format!("{}={}", show_name(name), show_typed_list(rrsets)))
                    .collect();
                v.sort();
                v.join(" ")
            })
        }
        ["r"] => {
            let zone = &*zone;
            guarded(|| {
                let mut v: Vec<String> = zone
                    .iter_by_rrset()
                    .map(|(name, rrset)| format!("{}/{}", show_name(name), show_typed(&rrset)))
                    .collect();
                v.sort();
                v.join(" ")
            })
        }
        ["s"] => {
            let zone = &*zone;
            guarded(|| format!("S {}", show_opt_rrset(&zone.soa())))
        }
        ["t"] => {
            let zone = &*zone;
            guarded(|| format!("T {}", show_opt_rrset(&zone.ns())))
        }
        ["v"] => {
            let zone = &*zone;
            guarded(|| match zone.validate() {
                Ok(issues) => {
                    let set: BTreeSet<String> = issues.iter().map(show_issue).collect();
                    format!("V {}", set.into_iter().collect::<Vec<_>>().join(","))
                }
                Err(e) => format!("V!{:?}", e),
            })
        }
        _ => return None,
    })
}

pub fn run(op: &str, a: &[&str]) -> Option<String> {
    match (op, a) {
        ("zone", [apex, cls, glue, steps]) => {
            let bad = Some("bad-op".to_string());
            let Some(apex) = parse_name(apex) else { return bad };
            let Ok(cls) = cls.parse::<u16>() else { return bad };
            let glue = match *glue {
                "n" => GluePolicy::Narrow,
                "w" => GluePolicy::Wide,
                _ => return bad,
            };
            let mut zone = HashMapTreeZone::new(apex, Class::from(cls), glue);
            let mut out: Vec<String> = Vec::new();
            for st in steps.split(';') {
                match step(&mut zone, st) {
                    Some(r) => out.push(r),
                    None => return bad,
                }
            }
            Some(format!("ok {}", out.join(";")))
        }
        _ => None,
    }
}

// ------------------------------------------------------------------------------------------
// generators
// ------------------------------------------------------------------------------------------

type Labels = Vec<Vec<u8>>; // leftmost first, root omitted

fn wire(n: &Labels) -> Vec<u8> {
    let mut w = Vec::new();
    for l in n {
        w.push(l.len() as u8);
        w.extend_from_slice(l);
    }
    w.push(0);
    w
}

fn recase(rng: &mut Rng, n: &Labels, p: usize) -> Labels {
    n.iter()
        .map(|l| l.iter().map(|b| if rng.chance(p, 100) { b.to_ascii_uppercase() } else { *b }).collect())
        .collect()
}

fn cat(prefix: &[&[u8]], base: &Labels) -> Labels {
    let mut v: Labels = prefix.iter().map(|l| l.to_vec()).collect();
    v.extend(base.iter().cloned());
    v
}

#[derive(Clone)]
struct Add {
    owner: Labels,
    rtype: u16,
    class: u16,
    ttl: u32,
    rdata: Vec<u8>,
}

impl Add {
    fn step(&self) -> String {
        format!("a,{},{},{},{},{}", hex(&wire(&self.owner)), self.rtype, self.class, self.ttl, hex(&self.rdata))
    }
}

struct Session {
    apex: Labels,
    class: u16,
    glue: char,
    adds: Vec<String>,
}

impl Session {
    fn emit(&self, em: &mut Emitter, steps: &[String], chunk: usize) {
        for c in steps.chunks(chunk.max(1)) {
            let mut all: Vec<&str> = self.adds.iter().map(|s| s.as_str()).collect();
            all.extend(c.iter().map(|s| s.as_str()));
            let steps = all.join(";");
            let apex = hex(&wire(&self.apex));
            let cls = self.class.to_string();
            let glue = self.glue.to_string();
            let case = format!("zone {} {} {} {}", apex, cls, glue, steps);
            let r = run("zone", &[&apex, &cls, &glue, &steps]).unwrap();
            em.emit(&case, &r);
        }
    }
}

const T_A: u16 = 1;
const T_NS: u16 = 2;
const T_CNAME: u16 = 5;
const T_SOA: u16 = 6;
const T_MX: u16 = 15;
const T_TXT: u16 = 16;
const T_AAAA: u16 = 28;

fn soa_rdata(rng: &mut Rng, apex: &Labels) -> Vec<u8> {
    let mut v = wire(&cat(&[b"ns"], apex));
    v.extend(wire(&cat(&[if rng.chance(1, 2) { b"hm" } else { b"HM" }], apex)));
    let serial = if rng.chance(3, 4) { 1u8 } else { 2u8 };
    v.extend_from_slice(&[0, 0, 0, serial, 0, 0, 14, 16, 0, 0, 3, 132, 0, 9, 58, 128, 0, 0, 0, 60]);
    v
}

/// all lookup steps for one name
fn query_steps(name: &Labels, types: &[u16], opts: &[&str], out: &mut Vec<String>) {
    let h = hex(&wire(name));
    for o in opts {
        for t in types {
            out.push(format!("l,{},{},{}", h, t, o));
        }
        out.push(format!("d,{},{}", h, o));
        out.push(format!("x,{},{}", h, o));
    }
}

fn is_below(n: &Labels, apex: &Labels) -> bool {
    n.len() >= apex.len()
        && n[n.len() - apex.len()..]
            .iter()
            .zip(apex.iter())
            .all(|(a, b)| a.eq_ignore_ascii_case(b))
}

fn random_zone(rng: &mut Rng, em: &mut Emitter, thorough: bool) {
    let alphabet: [&[u8]; 4] = [b"a", b"b", b"*", b"ns"];
    let apex: Labels = match rng.below(12) {
        0 => vec![],
        1 => vec![b"a".to_vec()],
        2 => vec![b"*".to_vec(), b"z".to_vec()],
        3 | 4 => vec![b"y".to_vec(), b"z".to_vec()],
        _ => vec![b"z".to_vec()],
    };
    let class: u16 = *rng.pick(&[1u16, 1, 1, 1, 3, 4]);
    let glue = if rng.chance(1, 2) { 'n' } else { 'w' };
    let n_recs = if rng.chance(1, 6) { rng.range(20, 40) } else { rng.range(1, 14) };
    let rand_rel = |rng: &mut Rng, maxd: usize| -> Vec<Vec<u8>> {
        let d = rng.below(maxd + 1);
        (0..d).map(|_| rng.pick(&alphabet).to_vec()).collect()
    };
    let in_zone = |rng: &mut Rng, maxd: usize| -> Labels {
        let mut v = rand_rel(rng, maxd);
        v.extend(apex.iter().cloned());
        v
    };
    let outside = |rng: &mut Rng| -> Labels {
        match rng.below(4) {
            0 => vec![b"q".to_vec()],
            1 => {
                // shorter than / above the apex
                if apex.is_empty() { vec![b"q".to_vec()] } else { apex[1..].to_vec() }
            }
            2 => {
                // sibling of the apex
                let mut v = vec![b"x".to_vec()];
                if !apex.is_empty() { v.extend(apex[1..].iter().cloned()); }
                v
            }
            _ => {
                // apex labels as a prefix, not a suffix
                let mut v = apex.clone();
                v.push(b"q".to_vec());
                v
            }
        }
    };
    let mut adds: Vec<Add> = Vec::new();
    let mut interesting: Vec<Labels> = vec![apex.clone()];
    if rng.chance(4, 5) {
        adds.push(Add { owner: apex.clone(), rtype: T_SOA, class, ttl: 3600, rdata: soa_rdata(rng, &apex) });
    }
    if rng.chance(4, 5) {
        let target = if rng.chance(2, 3) { in_zone(rng, 2) } else { outside(rng) };
        interesting.push(target.clone());
        adds.push(Add { owner: apex.clone(), rtype: T_NS, class, ttl: 3600, rdata: wire(&target) });
    }
    for _ in 0..n_recs {
        // duplicates / variations of earlier records
        if !adds.is_empty() && rng.chance(1, 6) {
            let mut a = rng.pick(&adds).clone();
            match rng.below(5) {
                0 => {}
                1 => a.owner = recase(rng, &a.owner, 50),
                2 => a.ttl = *rng.pick(&[7200u32, 0, 3600, 0x8000_0000, 0x7fff_ffff]),
                3 => a.rdata = a.rdata.iter().map(|b| if rng.chance(1, 2) { b.to_ascii_uppercase() } else { *b }).collect(),
                _ => a.class = *rng.pick(&[1u16, 3, 4, 255]),
            }
            adds.push(a);
            continue;
        }
        let owner = if rng.chance(1, 12) { outside(rng) } else { in_zone(rng, 3) };
        let owner = if rng.chance(1, 5) { recase(rng, &owner, 50) } else { owner };
        let rtype = *rng.pick(&[T_A, T_A, T_A, T_NS, T_NS, T_NS, T_CNAME, T_CNAME, T_MX, T_TXT, T_AAAA, T_AAAA, T_SOA, 99]);
        let name_target = |rng: &mut Rng, interesting: &mut Vec<Labels>| -> Vec<u8> {
            // inside the delegated child, elsewhere in the zone (sibling), or outside
            let t = match rng.below(6) {
                0 => outside(rng),
                1 | 2 => {
                    let mut v = rand_rel(rng, 1);
                    v.extend(owner.iter().cloned());
                    v
                }
                _ => in_zone(rng, 3),
            };
            interesting.push(t.clone());
            let t = if rng.chance(1, 6) { recase(rng, &t, 50) } else { t };
            let mut w = wire(&t);
            match rng.below(40) {
                0 => { w.pop(); }            // truncated name: invalid RDATA
                1 => w.push(0),              // trailing octet: invalid RDATA
                _ => {}
            }
            w
        };
        let rdata: Vec<u8> = match rtype {
            T_A => {
                if class == 3 {
                    let mut w = wire(&in_zone(rng, 1));
                    w.extend_from_slice(&[0, rng.below(3) as u8]);
                    w
                } else {
                    vec![127, 0, 0, rng.below(3) as u8]
                }
            }
            T_AAAA => {
                let mut v = vec![0u8; 16];
                v[15] = rng.below(3) as u8;
                v
            }
            T_NS | T_CNAME => name_target(rng, &mut interesting),
            T_MX => {
                if rng.chance(1, 40) {
                    vec![0]
                } else {
                    let mut v = vec![0, *rng.pick(&[10u8, 20])];
                    v.extend(name_target(rng, &mut interesting));
                    v
                }
            }
            T_SOA => soa_rdata(rng, &apex),
            T_TXT => vec![1, *rng.pick(&[b'x', b'X', b'y'])],
            _ => vec![rng.below(3) as u8],
        };
        let ttl = if rng.chance(1, 10) { *rng.pick(&[7200u32, 0, 0x8000_0000, 0xffff_ffff, 0x7fff_ffff]) } else { 3600 };
        let cls = if rng.chance(1, 25) { *rng.pick(&[1u16, 3, 4, 254]) } else { class };
        interesting.push(owner.clone());
        adds.push(Add { owner, rtype, class: cls, ttl, rdata });
    }
    // C21 corner cases that random choice rarely produces: a second apex SOA, two CNAMEs at one name
    if rng.chance(1, 6) {
        let mut rd = soa_rdata(rng, &apex);
        let n = rd.len();
        rd[n - 17] = 7; // another serial
        adds.push(Add { owner: apex.clone(), rtype: T_SOA, class, ttl: 3600, rdata: rd });
    }
    if rng.chance(1, 5) {
        if let Some(c) = adds.iter().find(|a| a.rtype == T_CNAME).cloned() {
            let mut d = c.clone();
            d.rdata = wire(&in_zone(rng, 2));
            adds.push(d);
        }
    }
    // shuffle lightly so that apex records are not always first
    for i in (1..adds.len()).rev() {
        if rng.chance(1, 3) {
            let j = rng.below(i + 1);
            adds.swap(i, j);
        }
    }
    let sess = Session { apex: apex.clone(), class, glue, adds: adds.iter().map(|a| a.step()).collect() };

    // names: every interesting name, its ancestors, and everything within two labels below them
    let mut names: BTreeSet<Labels> = BTreeSet::new();
    let ext: [&[u8]; 5] = [b"a", b"b", b"*", b"ns", b"x"];
    for n in &interesting {
        let n: Labels = n.iter().map(|l| l.to_ascii_lowercase()).collect();
        for k in 0..=n.len() {
            let anc: Labels = n[k..].to_vec();
            names.insert(anc.clone());
            for e1 in ext {
                let c1 = cat(&[e1], &anc);
                if c1.len() <= 6 {
                    for e2 in ext {
                        names.insert(cat(&[e2], &c1));
                    }
                    names.insert(c1);
                }
            }
        }
    }
    let mut names: Vec<Labels> = names.into_iter().collect();
    // quick tier: a sample
    let cap = if thorough { 150 } else { 60 };
    while names.len() > cap {
        let i = rng.below(names.len());
        names.swap_remove(i);
    }
    let types = [T_A, T_NS, T_CNAME, T_TXT, T_AAAA];
    let mut steps: Vec<String> = Vec::new();
    let mut unconstrained: Vec<String> = Vec::new();
    for n in &names {
        let n = if rng.chance(1, 8) { recase(rng, n, 50) } else { n.clone() };
        let ty: Vec<u16> = if thorough { types.to_vec() } else { vec![*rng.pick(&types), *rng.pick(&types)] };
        if is_below(&n, &apex) {
            query_steps(&n, &ty, &["00", "01", "10", "11"], &mut steps);
        } else {
            query_steps(&n, &ty, &["00", "01"], &mut steps);
            query_steps(&n, &ty[..1], &["10", "11"], &mut unconstrained);
        }
    }
    let tail: Vec<String> = ["n", "r", "s", "t", "v"].iter().map(|s| s.to_string()).collect();
    sess.emit(em, &tail, 8);
    // the effect of every prefix of the add sequence on iteration (C20: rejected adds change nothing)
    if rng.chance(1, 3) {
        for k in 0..adds.len().min(12) {
            let s2 = Session { apex: apex.clone(), class, glue, adds: sess.adds[..k].to_vec() };
            s2.emit(em, &["n".to_string(), "r".to_string(), "v".to_string()], 8);
        }
    }
    sess.emit(em, &steps, 64);
    if !unconstrained.is_empty() {
        sess.emit(em, &unconstrained, 64);
    }
}

/// EXHAUSTIVE: every set of at most `k` records out of a 24-record universe over the labels
/// {a, b, *} below the apex `z.` (6 owners × {A, NS into the zone, NS out of the zone, CNAME});
/// every name of depth ≤ 2 over {a, b, *, x} and every child of a universe owner, queried with
/// both `search_below_cuts` values (two types, lookup_addrs, lookup_all); plus iteration,
/// soa/ns and validation.
fn exhaustive(em: &mut Emitter, k: usize, glue: char, class: u16) {
    let apex: Labels = vec![b"z".to_vec()];
    let owners: Vec<Labels> = vec![
        apex.clone(),
        cat(&[b"a"], &apex),
        cat(&[b"*"], &apex),
        cat(&[b"b", b"a"], &apex),
        cat(&[b"*", b"a"], &apex),
        cat(&[b"a", b"*"], &apex),
    ];
    let mut universe: Vec<Add> = Vec::new();
    for o in &owners {
        universe.push(Add { owner: o.clone(), rtype: T_A, class, ttl: 60, rdata: vec![127, 0, 0, 1] });
        universe.push(Add { owner: o.clone(), rtype: T_NS, class, ttl: 60, rdata: wire(&cat(&[b"b", b"a"], &apex)) });
        universe.push(Add { owner: o.clone(), rtype: T_NS, class, ttl: 60, rdata: wire(&vec![b"q".to_vec()]) });
        universe.push(Add { owner: o.clone(), rtype: T_CNAME, class, ttl: 60, rdata: wire(&cat(&[b"a"], &apex)) });
    }
    let labs: [&[u8]; 4] = [b"a", b"b", b"*", b"x"];
    let mut names: Vec<Labels> = vec![apex.clone()];
    let mut frontier: Vec<Labels> = vec![apex.clone()];
    for _ in 0..2 {
        let mut next = Vec::new();
        for n in &frontier {
            for l in labs {
                next.push(cat(&[l], n));
            }
        }
        names.extend(next.iter().cloned());
        frontier = next;
    }
    for o in &owners {
        if o.len() == 3 {
            for l in labs {
                names.push(cat(&[l], o));
            }
        }
    }
    let mut steps: Vec<String> = Vec::new();
    for n in &names {
        query_steps(n, &[T_A, T_NS], &["00", "01"], &mut steps);
    }
    for s in ["n", "r", "s", "t", "v"] {
        steps.push(s.to_string());
    }
    let u = universe.len();
    let mut idx: Vec<usize> = Vec::new();
    fn rec(universe: &[Add], idx: &mut Vec<usize>, start: usize, k: usize, apex: &Labels, class: u16, glue: char, steps: &[String], em: &mut Emitter) {
        if !idx.is_empty() {
            let sess = Session { apex: apex.clone(), class, glue, adds: idx.iter().map(|i| universe[*i].step()).collect() };
            sess.emit(em, steps, 128);
        }
        if idx.len() == k {
            return;
        }
        for i in start..universe.len() {
            idx.push(i);
            rec(universe, idx, i + 1, k, apex, class, glue, steps, em);
            idx.pop();
        }
    }
    let _ = u;
    rec(&universe, &mut idx, 0, k, &apex, class, glue, &steps, em);
}

pub fn gen(rng: &mut Rng, thorough: bool, em: &mut Emitter) {
    // the empty zone
    let empty = Session { apex: vec![b"z".to_vec()], class: 1, glue: 'n', adds: vec![] };
    let mut steps = Vec::new();
    query_steps(&vec![b"z".to_vec()], &[T_A, T_NS], &["00", "01", "10", "11"], &mut steps);
    query_steps(&vec![b"a".to_vec(), b"z".to_vec()], &[T_A], &["00", "01", "10", "11"], &mut steps);
    query_steps(&vec![], &[T_A], &["00", "01"], &mut steps);
    steps.extend(["n", "r", "s", "t", "v"].iter().map(|s| s.to_string()));
    empty.emit(em, &steps, 64);
    // exhaustive small zones
    if thorough {
        exhaustive(em, 4, 'n', 1);
        exhaustive(em, 2, 'w', 1);
        exhaustive(em, 2, 'n', 3);
    } else {
        exhaustive(em, 2, 'n', 1);
    }
    // random zones
    let n = if thorough { 1500 } else { 250 };
    for _ in 0..n {
        random_zone(rng, em, thorough);
    }
}
