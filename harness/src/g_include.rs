//! group `include` — C25: src/zone_file/fs (the file-system parser with `$INCLUDE` handling).
//!
//! ops (see lean/QV/Driver/Include.lean): inc, incflat.  A case carries the whole file tree;
//! the harness materialises it in a fresh temporary directory, makes that the working directory
//! and opens the main file by its relative path, so relative include paths are resolved by the
//! real code against real directories.
use crate::common::*;
use crate::g_zonefile::{gen_rr, name_wire, Ctx, Printer};
use quandary::zone_file::fs;
use quandary::zone_file::{LineContent, Parser};
use std::io::Cursor;
use std::path::{Path, PathBuf};
use std::sync::atomic::{AtomicUsize, Ordering};

static COUNTER: AtomicUsize = AtomicUsize::new(0);

type Fs = Vec<(Vec<u8>, Vec<u8>)>;

fn parse_fs(s: &str) -> Option<Fs> {
    if s == "-" {
        return Some(vec![]);
    }
    s.split(',')
        .map(|e| {
            let (p, c) = e.split_once('=')?;
            Some((unhex(p)?, unhex(c)?))
        })
        .collect()
}

fn show_fs(fs: &Fs) -> String {
    if fs.is_empty() {
        return "-".into();
    }
    fs.iter().map(|(p, c)| format!("{}={}", hex(p), hex(c))).collect::<Vec<_>>().join(",")
}

struct TempTree {
    root: PathBuf,
}

impl TempTree {
    fn new(fs: &Fs) -> std::io::Result<Self> {
        let n = COUNTER.fetch_add(1, Ordering::SeqCst);
        let root = std::env::temp_dir().join(format!("qvinc-{}-{}", std::process::id(), n));
        let _ = std::fs::remove_dir_all(&root);
        std::fs::create_dir_all(&root)?;
        for (p, c) in fs {
            if p.first() == Some(&b'/') {
                continue; // pre-existing absolute file (only /dev/null is used)
            }
            let rel = std::str::from_utf8(p).map_err(|_| std::io::Error::other("path"))?;
            let full = root.join(rel);
            if let Some(d) = full.parent() {
                std::fs::create_dir_all(d)?;
            }
            std::fs::write(full, c)?;
        }
        let root = std::fs::canonicalize(root)?;
        std::env::set_current_dir(&root)?;
        Ok(TempTree { root })
    }

    /// canonical path, relative to the tree's root where possible
    fn canon(&self, p: &Path) -> String {
        use std::os::unix::ffi::OsStrExt;
        match std::fs::canonicalize(p) {
            Ok(c) => match c.strip_prefix(&self.root) {
                Ok(r) => hex(r.as_os_str().as_bytes()),
                Err(_) => hex(c.as_os_str().as_bytes()),
            },
            Err(_) => format!("?{}", hex(p.as_os_str().as_bytes())),
        }
    }
}

impl Drop for TempTree {
    fn drop(&mut self) {
        let _ = std::env::set_current_dir("/");
        let _ = std::fs::remove_dir_all(&self.root);
    }
}

fn show_rec(r: &quandary::zone_file::ParsedRr) -> String {
    format!(
        "{}:{}:{}:{}:{}",
        hex(r.owner.wire_repr()),
        u32::from(r.ttl),
        u16::from(r.class),
        u16::from(r.rr_type),
        hex(r.rdata.octets())
    )
}

fn err_kind_name(k: &fs::error::ErrorKind) -> String {
    let s = format!("{:?}", k);
    s.split(|c: char| !c.is_ascii_alphanumeric()).next().unwrap_or("").to_string()
}

/// (items as printed by `inc`, record-only items as compared by `incflat`)
fn run_fs(tree: &TempTree, main: &[u8], depth: usize) -> Option<(Vec<String>, Vec<String>)> {
    use std::ffi::OsStr;
    use std::os::unix::ffi::OsStrExt;
    let mainp = Path::new(OsStr::from_bytes(main));
    let mut p = fs::Parser::open(mainp, depth).ok()?;
    let mut items = Vec::new();
    let mut recs = Vec::new();
    let mut after = 0;
    while after < 4 {
        match p.next() {
            Some(Ok(l)) => {
                items.push(format!("rec:{}:{}:{}", tree.canon(&l.path), l.number, show_rec(&l.record)));
                recs.push(format!("rec:{}", show_rec(&l.record)));
            }
            Some(Err(e)) => {
                let line = match e.kind() {
                    fs::error::ErrorKind::Syntax(d) => d.line(),
                    fs::error::ErrorKind::IncludesTooDeep(x) => x.line(),
                    fs::error::ErrorKind::FailedToOpenInclude(x) => x.line(),
                    fs::error::ErrorKind::InvalidPath(x) => x.line(),
                    fs::error::ErrorKind::GeneralIo(_) => 0,
                };
                let kind = match e.kind() {
                    fs::error::ErrorKind::Syntax(_) => "Syntax".to_string(),
                    k => err_kind_name(k),
                };
                items.push(format!("err:{}@{}:{}", kind, tree.canon(e.path()), line));
                recs.push("err".into());
                after += 1;
            }
            None => after += 1,
        }
    }
    Some((items, recs))
}

fn join_items(v: &[String]) -> String {
    if v.is_empty() { "ok -".into() } else { format!("ok {}", v.join(";")) }
}

fn run_mem(flat: &[u8]) -> Vec<String> {
    let mut p = Parser::new(Cursor::new(flat.to_vec()));
    let mut out = Vec::new();
    let mut after = 0;
    while after < 2 {
        match p.next() {
            Some(Ok(l)) => match l.content {
                LineContent::Record(r) => out.push(format!("rec:{}", show_rec(&r))),
                LineContent::Include(_) => out.push("inc".into()),
            },
            Some(Err(_)) => {
                out.push("err".into());
                after += 1;
            }
            None => after += 1,
        }
    }
    out
}

pub fn run(op: &str, a: &[&str]) -> Option<String> {
    match (op, a) {
        ("inc", [d, fss, main]) => {
            let (Ok(depth), Some(fsv), Some(mainb)) = (d.parse::<usize>(), parse_fs(fss), unhex(main)) else {
                return Some("bad-op".into());
            };
            Some(guarded(|| {
                let Ok(tree) = TempTree::new(&fsv) else { return "harness-io-error".into() };
                match run_fs(&tree, &mainb, depth) {
                    Some((items, _)) => join_items(&items),
                    None => "open-failed".into(),
                }
            }))
        }
        ("incflat", [d, fss, main, flat]) => {
            let (Ok(depth), Some(fsv), Some(mainb), Some(flatb)) = (d.parse::<usize>(), parse_fs(fss), unhex(main), unhex(flat)) else {
                return Some("bad-op".into());
            };
            Some(guarded(|| {
                let Ok(tree) = TempTree::new(&fsv) else { return "harness-io-error".into() };
                match run_fs(&tree, &mainb, depth) {
                    Some((_, recs)) => {
                        let b = run_mem(&flatb);
                        if recs == b { "ok same".into() } else { format!("differ {} {}", recs.len(), b.len()) }
                    }
                    None => "open-failed".into(),
                }
            }))
        }
        _ => None,
    }
}

// ------------------------------------------------------------------------------------------
// generators
// ------------------------------------------------------------------------------------------

const FILE_NAMES: &[&str] = &["main.zone", "a.zone", "sub/b.zone", "sub/deep/c.zone", "other/d.zone", "sub/e.zone", "f.zone", "other/b.zone"];

fn dir_of(p: &str) -> Vec<&str> {
    let mut c: Vec<&str> = p.split('/').collect();
    c.pop();
    c
}

/// a path text for `target` as seen from a file in directory of `includer`
fn rel_path(rng: &mut Rng, includer: &str, target: &str) -> Vec<u8> {
    let d = dir_of(includer);
    let t: Vec<&str> = target.split('/').collect();
    let mut common = 0;
    while common < d.len() && common + 1 < t.len() && d[common] == t[common] {
        common += 1;
    }
    let mut parts: Vec<String> = Vec::new();
    for _ in common..d.len() {
        parts.push("..".into());
    }
    for x in &t[common..] {
        parts.push((*x).into());
    }
    let mut s = String::new();
    if rng.chance(1, 5) {
        s.push_str("./");
    }
    for (i, p) in parts.iter().enumerate() {
        if i > 0 {
            s.push('/');
            if rng.chance(1, 10) {
                s.push('/');
            }
            if rng.chance(1, 10) {
                s.push_str("./");
            }
        }
        s.push_str(p);
    }
    // presentation: unquoted, quoted, with escapes
    let raw = s.into_bytes();
    let mut out = Vec::new();
    match rng.below(4) {
        0 => {
            out.push(b'"');
            out.extend_from_slice(&raw);
            out.push(b'"');
        }
        1 => {
            for &b in &raw {
                if rng.chance(1, 6) && !b.is_ascii_digit() {
                    out.push(b'\\');
                    out.push(b);
                } else if rng.chance(1, 8) {
                    out.extend_from_slice(format!("\\{:03}", b).as_bytes());
                } else {
                    out.push(b);
                }
            }
        }
        _ => out.extend_from_slice(&raw),
    }
    out
}

struct TreeGen {
    files: Vec<Option<Vec<u8>>>, // content per FILE_NAMES index
    flat_ok: bool,
    pool: Vec<Vec<Vec<u8>>>,
    n_files: usize,
    /// every file starts with an origin in effect (the old behaviour); otherwise the root and
    /// intermediate files may have NO origin at their `$INCLUDE` lines
    force_origin: bool,
    /// the origin in effect in the *flattened* text (differs from the simulated one only while
    /// the simulated origin is "none", which a text cannot restore)
    flat_origin: Option<Vec<Vec<u8>>>,
    n_probe: usize,
}

fn render_abs(name: &[Vec<u8>]) -> Vec<u8> {
    // plain rendering of an absolute name (labels here are simple: generated from LABELS)
    let mut out = Vec::new();
    if name.is_empty() {
        return b".".to_vec();
    }
    for l in name {
        for &b in l {
            if matches!(b, b' ' | b'\t' | b'(' | b')' | b';' | b'\n' | b'\r' | b'.' | b'\\' | b'"' | b'@' | b'$') || !(33..127).contains(&b) {
                out.extend_from_slice(format!("\\{:03}", b).as_bytes());
            } else {
                out.push(b);
            }
        }
        out.push(b'.');
    }
    out
}

impl TreeGen {
    /// make the flattened text's origin equal to the simulated one (possible iff it is set)
    fn sync_flat(&mut self, ctx: &Ctx, flat: &mut Vec<u8>) {
        if let Some(o) = &ctx.origin {
            if self.flat_origin.as_ref() != Some(o) {
                flat.extend_from_slice(b"$ORIGIN ");
                flat.extend(render_abs(o));
                flat.push(b'\n');
                self.flat_origin = Some(o.clone());
            }
        }
    }

    /// a line whose meaning depends on the context the includer is left with: a relative owner,
    /// `@`, an omitted owner / TTL / class.  Where the context lacks what the line needs the
    /// real parser must report an error (e.g. PqdnWhenOriginNotSet when no origin is in effect).
    fn probe(&mut self, rng: &mut Rng, ctx: &mut Ctx, text: &mut Vec<u8>, flat: &mut Vec<u8>) {
        self.n_probe += 1;
        let k = self.n_probe;
        let kind = rng.below(6);
        let line: Vec<u8> = match kind {
            0 | 1 => format!("p{} 7 IN TXT rel{}\n", k, k).into_bytes(),
            2 => format!("@ 7 IN TXT at{}\n", k).into_bytes(),
            3 => format!("\tTXT cont{}\n", k).into_bytes(),
            4 => format!("q{}.abs.test. TXT nottl{}\n", k, k).into_bytes(),
            _ => format!("\t8 TXT ownercls{}\n", k).into_bytes(),
        };
        if kind <= 2 && ctx.origin.is_none() && self.flat_origin.is_some() {
            // the flattened text cannot express "no origin" once an included file has set one
            self.flat_ok = false;
        }
        self.sync_flat(ctx, flat);
        text.extend_from_slice(&line);
        flat.extend_from_slice(&line);
        // simulate (an erroneous line ends the parse; what follows it is never looked at)
        match kind {
            0 | 1 => {
                if let Some(o) = &ctx.origin {
                    let mut n = vec![format!("p{}", k).into_bytes()];
                    n.extend(o.iter().cloned());
                    ctx.prev_owner = Some(n);
                    ctx.prev_ttl = Some(7);
                    ctx.prev_class = Some(1);
                }
            }
            2 => {
                if let Some(o) = &ctx.origin {
                    ctx.prev_owner = Some(o.clone());
                    ctx.prev_ttl = Some(7);
                    ctx.prev_class = Some(1);
                }
            }
            3 => {
                if let (Some(_), Some(t), Some(_)) = (&ctx.prev_owner, ctx.default_ttl.or(ctx.prev_ttl), ctx.prev_class) {
                    ctx.prev_ttl = Some(t);
                }
            }
            4 => {
                if let (Some(t), Some(_)) = (ctx.default_ttl.or(ctx.prev_ttl), ctx.prev_class) {
                    ctx.prev_owner = Some(vec![format!("q{}", k).into_bytes(), b"abs".to_vec(), b"test".to_vec()]);
                    ctx.prev_ttl = Some(t);
                }
            }
            _ => {
                if ctx.prev_owner.is_some() && ctx.prev_class.is_some() {
                    ctx.prev_ttl = Some(8);
                }
            }
        }
    }

    /// generate file `idx` under the simulated context `ctx`; returns (text, flattened text).
    /// `ctx` is updated to the context after the file (origin restored by the caller).
    fn gen_file(&mut self, rng: &mut Rng, idx: usize, ctx: &mut Ctx, depth: usize, class: u16) -> (Vec<u8>, Vec<u8>) {
        let mut text: Vec<u8> = Vec::new();
        let mut flat: Vec<u8> = Vec::new();
        let n = rng.range(1, 8);
        if ctx.origin.is_none() && (self.force_origin || (idx > 0 && rng.chance(1, 3))) {
            let o = vec![b"example".to_vec(), b"test".to_vec()];
            let line = b"$ORIGIN example.test.\n".to_vec();
            text.extend_from_slice(&line);
            flat.extend_from_slice(&line);
            ctx.origin = Some(o.clone());
            self.flat_origin = Some(o);
        }
        for _ in 0..n {
            match rng.below(11) {
                0 => {
                    let mut o = ctx.origin.clone().unwrap_or_default();
                    if rng.chance(1, 2) || o.len() > 4 || o.is_empty() {
                        o = vec![rng.pick(&[&b"zone"[..], b"x", b"example"]).to_vec(), b"test".to_vec()];
                    } else {
                        o.insert(0, rng.pick(&[&b"s1"[..], b"s2", b"deep"]).to_vec());
                    }
                    let mut line = b"$ORIGIN ".to_vec();
                    line.extend(render_abs(&o));
                    line.push(b'\n');
                    text.extend_from_slice(&line);
                    flat.extend_from_slice(&line);
                    ctx.origin = Some(o.clone());
                    self.flat_origin = Some(o);
                }
                1 => {
                    let v = *rng.pick(&[60u32, 300, 7200]);
                    let line = format!("$TTL {}\n", v).into_bytes();
                    text.extend_from_slice(&line);
                    flat.extend_from_slice(&line);
                    ctx.default_ttl = Some(v);
                }
                2 | 3 | 4 if depth < 5 && idx + 1 < self.n_files => {
                    // include a later file (the include graph is a DAG)
                    let j = rng.range(idx + 1, self.n_files - 1);
                    let inc_origin = if rng.chance(1, 2) {
                        Some(vec![rng.pick(&[&b"inc"[..], b"o2", b"sub"]).to_vec(), b"test".to_vec()])
                    } else {
                        None
                    };
                    let mut line = if rng.chance(1, 3) { b"$include ".to_vec() } else { b"$INCLUDE ".to_vec() };
                    line.extend(rel_path(rng, FILE_NAMES[idx], FILE_NAMES[j]));
                    if let Some(o) = &inc_origin {
                        line.push(b' ');
                        line.extend(render_abs(o));
                    }
                    if rng.chance(1, 6) {
                        line.extend_from_slice(b" ; comment");
                    }
                    line.push(b'\n');
                    text.extend_from_slice(&line);
                    // semantics being simulated: child context = includer's, origin overridden
                    let saved_origin = ctx.origin.clone();
                    self.sync_flat(ctx, &mut flat);
                    if let Some(o) = &inc_origin {
                        ctx.origin = Some(o.clone());
                        self.sync_flat(ctx, &mut flat);
                    }
                    if self.files[j].is_none() {
                        let (t, f) = self.gen_file(rng, j, ctx, depth + 1, class);
                        self.files[j] = Some(t);
                        flat.extend(f);
                    } else {
                        // already generated under another context: flatten by re-expanding is not
                        // possible textually here, so give up the flattening oracle for this tree
                        // and forget what the context is
                        self.flat_ok = false;
                        ctx.prev_owner = None;
                        ctx.prev_ttl = None;
                        ctx.prev_class = None;
                        ctx.default_ttl = None;
                    }
                    // the includer's origin is restored — also when it is "none"
                    ctx.origin = saved_origin;
                    self.sync_flat(ctx, &mut flat);
                    // lines that show what context the includer was left with
                    if rng.chance(2, 3) {
                        self.probe(rng, ctx, &mut text, &mut flat);
                        if rng.chance(1, 3) {
                            self.probe(rng, ctx, &mut text, &mut flat);
                        }
                    }
                }
                5 => self.probe(rng, ctx, &mut text, &mut flat),
                _ => {
                    self.sync_flat(ctx, &mut flat);
                    let mut p = Printer::new(rng);
                    p.allow_paren = rng.chance(1, 4);
                    let r = gen_rr(rng, ctx, &mut self.pool, class);
                    p.record(rng, &r, ctx, false);
                    if !p.out.ends_with(b"\n") {
                        p.out.push(b'\n');
                    }
                    text.extend_from_slice(&p.out);
                    flat.extend_from_slice(&p.out);
                }
            }
        }
        (text, flat)
    }
}

fn emit(em: &mut Emitter, case: &str) {
    let mut it = case.split(' ');
    let op = it.next().unwrap();
    let args: Vec<&str> = it.collect();
    let r = run(op, &args).unwrap_or_else(|| "bad-op".into());
    em.emit(case, &r);
}

fn gen_tree(rng: &mut Rng, em: &mut Emitter) {
    let n_files = if rng.chance(1, 8) { 1 } else { rng.range(2, 6) };
    let mut g = TreeGen {
        files: vec![None; FILE_NAMES.len()],
        flat_ok: true,
        pool: Vec::new(),
        n_files,
        force_origin: rng.chance(2, 5),
        flat_origin: None,
        n_probe: 0,
    };
    let mut ctx = Ctx::new();
    let (main, flat) = g.gen_file(rng, 0, &mut ctx, 0, 1);
    g.files[0] = Some(main);
    let mut fsv: Fs = Vec::new();
    for (i, f) in g.files.iter().enumerate() {
        if let Some(c) = f {
            fsv.push((FILE_NAMES[i].as_bytes().to_vec(), c.clone()));
        }
    }
    let fss = show_fs(&fsv);
    let mainh = hex(b"main.zone");
    let depth = rng.below(5);
    let case = format!("inc {} {} {}", depth, fss, mainh);
    emit(em, &case);
    // the textual-inclusion oracle, whenever no depth/open error interferes
    if g.flat_ok {
        for d in [depth, 6] {
            let probe = run("inc", &[&d.to_string(), &fss, &mainh]).unwrap();
            if !probe.contains("err:IncludesTooDeep") && !probe.contains("err:FailedToOpenInclude") {
                emit(em, &format!("incflat {} {} {} {}", d, fss, mainh, hex(&flat)));
                break;
            }
        }
    }
}

/// hand-shaped trees: cycles cut by the depth limit, runs of consecutive includes, missing
/// files, main file in a sub-directory, absolute paths
fn gen_special(rng: &mut Rng, em: &mut Emitter, thorough: bool) {
    let h = |s: &str| hex(s.as_bytes());
    let f = |v: &[(&str, &str)]| -> String { v.iter().map(|(p, c)| format!("{}={}", h(p), h(c))).collect::<Vec<_>>().join(",") };
    let rec = "$ORIGIN t.\na 5 IN A 1.2.3.4\n";
    // self-inclusion and mutual inclusion, every depth limit
    for d in 0..=5 {
        emit(em, &format!("inc {} {} {}", d, f(&[("main.zone", "$ORIGIN t.\na 5 IN A 1.1.1.1\n$INCLUDE main.zone\nb A 2.2.2.2\n")]), h("main.zone")));
        emit(em, &format!("inc {} {} {}", d, f(&[("main.zone", "$ORIGIN t.\n$INCLUDE x.zone\nm 5 IN A 9.9.9.9\n"), ("x.zone", "x 6 IN A 1.1.1.1\n$INCLUDE main.zone\n")]), h("main.zone")));
        // a chain main -> c1 -> c2 -> c3 -> c4
        emit(em, &format!("inc {} {} {}", d, f(&[
            ("main.zone", "$ORIGIN t.\n$INCLUDE c1.zone\nm 5 IN A 9.9.9.9\n"),
            ("c1.zone", "c1 5 IN A 1.1.1.1\n$INCLUDE c2.zone\n\tA 1.1.1.2\n"),
            ("c2.zone", "c2 A 2.2.2.2\n$INCLUDE c3.zone\n"),
            ("c3.zone", "$INCLUDE c4.zone sub\nc3 A 3.3.3.3\n"),
            ("c4.zone", "@ A 4.4.4.4\nc4 A 4.4.4.5\n"),
        ]), h("main.zone")));
    }
    // origin scoping: includee changes $ORIGIN, includer's is restored; other context flows back
    emit(em, &format!("inc 2 {} {}", f(&[
        ("main.zone", "$ORIGIN p.\n$TTL 100\nfirst IN A 1.1.1.1\n$INCLUDE i.zone q.\nafter A 2.2.2.2\n\tA 2.2.2.3\n"),
        ("i.zone", "in1 A 3.3.3.3\n$ORIGIN r.\n$TTL 200\nin2 CH TXT x\n"),
    ]), h("main.zone")));
    // the includer has NO origin at its $INCLUDE line: "restored" means none again, so a relative
    // name or `@` after the include is an error — whether the included file got its origin from
    // the directive, from a `$ORIGIN` of its own, or from a file nested two levels down
    for after in ["rel 5 IN A 2.2.2.2\n", "@ 5 IN A 2.2.2.2\n", "abs.t. 5 IN NS rel\n", "abs2.t. 5 IN A 2.2.2.2\n$INCLUDE i.zone\n"] {
        for (inc, ifile, nfile) in [
            ("$INCLUDE i.zone o.\n", "i 6 IN A 3.3.3.3\n", ""),
            ("$INCLUDE i.zone\n", "$ORIGIN o.\ni 6 IN A 3.3.3.3\n", ""),
            ("$INCLUDE i.zone\n", "i.o. 6 IN A 3.3.3.3\n$INCLUDE n.zone\nj.o. A 3.3.3.4\n", "$ORIGIN deep.o.\nn 6 IN A 4.4.4.4\n"),
            ("$INCLUDE i.zone o.\n", "$INCLUDE n.zone p.\ni 6 IN A 3.3.3.3\n", "n 6 IN A 4.4.4.4\n$ORIGIN q.\n@ A 4.4.4.5\n"),
        ] {
            for pre in ["a.t. 5 IN A 1.1.1.1\n", "$ORIGIN t.\na 5 IN A 1.1.1.1\n", ""] {
                let m = format!("{}{}{}", pre, inc, after);
                emit(em, &format!("inc 3 {} {}", f(&[("main.zone", &m), ("i.zone", ifile), ("n.zone", nfile)]), h("main.zone")));
            }
        }
    }
    // the other context fields DO flow back from the included file: previous owner, TTL, class,
    // default TTL (observable through omitted fields right after the include)
    for after in ["\tTXT x\n", "\t9 TXT x\n", "w.t. TXT x\n", "w.t. CH TXT x\n", "w.t. 9 TXT x\n"] {
        for ifile in ["i.o. 6 CH TXT y\n", "$TTL 77\ni.o. HS TXT y\n", "$TTL 77\n", "", "i.o. 6 IN TXT y\n$TTL 5\nj.o. CH TXT z\n"] {
            for pre in ["a.t. 5 IN A 1.1.1.1\n", "$TTL 300\na.t. IN A 1.1.1.1\n", ""] {
                let m = format!("{}$INCLUDE i.zone\n{}", pre, after);
                emit(em, &format!("inc 3 {} {}", f(&[("main.zone", &m), ("i.zone", ifile)]), h("main.zone")));
            }
        }
    }
    // relative paths: main in a sub-directory; sibling with the same name in the root
    emit(em, &format!("inc 3 {} {}", f(&[
        ("d/main.zone", "$ORIGIN t.\n$INCLUDE b.zone\n$INCLUDE ../b.zone\n$INCLUDE e/b.zone\n"),
        ("d/b.zone", "db 5 IN A 1.1.1.1\n"),
        ("b.zone", "rootb 5 IN A 2.2.2.2\n"),
        ("d/e/b.zone", "deb 5 IN A 3.3.3.3\n$INCLUDE ../b.zone\n$INCLUDE b.zone\n"),
    ]), h("d/main.zone")));
    emit(em, &format!("inc 3 {} {}", f(&[
        ("d/main.zone", "$ORIGIN t.\n$INCLUDE b.zone\nx 5 IN A 1.1.1.1\n"),
        ("b.zone", "rootb 5 IN A 2.2.2.2\n"),
    ]), h("d/main.zone")));
    // missing file, absolute path, path presentations
    emit(em, &format!("inc 3 {} {}", f(&[("main.zone", "$ORIGIN t.\na 5 IN A 1.1.1.1\n$INCLUDE nope.zone\nb A 2.2.2.2\n")]), h("main.zone")));
    emit(em, &format!("inc 3 {},2f6465762f6e756c6c=- {}", f(&[("main.zone", "$ORIGIN t.\na 5 IN A 1.1.1.1\n$INCLUDE /dev/null\nb A 2.2.2.2\n")]), h("main.zone")));
    emit(em, &format!("inc 3 {} {}", f(&[
        ("main.zone", "$ORIGIN t.\n$INCLUDE \"s p/a b.zone\" ; quoted, with spaces\n$INCLUDE s\\ p/a\\032b.zone\n"),
        ("s p/a b.zone", "sp 5 IN A 1.1.1.1\n"),
    ]), h("main.zone")));
    // an error inside an included file ends everything
    emit(em, &format!("inc 3 {} {}", f(&[("main.zone", "$ORIGIN t.\na 5 IN A 1.1.1.1\n$INCLUDE i.zone\nb A 2.2.2.2\n"), ("i.zone", "i A 3.3.3.3\nbad A 1.2.3\nnever A 1.1.1.1\n")]), h("main.zone")));
    // included file without trailing newline, unbalanced parenthesis at its end
    emit(em, &format!("inc 3 {} {}", f(&[("main.zone", "$ORIGIN t.\n$INCLUDE i.zone\nb 5 IN A 2.2.2.2\n"), ("i.zone", "i 7 IN A 3.3.3.3")]), h("main.zone")));
    emit(em, &format!("inc 3 {} {}", f(&[("main.zone", "$ORIGIN t.\n$INCLUDE i.zone\nb 5 IN A 2.2.2.2\n"), ("i.zone", "i 7 IN A 3.3.3.3 (\n")]), h("main.zone")));
    // long runs of consecutive includes (the recursion of fs::Parser::next).  NOTE: each include
    // that yields nothing adds two frames of `fs::Parser::next` (`return self.next()` is not a
    // guaranteed tail call); ~1500 (debug) / ~7000 (release) consecutive includes overflow an
    // 8 MiB stack — an abort, which no harness can catch (reported as a finding; the runs here
    // stay below it).
    let runs: &[usize] = if thorough { &[1, 10, 100, 400, 800] } else { &[1, 10, 100, 400] };
    for &n in runs {
        let mut m = String::from("$ORIGIN t.\n");
        for i in 0..n {
            m.push_str(if i % 3 == 0 { "$INCLUDE e.zone\n" } else { "$INCLUDE one.zone\n" });
        }
        m.push_str("last 5 IN A 9.9.9.9\n");
        emit(em, &format!("inc 1 {} {}", f(&[("main.zone", &m), ("e.zone", ""), ("one.zone", if rng.chance(1, 2) { "o 1 IN A 1.1.1.1\n" } else { "" })]), h("main.zone")));
    }
    let _ = rec;
}

pub fn gen(rng: &mut Rng, thorough: bool, em: &mut Emitter) {
    gen_special(rng, em, thorough);
    let n = if thorough { 20_000 } else { 1_500 };
    for _ in 0..n {
        gen_tree(rng, em);
    }
    let _ = name_wire;
}
