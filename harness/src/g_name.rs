//! group `name` — C16: src/name/{mod,label,builder,lowercase}.rs through the public
//! `Name` / `Label` / `NameBuilder` / `LowercaseName` API.  See lean/QV/Driver/Name.lean for the
//! list of ops and result formats.
use crate::common::*;
use quandary::name::{Label, LowercaseName, Name, NameBuilder};
use std::cmp::Ordering;
use std::hash::{Hash, Hasher};

/// records the octets a `Hash` impl feeds to the hasher (hash *inputs* are compared, never values)
struct Recorder(Vec<u8>);
impl Hasher for Recorder {
    fn finish(&self) -> u64 {
        0
    }
    fn write(&mut self, bytes: &[u8]) {
        self.0.extend_from_slice(bytes);
    }
}

fn ord(o: Ordering) -> &'static str {
    match o {
        Ordering::Less => "lt",
        Ordering::Equal => "eq",
        Ordering::Greater => "gt",
    }
}

fn rev(o: Ordering) -> Ordering {
    o.reverse()
}

fn b01(b: bool) -> &'static str {
    if b {
        "1"
    } else {
        "0"
    }
}

fn name_of(h: &str) -> Result<Box<Name>, String> {
    let Some(w) = unhex(h) else { return Err("bad-op".into()) };
    Name::try_from_uncompressed_all(&w).map_err(|e| format!("err:{:?}", e))
}

macro_rules! name {
    ($h:expr) => {
        match name_of($h) {
            Ok(n) => n,
            Err(e) => return Some(e),
        }
    };
}

fn law_flags(ab: Ordering, bc: Ordering, ac: Ordering, ba: Ordering) -> String {
    let anti = ab == rev(ba);
    let trans = !((ab != Ordering::Greater && bc != Ordering::Greater && ac == Ordering::Greater)
        || (ab == Ordering::Less && bc == Ordering::Less && ac != Ordering::Less));
    format!("{} {} {} {} {} {}", ord(ab), ord(bc), ord(ac), ord(ba), b01(anti), b01(trans))
}

fn run_script(script: &str) -> String {
    let mut b = NameBuilder::new();
    let mut outs: Vec<String> = Vec::new();
    let unit = |r: Result<(), quandary::name::Error>| match r {
        Ok(()) => "ok".to_string(),
        Err(e) => format!("err:{:?}", e),
    };
    let built = |r: Result<Box<Name>, quandary::name::Error>| match r {
        Ok(n) => format!("ok {} {}", hex(n.wire_repr()), n.len()),
        Err(e) => format!("err:{:?}", e),
    };
    for step in script.split(';') {
        if let Some(h) = step.strip_prefix('p') {
            let Some(o) = unhex(h).filter(|v| v.len() == 1) else { return "bad-op".into() };
            outs.push(unit(b.try_push(o[0])));
        } else if let Some(h) = step.strip_prefix('s') {
            let Some(os) = unhex(h) else { return "bad-op".into() };
            outs.push(unit(b.try_push_slice(&os)));
        } else if step == "n" {
            outs.push(unit(b.next_label()));
        } else if step == "q" {
            outs.push(b01(b.is_fully_qualified()).to_string());
        } else if step == "f" {
            outs.push(built(b.finish()));
            return outs.join(";");
        } else if let Some(h) = step.strip_prefix('x') {
            let Some(w) = unhex(h) else { return "bad-op".into() };
            let Ok(sfx) = Name::try_from_uncompressed_all(&w) else { return "bad-op".into() };
            outs.push(built(b.finish_with_suffix(&sfx)));
            return outs.join(";");
        } else {
            return "bad-op".into();
        }
    }
    outs.join(";")
}

pub fn run(op: &str, a: &[&str]) -> Option<String> {
    let bad = || Some("bad-op".to_string());
    Some(match (op, a) {
        ("npres", [w, t]) => {
            let Some(text) = unhex(t) else { return bad() };
            let n = name!(w);
            guarded(move || {
                let s = n.to_string();
                if s.as_bytes() == &text[..] {
                    "ok".into()
                } else {
                    format!("differs:{}", hex(s.as_bytes()))
                }
            })
        }
        ("np", [t]) => {
            let Some(bytes) = unhex(t) else { return bad() };
            let Ok(text) = String::from_utf8(bytes) else { return bad() };
            guarded(move || match text.parse::<Box<Name>>() {
                Ok(n) => format!("ok {} {}", hex(n.wire_repr()), n.len()),
                Err(e) => format!("err:{:?}", e),
            })
        }
        ("nrt", [w]) => {
            let n = name!(w);
            guarded(move || match n.to_string().parse::<Box<Name>>() {
                Ok(m) => format!("ok {}", hex(m.wire_repr())),
                Err(e) => format!("err:{:?}", e),
            })
        }
        ("neq", [x, y]) => {
            let (x, y) = (name!(x), name!(y));
            guarded(move || format!("ok {}", b01(x == y)))
        }
        ("ncmp", [x, y]) => {
            let (x, y) = (name!(x), name!(y));
            guarded(move || format!("ok {}", ord(x.cmp(&y))))
        }
        ("ncmp3", [x, y, z]) => {
            let (x, y, z) = (name!(x), name!(y), name!(z));
            guarded(move || format!("ok {}", law_flags(x.cmp(&y), y.cmp(&z), x.cmp(&z), y.cmp(&x))))
        }
        ("nhash", [x]) => {
            let x = name!(x);
            guarded(move || {
                let mut r = Recorder(Vec::new());
                x.hash(&mut r);
                format!("ok {}", hex(&r.0))
            })
        }
        ("nsub", [x, y]) => {
            let (x, y) = (name!(x), name!(y));
            guarded(move || format!("ok {}", b01(x.eq_or_subdomain_of(&y))))
        }
        ("nsup", [x, k]) => {
            let Ok(k) = k.parse::<usize>() else { return bad() };
            let x = name!(x);
            guarded(move || match x.superdomain(k) {
                Some(s) => format!("ok {}", hex(s.wire_repr())),
                None => "none".into(),
            })
        }
        ("nlab", [x]) => {
            let x = name!(x);
            guarded(move || {
                let labels: Vec<String> = x.labels().map(|l| hex(l.octets())).collect();
                format!("ok {} {} {} {}", x.len(), b01(x.is_root()), b01(x.is_wildcard()), labels.join(","))
            })
        }
        ("nlow", [x]) => {
            let x = name!(x);
            guarded(move || {
                let l: Box<LowercaseName> = x.into();
                format!("ok {}", hex(l.wire_repr()))
            })
        }
        ("nwr", [x, k]) => {
            let Ok(k) = k.parse::<usize>() else { return bad() };
            let x = name!(x);
            guarded(move || format!("ok {} {}", hex(x.wire_repr_to(k)), hex(x.wire_repr_from(k))))
        }
        ("nidx", [x, i]) => {
            let Ok(i) = i.parse::<usize>() else { return bad() };
            let x = name!(x);
            guarded(move || format!("ok {}", hex(x[i].octets())))
        }
        ("lcmp", [x, y]) => {
            let (Some(x), Some(y)) = (unhex(x), unhex(y)) else { return bad() };
            guarded(move || {
                let (lx, ly) = match (<&Label>::try_from(&x[..]), <&Label>::try_from(&y[..])) {
                    (Ok(a), Ok(b)) => (a, b),
                    (Err(e), _) | (_, Err(e)) => return format!("err:{:?}", e),
                };
                format!("ok {} {}", ord(lx.cmp(ly)), b01(lx == ly))
            })
        }
        ("lhash", [x]) => {
            let Some(x) = unhex(x) else { return bad() };
            guarded(move || match <&Label>::try_from(&x[..]) {
                Ok(l) => {
                    let mut r = Recorder(Vec::new());
                    l.hash(&mut r);
                    format!("ok {}", hex(&r.0))
                }
                Err(e) => format!("err:{:?}", e),
            })
        }
        ("nb", [script]) => {
            let s = script.to_string();
            guarded(move || {
                let r = run_script(&s);
                if r == "bad-op" { r } else { format!("ok {}", r) }
            })
        }
        _ => return None,
    })
}

// ---------------------------------------------------------------------------------------------
// generators
// ---------------------------------------------------------------------------------------------

fn emit(em: &mut Emitter, case: String) {
    let mut it = case.split(' ');
    let op = it.next().unwrap();
    let args: Vec<&str> = it.collect();
    let r = run(op, &args).unwrap();
    em.emit(&case, &r);
}

/// one label octet; emphasis on the octets the text form treats specially
fn octet(rng: &mut Rng) -> u8 {
    match rng.below(16) {
        0 => b'.',
        1 => b'\\',
        2 => b' ',
        3 => b'*',
        4 => b'0' + rng.below(10) as u8,
        5 | 6 => b'A' + rng.below(26) as u8,
        7 | 8 | 9 => b'a' + rng.below(26) as u8,
        10 => 0x7f,
        11 => 0x80 + rng.below(128) as u8,
        12 => *rng.pick(&[0u8, 1, 0x1f, 0x20, 0x21, 0x2d, 0x2e, 0x2f, 0x40, 0x41, 0x5a, 0x5b, 0x5c, 0x5d, 0x60, 0x61, 0x7a, 0x7b, 0x7e, 0x7f, 0x80, 0xc0, 0xdf, 0xff]),
        13 => b'-',
        _ => rng.byte(),
    }
}

fn label(rng: &mut Rng, len: usize) -> Vec<u8> {
    (0..len).map(|_| octet(rng)).collect()
}

fn label_len(rng: &mut Rng) -> usize {
    match rng.below(20) {
        0 => 63,
        1 => 62,
        2 => 1,
        3..=5 => rng.range(1, 63),
        _ => rng.range(1, 9),
    }
}

fn wire_of(labels: &[Vec<u8>]) -> Vec<u8> {
    let mut w = Vec::new();
    for l in labels {
        w.push(l.len() as u8);
        w.extend_from_slice(l);
    }
    w.push(0);
    w
}

/// labels of a random valid name (wire length <= 255); several styles
fn name_labels(rng: &mut Rng) -> Vec<Vec<u8>> {
    let style = rng.below(16);
    let mut labels: Vec<Vec<u8>> = Vec::new();
    let mut total = 1usize;
    match style {
        0 => {}                                    // root
        1 => {
            // as many one-octet labels as fit: 127 labels, 255 octets (or one fewer)
            let n = if rng.chance(1, 2) { 127 } else { rng.range(120, 127) };
            for _ in 0..n {
                labels.push(label(rng, 1));
            }
        }
        2 => {
            // exactly 255 or 254 octets with long labels: 63+63+63+61 (+4 length octets +1) = 255
            let last = if rng.chance(1, 2) { 61 } else { 60 };
            for len in [63, 63, 63, last] {
                labels.push(label(rng, len));
            }
        }
        3 => {
            // fill up to a random target near the limit
            let target = rng.range(250, 255);
            while total < target {
                let room = target - total;
                if room < 2 {
                    break;
                }
                let len = label_len(rng).min(room - 1).min(63);
                labels.push(label(rng, len));
                total += len + 1;
            }
        }
        4 => {
            labels.push(vec![b'*']);
            for _ in 0..rng.below(4) {
                let len = label_len(rng).min(20);
                labels.push(label(rng, len));
            }
        }
        _ => {
            let n = rng.range(1, 6);
            for _ in 0..n {
                let len = label_len(rng);
                if total + len + 1 > 255 {
                    break;
                }
                total += len + 1;
                labels.push(label(rng, len));
            }
        }
    }
    labels
}

fn flip_case(rng: &mut Rng, l: &[u8]) -> Vec<u8> {
    l.iter()
        .map(|&b| if b.is_ascii_alphabetic() && rng.chance(1, 2) { b ^ 0x20 } else { b })
        .collect()
}

/// a relative of `base`: same up to case, differing in one octet, sub/superdomain, sibling …
fn relative(rng: &mut Rng, base: &[Vec<u8>]) -> Vec<Vec<u8>> {
    let mut n: Vec<Vec<u8>> = base.to_vec();
    match rng.below(10) {
        0 | 1 => n = n.iter().map(|l| flip_case(rng, l)).collect(),
        2 => {
            if !n.is_empty() {
                let i = rng.below(n.len());
                let j = rng.below(n[i].len());
                n[i][j] = match rng.below(4) {
                    0 => n[i][j] ^ 0x20,               // case bit: equal only for letters
                    1 => n[i][j].wrapping_add(1),
                    2 => n[i][j] ^ 0x80,
                    _ => octet(rng),
                };
            }
        }
        3 => {
            // subdomain: prepend labels
            for _ in 0..rng.range(1, 2) {
                let len = rng.range(1, 4);
                n.insert(0, label(rng, len));
            }
            n = n.iter().map(|l| flip_case(rng, l)).collect();
        }
        4 => {
            if !n.is_empty() {
                let k = rng.range(1, n.len());
                n.drain(0..k);                       // superdomain
            }
        }
        5 => {
            if !n.is_empty() {
                let i = rng.below(n.len());
                if rng.chance(1, 2) && n[i].len() > 1 {
                    n[i].pop();                      // proper prefix of a label
                } else if n[i].len() < 63 {
                    let extra = if rng.chance(1, 2) { 0 } else { octet(rng) };
                    n[i].push(extra);                // … or an extension (with octet 0: "absence sorts first")
                }
            }
        }
        6 => {
            if !n.is_empty() {
                let i = rng.below(n.len());
                n.remove(i);
            }
        }
        7 => {
            if n.len() >= 2 {
                let i = rng.below(n.len() - 1);
                n.swap(i, i + 1);
            }
        }
        8 => {
            // same suffix, different first labels
            let keep = rng.below(n.len() + 1);
            let mut m: Vec<Vec<u8>> = Vec::new();
            for _ in 0..rng.below(3) {
                let len = rng.range(1, 5);
                m.push(label(rng, len));
            }
            m.extend_from_slice(&n[n.len() - keep..]);
            n = m;
        }
        _ => n = name_labels(rng),
    }
    // keep it valid
    while wire_of(&n).len() > 255 {
        n.remove(0);
    }
    n
}

fn emit_single(em: &mut Emitter, rng: &mut Rng, labels: &[Vec<u8>]) {
    let w = wire_of(labels);
    let h = hex(&w);
    if let Ok(n) = Name::try_from_uncompressed_all(&w) {
        let text = n.to_string();
        emit(em, format!("npres {} {}", h, hex(text.as_bytes())));
    }
    emit(em, format!("nrt {}", h));
    emit(em, format!("nhash {}", h));
    emit(em, format!("nlab {}", h));
    emit(em, format!("nlow {}", h));
    let nl = labels.len() + 1;
    let ks: Vec<usize> = if nl <= 6 { (0..=nl + 1).collect() } else { vec![0, 1, rng.below(nl), nl - 1, nl, nl + 1] };
    for k in ks {
        emit(em, format!("nsup {} {}", h, k));
        emit(em, format!("nwr {} {}", h, k));
        emit(em, format!("nidx {} {}", h, k));
    }
}

fn emit_pair(em: &mut Emitter, a: &[Vec<u8>], b: &[Vec<u8>]) {
    let (x, y) = (hex(&wire_of(a)), hex(&wire_of(b)));
    for (p, q) in [(&x, &y), (&y, &x)] {
        emit(em, format!("neq {} {}", p, q));
        emit(em, format!("ncmp {} {}", p, q));
        emit(em, format!("nsub {} {}", p, q));
    }
}

/// text of a name with randomly chosen (valid) spellings of each octet
fn spell(rng: &mut Rng, labels: &[Vec<u8>]) -> String {
    if labels.is_empty() {
        return ".".into();
    }
    let mut s = String::new();
    for l in labels {
        for &b in l {
            let plain_ok = b.is_ascii() && b != b'.' && b != b'\\';
            match rng.below(6) {
                0 => s.push_str(&format!("\\{:03}", b)),
                1 if b.is_ascii() && !b.is_ascii_digit() => {
                    s.push('\\');
                    s.push(b as char);
                }
                _ if plain_ok => s.push(b as char),
                _ => s.push_str(&format!("\\{:03}", b)),
            }
        }
        s.push('.');
    }
    s
}

const TEXTS: [&str; 60] = [
    "", ".", "..", "...", "a", "a.", ".a", ".a.", "a..", "a..b.", "a.b", "a.b.", "a.b..", "\\", "a\\", "a.\\", "\\.",
    "\\..", "\\\\.", "\\\\", "\\1", "\\1.", "\\12.", "\\25", "\\25.", "\\255.", "\\256.", "\\256", "\\999.", "\\000.",
    "\\0a1.", "\\01a.", "\\a01.", "\\1234.", "\\0010.", "\\046.", "\\092.", "\\.\\..", "*.", "*.a.", "\\*.a.", "\\042.a.",
    " .", "a b.", "a\tb.", "a\nb.", "\u{e9}.", "\\\u{e9}.", "a\u{e9}.", "a.\u{20ac}.", "\u{1f600}.", "\\\u{1f600}.", "\u{80}.",
    "A.b.C.", "-._.", "a.b.c.d.e.f.g.h.i.j.", "\\065.", "\\a.", "xn--bcher-kva.example.", "\\\\\\..",
];

const TEXT_ALPHABET: [&str; 28] = [
    "\\", "\\", ".", ".", "0", "1", "2", "5", "6", "9", "a", "b", "Z", " ", "*", "-", "\\0", "\\2", "\\25", "\\255", "\\256",
    "\\046", "\u{e9}", "\u{20ac}", "\u{7f}", "\0", "\\.", "\\\\",
];

fn script_of(rng: &mut Rng) -> String {
    let mut steps: Vec<String> = Vec::new();
    let style = rng.below(8);
    let n = match style {
        0 => rng.range(120, 140),     // many labels: 127/128 boundary, name too long
        1 => rng.range(260, 300),     // long pushes: label too long, name too long
        _ => rng.range(1, 40),
    };
    for _ in 0..n {
        let step = match style {
            0 => match rng.below(10) {
                0..=4 => format!("p{:02x}", octet(rng)),
                5..=8 => "n".to_string(),
                _ => "q".to_string(),
            },
            1 => match rng.below(40) {
                0 => "n".to_string(),
                1 => "q".to_string(),
                2 => { let k = rng.range(0, 8); format!("s{}", hex(&label(rng, k))) }
                _ => format!("p{:02x}", octet(rng)),
            },
            2 => match rng.below(8) {
                0..=3 => { let k = *rng.pick(&[0usize, 1, 2, 30, 31, 32, 33, 62, 63, 64, 65]); format!("s{}", hex(&label(rng, k))) }
                4..=5 => "n".to_string(),
                6 => "q".to_string(),
                _ => format!("p{:02x}", octet(rng)),
            },
            _ => match rng.below(12) {
                0..=5 => format!("p{:02x}", octet(rng)),
                6..=7 => { let k = rng.range(0, 12); format!("s{}", hex(&label(rng, k))) }
                8..=10 => "n".to_string(),
                _ => "q".to_string(),
            },
        };
        steps.push(step);
    }
    match rng.below(10) {
        0..=4 => {
            if rng.chance(2, 3) {
                steps.push("n".into());
            }
            steps.push("f".into());
        }
        5..=8 => {
            if rng.chance(2, 3) {
                steps.push(format!("p{:02x}", octet(rng)));
            }
            let sfx = name_labels(rng);
            steps.push(format!("x{}", hex(&wire_of(&sfx))));
        }
        _ => steps.push("q".into()),
    }
    steps.join(";")
}

pub fn gen(rng: &mut Rng, thorough: bool, em: &mut Emitter) {
    let scale = if thorough { 25 } else { 1 };

    // 1. fixed texts and boundary texts
    for t in TEXTS {
        emit(em, format!("np {}", hex(t.as_bytes())));
    }
    for len in [62usize, 63, 64, 65] {
        emit(em, format!("np {}", hex(format!("{}.", "a".repeat(len)).as_bytes())));
        emit(em, format!("np {}", hex(format!("{}.b.", "\\065".repeat(len)).as_bytes())));
    }
    for nlab in [126usize, 127, 128, 129] {
        emit(em, format!("np {}", hex("a.".repeat(nlab).as_bytes())));
    }
    for last in [59usize, 60, 61, 62, 63] {
        // 63+63+63+last octets of labels: wire 4 + 189 + last + 1 = 253..257
        let t = format!("{0}.{0}.{0}.{1}.", "x".repeat(63), "y".repeat(last));
        emit(em, format!("np {}", hex(t.as_bytes())));
    }

    // 2. single names: display (round trip), hash input, labels, lower-casing, super domains
    for _ in 0..1500 * scale {
        let labels = name_labels(rng);
        emit_single(em, rng, &labels);
    }
    //    every octet value as a one-octet label and inside a label (exhaustive, both tiers)
    for b in 0..=255u8 {
        emit_single(em, rng, &[vec![b]]);
        emit_single(em, rng, &[vec![b'a', b, b'Z'], vec![b]]);
    }
    //    a few invalid wire forms (every column must answer `err`)
    for w in [vec![], vec![1], vec![1, b'a'], vec![0, 0], vec![64; 66], vec![0xc0, 0]] {
        let h = hex(&w);
        emit(em, format!("nrt {}", h));
        emit(em, format!("nlab {}", h));
        emit(em, format!("neq {} 00", h));
    }
    let mut too_long = Vec::new();
    for _ in 0..4 {
        too_long.push(63u8);
        too_long.extend(std::iter::repeat(b'a').take(63));
    }
    too_long.push(0);
    emit(em, format!("nrt {}", hex(&too_long)));

    // 3. pairs and triples of related names: eq / cmp / subdomain; order laws
    for _ in 0..2500 * scale {
        let a = name_labels(rng);
        let b = relative(rng, &a);
        emit_pair(em, &a, &b);
        if rng.chance(1, 2) {
            let c = if rng.chance(1, 2) { relative(rng, &a) } else { relative(rng, &b) };
            emit_pair(em, &b, &c);
            let (x, y, z) = (hex(&wire_of(&a)), hex(&wire_of(&b)), hex(&wire_of(&c)));
            emit(em, format!("ncmp3 {} {} {}", x, y, z));
            emit(em, format!("ncmp3 {} {} {}", z, x, y));
            emit(em, format!("ncmp3 {} {} {}", y, z, x));
        }
    }
    //    labels on their own (all pairs over a small exhaustive alphabet + random)
    let small: [&[u8]; 12] = [b"", b"a", b"A", b"b", b"aa", b"aA", b"a\0", b"Z", b"[", b"z", b"\xff", b"@"];
    for x in small {
        emit(em, format!("lhash {}", hex(x)));
        for y in small {
            emit(em, format!("lcmp {} {}", hex(x), hex(y)));
        }
    }
    for _ in 0..800 * scale {
        let n = *rng.pick(&[0usize, 1, 2, 3, 5, 62, 63, 64, 70]);
        let a = label(rng, n);
        let b = match rng.below(4) {
            0 => flip_case(rng, &a),
            1 => {
                let mut b = a.clone();
                if !b.is_empty() {
                    let i = rng.below(b.len());
                    b[i] = octet(rng);
                }
                b
            }
            2 => {
                let mut b = a.clone();
                b.truncate(rng.below(a.len() + 1));
                b
            }
            _ => {
                let m = rng.below(6);
                label(rng, m)
            }
        };
        emit(em, format!("lcmp {} {}", hex(&a), hex(&b)));
        emit(em, format!("lcmp {} {}", hex(&b), hex(&a)));
        emit(em, format!("lhash {}", hex(&a)));
    }

    // 4. texts: alternative spellings of names (must parse to the name), mutated texts, random texts
    for _ in 0..3000 * scale {
        let labels = name_labels(rng);
        let mut t = spell(rng, &labels);
        emit(em, format!("np {}", hex(t.as_bytes())));
        // one mutation
        let mut chars: Vec<char> = t.chars().collect();
        if !chars.is_empty() {
            let i = rng.below(chars.len());
            match rng.below(5) {
                0 => {
                    chars.remove(i);
                }
                1 => chars.insert(i, *rng.pick(&['.', '\\', '0', '9', 'a', ' ', '\u{e9}', '2', '5', '6'])),
                2 => chars[i] = *rng.pick(&['.', '\\', '0', '3', 'x', '\u{20ac}']),
                3 => chars.truncate(i),
                _ => chars.push(*rng.pick(&['.', '\\', 'a', '1'])),
            }
            t = chars.into_iter().collect();
            emit(em, format!("np {}", hex(t.as_bytes())));
        }
    }
    for _ in 0..3000 * scale {
        let n = rng.below(12);
        let t: String = (0..n).map(|_| *rng.pick(&TEXT_ALPHABET[..])).collect();
        emit(em, format!("np {}", hex(t.as_bytes())));
    }

    // 5. builder scripts
    for _ in 0..2500 * scale {
        emit(em, format!("nb {}", script_of(rng)));
    }
    for s in ["f", "n", "q", "q;f", "p61;f", "p61;n;f", "p61;n;n;f", "n;p61;n;f", "s-;f", "s-;n", "p61;x00", "x00", "p61;n;x00",
              "p61;x016102626300", "s6162;q;n;q;s63;x03777777076578616d706c6500"] {
        emit(em, format!("nb {}", s));
    }
}
