//! group `snapshot` (C32) — generation-marker stress of `Server::{catalog,set_catalog,tsig_keys,
//! set_tsig_keys}` + `handle_message` with real OS threads.
//!
//! Catalog generation `g` serves one zone `gen.test.` in which *every* record has TTL `1000 + g`
//! (and A addresses, the MX preference and the SOA serial repeat `g`), so each answer, authority
//! and additional record of a response names the catalog it came from.  Key-set generation `g`
//! holds the key `key.test.` whose secret encodes `g`: a request signed with the secret of
//! generation `j` is accepted iff the key set the server consulted is generation `j`.
//!
//! Swapper threads install generations 1, 2, … (publishing `started` before and `done` after each
//! call through SeqCst atomics); query threads read `done` before and `started` after each
//! `handle_message` call.  The window `lo..hi` they record is therefore a superset of the
//! generations that can have been current while the request was handled (happens-before through
//! the atomics), and `lo` is a generation whose replacement had *returned* before the request
//! started.  Pacing is by operation counts, never by wall-clock time.
//!
//! case lines (see lean/QV/Driver/Snapshot.lean):
//!   snapobs <lo> <hi> <klo> <khi> <nrec> <j|-> <markers|-> <sig>      one observed response
//!   snapseq <step;…>                                                  sequential history
#![allow(unused)]
use crate::common::*;
use std::net::{IpAddr, Ipv4Addr};
use std::sync::atomic::{AtomicBool, AtomicUsize, Ordering::SeqCst};
use std::sync::Arc;
use std::time::SystemTime;

use quandary::class::Class;
use quandary::db::catalog::Entry;
use quandary::db::zone::GluePolicy;
use quandary::db::{HashMapTreeCatalog, HashMapTreeZone};
use quandary::message::tsig::{Algorithm, PreparedTsigRr};
use quandary::message::writer::TsigMode;
use quandary::message::{ExtendedRcode, Qclass, Qtype, Question, Rcode, Reader, Writer};
use quandary::name::{LowercaseName, Name};
use quandary::rr::rdata::TimeSigned;
use quandary::rr::{Rdata, Ttl, Type};
use quandary::server::{ReceivedInfo, Response, Server, Transport, TsigKeyMap};

pub(crate) type Cat = HashMapTreeCatalog<HashMapTreeZone, ()>;

const TTL_BASE: u32 = 1000;

fn name(s: &str) -> Box<Name> {
    s.parse().unwrap()
}

fn rd(b: &[u8]) -> &Rdata {
    <&Rdata>::try_from(b).unwrap()
}

pub(crate) fn make_catalog(g: usize) -> Cat {
    let ttl = Ttl::from(TTL_BASE + g as u32);
    let gh = (g >> 8) as u8;
    let gl = g as u8;
    let apex = name("gen.test.");
    let mut z = HashMapTreeZone::new(apex.clone(), Class::IN, GluePolicy::Narrow);
    // SOA: mname ".", rname ".", serial g, refresh/retry/expire 1, minimum = ttl (so the
    // negative-caching TTL min(ttl, minimum) is the marker too)
    let mut soa = vec![0u8, 0u8];
    soa.extend_from_slice(&(g as u32).to_be_bytes());
    for _ in 0..3 {
        soa.extend_from_slice(&1u32.to_be_bytes());
    }
    soa.extend_from_slice(&(TTL_BASE + g as u32).to_be_bytes());
    z.add(&apex, Type::SOA, Class::IN, ttl, rd(&soa)).unwrap();
    let mail = name("mail.gen.test.");
    let mut mx = (g as u16).to_be_bytes().to_vec();
    mx.extend_from_slice(mail.wire_repr());
    z.add(&apex, Type::MX, Class::IN, ttl, rd(&mx)).unwrap();
    z.add(&mail, Type::A, Class::IN, ttl, rd(&[10, 1, gh, gl])).unwrap();
    let target = name("x.sub.gen.test.");
    z.add(&name("alias.gen.test."), Type::CNAME, Class::IN, ttl, rd(target.wire_repr()))
        .unwrap();
    let ns = name("ns.sub.gen.test.");
    z.add(&name("sub.gen.test."), Type::NS, Class::IN, ttl, rd(ns.wire_repr()))
        .unwrap();
    z.add(&ns, Type::A, Class::IN, ttl, rd(&[10, 2, gh, gl])).unwrap();
    let mut c = Cat::new();
    c.insert(Entry::Loaded(Arc::new(z), ()));
    c
}

fn secret(g: usize) -> Box<[u8]> {
    let mut v = Vec::with_capacity(32);
    for i in 0..4u64 {
        v.extend_from_slice(&((g as u64).wrapping_mul(0x9E37_79B9_7F4A_7C15) ^ i).to_be_bytes());
    }
    v.into_boxed_slice()
}

/// generations 3, 7, 11, … are empty key maps (every key revoked; Lean: `genEmpty`): replacing a
/// non-empty set by an empty one must take effect like any other replacement
fn make_keys(g: usize) -> TsigKeyMap {
    let mut m = TsigKeyMap::new();
    if g % 4 == 3 {
        return m;
    }
    m.insert(name("key.test."), (Algorithm::HmacSha256, secret(g)));
    m
}

/// query kinds; the number of marked records each yields is calibrated on generation 0
const KINDS: [(&str, Type); 4] = [
    ("gen.test.", Type::MX),        // answer MX + additional A
    ("alias.gen.test.", Type::A),   // answer CNAME + authority NS + additional glue A
    ("nx.gen.test.", Type::A),      // authority SOA (NXDOMAIN)
    ("x.sub.gen.test.", Type::A),   // authority NS + additional glue A (referral)
];

fn build_query(kind: usize, id: u16, signed_with: Option<usize>, buf: &mut [u8]) -> usize {
    let mut w = Writer::new(buf, 65535).unwrap();
    w.set_id(id);
    let q = Question {
        qname: name(KINDS[kind].0),
        qtype: Qtype::from(KINDS[kind].1),
        qclass: Qclass::from(Class::IN),
    };
    w.add_question(&q).unwrap();
    if let Some(j) = signed_with {
        let now: TimeSigned = SystemTime::now().try_into().unwrap();
        let key_name: Box<LowercaseName> = "key.test.".parse().unwrap();
        w.set_tsig(
            TsigMode::Request {
                algorithm: Algorithm::HmacSha256,
                key: secret(j),
            },
            PreparedTsigRr {
                key_name,
                time_signed: now,
                fudge: 300,
                original_id: id,
                error: ExtendedRcode::NOERROR,
                server_time: now,
            },
        )
        .unwrap();
    }
    w.finish()
}

/// markers of all answer/authority/additional records (TTL − 1000; an RDATA marker that disagrees
/// with the TTL marker is reported as an extra marker), and the MAC verdict for signed requests
fn observe(resp: &[u8], signed: bool) -> Result<(Vec<usize>, Option<bool>), String> {
    let mut r = Reader::try_from(resp).map_err(|_| "short".to_string())?;
    let rcode = r.rcode();
    let n = r.ancount() as usize + r.nscount() as usize + r.arcount() as usize;
    for _ in 0..r.qdcount() {
        r.skip_question().map_err(|_| "question".to_string())?;
    }
    let mut markers = Vec::new();
    let mut saw_tsig = false;
    for _ in 0..n {
        let rr = r.read_rr().map_err(|_| "rr".to_string())?;
        if rr.rr_type == Type::TSIG {
            saw_tsig = true;
            continue;
        }
        if rr.rr_type == Type::OPT {
            continue;
        }
        let t = u32::from(rr.ttl);
        if t < TTL_BASE {
            return Err(format!("ttl {t}"));
        }
        let m = (t - TTL_BASE) as usize;
        markers.push(m);
        let rdata: &[u8] = rr.rdata.as_ref().as_ref();
        let rm = if rr.rr_type == Type::A && rdata.len() == 4 {
            Some(((rdata[2] as usize) << 8) | rdata[3] as usize)
        } else if rr.rr_type == Type::MX && rdata.len() >= 2 {
            Some(((rdata[0] as usize) << 8) | rdata[1] as usize)
        } else if rr.rr_type == Type::SOA && rdata.len() >= 22 {
            let o = rdata.len() - 20;
            Some(u32::from_be_bytes([rdata[o], rdata[o + 1], rdata[o + 2], rdata[o + 3]]) as usize)
        } else {
            None
        };
        if let Some(rm) = rm {
            if rm != (m & 0xffff) && rm != m {
                markers.push(rm);
            }
        }
    }
    let sig = if signed {
        if !saw_tsig {
            None
        } else {
            Some(rcode != Rcode::NOTAUTH)
        }
    } else if saw_tsig {
        Some(true)
    } else {
        None
    };
    Ok((markers, sig))
}

fn handle(server: &Server<Cat>, req: &[u8], out: &mut [u8]) -> Option<usize> {
    let info = ReceivedInfo::new(IpAddr::V4(Ipv4Addr::new(127, 0, 0, 1)), Transport::Tcp);
    match server.handle_message(req, info, out) {
        Response::Single(n) => Some(n),
        Response::None => None,
    }
}

fn fmt_markers(m: &[usize]) -> String {
    if m.is_empty() {
        "-".to_string()
    } else {
        m.iter().map(|x| x.to_string()).collect::<Vec<_>>().join(",")
    }
}

fn fmt_sig(s: Option<bool>) -> &'static str {
    match s {
        None => "-",
        Some(true) => "1",
        Some(false) => "0",
    }
}

fn calibrate() -> [usize; 4] {
    let server = Server::new(Arc::new(make_catalog(0)));
    let mut out = vec![0u8; 65535];
    let mut req = vec![0u8; 1024];
    let mut n = [0usize; 4];
    for k in 0..4 {
        let len = build_query(k, 1, None, &mut req);
        let rl = handle(&server, &req[..len], &mut out).expect("calibration: no response");
        let (m, _) = observe(&out[..rl], false).expect("calibration: unreadable response");
        assert!(!m.is_empty() && m.iter().all(|x| *x == 0), "calibration kind {k}: {m:?}");
        n[k] = m.len();
    }
    n
}

struct Shared {
    server: Server<Cat>,
    cat_started: AtomicUsize,
    cat_done: AtomicUsize,
    key_started: AtomicUsize,
    key_done: AtomicUsize,
    queries: AtomicUsize,
    live_query_threads: AtomicUsize,
}

/// one observation of thread-local code: returns the case line
fn one_query(sh: &Shared, rng: &mut Rng, nrec: &[usize; 4], req: &mut [u8], out: &mut [u8]) -> String {
    let kind = rng.below(4);
    let lo = sh.cat_done.load(SeqCst);
    let klo = sh.key_done.load(SeqCst);
    let signed_with = if rng.chance(1, 2) {
        // sign with a generation at or near the edge of the current window
        let ks = sh.key_started.load(SeqCst);
        Some(match rng.below(4) {
            0 => klo,
            1 => ks,
            2 => ks + 1,
            _ => klo.saturating_sub(1),
        })
    } else {
        None
    };
    let id = rng.next() as u16;
    let len = build_query(kind, id, signed_with, req);
    // a panic of the handler (e.g. a key looked up in one snapshot and indexed in another) is an
    // observation like any other: recorded with a marker no catalog generation carries
    let res = match std::panic::catch_unwind(std::panic::AssertUnwindSafe(|| handle(&sh.server, &req[..len], out))) {
        Ok(r) => r,
        Err(_) => {
            let hi = sh.cat_started.load(SeqCst);
            let khi = sh.key_started.load(SeqCst);
            sh.queries.fetch_add(1, SeqCst);
            return format!("snapobs {} {} {} {} {} {} {} {}", lo, hi, klo, khi, nrec[kind],
                signed_with.map(|j| j.to_string()).unwrap_or_else(|| "-".to_string()), fmt_markers(&[999_999_997]), fmt_sig(None));
        }
    };
    let hi = sh.cat_started.load(SeqCst);
    let khi = sh.key_started.load(SeqCst);
    sh.queries.fetch_add(1, SeqCst);
    let (markers, sig) = match res {
        Some(n) => match observe(&out[..n], signed_with.is_some()) {
            Ok(x) => x,
            Err(e) => (vec![999_999_999], None), // unreadable response: reported as a foreign marker
        },
        None => (vec![999_999_998], None),
    };
    format!(
        "snapobs {} {} {} {} {} {} {} {}",
        lo,
        hi,
        klo,
        khi,
        nrec[kind],
        signed_with.map(|j| j.to_string()).unwrap_or_else(|| "-".to_string()),
        fmt_markers(&markers),
        fmt_sig(sig)
    )
}

fn round(seed: u64, n_threads: usize, per_thread: usize, cat_stride: usize, key_stride: usize, nrec: [usize; 4]) -> Vec<String> {
    let sh = Arc::new(Shared {
        server: Server::new(Arc::new(make_catalog(0))),
        cat_started: AtomicUsize::new(0),
        cat_done: AtomicUsize::new(0),
        key_started: AtomicUsize::new(0),
        key_done: AtomicUsize::new(0),
        queries: AtomicUsize::new(0),
        live_query_threads: AtomicUsize::new(n_threads),
    });
    sh.server.set_tsig_keys(Arc::new(make_keys(0)));
    let mut handles = Vec::new();
    for t in 0..n_threads {
        let sh = sh.clone();
        handles.push(std::thread::spawn(move || {
            let mut rng = Rng::new(seed ^ (0x1000 + t as u64));
            let mut req = vec![0u8; 1024];
            let mut out = vec![0u8; 65535];
            let mut lines = Vec::with_capacity(per_thread);
            for _ in 0..per_thread {
                lines.push(one_query(&sh, &mut rng, &nrec, &mut req, &mut out));
            }
            sh.live_query_threads.fetch_sub(1, SeqCst);
            lines
        }));
    }
    // catalog swapper: generation g is installed once g * stride queries have completed
    let swap = |is_cat: bool, stride: usize, sh: Arc<Shared>, seed: u64| {
        std::thread::spawn(move || {
            let mut rng = Rng::new(seed);
            let mut req = vec![0u8; 1024];
            let mut out = vec![0u8; 65535];
            let mut lines = Vec::new();
            let mut g = 0usize;
            loop {
                while sh.queries.load(SeqCst) < (g + 1) * stride {
                    if sh.live_query_threads.load(SeqCst) == 0 {
                        return lines;
                    }
                    std::thread::yield_now();
                }
                g += 1;
                if is_cat {
                    let c = Arc::new(make_catalog(g));
                    sh.cat_started.store(g, SeqCst);
                    sh.server.set_catalog(c);
                    sh.cat_done.store(g, SeqCst);
                } else {
                    let k = Arc::new(make_keys(g));
                    sh.key_started.store(g, SeqCst);
                    sh.server.set_tsig_keys(k);
                    sh.key_done.store(g, SeqCst);
                }
                // the swapper's own request right after the replacement returned: for the cell it
                // owns the window is the single generation g
                if rng.chance(1, 4) {
                    lines.push(one_query(&sh, &mut rng, &nrec, &mut req, &mut out));
                }
            }
        })
    };
    let s1 = swap(true, cat_stride, sh.clone(), seed ^ 0xCA7);
    let s2 = swap(false, key_stride, sh.clone(), seed ^ 0x4E7);
    let mut all = Vec::new();
    for h in handles {
        all.extend(h.join().expect("query thread panicked"));
    }
    all.extend(s1.join().expect("catalog swapper panicked"));
    all.extend(s2.join().expect("key swapper panicked"));
    all
}

fn run_seq(steps: &str) -> String {
    let nrec_ok = |n: usize| n <= 3;
    let server = Server::new(Arc::new(make_catalog(0)));
    server.set_tsig_keys(Arc::new(make_keys(0)));
    let cal = calibrate();
    let mut req = vec![0u8; 1024];
    let mut out = vec![0u8; 65535];
    let mut res = Vec::new();
    for st in steps.split(';') {
        let (c, rest) = st.split_at(1);
        match c {
            "c" => server.set_catalog(Arc::new(make_catalog(rest.parse().ok().unwrap_or(0)))),
            "k" => server.set_tsig_keys(Arc::new(make_keys(rest.parse().ok().unwrap_or(0)))),
            "q" | "t" => {
                let (signed, nrec) = if c == "q" {
                    (None, rest.parse::<usize>().ok())
                } else {
                    let mut it = rest.split(':');
                    let j = it.next().and_then(|x| x.parse::<usize>().ok());
                    (j, it.next().and_then(|x| x.parse::<usize>().ok()))
                };
                let Some(nrec) = nrec else { return "bad-op".into() };
                let Some(kind) = (0..4).find(|k| cal[*k] == nrec) else { return "bad-op".into() };
                let len = build_query(kind, 7, signed, &mut req);
                match handle(&server, &req[..len], &mut out) {
                    Some(n) => match observe(&out[..n], signed.is_some()) {
                        Ok((m, s)) => res.push(format!("{}/{}", fmt_markers(&m), fmt_sig(s))),
                        Err(e) => res.push(format!("unreadable:{e}")),
                    },
                    None => res.push("none".into()),
                }
            }
            _ => return "bad-op".into(),
        }
    }
    format!("ok {}", res.join(";"))
}

pub fn run(op: &str, a: &[&str]) -> Option<String> {
    match op {
        // an observation is an *input* recorded by the stress run; the implementation's claim
        // about it is always "this is what I answered" = ok
        "snapobs" => Some(if a.len() == 8 { "ok".into() } else { "bad-op".into() }),
        "snapseq" if a.len() == 1 => {
            let s = a[0].to_string();
            Some(guarded(move || run_seq(&s)))
        }
        _ => None,
    }
}

pub fn gen(rng: &mut Rng, thorough: bool, em: &mut Emitter) {
    let nrec = calibrate();
    // sequential histories
    let n_seq = if thorough { 2000 } else { 300 };
    for _ in 0..n_seq {
        let mut steps = Vec::new();
        let mut g = 0;
        let mut k = 0;
        for _ in 0..rng.range(1, 10) {
            match rng.below(5) {
                0 => {
                    g += rng.range(1, 3);
                    steps.push(format!("c{g}"));
                }
                1 => {
                    k += rng.range(1, 3);
                    steps.push(format!("k{k}"));
                }
                2 | 3 => steps.push(format!("q{}", nrec[rng.below(4)])),
                _ => {
                    let j = if rng.chance(2, 3) { k } else { rng.below(k + 2) };
                    steps.push(format!("t{}:{}", j, nrec[rng.below(4)]));
                }
            }
        }
        let case = format!("snapseq {}", steps.join(";"));
        let r = crate::run_case(&case);
        em.emit(&case, &r);
    }
    // concurrent rounds
    let rounds = if thorough { 40 } else { 8 };
    for r in 0..rounds {
        let n_threads = rng.range(2, 6);
        let per_thread = if thorough { 6000 } else { 1200 };
        let cat_stride = *rng.pick(&[1usize, 2, 3, 5, 8, 20, 50]);
        let key_stride = *rng.pick(&[1usize, 2, 3, 7, 11, 30]);
        let seed = rng.next();
        for line in round(seed, n_threads, per_thread, cat_stride, key_stride, nrec) {
            em.emit(&line, "ok");
        }
    }
}
