//! groups `srvhdr`, `srvzone`, `srvform`, `srvedns` — focused generators for the scan phase of
//! `Server::handle_message` (C03, C07, C08, C09). Same case lines as group `server`
//! (`aud …` judged by the spec audits, `srv …` compared with the model byte for byte); only the
//! emphasis differs:
//!
//!   srvhdr   header flag octets (thorough: all 65 536 pairs), opcodes, QDCOUNT values, short
//!            messages, mixed-case and compressed QNAMEs                                   (C03)
//!   srvzone  nested catalogs with loaded / not-yet-loaded / failed entries in three classes ×
//!            QNAMEs at, below and beside the entries × QTYPEs × QCLASSes × opcodes         (C07)
//!   srvform  well-formed requests mutated systematically: truncation at every octet, junk
//!            appended, counts ±1, OPT/TSIG misplaced or duplicated, TSIG class/TTL/RDATA/position,
//!            a flip of every octet                                                          (C08)
//!   srvedns  OPT records: payload sizes, every version/flag/extended-RCODE octet pattern incl. the
//!            TTL's top bit, owners, option lists, positions, zero/one/two OPTs, server sizes  (C09)
#![allow(unused)]
use crate::common::*;
use crate::dns;
use crate::g_server::{self, enc_catalog, gen_zone, make_server, Cat, ZoneCfg};
use quandary::server::Server;

fn lname(labels: &[&[u8]]) -> Vec<u8> {
    dns::name_from_labels(&labels.iter().map(|l| l.to_vec()).collect::<Vec<_>>())
}

fn placeholder(kind: char, apex: Vec<u8>, class: u16) -> ZoneCfg {
    ZoneCfg { kind, apex, class, glue_wide: false, recs: vec![] }
}

/// `aud` (+ `srv` unless the request may reach TSIG verification, whose response carries the
/// server's clock)
fn emit(em: &mut Emitter, server: &Server<Cat>, payload: u16, cat: &str, req: &[u8], srv: bool) {
    if srv {
        g_server::emit_pair(em, server, payload, cat, req);
    } else {
        let u = g_server::handle(server, req, false);
        let t = g_server::handle(server, req, true);
        let h = |r: &Result<Option<Vec<u8>>, ()>| match r { Ok(Some(b)) => hex(b), Ok(None) => "none".into(), Err(()) => "panic".to_string() };
        em.emit(&format!("aud {} {} {} {} {}", payload, cat, hex(req), h(&u), h(&t)), "ok");
    }
}

fn opt(owner: &[u8], payload: u16, ttl: u32, rdata: &[u8]) -> Vec<u8> { dns::rr(owner, 41, payload, ttl, rdata) }

/// a syntactically good TSIG record (unknown key): key name, algorithm hmac-sha256., 16-octet MAC
fn tsig_rr(owner: &[u8], class: u16, ttl: u32, mac_len: usize, other_len: usize) -> Vec<u8> {
    let mut rd = lname(&[b"hmac-sha256"]);
    rd.extend_from_slice(&[0, 0, 0x65, 0x00, 0x00, 0x00]); // time signed
    rd.extend_from_slice(&300u16.to_be_bytes());
    rd.extend_from_slice(&(mac_len as u16).to_be_bytes());
    rd.extend(std::iter::repeat(0xab).take(mac_len));
    rd.extend_from_slice(&0x1234u16.to_be_bytes()); // original id
    rd.extend_from_slice(&0u16.to_be_bytes()); // error
    rd.extend_from_slice(&(other_len as u16).to_be_bytes());
    rd.extend(std::iter::repeat(0).take(other_len));
    dns::rr(owner, 250, class, ttl, &rd)
}

fn msg(id: u16, flags: u16, qd: u16, an: u16, ns: u16, ar: u16, body: &[u8]) -> Vec<u8> {
    let mut m = dns::header(id, flags, qd, an, ns, ar);
    m.extend_from_slice(body);
    m
}

/// a loaded zone `a.`, a not-yet-loaded `n.`, a failed `f.` (retried until every record loads)
fn small_catalog(rng: &mut Rng) -> Vec<ZoneCfg> {
    for _ in 0..50 {
        let zs = vec![gen_zone(rng, lname(&[b"a"]), 1), placeholder('N', lname(&[b"n"]), 1), placeholder('F', lname(&[b"f"]), 1)];
        if make_server(&zs, 512).is_some() { return zs; }
    }
    vec![placeholder('N', lname(&[b"n"]), 1), placeholder('F', lname(&[b"f"]), 1)]
}

// ------------------------------------------------------------------------------------------
// srvhdr
// ------------------------------------------------------------------------------------------

pub fn gen_hdr(rng: &mut Rng, thorough: bool, em: &mut Emitter) {
    let zs = small_catalog(rng);
    let payload = 1232u16;
    let Some(server) = make_server(&zs, payload) else { return };
    let cat = enc_catalog(&zs);
    // base requests: plain, mixed case, compressed QNAME (pointer into the header: offset 4..5 hold
    // QDCOUNT = 0x0001, so offset 4 is a root label), with OPT, no question
    let bases: Vec<Vec<u8>> = vec![
        msg(0x1234, 0, 1, 0, 0, 0, &dns::question(&lname(&[b"www", b"a"]), 1, 1)),
        msg(0xffff, 0, 1, 0, 0, 0, &dns::question(&lname(&[b"WwW", b"A"]), 1, 1)),
        msg(0x0001, 0, 1, 0, 0, 0, &dns::question(&[&[3u8, b'w', b'W', b'w'][..], &dns::pointer(4)[..]].concat(), 1, 1)),
        msg(0x8000, 0, 1, 0, 0, 1, &[dns::question(&lname(&[b"x", b"n"]), 2, 1), opt(&[0], 4096, 0, &[])].concat()),
        msg(0x00ff, 0, 0, 0, 0, 0, &[]),
        msg(0x5a5a, 0, 1, 0, 0, 0, &dns::question(&lname(&[b"nowhere"]), 255, 255)),
    ];
    // every value of the octet that carries QR/opcode/AA/TC/RD × interesting values of the other
    let low: &[u8] = if thorough { &[0, 0xff, 0x80, 0x40, 0x20, 0x10, 0x0f, 0x8f] } else { &[0, 0xff, 0x80, 0x70, 0x0f] };
    for (bi, base) in bases.iter().enumerate() {
        for hi in 0..=255u8 {
            if !thorough && bi >= 3 && hi % 8 != 1 && hi % 8 != 0 { continue; }
            for &lo in low {
                let mut m = base.clone();
                m[2] = hi; m[3] = lo;
                emit(em, &server, payload, &cat, &m, true);
            }
        }
    }
    // thorough: all 65 536 pairs of flag octets on the first base request (C03: exhaustive)
    if thorough {
        for hi in 0..=255u8 { for lo in 0..=255u8 {
            let mut m = bases[0].clone();
            m[2] = hi; m[3] = lo;
            emit(em, &server, payload, &cat, &m, true);
        }}
    } else {
        for _ in 0..600 {
            let mut m = rng.pick(&bases).clone();
            m[2] = rng.byte(); m[3] = rng.byte();
            emit(em, &server, payload, &cat, &m, true);
        }
    }
    // QDCOUNT values, with as many questions as announced (up to 3) or fewer
    for qd in [0u16, 1, 2, 3, 255, 256, 65535] {
        for have in 0..=3usize {
            for flags in [0u16, 0x0100, 0x2800] {
                let mut body = Vec::new();
                for _ in 0..have { body.extend(dns::question(&lname(&[b"www", b"a"]), 1, 1)); }
                emit(em, &server, payload, &cat, &msg(7, flags, qd, 0, 0, 0, &body), true);
            }
        }
    }
    // short messages: every prefix of a query, with and without the QR bit
    let full = bases[0].clone();
    for len in 0..=full.len() {
        for qr in [false, true] {
            let mut m = full[..len].to_vec();
            if qr && m.len() > 2 { m[2] |= 0x80; }
            emit(em, &server, payload, &cat, &m, true);
        }
    }
    // random IDs and QNAME case patterns
    let n = if thorough { 3000 } else { 400 };
    for _ in 0..n {
        let mut q = rng.pick(&[lname(&[b"www", b"a"]), lname(&[b"ExAmPlE", b"a"]), lname(&[b"x", b"y", b"z", b"f"]), vec![0]]).clone();
        for i in 0..q.len() { if q[i].is_ascii_alphabetic() && rng.chance(1, 2) { q[i] ^= 0x20; } }
        let flags = if rng.chance(1, 3) { rng.next() as u16 & 0x7fff } else { 0x0100 };
        emit(em, &server, payload, &cat, &msg(rng.next() as u16, flags, 1, 0, 0, 0, &dns::question(&q, *rng.pick(&[1u16, 2, 255, 6]), 1)), true);
    }
}

// ------------------------------------------------------------------------------------------
// srvzone
// ------------------------------------------------------------------------------------------

pub fn gen_zone_sel(rng: &mut Rng, thorough: bool, em: &mut Emitter) {
    let apexes: Vec<Vec<u8>> = vec![vec![0], lname(&[b"a"]), lname(&[b"b", b"a"]), lname(&[b"c", b"b", b"a"]), lname(&[b"example"]), lname(&[b"B", b"A"])];
    let qnames: Vec<Vec<u8>> = vec![
        vec![0], lname(&[b"a"]), lname(&[b"A"]), lname(&[b"b", b"a"]), lname(&[b"x", b"a"]), lname(&[b"c", b"b", b"a"]),
        lname(&[b"d", b"c", b"b", b"a"]), lname(&[b"D", b"C", b"B", b"A"]), lname(&[b"example"]), lname(&[b"www", b"example"]),
        lname(&[b"ba"]), lname(&[b"ab", b"a"]), lname(&[b"other"]), lname(&[b"a", b"b"]),
    ];
    let n_cat = if thorough { 400 } else { 36 };
    for ci in 0..n_cat {
        // a catalog of 1..5 entries with nested names in three classes and all three kinds
        let mut zs: Vec<ZoneCfg> = Vec::new();
        let mut used = std::collections::HashSet::new();
        let n = rng.range(if ci == 0 { 0 } else { 1 }, 5);
        for _ in 0..n {
            let apex = rng.pick(&apexes).clone();
            let class = *rng.pick(&[1u16, 1, 3, 4]);
            let key = (apex.iter().map(|b| b.to_ascii_lowercase()).collect::<Vec<u8>>(), class);
            if !used.insert(key) { continue; }
            match rng.below(3) {
                0 => zs.push(gen_zone(rng, apex, class)),
                1 => zs.push(placeholder('N', apex, class)),
                _ => zs.push(placeholder('F', apex, class)),
            }
        }
        let payload = *rng.pick(&[512u16, 1232, 4096]);
        let Some(server) = make_server(&zs, payload) else { continue };
        let cat = enc_catalog(&zs);
        let with_opt = ci % 3 == 0;
        let mk = |qname: &[u8], qtype: u16, qclass: u16, opcode: u16, rd: bool| -> Vec<u8> {
            let mut body = dns::question(qname, qtype, qclass);
            let mut ar = 0;
            if with_opt { body.extend(opt(&[0], 1232, 0, &[])); ar = 1; }
            msg(0x0101, (opcode << 11) | if rd { 0x0100 } else { 0 }, 1, 0, 0, ar, &body)
        };
        // every QNAME × every QCLASS with a few QTYPEs
        for qn in &qnames {
            for qclass in [1u16, 3, 4, 254, 255, 2] {
                for qtype in [1u16, 255] {
                    emit(em, &server, payload, &cat, &mk(qn, qtype, qclass, 0, false), true);
                }
            }
        }
        // every special QTYPE and its neighbours, on names inside and outside the catalog
        for qtype in [250u16, 251, 252, 253, 254, 255, 256, 249, 41, 2, 6, 0, 65535] {
            for qn in [&qnames[3], &qnames[12], &qnames[0]] {
                for qclass in [1u16, 255] {
                    emit(em, &server, payload, &cat, &mk(qn, qtype, qclass, 0, true), true);
                }
            }
        }
        // every opcode, with and without a question
        for opcode in 0..16u16 {
            emit(em, &server, payload, &cat, &mk(&qnames[3], 1, 1, opcode, true), true);
            emit(em, &server, payload, &cat, &mk(&qnames[12], 252, 255, opcode, false), true);
            emit(em, &server, payload, &cat, &msg(9, opcode << 11, 0, 0, 0, 0, &[]), true);
        }
        // NOTIFY-like requests with records in the other sections (must be skipped, not judged)
        let soa = dns::rr(&qnames[1], 6, 1, 0, &dns::rand_rdata(rng, 6, &[], false));
        let body = [dns::question(&qnames[1], 6, 1), soa.clone()].concat();
        emit(em, &server, payload, &cat, &msg(3, 4 << 11, 1, 1, 0, 0, &body), true);
        emit(em, &server, payload, &cat, &msg(3, 0, 1, 0, 1, 0, &body), true);
        emit(em, &server, payload, &cat, &msg(3, 0, 1, 0, 0, 1, &body), true);
    }
}

// ------------------------------------------------------------------------------------------
// srvform
// ------------------------------------------------------------------------------------------

/// well-formed requests of several shapes; the flag says whether a TSIG may reach verification
fn form_bases(rng: &mut Rng) -> Vec<(Vec<u8>, bool)> {
    let q = dns::question(&lname(&[b"www", b"a"]), 1, 1);
    let qn = dns::question(&lname(&[b"x", b"n"]), 15, 1);
    let plain_a = dns::rr(&dns::pointer(12), 1, 1, 60, &[192, 0, 2, 1]);
    let plain_txt = dns::rr(&lname(&[b"t", b"a"]), 16, 1, 0, &[3, b'a', b'b', b'c']);
    let plain_ns = dns::rr(&lname(&[b"a"]), 2, 1, 5, &[&[2u8, b'n', b's'][..], &dns::pointer(12)[..]].concat());
    let o = opt(&[0], 1232, 0, &[]);
    let o_opts = opt(&[0], 4096, 0x0000_8000, &[0, 10, 0, 8, 1, 2, 3, 4, 5, 6, 7, 8]);
    let ts = tsig_rr(&lname(&[b"key"]), 255, 0, 32, 0);
    vec![
        (msg(1, 0x0100, 1, 0, 0, 0, &q), false),
        (msg(2, 0x0100, 1, 0, 0, 1, &[q.clone(), o.clone()].concat()), false),
        (msg(3, 0, 1, 1, 1, 2, &[q.clone(), plain_a.clone(), plain_ns.clone(), plain_txt.clone(), o_opts.clone()].concat()), false),
        (msg(4, 0, 1, 0, 0, 3, &[qn.clone(), plain_txt.clone(), o.clone(), plain_a.clone()].concat()), false),
        (msg(5, 4 << 11, 1, 1, 0, 0, &[q.clone(), plain_a.clone()].concat()), false),
        (msg(6, 0, 0, 0, 0, 1, &o), false),
        (msg(7, 0, 1, 0, 0, 2, &[q.clone(), o.clone(), ts.clone()].concat()), true),
        (msg(8, 0x0100, 1, 0, 0, 1, &[q.clone(), ts.clone()].concat()), true),
    ]
}

pub fn gen_form(rng: &mut Rng, thorough: bool, em: &mut Emitter) {
    let zs = small_catalog(rng);
    let payload = 1232u16;
    let Some(server) = make_server(&zs, payload) else { return };
    let cat = enc_catalog(&zs);
    let q = dns::question(&lname(&[b"www", b"a"]), 1, 1);
    let o = opt(&[0], 1232, 0, &[]);
    let plain_a = dns::rr(&dns::pointer(12), 1, 1, 60, &[192, 0, 2, 1]);
    for (base, tsig_ok) in form_bases(rng) {
        // the request itself
        emit(em, &server, payload, &cat, &base, !tsig_ok);
        // truncation at every octet (a truncated TSIG never verifies: FORMERR or earlier)
        for len in 0..base.len() { emit(em, &server, payload, &cat, &base[..len], true); }
        // junk appended
        for junk in [&[0u8][..], &[0xff], &[0, 0], &[0xc0, 0x0c, 0, 1, 0, 1, 0, 0, 0, 0, 0, 0], &[0, 0, 41, 4, 0, 0, 0, 0, 0, 0, 0]] {
            let mut m = base.clone(); m.extend_from_slice(junk);
            emit(em, &server, payload, &cat, &m, !tsig_ok);
        }
        // each count ±1 and a few wild values
        for field in [4usize, 6, 8, 10] {
            let v = u16::from_be_bytes([base[field], base[field + 1]]);
            for nv in [v.wrapping_add(1), v.wrapping_sub(1), v.wrapping_add(2), 0, 255, 65535] {
                if nv == v { continue; }
                let mut m = base.clone();
                m[field..field + 2].copy_from_slice(&nv.to_be_bytes());
                emit(em, &server, payload, &cat, &m, !tsig_ok || field != 10);
            }
        }
        // a flip of every octet (thorough: three patterns)
        let pats: &[u8] = if thorough { &[0xff, 0x01, 0x80, 0x40] } else { &[0xff] };
        for i in 0..base.len() { for &p in pats {
            let mut m = base.clone(); m[i] ^= p;
            emit(em, &server, payload, &cat, &m, !tsig_ok);
        }}
    }
    // OPT and TSIG misplaced, duplicated, mis-formed — each alone and behind/before ordinary records
    let ts_ok = tsig_rr(&lname(&[b"key"]), 255, 0, 32, 0);
    let variants: Vec<(&str, Vec<u8>)> = vec![
        ("class", tsig_rr(&lname(&[b"key"]), 1, 0, 32, 0)),
        ("class254", tsig_rr(&lname(&[b"key"]), 254, 0, 32, 0)),
        ("ttl1", tsig_rr(&lname(&[b"key"]), 255, 1, 32, 0)),
        ("ttltop", tsig_rr(&lname(&[b"key"]), 255, 0x8000_0000, 32, 0)),
        ("ttlmax", tsig_rr(&lname(&[b"key"]), 255, 0xffff_ffff, 32, 0)),
        ("rdata-short", dns::rr(&lname(&[b"key"]), 250, 255, 0, &[0, 1, 2])),
        ("rdata-empty", dns::rr(&lname(&[b"key"]), 250, 255, 0, &[])),
        ("rdata-other", { let mut r = tsig_rr(&lname(&[b"key"]), 255, 0, 32, 6); let n = r.len(); r[n - 7] = 9; r }),
        ("owner-bad", { let mut r = tsig_rr(&lname(&[b"key"]), 255, 0, 32, 0); r[0] = 0x80; r }),
    ];
    for (an, ns, ar_pre, ar_post) in [(0u16, 0u16, 0u16, 0u16), (1, 0, 0, 0), (0, 1, 1, 0), (0, 0, 1, 1), (1, 1, 0, 1)] {
        let pre: Vec<u8> = (0..an + ns + ar_pre).flat_map(|_| plain_a.clone()).collect();
        let post: Vec<u8> = (0..ar_post).flat_map(|_| plain_a.clone()).collect();
        let build = |mid: &[u8], mid_n: u16, an2: u16, ns2: u16| -> Vec<u8> {
            msg(11, 0, 1, an + an2, ns + ns2, ar_pre + ar_post + mid_n, &[q.clone(), pre.clone(), mid.to_vec(), post.clone()].concat())
        };
        // two and three OPTs; OPT then TSIG-not-last; TSIG then OPT
        emit(em, &server, payload, &cat, &build(&[o.clone(), o.clone()].concat(), 2, 0, 0), true);
        emit(em, &server, payload, &cat, &build(&[o.clone(), plain_a.clone(), o.clone()].concat(), 3, 0, 0), true);
        emit(em, &server, payload, &cat, &build(&[ts_ok.clone(), o.clone()].concat(), 2, 0, 0), true);
        emit(em, &server, payload, &cat, &build(&[ts_ok.clone(), ts_ok.clone()].concat(), 2, 0, 0), true);
        emit(em, &server, payload, &cat, &build(&[ts_ok.clone(), plain_a.clone()].concat(), 2, 0, 0), true);
        // a TSIG in last position with a defect (FORMERR before any verification) …
        if ar_post == 0 {
            for (_, v) in &variants {
                emit(em, &server, payload, &cat, &build(v, 1, 0, 0), true);
                emit(em, &server, payload, &cat, &build(&[o.clone(), v.clone()].concat(), 2, 0, 0), true);
            }
            // … and a good one (audit only: the response carries the clock)
            emit(em, &server, payload, &cat, &build(&ts_ok, 1, 0, 0), false);
            emit(em, &server, payload, &cat, &build(&[o.clone(), ts_ok.clone()].concat(), 2, 0, 0), false);
        }
    }
    // OPT / TSIG counted in the answer or authority section
    for (rec, name) in [(o.clone(), "opt"), (ts_ok.clone(), "tsig")] {
        emit(em, &server, payload, &cat, &msg(12, 0, 1, 1, 0, 0, &[q.clone(), rec.clone()].concat()), true);
        emit(em, &server, payload, &cat, &msg(12, 0, 1, 0, 1, 0, &[q.clone(), rec.clone()].concat()), true);
        emit(em, &server, payload, &cat, &msg(12, 0, 1, 1, 1, 1, &[q.clone(), plain_a.clone(), rec.clone(), o.clone()].concat()), true);
        emit(em, &server, payload, &cat, &msg(12, 0, 1, 2, 0, 0, &[q.clone(), plain_a.clone(), rec.clone()].concat()), true);
    }
    // records whose owner / RDLENGTH cannot be delimited, in each section
    let bad_recs: Vec<Vec<u8>> = vec![
        vec![0x40, 1, 0, 1, 0, 1, 0, 0, 0, 0, 0, 0],            // label type 01
        vec![64, 1, 0, 1, 0, 1, 0, 0, 0, 0, 0, 0],               // label of 64 octets
        dns::rr(&[0], 1, 1, 0, &[1, 2, 3, 4])[..13].to_vec(),    // RDATA cut
        { let mut r = dns::rr(&[0], 1, 1, 0, &[1, 2, 3, 4]); r[9] = 0xff; r[10] = 0xff; r }, // RDLENGTH too large
        vec![0xc0],                                               // pointer cut
        vec![3, b'a'],                                            // label cut
    ];
    for br in &bad_recs {
        emit(em, &server, payload, &cat, &msg(13, 0, 1, 1, 0, 0, &[q.clone(), br.clone()].concat()), true);
        emit(em, &server, payload, &cat, &msg(13, 0, 1, 0, 1, 0, &[q.clone(), br.clone()].concat()), true);
        emit(em, &server, payload, &cat, &msg(13, 0, 1, 0, 0, 1, &[q.clone(), br.clone()].concat()), true);
        emit(em, &server, payload, &cat, &msg(13, 0, 1, 0, 0, 2, &[q.clone(), o.clone(), br.clone()].concat()), true);
    }
    // unparseable questions
    for bq in [&[0xc0u8, 0x0c, 0, 1, 0, 1][..], &[64], &[1, b'a'], &[0, 0, 1, 0], &[0xc0, 0xff, 0, 1, 0, 1], &[]] {
        emit(em, &server, payload, &cat, &msg(14, 0x0100, 1, 0, 0, 0, bq), true);
    }
    // a name of 255 and of 256 octets
    for total in [255usize, 256] {
        let mut w = Vec::new();
        while w.len() + 64 < total - 1 { w.push(63); w.extend(std::iter::repeat(b'x').take(63)); }
        let rest = total - 1 - w.len();
        if rest >= 2 { w.push((rest - 1) as u8); w.extend(std::iter::repeat(b'y').take(rest - 1)); }
        w.push(0);
        emit(em, &server, payload, &cat, &msg(15, 0, 1, 0, 0, 0, &dns::question(&w, 1, 1)), true);
    }
    // random multi-mutations of the bases
    let n = if thorough { 6000 } else { 600 };
    let bases = form_bases(rng);
    for _ in 0..n {
        let (b, tsig_ok) = rng.pick(&bases).clone();
        let mut m = b;
        for _ in 0..rng.range(1, 3) {
            match rng.below(5) {
                0 => { let k = rng.below(m.len() + 1); m.truncate(k); }
                1 => { for _ in 0..rng.range(1, 4) { m.push(rng.byte()); } }
                2 => { if !m.is_empty() { let i = rng.below(m.len()); m[i] = rng.byte(); } }
                3 => { if m.len() > 12 { let i = rng.range(12, m.len() - 1); m.remove(i); } }
                _ => { if m.len() >= 12 { let f = *rng.pick(&[4usize, 6, 8, 10]); m[f + 1] = m[f + 1].wrapping_add(1); } }
            }
        }
        emit(em, &server, payload, &cat, &m, !tsig_ok);
    }
}

// ------------------------------------------------------------------------------------------
// srvedns
// ------------------------------------------------------------------------------------------

pub fn gen_edns(rng: &mut Rng, thorough: bool, em: &mut Emitter) {
    let q_in = dns::question(&lname(&[b"www", b"a"]), 1, 1);
    let q_out = dns::question(&lname(&[b"nowhere"]), 1, 1);
    let plain = dns::rr(&dns::pointer(12), 16, 1, 0, &[1, b'x']);
    let sizes: &[u16] = if thorough { &[512, 513, 1231, 1232, 4096, 65535] } else { &[512, 1232, 65535] };
    for &server_size in sizes {
        let zs = small_catalog(rng);
        let Some(server) = make_server(&zs, server_size) else { continue };
        let cat = enc_catalog(&zs);
        // requestor payload sizes
        for p in [0u16, 1, 100, 511, 512, 513, 1231, 1232, 1233, 4095, 4096, 4097, 65534, 65535] {
            for q in [&q_in, &q_out] {
                emit(em, &server, server_size, &cat, &msg(1, 0x0100, 1, 0, 0, 1, &[q.clone(), opt(&[0], p, 0, &[])].concat()), true);
            }
        }
        // TTL field: extended RCODE octet × version octet × flags, incl. the top bit
        let xr: &[u8] = if thorough { &[0, 1, 0x7f, 0x80, 0x81, 0xff] } else { &[0, 0x80, 0xff] };
        let ver: &[u8] = if thorough { &[0, 1, 2, 0x7f, 0x80, 0xff] } else { &[0, 1, 0x80, 0xff] };
        let fl: &[u16] = if thorough { &[0, 0x8000, 0x7fff, 0xffff, 1] } else { &[0, 0x8000, 0xffff] };
        for &x in xr { for &v in ver { for &f in fl {
            let ttl = ((x as u32) << 24) | ((v as u32) << 16) | f as u32;
            emit(em, &server, server_size, &cat, &msg(2, 0x0100, 1, 0, 0, 1, &[q_in.clone(), opt(&[0], 1232, ttl, &[])].concat()), true);
            emit(em, &server, server_size, &cat, &msg(2, 0, 1, 0, 0, 1, &[q_out.clone(), opt(&[0], 600, ttl, &[])].concat()), true);
        }}}
        // every version value once
        for v in 0..=255u32 {
            emit(em, &server, server_size, &cat, &msg(3, 0, 1, 0, 0, 1, &[q_in.clone(), opt(&[0], 1232, v << 16, &[])].concat()), true);
        }
        // owners: root, a name, a pointer that decodes to root, a pointer to the QNAME, broken
        let owners: Vec<Vec<u8>> = vec![vec![0], lname(&[b"x"]), dns::pointer(4), dns::pointer(12), vec![1, b'a', 0xc0, 4], vec![0xc0, 0x0d], vec![64, 0]];
        for ow in &owners { for ttl in [0u32, 0x0001_0000, 0x8001_0000] {
            emit(em, &server, server_size, &cat, &msg(4, 0, 1, 0, 0, 1, &[q_in.clone(), opt(ow, 1232, ttl, &[])].concat()), true);
        }}
        // option lists: well-formed and not
        let rdatas: Vec<Vec<u8>> = vec![
            vec![], vec![0, 10, 0, 0], vec![0, 10, 0, 8, 1, 2, 3, 4, 5, 6, 7, 8], vec![0, 3, 0, 1, 65, 0, 8, 0, 2, 0, 1],
            vec![0], vec![0, 10, 0], vec![0, 10, 0, 9, 1, 2, 3, 4, 5, 6, 7, 8], vec![0, 10, 0, 1], vec![0, 10, 0, 0, 0], vec![0xff; 7],
        ];
        for rd in &rdatas { for ttl in [0u32, 0x0001_0000] {
            emit(em, &server, server_size, &cat, &msg(5, 0, 1, 0, 0, 1, &[q_in.clone(), opt(&[0], 1232, ttl, rd)].concat()), true);
            emit(em, &server, server_size, &cat, &msg(5, 0, 1, 0, 0, 1, &[q_out.clone(), opt(&lname(&[b"x"]), 1232, ttl, rd)].concat()), true);
        }}
        // positions: k ordinary records before and after; zero, one, two OPTs; bad second OPT
        for before in 0..=2u16 { for after in 0..=2u16 { for nopt in 0..=2u16 {
            let mut body = q_in.clone();
            for _ in 0..before { body.extend(plain.clone()); }
            for i in 0..nopt { body.extend(opt(&[0], 1232, if i == 1 { 0x0001_0000 } else { 0 }, &[])); }
            for _ in 0..after { body.extend(plain.clone()); }
            emit(em, &server, server_size, &cat, &msg(6, 0x0100, 1, 0, 0, before + after + nopt, &body), true);
        }}}
        // a bad OPT followed by a later problem, and an earlier problem before a bad OPT (first problem wins)
        let bad_ver = opt(&[0], 1232, 0x0001_0000, &[]);
        let bad_owner = opt(&lname(&[b"x"]), 1232, 0, &[]);
        emit(em, &server, server_size, &cat, &msg(7, 0, 1, 0, 0, 1, &[q_in.clone(), bad_ver.clone(), vec![0xff]].concat()), true);
        emit(em, &server, server_size, &cat, &msg(7, 0, 1, 0, 0, 2, &[q_in.clone(), bad_ver.clone(), bad_owner.clone()].concat()), true);
        emit(em, &server, server_size, &cat, &msg(7, 0, 1, 0, 0, 2, &[q_in.clone(), bad_owner.clone(), bad_ver.clone()].concat()), true);
        emit(em, &server, server_size, &cat, &msg(7, 0, 1, 0, 0, 2, &[q_in.clone(), vec![0x40], bad_ver.clone()].concat()), true);
        emit(em, &server, server_size, &cat, &msg(7, 0, 1, 1, 0, 1, &[q_in.clone(), bad_ver.clone(), bad_ver.clone()].concat()), true);
        emit(em, &server, server_size, &cat, &msg(7, 0, 2, 0, 0, 1, &[q_in.clone(), q_in.clone(), bad_ver.clone()].concat()), true);
        emit(em, &server, server_size, &cat, &msg(7, 5 << 11, 1, 0, 0, 1, &[q_in.clone(), opt(&[0], 1232, 0, &[])].concat()), true);
        emit(em, &server, server_size, &cat, &msg(7, 5 << 11, 1, 0, 0, 1, &[q_in.clone(), bad_ver.clone()].concat()), true);
        emit(em, &server, server_size, &cat, &msg(7, 0, 0, 0, 0, 1, &bad_ver), true);
        // random OPTs
        let n = if thorough { 1500 } else { 150 };
        for _ in 0..n {
            let ttl = match rng.below(4) { 0 => 0, 1 => rng.next() as u32, 2 => (rng.next() as u32) & 0xff00_ffff, _ => (rng.byte() as u32) << 16 };
            let ow = rng.pick(&owners).clone();
            let rd = if rng.chance(1, 2) { vec![] } else { dns::rand_rdata(rng, 41, &[], false) };
            let q = if rng.chance(1, 2) { &q_in } else { &q_out };
            let mut body = q.clone();
            let mut ar = 0;
            if rng.chance(1, 4) { body.extend(plain.clone()); ar += 1; }
            body.extend(opt(if rng.chance(3, 4) { &[0] } else { &ow }, rng.next() as u16, ttl, &rd)); ar += 1;
            if rng.chance(1, 6) { body.extend(opt(&[0], 512, 0, &[])); ar += 1; }
            if rng.chance(1, 6) { body.extend(plain.clone()); ar += 1; }
            emit(em, &server, server_size, &cat, &msg(rng.next() as u16, if rng.chance(1, 2) { 0x0100 } else { 0 }, 1, 0, 0, ar, &body), true);
        }
    }
}
