//! group `reader` — C15: src/message/reader.rs through the public `Reader` API.
use crate::common::*;
use crate::dns;
use quandary::message::Reader;

fn b(x: bool) -> &'static str {
    if x { "1" } else { "0" }
}

/// the cursor is private: `message_to_cursor().len()` exposes it
fn cur(r: &Reader) -> usize {
    r.message_to_cursor().len()
}

fn step(r: &mut Reader, op: &str) -> String {
    match op {
        "hdr" => format!(
            "ok {} {} {} {} {} {} {} {} {} {} {} {}@{}",
            r.id(), b(r.qr()), u8::from(r.opcode()), b(r.aa()), b(r.tc()), b(r.rd()), b(r.ra()),
            u8::from(r.rcode()), r.qdcount(), r.ancount(), r.nscount(), r.arcount(), cur(r)
        ),
        "rq" => match r.read_question() {
            Ok(q) => format!("ok {} {} {}@{}", hex(q.qname.wire_repr()), u16::from(q.qtype), u16::from(q.qclass), cur(r)),
            Err(e) => format!("err:{:?}@{}", e, cur(r)),
        },
        "sq" => match r.skip_question() {
            Ok(()) => format!("ok @{}", cur(r)),
            Err(e) => format!("err:{:?}@{}", e, cur(r)),
        },
        "rr" => match r.read_rr() {
            Ok(x) => format!("ok {} {} {} {} {}@{}", hex(x.owner.wire_repr()), u16::from(x.rr_type), u16::from(x.class),
                             u32::from(x.ttl), hex(x.rdata.octets()), cur(r)),
            Err(e) => format!("err:{:?}@{}", e, cur(r)),
        },
        "sr" => match r.skip_rr() {
            Ok(()) => format!("ok @{}", cur(r)),
            Err(e) => format!("err:{:?}@{}", e, cur(r)),
        },
        "pk" => {
            let s = match r.peek_rr() {
                Ok(mut p) => {
                    let own = match p.owner() {
                        Ok(n) => hex(n.wire_repr()),
                        Err(e) => format!("err:{:?}", e),
                    };
                    format!("ok {} {} {} {} {} {}", u16::from(p.rr_type()), u16::from(p.class()), u32::from(p.ttl()),
                            p.raw_ttl(), p.rdlength(), own)
                }
                Err(e) => format!("err:{:?}", e),
            };
            format!("{}@{}", s, cur(r))
        }
        "pks" => {
            let s = match r.peek_rr() {
                Ok(p) => { p.skip(); "ok ".to_string() }
                Err(e) => format!("err:{:?}", e),
            };
            format!("{}@{}", s, cur(r))
        }
        "pkp" => {
            let s = match r.peek_rr() {
                Ok(p) => match p.parse() {
                    Ok(x) => format!("ok {} {} {} {} {}", hex(x.owner.wire_repr()), u16::from(x.rr_type), u16::from(x.class),
                                     u32::from(x.ttl), hex(x.rdata.octets())),
                    Err(e) => format!("err:{:?}", e),
                },
                Err(e) => format!("err:{:?}", e),
            };
            format!("{}@{}", s, cur(r))
        }
        "mark" => { r.mark(); format!("ok @{}", cur(r)) }
        "rewind" => { r.rewind(); format!("ok @{}", cur(r)) }
        "eom" => format!("ok {}@{}", b(r.at_eom()), cur(r)),
        "mtc" => format!("ok {}@{}", r.message_to_cursor().len(), cur(r)),
        _ => "bad-op".to_string(),
    }
}

pub fn run(op: &str, a: &[&str]) -> Option<String> {
    match (op, a) {
        ("reader", [m, script]) => {
            let Some(msg) = unhex(m) else { return Some("bad-op".into()) };
            let mut r = match Reader::try_from(&msg[..]) {
                Ok(r) => r,
                Err(e) => return Some(format!("err:{:?}", e)),
            };
            let mut outs: Vec<String> = Vec::new();
            let mut dead = false;
            for o in script.split(';') {
                if dead {
                    // after a panic the reader is in whatever state it was left: keep going, the
                    // model does the same (the state is unchanged in the model)
                }
                let before = cur(&r);
                let res = std::panic::catch_unwind(std::panic::AssertUnwindSafe(|| step(&mut r, o)));
                match res {
                    Ok(s) => outs.push(s),
                    Err(_) => { outs.push(format!("panic@{}", before)); dead = true; }
                }
            }
            Some(outs.join(";"))
        }
        _ => None,
    }
}

/// the natural script for a message: header, questions, records (mix of read/skip/peek), eom
fn natural_script(rng: &mut Rng, msg: &[u8], with_rdata: bool) -> String {
    let rd16 = |i: usize| -> usize { if msg.len() >= i + 2 { ((msg[i] as usize) << 8) | msg[i + 1] as usize } else { 0 } };
    let mut ops: Vec<&str> = vec!["hdr"];
    let qd = rd16(4).min(3);
    for _ in 0..qd { ops.push(if rng.chance(2, 3) { "rq" } else { "sq" }); }
    if rng.chance(1, 3) { ops.push("mark"); }
    let n = (rd16(6) + rd16(8) + rd16(10)).min(8);
    for _ in 0..n {
        let choices: &[&str] = if with_rdata { &["rr", "sr", "pk", "pks", "pkp", "rr", "pkp"] } else { &["sr", "pk", "pks", "sr"] };
        let o = *rng.pick(choices);
        ops.push(o);
        if o == "pk" { ops.push(if rng.chance(1, 2) { "pks" } else { "sr" }); }
    }
    ops.push("eom");
    ops.push("mtc");
    if rng.chance(1, 3) { ops.push("rewind"); ops.push("rq"); }
    if rng.chance(1, 10) { ops.push("rewind"); }
    ops.join(";")
}

/// `rr`/`pkp` need the RDATA model in the driver (C18); enabled once it is merged.
pub const WITH_RDATA: bool = true;

pub fn gen(rng: &mut Rng, thorough: bool, em: &mut Emitter) {
    let n = if thorough { 150_000 } else { 12_000 };
    for _ in 0..n {
        let mut msg = dns::rand_message(rng);
        let k = match rng.below(10) { 0..=4 => 0, 5..=7 => 1, _ => 2 };
        for _ in 0..k { dns::mutate(rng, &mut msg); }
        let script = if rng.chance(1, 8) {
            // random script
            let all: &[&str] = if WITH_RDATA {
                &["hdr", "rq", "sq", "rr", "sr", "pk", "pks", "pkp", "mark", "rewind", "eom", "mtc"]
            } else {
                &["hdr", "rq", "sq", "sr", "pk", "pks", "mark", "rewind", "eom", "mtc"]
            };
            let len = rng.range(1, 8);
            (0..len).map(|_| *rng.pick(all)).collect::<Vec<_>>().join(";")
        } else {
            natural_script(rng, &msg, WITH_RDATA)
        };
        let h = hex(&msg);
        let r = run("reader", &[&h, &script]).unwrap();
        em.emit(&format!("reader {} {}", h, script), &r);
    }
    // every truncation of a few valid messages (thorough: more)
    let k = if thorough { 200 } else { 20 };
    for _ in 0..k {
        let msg = dns::rand_message(rng);
        let script = natural_script(rng, &msg, WITH_RDATA);
        for cut in 0..=msg.len() {
            let h = hex(&msg[..cut]);
            let r = run("reader", &[&h, &script]).unwrap();
            em.emit(&format!("reader {} {}", h, script), &r);
        }
    }
}
