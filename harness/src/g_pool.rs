//! group `pool` (C29) — the UNMODIFIED thread-pool source of the repository under test
//! (`src/thread.rs`, copied by build.rs with only its std::sync/thread/time imports rewritten)
//! executed under the shuttle controlled scheduler; every execution's lock-granularity event log
//! is one case, validated by the Lean driver as a path of the model `QV.Pool`.
//!
//! case line:  `pool <scenario> <schedule> <trace>`
//!   scenario  `<n_perm>.<linger>.<psh>.<late>.<aw2>.<sdlate>.<subs>`  — permanent workers, lingering (0/1),
//!             a ThreadPool::shut_down call before the group's (0/1), a submission after
//!             await_shutdown returned (0/1), a second awaiter (0/1), shut_down called only after all
//!             submitter threads have returned (0/1; else concurrently), and per submitter thread the
//!             kinds of the tasks it submits (`b` = submit, `o` = submit_or_spawn), joined by `-`
//!   schedule  `r:<seed>` random, `p:<depth>:<seed>` PCT, `d:<index>` index-th DFS execution
//!   trace     `;`-separated events (fields `,`-separated), see lean/QV/Driver/Pool.lean
//! The implementation column is `ok` when re-executing (scenario, schedule) reproduces the trace
//! (always, at generation time); the model column says whether the trace is a path of the model;
//! the spec column evaluates the property's end conditions on the trace.
#![allow(unused)]
use crate::common::*;

#[cfg(not(feature = "pool"))]
pub fn run(_op: &str, _a: &[&str]) -> Option<String> {
    None
}

#[cfg(not(feature = "pool"))]
pub fn gen(_rng: &mut Rng, _thorough: bool, _em: &mut Emitter) {
    eprintln!("group pool: harness built without feature `pool`");
    std::process::exit(2);
}

#[cfg(feature = "pool")]
pub use real::{gen, run, sub_main};

#[cfg(feature = "pool")]
#[allow(dead_code, unused_imports, clippy::all)]
pub mod tut {
    include!(concat!(env!("OUT_DIR"), "/thread_under_test.rs"));
}

#[cfg(feature = "pool")]
mod real {
    use super::tut::{verif_probe, ThreadGroup, ThreadPool};
    use crate::common::*;
    use crate::pool_shim::{self as shim, log, spawn_ext};
    use shuttle::scheduler::{DfsScheduler, PctScheduler, RandomScheduler, Schedule, Scheduler, Task, TaskId};
    use std::panic::{catch_unwind, AssertUnwindSafe};
    use std::sync::atomic::{AtomicUsize, Ordering::SeqCst};
    use std::sync::{Arc, Mutex as StdMutex};
    use std::time::Duration;

    #[derive(Clone, Debug, PartialEq)]
    pub struct Scenario {
        n_perm: usize,
        linger: bool,
        psh: bool,
        late: bool,
        aw2: bool,
        sdlate: bool,
        subs: Vec<Vec<u8>>, // b'b' | b'o'
    }

    impl Scenario {
        fn token(&self) -> String {
            let subs: Vec<String> = self.subs.iter().map(|s| String::from_utf8(s.clone()).unwrap()).collect();
            format!(
                "{}.{}.{}.{}.{}.{}.{}",
                self.n_perm, self.linger as u8, self.psh as u8, self.late as u8, self.aw2 as u8, self.sdlate as u8,
                subs.join("-")
            )
        }
        fn parse(s: &str) -> Option<Scenario> {
            let f: Vec<&str> = s.split('.').collect();
            if f.len() != 7 {
                return None;
            }
            let b = |x: &str| match x {
                "0" => Some(false),
                "1" => Some(true),
                _ => None,
            };
            let subs: Vec<Vec<u8>> = if f[6].is_empty() {
                vec![]
            } else {
                f[6].split('-').map(|x| x.as_bytes().to_vec()).collect()
            };
            if subs.iter().any(|s| s.iter().any(|c| *c != b'b' && *c != b'o')) {
                return None;
            }
            Some(Scenario { n_perm: f[0].parse().ok()?, linger: b(f[1])?, psh: b(f[2])?, late: b(f[3])?, aw2: b(f[4])?, sdlate: b(f[5])?, subs })
        }
    }

    static RESULT: StdMutex<Option<String>> = StdMutex::new(None);
    static NEXT_TASK: AtomicUsize = AtomicUsize::new(0);
    static CVS: StdMutex<Option<[usize; 3]>> = StdMutex::new(None);

    fn submit_one(pool: &Arc<ThreadPool>, kind: u8) {
        let t = shim::cur_tid();
        let k = NEXT_TASK.fetch_add(1, SeqCst);
        log(format!("{},{t},{k}", if kind == b'b' { "cs" } else { "co" }));
        let task = move || {
            let me = shim::cur_tid();
            log(format!("rn,{me},{k}"));
            shuttle::thread::yield_now();
            log(format!("fn,{me},{k}"));
        };
        let r = if kind == b'b' { pool.submit(task) } else { pool.submit_or_spawn(task) };
        log(format!("rt,{t},{},{}", if kind == b'b' { "cs" } else { "co" }, if r.is_ok() { "ok" } else { "rej" }));
    }

    /// one execution of the real code (runs inside a shuttle execution)
    fn scenario_body(sc: &Scenario) {
        shim::begin_execution(verif_probe::snapshot, 2, 1);
        NEXT_TASK.store(0, SeqCst);
        *CVS.lock().unwrap() = None;
        let group = ThreadGroup::new();
        log(format!("cp,0,{}", sc.n_perm));
        let linger = if sc.linger { Duration::from_secs(5) } else { Duration::ZERO };
        let pool = group.start_pool(Some("p".to_string()), sc.n_perm, linger).expect("start_pool failed");
        log("rt,0,cp,ok".to_string());
        let cvs = verif_probe::cv_ids(&group, &pool);
        *CVS.lock().unwrap() = Some(cvs);
        shim::with_exec(|e| e.allow_spawn_failure = true);
        let mut handles = Vec::new();
        let mut sub_handles = Vec::new();
        for kinds in sc.subs.iter().cloned() {
            let pool = pool.clone();
            sub_handles.push(spawn_ext(move || {
                for k in kinds {
                    submit_one(&pool, k);
                }
            }));
        }
        let psh_handle = if sc.psh {
            let pool = pool.clone();
            Some(spawn_ext(move || {
                let t = shim::cur_tid();
                log(format!("cq,{t}"));
                pool.shut_down();
                log(format!("rt,{t},cq,ok"));
            }))
        } else {
            None
        };
        let mut wait_for = Vec::new();
        if sc.sdlate {
            wait_for = std::mem::take(&mut sub_handles);
        }
        {
            let group = group.clone();
            handles.push(spawn_ext(move || {
                for h in wait_for {
                    h.join().unwrap();
                }
                // ThreadPool::shut_down must not race with ThreadGroup::shut_down (Slab::remove
                // would panic): the group shutter waits for the pool shutter first
                if let Some(h) = psh_handle {
                    h.join().unwrap();
                }
                let t = shim::cur_tid();
                log(format!("cd,{t}"));
                group.shut_down();
                log(format!("rt,{t},cd,ok"));
            }));
        }
        if sc.aw2 {
            let group = group.clone();
            handles.push(spawn_ext(move || {
                let t = shim::cur_tid();
                log(format!("ca,{t}"));
                group.await_shutdown();
                log(format!("rt,{t},ca,ok"));
            }));
        }
        log("ca,0".to_string());
        group.await_shutdown();
        log("rt,0,ca,ok".to_string());
        if sc.late {
            submit_one(&pool, if shim::rand_below(2) == 0 { b'b' } else { b'o' });
        }
        for h in handles.into_iter().chain(sub_handles) {
            h.join().unwrap();
        }
        let log = shim::take_log();
        *RESULT.lock().unwrap() = Some(finish_trace(log, Some(cvs)));
    }

    /// replace condvar ids by their roles
    fn finish_trace(log: Vec<String>, cvs: Option<[usize; 3]>) -> String {
        let name = |id: &str| -> String {
            if let (Some(c), Ok(i)) = (cvs, id.parse::<usize>()) {
                if i == c[0] {
                    return "s".into();
                } else if i == c[1] {
                    return "t".into();
                } else if i == c[2] {
                    return "a".into();
                }
            }
            format!("cv{id}")
        };
        let mut out = Vec::with_capacity(log.len());
        for ev in log {
            let f: Vec<&str> = ev.split(',').collect();
            match f[0] {
                "n1" => out.push(format!("n1,{},{},{}", f[1], name(f[2]), f[3])),
                "na" => out.push(format!("na,{},{}", f[1], name(f[2]))),
                "wt" => out.push(format!("wt,{},{},{},{},{},{},{}", f[1], f[2], name(f[3]), f[4], f[5], f[6], f[7])),
                _ => out.push(ev),
            }
        }
        out.join(";")
    }

    #[derive(Clone, Debug, PartialEq)]
    enum Sched {
        Random(u64),
        Pct(usize, u64),
        Dfs(usize),
    }

    impl Sched {
        fn token(&self) -> String {
            match self {
                Sched::Random(s) => format!("r:{s}"),
                Sched::Pct(d, s) => format!("p:{d}:{s}"),
                Sched::Dfs(i) => format!("d:{i}"),
            }
        }
        fn parse(s: &str) -> Option<Sched> {
            let f: Vec<&str> = s.split(':').collect();
            match (f[0], f.len()) {
                ("r", 2) => Some(Sched::Random(f[1].parse().ok()?)),
                ("p", 3) => Some(Sched::Pct(f[1].parse().ok()?, f[2].parse().ok()?)),
                ("d", 2) => Some(Sched::Dfs(f[1].parse().ok()?)),
                _ => None,
            }
        }
    }

    const MAX_STEPS: usize = 40_000;

    fn config() -> shuttle::Config {
        let mut c = shuttle::Config::new();
        // a panic (not a silent abandon): abandoned executions are force-unwound by shuttle, and
        // the destructors of the code under test (OneshotHandle::drop …) cannot run then
        c.max_steps = shuttle::MaxSteps::FailAfter(MAX_STEPS);
        c.failure_persistence = shuttle::FailurePersistence::None;
        c.silence_warnings = true;
        c
    }

    // ------------------------------------------------------------------------------------------
    // Executions run in a worker process.  When shuttle reports a deadlock (no runnable thread),
    // the step bound is hit, or the code under test panics, the panic hook writes the case with
    // the partial trace and a marker (`dl` / `ms` / `pn`) and exits the process without unwinding
    // (unwinding would run the destructors of blocked threads outside the scheduler); the
    // supervisor restarts the worker after the failed plan item.
    // ------------------------------------------------------------------------------------------

    static CURRENT: StdMutex<Option<(String, String)>> = StdMutex::new(None);
    static OUT: StdMutex<Option<std::fs::File>> = StdMutex::new(None);

    fn write_line(line: &str) {
        use std::io::Write;
        let mut g = OUT.lock().unwrap_or_else(|e| e.into_inner());
        match g.as_mut() {
            Some(f) => {
                let _ = writeln!(f, "{line}");
                let _ = f.flush();
            }
            None => println!("{line}"),
        }
    }

    fn install_hook() {
        std::panic::set_hook(Box::new(|info| {
            let msg = info
                .payload()
                .downcast_ref::<String>()
                .cloned()
                .or_else(|| info.payload().downcast_ref::<&str>().map(|s| s.to_string()))
                .unwrap_or_default();
            let marker = if msg.contains("deadlock") {
                "dl"
            } else if msg.contains("max_steps") || msg.contains("exceeded") {
                "ms"
            } else {
                "pn"
            };
            let mut log = shim::try_take_log();
            log.push(marker.to_string());
            let cvs = CVS.try_lock().ok().and_then(|g| *g);
            let trace = finish_trace(log, cvs);
            let cur = CURRENT.try_lock().ok().and_then(|g| g.clone());
            if let Some((sc, sched)) = cur {
                if std::env::var("QVH_PANIC_MSG").is_ok() {
                    eprintln!("pool worker: {marker}: {msg}");
                }
                write_line(&format!("pool {sc} {sched} {trace}"));
            }
            std::process::exit(3);
        }));
    }

    fn set_current(sc: &Scenario, sched: &Sched) {
        *CURRENT.lock().unwrap() = Some((sc.token(), sched.token()));
    }

    /// one execution under a fresh scheduler built from a `Sched` token (worker process only)
    fn execute(sc: &Scenario, sched: &Sched) -> Option<String> {
        *RESULT.lock().unwrap() = None;
        set_current(sc, sched);
        let sc2 = sc.clone();
        let body = move || scenario_body(&sc2);
        match sched {
            Sched::Random(seed) => {
                shuttle::Runner::new(RandomScheduler::new_from_seed(*seed, 1), config()).run(body);
            }
            Sched::Pct(depth, seed) => {
                shuttle::Runner::new(PctScheduler::new_from_seed(*seed, *depth, 1), config()).run(body);
            }
            Sched::Dfs(index) => {
                // the index-th execution of the depth-first enumeration
                shuttle::Runner::new(DfsScheduler::new(Some(*index + 1), true), config()).run(body);
            }
        }
        RESULT.lock().unwrap().take()
    }

    /// a whole DFS enumeration in one runner
    fn dfs_batch(sc: &Scenario, max: usize) {
        let n = Arc::new(AtomicUsize::new(0));
        let sc2 = sc.clone();
        shuttle::Runner::new(DfsScheduler::new(Some(max), true), config()).run(move || {
            let i = n.fetch_add(1, SeqCst);
            let sched = Sched::Dfs(i);
            set_current(&sc2, &sched);
            *RESULT.lock().unwrap() = None;
            scenario_body(&sc2);
            if let Some(t) = RESULT.lock().unwrap().take() {
                write_line(&case_line(&sc2, &sched, &t));
            }
        });
    }

    fn case_line(sc: &Scenario, sched: &Sched, trace: &str) -> String {
        format!("pool {} {} {}", sc.token(), sched.token(), trace)
    }

    enum Item {
        Exec(Scenario, Sched),
        Dfs(Scenario, usize),
    }

    fn random_scenario(rng: &mut Rng) -> Scenario {
        let n_sub = rng.range(1, 4);
        let mut subs = Vec::new();
        for _ in 0..n_sub {
            let n = rng.range(1, 2);
            subs.push((0..n).map(|_| if rng.chance(1, 2) { b'b' } else { b'o' }).collect());
        }
        let n_perm = rng.range(0, 2);
        // shutting down only after the submitters returned needs every blocking submit to find a
        // worker eventually: permanent workers, or only submit_or_spawn
        let may_late = n_perm > 0 || subs.iter().all(|s: &Vec<u8>| s.iter().all(|c| *c == b'o'));
        Scenario {
            n_perm,
            linger: rng.chance(1, 2),
            psh: rng.chance(1, 6),
            late: rng.chance(1, 3),
            aw2: rng.chance(1, 4),
            sdlate: may_late && rng.chance(1, 2),
            subs,
        }
    }

    fn plan(rng: &mut Rng, thorough: bool) -> Vec<Item> {
        let mut items = Vec::new();
        let pick = |rng: &mut Rng, i: usize| {
            if i % 3 == 0 {
                Sched::Pct(rng.range(1, 5), rng.next() >> 16)
            } else {
                Sched::Random(rng.next() >> 16)
            }
        };
        // 1. the family of the repaired defect D11 first: lingering auxiliary workers only
        let n_d11 = if thorough { 6000 } else { 800 };
        for i in 0..n_d11 {
            let sc = Scenario {
                n_perm: 0,
                linger: true,
                psh: false,
                late: false,
                aw2: false,
                sdlate: i % 2 == 0 && i % 8 != 0,
                subs: vec![b"o".to_vec(), if i % 2 == 0 { b"o".to_vec() } else { b"b".to_vec() }],
            };
            let sched = pick(rng, i);
            items.push(Item::Exec(sc, sched));
        }
        // 2. random scenarios under random and PCT schedules
        let n_rand = if thorough { 40_000 } else { 3000 };
        for i in 0..n_rand {
            let sc = random_scenario(rng);
            let sched = pick(rng, i);
            items.push(Item::Exec(sc, sched));
        }
        // 3. bounded depth-first enumeration of small scenarios
        let dfs_max = if thorough { 20_000 } else { 1200 };
        for sc in [
            Scenario { n_perm: 0, linger: true, psh: false, late: false, aw2: false, sdlate: true, subs: vec![b"o".to_vec()] },
            Scenario { n_perm: 1, linger: false, psh: false, late: false, aw2: false, sdlate: false, subs: vec![b"b".to_vec()] },
            Scenario { n_perm: 0, linger: true, psh: false, late: false, aw2: false, sdlate: true, subs: vec![b"oo".to_vec()] },
        ] {
            items.push(Item::Dfs(sc, dfs_max));
        }
        items
    }

    /// `qvh pool-worker <tier> <seed> <skip> <out>` and `qvh pool-exec <scenario> <sched>`
    pub fn sub_main(args: &[String]) -> i32 {
        install_hook();
        if args[1] == "pool-exec" && args.len() >= 4 {
            let (Some(sc), Some(sched)) = (Scenario::parse(&args[2]), Sched::parse(&args[3])) else {
                return 2;
            };
            match execute(&sc, &sched) {
                Some(t) => println!("{}", case_line(&sc, &sched, &t)),
                None => println!("incomplete"),
            }
            return 0;
        }
        if args[1] == "pool-worker" && args.len() >= 6 {
            let thorough = args[2] == "thorough";
            let seed: u64 = args[3].parse().expect("seed");
            let skip: usize = args[4].parse().expect("skip");
            let out = &args[5];
            *OUT.lock().unwrap() = Some(
                std::fs::OpenOptions::new().create(true).append(true).open(out).expect("open part file"),
            );
            let progress = format!("{out}.progress");
            let items = plan(&mut Rng::new(seed), thorough);
            for (i, item) in items.iter().enumerate().skip(skip) {
                std::fs::write(&progress, i.to_string()).expect("progress");
                match item {
                    Item::Exec(sc, sched) => {
                        if let Some(t) = execute(sc, sched) {
                            write_line(&case_line(sc, sched, &t));
                        }
                    }
                    Item::Dfs(sc, max) => dfs_batch(sc, *max),
                }
            }
            std::fs::write(&progress, items.len().to_string()).expect("progress");
            return 0;
        }
        2
    }

    fn self_exe() -> std::path::PathBuf {
        std::env::current_exe().expect("current_exe")
    }

    pub fn run(op: &str, a: &[&str]) -> Option<String> {
        if op != "pool" {
            return None;
        }
        if a.len() != 3 {
            return Some("bad-op".into());
        }
        if Scenario::parse(a[0]).is_none() || Sched::parse(a[1]).is_none() {
            return Some("bad-op".into());
        }
        // re-execute the real code under the recorded schedule; the trace must be reproduced
        let out = std::process::Command::new(self_exe())
            .args(["pool-exec", a[0], a[1]])
            .stderr(std::process::Stdio::null())
            .output();
        Some(match out {
            Ok(o) => {
                let text = String::from_utf8_lossy(&o.stdout);
                let line = text.lines().last().unwrap_or("");
                let trace = line.splitn(4, ' ').nth(3).unwrap_or("");
                if trace == a[2] {
                    "ok".into()
                } else {
                    "err:replay-diverged".into()
                }
            }
            Err(_) => "err:replay-failed".into(),
        })
    }

    pub fn gen(rng: &mut Rng, thorough: bool, em: &mut Emitter) {
        let t0 = std::time::Instant::now();
        let seed = rng.next() >> 1;
        let part = std::env::temp_dir().join(format!("qvh-pool-{}-{}.part", std::process::id(), seed));
        let progress = format!("{}.progress", part.display());
        let _ = std::fs::remove_file(&part);
        let mut skip = 0usize;
        let mut restarts = 0usize;
        loop {
            let st = std::process::Command::new(self_exe())
                .args(["pool-worker", if thorough { "thorough" } else { "quick" }, &seed.to_string(), &skip.to_string()])
                .arg(&part)
                .stderr(if std::env::var("QVH_PANIC_MSG").is_ok() { std::process::Stdio::inherit() } else { std::process::Stdio::null() })
                .status()
                .expect("cannot start the pool worker");
            if st.success() {
                break;
            }
            restarts += 1;
            let done: usize = std::fs::read_to_string(&progress).ok().and_then(|s| s.trim().parse().ok()).unwrap_or(skip);
            skip = done + 1;
            if restarts > 300 {
                eprintln!("pool: giving up after {restarts} failed executions");
                break;
            }
        }
        let text = std::fs::read_to_string(&part).unwrap_or_default();
        for line in text.lines() {
            if !line.is_empty() {
                em.emit(line, "ok");
            }
        }
        let _ = std::fs::remove_file(&part);
        let _ = std::fs::remove_file(&progress);
        eprintln!("pool: {} executions, {} worker restarts (failed executions), {:.1} s", em.n, restarts, t0.elapsed().as_secs_f64());
    }
}
