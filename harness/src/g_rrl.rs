//! groups `rrl` (C26), `rrlkey` (C27), `rrlburst` (C28): response rate limiting, driven through
//! `Server::handle_message` with the hooks of cargo feature `verif_hooks`.
//!
//! One case = one whole history against a fresh `Server` (see lean/QV/Driver/Rrl.lean for the
//! line format). What the code reads from its environment is recorded into the case line:
//!   * `RandomState`: `verif_rrl_probe` gives bucket index / masked destination / QNAME hash;
//!     probing four more fresh servers gives the *key class* of each response (which responses
//!     the real code gives equal keys), so that a genuine bucket collision (different keys, same
//!     index: documented, "old entry forgotten") can be told from a wrong key (streams merged);
//!   * what the request handler produced before RRL (response or not, extended RCODE, OPT):
//!     taken from a second `Server` with the same catalog and rate limiting off;
//!   * `thread_rng` (slip ≥ 2): whether a limited response was observed slipped;
//!   * time: `verif_rrl_shift(secs)` is the only source of elapsed whole seconds. A history is
//!     executed in well under a second of real time (measured from before `Server::new` to after
//!     the last request; histories that took longer than `MAX_REAL` are discarded and re-run,
//!     their number is reported as the op `rrl-discarded-<n>`). Every bucket keeps the sub-second
//!     phase of its creation instant, so with less than a second of real time in total the whole
//!     seconds seen by `process_response` are exactly the sum of the shifts: timing cannot flip
//!     a decision.
//!   * sub-second phases (does the refill keep the phase of the stream's first response?): a few
//!     histories contain real sleeps `w<ms>`; they are built so that every request is at least
//!     0.2 s away from a whole-second boundary of its bucket, the model runs on the nominal times,
//!     and the history is discarded when the real clock ran more than `MAX_REAL` (0.15 s) ahead.
#![allow(unused)]
use crate::common::*;
use quandary::class::Class;
use quandary::db::catalog::Entry;
use quandary::db::zone::GluePolicy;
use quandary::db::{HashMapTreeCatalog, HashMapTreeZone};
use quandary::message::ExtendedRcode;
use quandary::name::Name;
use quandary::rr::{Rdata, Ttl, Type};
use quandary::server::{ReceivedInfo, Response, RrlParams, Server, Transport};
use std::net::{IpAddr, Ipv4Addr, Ipv6Addr};
use std::sync::{Arc, Barrier, OnceLock};
use std::time::{Duration, Instant};

type Cat = HashMapTreeCatalog<HashMapTreeZone, ()>;

/// how far the real clock may run ahead of the nominal time of a history (sum of its `w` sleeps)
const MAX_REAL: Duration = Duration::from_millis(150);

// ------------------------------------------------------------------------------------------------
// fixture: a tiny catalog that can provoke every RCODE class
// ------------------------------------------------------------------------------------------------

fn nm(s: &str) -> Box<Name> {
    s.parse().unwrap()
}

fn rd(v: Vec<u8>) -> Box<Rdata> {
    v.try_into().unwrap()
}

fn catalog() -> Arc<Cat> {
    static C: OnceLock<Arc<Cat>> = OnceLock::new();
    C.get_or_init(|| {
        let apex = nm("example.");
        let mut z = HashMapTreeZone::new(apex.clone(), Class::IN, GluePolicy::Narrow);
        let mut soa = Vec::new();
        soa.extend_from_slice(nm("ns.example.").wire_repr());
        soa.extend_from_slice(nm("admin.example.").wire_repr());
        for v in [1u32, 3600, 600, 86400, 300] {
            soa.extend_from_slice(&v.to_be_bytes());
        }
        let t = Ttl::from(300);
        z.add(&apex, Type::SOA, Class::IN, t, &rd(soa)).unwrap();
        z.add(&apex, Type::NS, Class::IN, t, &rd(nm("ns.example.").wire_repr().to_vec())).unwrap();
        z.add(&nm("ns.example."), Type::A, Class::IN, t, &rd(vec![192, 0, 2, 53])).unwrap();
        z.add(&nm("a.example."), Type::A, Class::IN, t, &rd(vec![192, 0, 2, 1])).unwrap();
        z.add(&nm("b.example."), Type::A, Class::IN, t, &rd(vec![192, 0, 2, 2])).unwrap();
        z.add(&nm("*.w.example."), Type::A, Class::IN, t, &rd(vec![192, 0, 2, 3])).unwrap();
        z.add(&nm("*.w.example."), Type::TXT, Class::IN, t, &rd(vec![2, b'h', b'i'])).unwrap();
        let mut c = Cat::new();
        c.insert(Entry::Loaded(Arc::new(z), ()));
        c.insert(Entry::NotYetLoaded(nm("broken."), Class::IN, ()));
        Arc::new(c)
    })
    .clone()
}

fn wildcard_parent() -> &'static Name {
    static N: OnceLock<Box<Name>> = OnceLock::new();
    N.get_or_init(|| nm("w.example."))
}

fn wildcard() -> &'static Name {
    static N: OnceLock<Box<Name>> = OnceLock::new();
    N.get_or_init(|| nm("*.w.example."))
}

// ------------------------------------------------------------------------------------------------
// request encoder / response decoder (the harness's own, a few lines each)
// ------------------------------------------------------------------------------------------------

#[derive(Clone, Copy, PartialEq, Eq)]
enum Shape {
    Normal,
    TruncatedQuestion, // FORMERR, no question read
    TwoQuestions,      // QDCOUNT = 2: ignored, no response
    QrSet,             // a response: ignored
}

fn encode_request(id: u16, opcode: u8, qname: &[u8], qtype: u16, qclass: u16, edns_version: Option<u8>, shape: Shape) -> Vec<u8> {
    let mut m = Vec::with_capacity(64);
    m.extend_from_slice(&id.to_be_bytes());
    let mut b2 = (opcode & 0xf) << 3;
    b2 |= 1; // RD
    if shape == Shape::QrSet {
        b2 |= 0x80;
    }
    m.push(b2);
    m.push(0);
    let qd: u16 = if shape == Shape::TwoQuestions { 2 } else { 1 };
    m.extend_from_slice(&qd.to_be_bytes());
    m.extend_from_slice(&[0, 0, 0, 0]);
    let ar: u16 = if edns_version.is_some() && shape != Shape::TruncatedQuestion { 1 } else { 0 };
    m.extend_from_slice(&ar.to_be_bytes());
    m.extend_from_slice(qname);
    m.extend_from_slice(&qtype.to_be_bytes());
    m.extend_from_slice(&qclass.to_be_bytes());
    if shape == Shape::TwoQuestions {
        m.extend_from_slice(qname);
        m.extend_from_slice(&qtype.to_be_bytes());
        m.extend_from_slice(&qclass.to_be_bytes());
    }
    if shape == Shape::TruncatedQuestion {
        let cut = 12 + qname.len() / 2;
        m.truncate(cut.max(12));
        return m;
    }
    if let Some(v) = edns_version {
        m.push(0);
        m.extend_from_slice(&41u16.to_be_bytes());
        m.extend_from_slice(&1232u16.to_be_bytes());
        m.extend_from_slice(&[0, v, 0, 0]);
        m.extend_from_slice(&[0, 0]);
    }
    m
}

#[derive(Debug, Clone, Copy, Default)]
struct RespInfo {
    tc: bool,
    an: u16,
    ns: u16,
    ar: u16,
    opt: u16,
    ext_rcode: u16,
}

fn skip_name(m: &[u8], mut i: usize) -> Option<usize> {
    loop {
        let l = *m.get(i)? as usize;
        if l == 0 {
            return Some(i + 1);
        } else if l >= 0xc0 {
            m.get(i + 1)?;
            return Some(i + 2);
        } else {
            i += 1 + l;
        }
    }
}

fn parse_response(m: &[u8]) -> Option<RespInfo> {
    if m.len() < 12 {
        return None;
    }
    let u16at = |i: usize| -> Option<u16> { Some(u16::from_be_bytes([*m.get(i)?, *m.get(i + 1)?])) };
    let mut info = RespInfo { tc: m[2] & 0x02 != 0, an: u16at(6)?, ns: u16at(8)?, ar: u16at(10)?, opt: 0, ext_rcode: (m[3] & 0x0f) as u16 };
    let qd = u16at(4)?;
    let mut i = 12;
    for _ in 0..qd {
        i = skip_name(m, i)? + 4;
    }
    let total = info.an as usize + info.ns as usize + info.ar as usize;
    for _ in 0..total {
        i = skip_name(m, i)?;
        let ty = u16at(i)?;
        let rdlen = u16at(i + 8)? as usize;
        if ty == 41 {
            info.opt += 1;
            let upper = *m.get(i + 4)? as u16;
            info.ext_rcode |= upper << 4;
        }
        i += 10 + rdlen;
    }
    if i != m.len() {
        return None;
    }
    Some(info)
}

// ------------------------------------------------------------------------------------------------
// scripts
// ------------------------------------------------------------------------------------------------

#[derive(Clone, Debug)]
struct Params {
    ne: u32,
    nx: u32,
    er: u32,
    window: u32,
    slip: usize,
    v4len: u8,
    v6len: u8,
    size: usize,
}

impl Params {
    fn text(&self) -> String {
        format!("{} {} {} {} {} {} {} {}", self.ne, self.nx, self.er, self.window, self.slip, self.v4len, self.v6len, self.size)
    }
    fn build(&self) -> Result<RrlParams, String> {
        let e = |x: quandary::server::RrlParamError| format!("err:{:?}", x);
        let mut p = RrlParams::new(self.ne, self.nx, self.er, self.window).map_err(e)?;
        p.set_slip(self.slip);
        // A user who wants the documented defaults (/24 and /56, rrl.rs "Defaults") does not call
        // the prefix setters at all: for half of such configurations (chosen by the parity of
        // other parameters, so a replay is exact) rely on what `RrlParams::new` put there.  The
        // model and the specification always see the explicit lengths 24 / 56.
        let rely_on_defaults = (self.ne ^ self.window) & 1 == 0;
        if !(rely_on_defaults && self.v4len == 24) {
            p.set_ipv4_prefix_len(self.v4len).map_err(e)?;
        }
        if !(rely_on_defaults && self.v6len == 56) {
            p.set_ipv6_prefix_len(self.v6len).map_err(e)?;
        }
        p.set_size(self.size).map_err(e)?;
        Ok(p)
    }
}

#[derive(Clone, Debug)]
enum SStep {
    Shift(u64),
    Wait(u64),
    Q { src: IpAddr, udp: bool, req: Vec<u8> },
}

fn src_hex(a: &IpAddr) -> String {
    match a {
        IpAddr::V4(v) => format!("{:08x}", u32::from(*v)),
        IpAddr::V6(v) => format!("{:032x}", u128::from(*v)),
    }
}

fn src_unhex(s: &str) -> Option<IpAddr> {
    if s.len() == 8 {
        Some(IpAddr::V4(Ipv4Addr::from(u32::from_str_radix(s, 16).ok()?)))
    } else if s.len() == 32 {
        Some(IpAddr::V6(Ipv6Addr::from(u128::from_str_radix(s, 16).ok()?)))
    } else {
        None
    }
}

/// the harness's own reading of "IPv4-mapped IPv6 counts as IPv4" (used for the probe only)
fn canonical(a: IpAddr) -> IpAddr {
    match a {
        IpAddr::V6(v) => {
            let n = u128::from(v);
            if n >> 32 == 0xffff {
                IpAddr::V4(Ipv4Addr::from(n as u32))
            } else {
                a
            }
        }
        _ => a,
    }
}

/// the question's QNAME as the server reads it (None if QDCOUNT ≠ 1 or it does not parse)
fn question_of(req: &[u8]) -> Option<Box<Name>> {
    if req.len() < 12 || u16::from_be_bytes([req[4], req[5]]) != 1 {
        return None;
    }
    let (n, len) = Name::try_from_compressed(req, 12).ok()?;
    if req.len() < 12 + len + 4 {
        return None;
    }
    Some(n)
}

struct Exec {
    case: String,
    result: String,
    /// first-occurrence relabelling of bucket indices and QNAME hashes (for replays)
    pattern: (Vec<usize>, Vec<usize>),
}

fn relabel<T: PartialEq + Copy>(xs: &[T]) -> Vec<usize> {
    let mut seen: Vec<T> = Vec::new();
    xs.iter()
        .map(|x| match seen.iter().position(|y| y == x) {
            Some(i) => i,
            None => {
                seen.push(*x);
                seen.len() - 1
            }
        })
        .collect()
}

thread_local! {
    static BUF: std::cell::RefCell<Vec<u8>> = std::cell::RefCell::new(vec![0u8; 65535]);
    static BUF2: std::cell::RefCell<Vec<u8>> = std::cell::RefCell::new(vec![0u8; 65535]);
}

/// Execute one history. `Err(result)` for configuration errors; `Ok(None)` if the real clock
/// advanced too far (discard).
fn exec(p: &Params, steps: &[SStep]) -> Result<Option<Exec>, String> {
    let cat = catalog();
    let reference = Server::new(cat.clone());
    let t_start = Instant::now();
    let mut server = Server::new(cat);
    server.set_rrl_params(Some(p.build()?));
    // four more servers with the same parameters (table size 1031), never sent a request: two
    // responses get the same key class iff all four fresh `RandomState`s put them in the same
    // bucket (and masked destination and QNAME hash agree) — the identity of the *key* the real
    // code computes, independent of collisions in the table under test (error < 10⁻¹²)
    let key_probes: Vec<Server<Cat>> = (0..4).map(|_| {
        let mut s = Server::new(catalog());
        s.set_rrl_params(Some(Params { size: 1031, ..p.clone() }.build().unwrap()));
        s
    }).collect();
    let mut sigs: Vec<(u64, u32, [usize; 4])> = Vec::new();
    let mut toks: Vec<String> = Vec::new();
    let mut panicked = false;
    let mut nominal = Duration::ZERO;
    let mut parts: Vec<String> = Vec::new();
    let mut idxs = Vec::new();
    let mut hashes = Vec::new();
    let root = nm(".");
    BUF.with(|b| {
        BUF2.with(|b2| {
            let mut buf = b.borrow_mut();
            let mut rbuf = b2.borrow_mut();
            for st in steps {
                match st {
                    SStep::Shift(secs) => {
                        server.verif_rrl_shift(*secs);
                        parts.push(format!("s{}", secs));
                    }
                    SStep::Wait(ms) => {
                        std::thread::sleep(Duration::from_millis(*ms));
                        nominal += Duration::from_millis(*ms);
                        parts.push(format!("w{}", ms));
                    }
                    SStep::Q { src, udp, req } => {
                        let tr = if *udp { Transport::Udp } else { Transport::Tcp };
                        // what the handler produces without rate limiting
                        let rlen = match reference.handle_message(req, ReceivedInfo::new(*src, tr), &mut rbuf[..]) {
                            Response::Single(n) => Some(n),
                            Response::None => None,
                        };
                        let rinfo = rlen.and_then(|n| parse_response(&rbuf[..n]));
                        let opcode = if req.len() >= 3 { (req[2] >> 3) & 0xf } else { 0 };
                        let rcode = rinfo.map(|i| i.ext_rcode).unwrap_or(0);
                        let edns = rinfo.map(|i| i.opt > 0).unwrap_or(false);
                        let qname = question_of(req);
                        let sos: Option<&Name> = match &qname {
                            Some(q) if rlen.is_some() && rcode == 0 && opcode == 0
                                && q.eq_or_subdomain_of(wildcard_parent())
                                && **q != *wildcard_parent()
                                && **q != *wildcard() => Some(wildcard()),
                            _ => None,
                        };
                        let stream_name: &Name = sos.or(qname.as_deref()).unwrap_or(&root);
                        let (idx, dest, qhash) = server
                            .verif_rrl_probe(canonical(*src), stream_name, ExtendedRcode::from(rcode))
                            .expect("rrl enabled");
                        idxs.push(idx);
                        hashes.push(qhash);
                        let mut four = [0usize; 4];
                        for (i, ks) in key_probes.iter().enumerate() {
                            four[i] = ks.verif_rrl_probe(canonical(*src), stream_name, ExtendedRcode::from(rcode)).unwrap().0;
                        }
                        let sig = (dest, qhash, four);
                        let kc = match sigs.iter().position(|x| *x == sig) {
                            Some(i) => i,
                            None => { sigs.push(sig); sigs.len() - 1 }
                        };
                        // the real thing
                        let got = std::panic::catch_unwind(std::panic::AssertUnwindSafe(|| {
                            match server.handle_message(req, ReceivedInfo::new(*src, tr), &mut buf[..]) {
                                Response::Single(n) => Some(n),
                                Response::None => None,
                            }
                        }));
                        let got = match got {
                            Ok(g) => g,
                            Err(_) => {
                                // the real code panicked on this request: the history ends here,
                                // the line still carries every recorded input
                                panicked = true;
                                None
                            }
                        };
                        let mut rnd = false;
                        // the handler's own response is already "TC, no records but OPT": a slipped
                        // copy is the same octets, so sent and slipped cannot be told apart
                        let bare = rinfo.map(|i| i.tc && i.an == 0 && i.ns == 0 && i.ar == i.opt).unwrap_or(false);
                        let tok = match (rlen, got) {
                            _ if panicked => "panic".to_string(),
                            (Some(rn), Some(n)) if bare && buf[..n] == rbuf[..rn] => {
                                rnd = true;
                                "pass".to_string()
                            }
                            (None, None) => "none".to_string(),
                            (None, Some(_)) => "ghost".to_string(),
                            (Some(_), None) => {
                                if p.slip >= 2 { "lim".to_string() } else { "drop".to_string() }
                            }
                            (Some(rn), Some(n)) => {
                                if buf[..n] == rbuf[..rn] {
                                    "send".to_string()
                                } else {
                                    match parse_response(&buf[..n]) {
                                        None => "garbled".to_string(),
                                        Some(i) => {
                                            rnd = true;
                                            let e = if edns { 1 } else { 0 };
                                            // besides TC and the removed records nothing may change
                                            let same_head = buf[..2] == rbuf[..2] && buf[2] & !0x02 == rbuf[2] & !0x02
                                                && buf[3] == rbuf[3] && buf[4..6] == rbuf[4..6];
                                            if p.slip >= 2 && i.tc && i.an == 0 && i.ns == 0 && i.ar == e && i.opt == e && same_head {
                                                "lim".to_string()
                                            } else {
                                                format!("slip:{}:{}:{}:{}:{}{}", i.tc as u8, i.an, i.ns, i.ar, i.opt,
                                                        if same_head { "" } else { "!head" })
                                            }
                                        }
                                    }
                                }
                            }
                        };
                        toks.push(tok);
                        let hexname = |n: Option<&Name>| n.map(|n| hex(n.wire_repr())).unwrap_or_else(|| "-".into());
                        parts.push(format!(
                            "q,{},{},{},{},{},{},{},{},{},{},{},{},{},{},{}",
                            src_hex(src), if *udp { "u" } else { "t" }, hex(req), opcode,
                            rlen.is_some() as u8, rcode, hexname(qname.as_deref()), hexname(sos),
                            edns as u8, rnd as u8, idx, dest, qhash, kc, bare as u8
                        ));
                        if panicked {
                            break;
                        }
                    }
                }
            }
        })
    });
    if t_start.elapsed() > nominal + MAX_REAL {
        return Ok(None);
    }
    Ok(Some(Exec {
        case: format!("rrl {} {}", p.text(), parts.join(";")),
        result: if panicked { "panic".to_string() } else { format!("ok {}", toks.join(",")) },
        pattern: (relabel(&idxs), relabel(&hashes)),
    }))
}

fn parse_params(a: &[&str]) -> Option<Params> {
    Some(Params {
        ne: a[0].parse().ok()?,
        nx: a[1].parse().ok()?,
        er: a[2].parse().ok()?,
        window: a[3].parse().ok()?,
        slip: a[4].parse().ok()?,
        v4len: a[5].parse().ok()?,
        v6len: a[6].parse().ok()?,
        size: a[7].parse().ok()?,
    })
}

/// a case line back into a script, plus the recorded collision pattern
fn parse_case(a: &[&str]) -> Option<(Params, Vec<SStep>, (Vec<usize>, Vec<usize>))> {
    if a.len() != 9 {
        return None;
    }
    let p = parse_params(a)?;
    let mut steps = Vec::new();
    let (mut idxs, mut hashes) = (Vec::new(), Vec::new());
    for s in a[8].split(';') {
        if let Some(n) = s.strip_prefix('s') {
            steps.push(SStep::Shift(n.parse().ok()?));
        } else if let Some(n) = s.strip_prefix('w') {
            steps.push(SStep::Wait(n.parse().ok()?));
        } else {
            let f: Vec<&str> = s.split(',').collect();
            if f.len() != 16 || f[0] != "q" {
                return None;
            }
            steps.push(SStep::Q { src: src_unhex(f[1])?, udp: f[2] == "u", req: unhex(f[3])? });
            idxs.push(f[11].parse::<usize>().ok()?);
            hashes.push(f[13].parse::<u32>().ok()?);
        }
    }
    Some((p, steps, (relabel(&idxs), relabel(&hashes))))
}

pub fn run(op: &str, a: &[&str]) -> Option<String> {
    match op {
        "rrl" => Some(guarded(|| {
            let Some((p, steps, pattern)) = parse_case(a) else { return "bad-op".into() };
            // `RandomState` is fresh for every server: re-run until the bucket-collision and
            // hash-equality pattern of the recorded history is reproduced (the model depends on
            // nothing else of the recorded indices and hashes)
            let mut last = "unreplayable".to_string();
            for _ in 0..20000 {
                match exec(&p, &steps) {
                    Err(e) => return e,
                    Ok(None) => continue,
                    Ok(Some(x)) => {
                        if x.pattern == pattern {
                            return x.result;
                        }
                        last = x.result;
                    }
                }
            }
            last
        })),
        "burst" => Some(guarded(|| {
            let v: Option<Vec<u64>> = a.iter().map(|s| s.parse::<u64>().ok()).collect();
            match v {
                Some(v) if v.len() == 10 => burst(&v).unwrap_or_else(|| "timing".to_string()),
                _ => "bad-op".into(),
            }
        })),
        "bursts" => Some(guarded(|| {
            let v: Option<Vec<u64>> = a.iter().map(|s| s.parse::<u64>().ok()).collect();
            match v {
                Some(v) if v.len() == 9 => bursts(&v).unwrap_or_else(|| "timing".to_string()),
                _ => "bad-op".into(),
            }
        })),
        _ if op.starts_with("rrl-discarded-") => Some("ok".into()),
        _ => None,
    }
}

// ------------------------------------------------------------------------------------------------
// C28: bursts from real threads
// ------------------------------------------------------------------------------------------------

/// args: ne nx er window slip size pre threads per yield
fn burst(v: &[u64]) -> Option<String> {
    let p = Params { ne: v[0] as u32, nx: v[1] as u32, er: v[2] as u32, window: v[3] as u32, slip: v[4] as usize, v4len: 24, v6len: 56, size: v[5] as usize };
    let (pre, threads, per, yields) = (v[6] as usize, v[7] as usize, v[8] as usize, v[9] != 0);
    let params = match p.build() {
        Ok(x) => x,
        Err(e) => return Some(e),
    };
    drop(params);
    let req = encode_request(0x1234, 0, nm("a.example.").wire_repr(), 1, 1, None, Shape::Normal);
    let src = IpAddr::V4(Ipv4Addr::new(192, 0, 2, 77));
    for _attempt in 0..8 {
        let cat = catalog();
        let t_start = Instant::now();
        let mut server = Server::new(cat);
        server.set_rrl_params(Some(p.build().unwrap()));
        let mut buf = vec![0u8; 2048];
        for _ in 0..pre {
            let _ = server.handle_message(&req, ReceivedInfo::new(src, Transport::Udp), &mut buf);
        }
        let barrier = Barrier::new(threads);
        let server = &server;
        let req = &req;
        let barrier = &barrier;
        let counts: Vec<(usize, usize, usize)> = std::thread::scope(|s| {
            let hs: Vec<_> = (0..threads)
                .map(|t| {
                    s.spawn(move || {
                        let mut buf = vec![0u8; 2048];
                        let (mut sent, mut slipped, mut dropped) = (0, 0, 0);
                        barrier.wait();
                        for k in 0..per {
                            match server.handle_message(req, ReceivedInfo::new(src, Transport::Udp), &mut buf) {
                                Response::None => dropped += 1,
                                Response::Single(_) => {
                                    if buf[2] & 0x02 != 0 { slipped += 1 } else { sent += 1 }
                                }
                            }
                            if yields && (k + t) % 3 == 0 {
                                std::thread::yield_now();
                            }
                        }
                        (sent, slipped, dropped)
                    })
                })
                .collect();
            hs.into_iter().map(|h| h.join().unwrap()).collect()
        });
        if t_start.elapsed() > Duration::from_millis(500) {
            continue;
        }
        let (s, sl, d) = counts.iter().fold((0, 0, 0), |a, c| (a.0 + c.0, a.1 + c.1, a.2 + c.2));
        return Some(if p.slip >= 2 { format!("ok {} {}", s, sl + d) } else { format!("ok {} {} {}", s, sl, d) });
    }
    None
}

/// `bursts`: like `burst`, but `rounds` bursts against ONE server, each on a never-seen /24 source,
/// i.e. the concurrent requests are the *first* requests of their stream (the bucket does not hold
/// the stream's key yet). Threads are aligned by a spinning barrier before and after every round
/// (a plain `Barrier` wakes threads too far apart to exercise the window between "is this my
/// stream's bucket?" and the update). args: ne nx er window slip size rounds threads per
fn bursts(v: &[u64]) -> Option<String> {
    use std::sync::atomic::{AtomicUsize, Ordering};
    let p = Params { ne: v[0] as u32, nx: v[1] as u32, er: v[2] as u32, window: v[3] as u32, slip: v[4] as usize, v4len: 24, v6len: 56, size: v[5] as usize };
    let (rounds, threads, per) = (v[6] as usize, v[7] as usize, v[8] as usize);
    if let Err(e) = p.build() { return Some(e); }
    let req = encode_request(0x1234, 0, nm("a.example.").wire_repr(), 1, 1, None, Shape::Normal);
    for _attempt in 0..8 {
        let cat = catalog();
        let mut server = Server::new(cat);
        server.set_rrl_params(Some(p.build().unwrap()));
        let arrived = AtomicUsize::new(0);
        let slow = AtomicUsize::new(0);
        let server = &server;
        let req = &req;
        let arrived = &arrived;
        let slow = &slow;
        let counts: Vec<(usize, usize, usize)> = std::thread::scope(|s| {
            let hs: Vec<_> = (0..threads)
                .map(|_t| {
                    s.spawn(move || {
                        let mut buf = vec![0u8; 2048];
                        let (mut sent, mut slipped, mut dropped) = (0, 0, 0);
                        let mut phase = 0usize;
                        let mut wait = |phase: &mut usize| {
                            *phase += 1;
                            arrived.fetch_add(1, Ordering::SeqCst);
                            while arrived.load(Ordering::SeqCst) < *phase * threads { std::hint::spin_loop(); }
                        };
                        for r in 0..rounds {
                            let src = IpAddr::V4(Ipv4Addr::new(10, (r >> 8) as u8, r as u8, 77));
                            wait(&mut phase);
                            let t0 = Instant::now();
                            for _ in 0..per {
                                match server.handle_message(req, ReceivedInfo::new(src, Transport::Udp), &mut buf) {
                                    Response::None => dropped += 1,
                                    Response::Single(_) => { if buf[2] & 0x02 != 0 { slipped += 1 } else { sent += 1 } }
                                }
                            }
                            wait(&mut phase);
                            // every stream must live well inside one second of its own first response
                            if t0.elapsed() > Duration::from_millis(400) { slow.fetch_add(1, Ordering::SeqCst); }
                        }
                        (sent, slipped, dropped)
                    })
                })
                .collect();
            hs.into_iter().map(|h| h.join().unwrap()).collect()
        });
        if slow.load(Ordering::SeqCst) > 0 { continue; }
        let (s, sl, d) = counts.iter().fold((0, 0, 0), |a, c| (a.0 + c.0, a.1 + c.1, a.2 + c.2));
        return Some(if p.slip >= 2 { format!("ok {} {}", s, sl + d) } else { format!("ok {} {} {}", s, sl, d) });
    }
    None
}

// ------------------------------------------------------------------------------------------------
// generators
// ------------------------------------------------------------------------------------------------

const NOERROR_NAMES: [&str; 6] = ["a.example.", "A.Example.", "b.example.", "example.", "a.EXAMPLE.", "ns.example."];
const WILD_NAMES: [&str; 6] = ["x.w.example.", "y.w.example.", "X.W.Example.", "*.w.example.", "deep.x.w.example.", "*.W.example."];
const NX_NAMES: [&str; 4] = ["nx.example.", "other.example.", "NX.example.", "z.y.example."];
const REFUSED_NAMES: [&str; 3] = ["other.", "example.org.", "."];
const SERVFAIL_NAMES: [&str; 2] = ["broken.", "x.broken."];

/// a request whose response falls into the wanted class (0 noerror, 1 wildcard noerror, 2 nxdomain,
/// 3 refused, 4 servfail, 5 notimp (qtype AXFR), 6 formerr, 7 badvers, 8 non-QUERY opcode,
/// 9 two questions (no response), 10 QR set (no response))
fn gen_request(rng: &mut Rng, class: usize) -> Vec<u8> {
    let id = rng.next() as u16;
    let edns = if rng.chance(1, 4) { Some(0u8) } else { None };
    let qt = *rng.pick(&[1u16, 1, 1, 16, 15, 255]);
    let w = |s: &str| nm(s).wire_repr().to_vec();
    match class {
        0 => encode_request(id, 0, &w(*rng.pick(&NOERROR_NAMES[..])), qt, 1, edns, Shape::Normal),
        1 => encode_request(id, 0, &w(*rng.pick(&WILD_NAMES[..])), qt, 1, edns, Shape::Normal),
        2 => encode_request(id, 0, &w(*rng.pick(&NX_NAMES[..])), qt, 1, edns, Shape::Normal),
        3 => encode_request(id, 0, &w(*rng.pick(&REFUSED_NAMES[..])), qt, 1, edns, Shape::Normal),
        4 => encode_request(id, 0, &w(*rng.pick(&SERVFAIL_NAMES[..])), qt, 1, edns, Shape::Normal),
        5 => encode_request(id, 0, &w(*rng.pick(&NOERROR_NAMES[..])), 252, 1, edns, Shape::Normal),
        6 => encode_request(id, 0, &w(*rng.pick(&NOERROR_NAMES[..])), qt, 1, None, Shape::TruncatedQuestion),
        7 => encode_request(id, 0, &w(*rng.pick(&NOERROR_NAMES[..])), qt, 1, Some(1), Shape::Normal),
        8 => encode_request(id, *rng.pick(&[1u8, 2, 4, 5, 6, 15]), &w(*rng.pick(&NOERROR_NAMES[..])), qt, 1, edns, Shape::Normal),
        9 => encode_request(id, 0, &w(*rng.pick(&NOERROR_NAMES[..])), qt, 1, None, Shape::TwoQuestions),
        11 => tsig_noquestion_request(id),
        _ => encode_request(id, 0, &w(*rng.pick(&NOERROR_NAMES[..])), qt, 1, edns, Shape::QrSet),
    }
}

/// D17: QDCOUNT = 0 and one TSIG record with a 255-octet key name and a 220-octet algorithm name.
/// The key is unknown, the error TSIG of the response does not fit into 512 octets, so the
/// handler answers with TC set, RCODE NOERROR and no question (RFC 8945 §5.3).
fn tsig_noquestion_request(id: u16) -> Vec<u8> {
    let label = |n: usize, c: u8| { let mut v = vec![n as u8]; v.extend(std::iter::repeat(c).take(n)); v };
    let mut key = Vec::new();
    for n in [63, 63, 63, 61] { key.extend(label(n, b'k')); }
    key.push(0);
    let mut alg = Vec::new();
    for n in [63, 63, 63, 26] { alg.extend(label(n, b'g')); }
    alg.push(0);
    let mut rdata = alg;
    rdata.extend_from_slice(&[0, 0, 0, 0, 0, 1]); // time signed
    rdata.extend_from_slice(&300u16.to_be_bytes());
    rdata.extend_from_slice(&6u16.to_be_bytes()); // MAC size
    rdata.extend_from_slice(&[1, 2, 3, 4, 5, 6]);
    rdata.extend_from_slice(&id.to_be_bytes());
    rdata.extend_from_slice(&[0, 0, 0, 0]); // error, other len
    let mut m = Vec::new();
    m.extend_from_slice(&id.to_be_bytes());
    m.extend_from_slice(&[0, 0, 0, 0, 0, 0, 0, 0, 0, 1]); // QUERY, QDCOUNT 0 … ARCOUNT 1
    m.extend(key);
    m.extend_from_slice(&250u16.to_be_bytes());
    m.extend_from_slice(&255u16.to_be_bytes());
    m.extend_from_slice(&[0, 0, 0, 0]);
    m.extend_from_slice(&(rdata.len() as u16).to_be_bytes());
    m.extend(rdata);
    m
}

fn gen_class(rng: &mut Rng) -> usize {
    *rng.pick(&[0, 0, 0, 0, 1, 1, 2, 2, 2, 3, 3, 4, 5, 6, 7, 8, 9, 10, 11])
}

fn log_uniform(rng: &mut Rng, max_exp: u32) -> u64 {
    let e = rng.below(max_exp as usize + 1) as u32;
    let lo = 10u64.pow(e);
    lo + rng.next() % (lo * 9).max(1)
}

fn gen_src(rng: &mut Rng) -> IpAddr {
    match rng.below(10) {
        0..=5 => IpAddr::V4(Ipv4Addr::from(rng.next() as u32)),
        6 => IpAddr::V6(Ipv6Addr::from((0xffffu128 << 32) | (rng.next() as u32 as u128))), // IPv4-mapped
        7 => IpAddr::V4(Ipv4Addr::from(*rng.pick(&[0u32, 1, 0xff, 0xffff_ffff, 0x8000_0000]))),
        _ => IpAddr::V6(Ipv6Addr::from(((rng.next() as u128) << 64) | rng.next() as u128)),
    }
}

/// a source related to `a`: same, one bit flipped around the prefix boundary, IPv4-mapped twin …
fn related_src(rng: &mut Rng, a: IpAddr, v4len: u8, v6len: u8) -> IpAddr {
    match a {
        IpAddr::V4(v) => {
            let n = u32::from(v);
            let l = v4len as i32;
            match rng.below(8) {
                0 => a,
                1 => IpAddr::V6(Ipv6Addr::from((0xffffu128 << 32) | n as u128)),
                2 => IpAddr::V6(Ipv6Addr::from(n as u128)), // ::a.b.c.d — *not* IPv4-mapped
                3 => IpAddr::V4(Ipv4Addr::from(n ^ (rng.next() as u32))),
                4 => IpAddr::V6(Ipv6Addr::from((0xfffeu128 << 32) | n as u128)),
                _ => {
                    // flip the bit number `b` counted from the most significant bit
                    let b = (*rng.pick(&[l - 1, l - 1, l, l, l + 1, l - 2, 0, 31])).clamp(0, 31) as u32;
                    IpAddr::V4(Ipv4Addr::from(n ^ (1u32 << (31 - b))))
                }
            }
        }
        IpAddr::V6(v) => {
            let n = u128::from(v);
            if n >> 32 == 0xffff {
                let v4 = IpAddr::V4(Ipv4Addr::from(n as u32));
                return if rng.chance(1, 2) { v4 } else { related_src(rng, v4, v4len, v6len) };
            }
            let l = v6len as i32;
            match rng.below(6) {
                0 => a,
                1 => IpAddr::V6(Ipv6Addr::from(n ^ (rng.next() as u128))), // low 64 bits differ
                2 => IpAddr::V4(Ipv4Addr::from((n >> 96) as u32)),
                _ => {
                    let b = (*rng.pick(&[l - 1, l - 1, l, l, l + 1, 0, 63, 64, 127])).clamp(0, 127) as u32;
                    IpAddr::V6(Ipv6Addr::from(n ^ (1u128 << (127 - b))))
                }
            }
        }
    }
}

fn gen_rates(rng: &mut Rng) -> (u32, u32, u32, u32) {
    // (noerror, nxdomain, error, window) with rate·window < 2^32
    let mut one = |rng: &mut Rng| -> u32 {
        match rng.below(10) {
            0..=4 => rng.range(1, 5) as u32,
            5 => rng.range(6, 100) as u32,
            6 => log_uniform(rng, 5).min(1_000_000) as u32,
            7 => 1_000_000,
            8 => *rng.pick(&[100u32, 65_536, 65_537, 42_949_672, 42_949_673]),
            _ => 1,
        }
    };
    let (a, b, c) = (one(rng), one(rng), one(rng));
    let m = a.max(b).max(c) as u64;
    let wmax = (((1u64 << 32) - 1) / m).min(100).max(1);
    let w = match rng.below(4) {
        0 => 1,
        1 => wmax,
        _ => 1 + rng.next() % wmax.min(6),
    } as u32;
    (a, b, c, w)
}

fn gen_gap(rng: &mut Rng, rate: u32, window: u32) -> u64 {
    let q = (1u64 << 32) / rate as u64;
    match rng.below(14) {
        0 => 0,
        1 => 1,
        2 => 2,
        3 => window as u64,
        4 => (window as u64).saturating_sub(1),
        5 => window as u64 + 1,
        6 => rng.range(1, 100) as u64,
        7 => log_uniform(rng, 8),
        8 => 1_000_000_000,
        9 => q.saturating_sub(1).max(1),
        10 => q.max(1),
        11 => q + 1,
        12 => *rng.pick(&[(1u64 << 32) - 1, 1u64 << 32, (1u64 << 32) + 1, (1u64 << 33) + 3, (1u64 << 32) + q]),
        _ => rng.range(1, 5) as u64,
    }
}

/// C26: one main stream driven to exhaustion, idle gaps of every size, a few other streams
fn gen_history(rng: &mut Rng) -> (Params, Vec<SStep>) {
    let (ne, nx, er, window) = gen_rates(rng);
    let p = Params {
        ne, nx, er, window,
        slip: *rng.pick(&[0usize, 0, 1, 1, 2, 5]),
        v4len: *rng.pick(&[24u8, 24, 32, 0, 8, 31, 1]),
        v6len: *rng.pick(&[56u8, 56, 64, 0, 48, 63, 1]),
        size: *rng.pick(&[1usize, 2, 3, 17, 1009, 1009, 1009, 65537]),
    };
    let main_class = *rng.pick(&[0usize, 0, 0, 1, 2, 3, 6, 11]);
    let main_req = gen_request(rng, main_class);
    let main_src = gen_src(rng);
    let rate = match main_class { 0 | 1 | 11 => ne, 2 => nx, _ => er };
    let cap = rate as u64 * window as u64;
    let others: Vec<(IpAddr, Vec<u8>)> = (0..rng.below(4)).map(|_| {
        let c = gen_class(rng);
        (if rng.chance(1, 2) { related_src(rng, main_src, p.v4len, p.v6len) } else { gen_src(rng) }, gen_request(rng, c))
    }).collect();
    let mut steps = Vec::new();
    let rounds = rng.range(1, 5);
    let mut budget = 120usize;
    for r in 0..rounds {
        // a run of the main stream, aimed at the capacity when it is small enough
        let k = if cap <= 40 {
            (cap as i64 + *rng.pick(&[-1i64, 0, 1, 2, 3])).max(1) as usize
        } else {
            rng.range(1, 6)
        };
        for _ in 0..k.min(budget) {
            steps.push(SStep::Q { src: main_src, udp: true, req: main_req.clone() });
            budget = budget.saturating_sub(1);
            if !others.is_empty() && rng.chance(1, 5) {
                let (s, q) = rng.pick(&others).clone();
                steps.push(SStep::Q { src: s, udp: !rng.chance(1, 8), req: q });
            }
        }
        if r + 1 < rounds {
            steps.push(SStep::Shift(gen_gap(rng, rate, window)));
            if rng.chance(1, 4) {
                steps.push(SStep::Shift(gen_gap(rng, rate, window)));
            }
        }
    }
    (p, steps)
}

/// C27: a few requests under a limit of one response per stream
fn gen_pair(rng: &mut Rng) -> (Params, Vec<SStep>) {
    let (r4, r6) = (rng.below(33) as u8, rng.below(65) as u8);
    let p = Params {
        ne: 1, nx: 1, er: 1, window: 1,
        slip: *rng.pick(&[0usize, 1]),
        v4len: *rng.pick(&[0u8, 1, 8, 16, 24, 24, 25, 31, 32, 32, r4]),
        v6len: *rng.pick(&[0u8, 1, 32, 48, 56, 56, 63, 64, 64, r6]),
        size: *rng.pick(&[65537usize, 65537, 4099, 4099, 4099, 2]),
    };
    let base = gen_src(rng);
    let c0 = gen_class(rng);
    let first = gen_request(rng, c0);
    let mut steps = vec![SStep::Q { src: base, udp: !rng.chance(1, 10), req: first.clone() }];
    for _ in 0..rng.range(1, 4) {
        let src = if rng.chance(3, 4) { related_src(rng, base, p.v4len, p.v6len) } else { gen_src(rng) };
        let req = match rng.below(4) {
            0 => first.clone(),
            1 => gen_request(rng, c0),
            _ => { let c = gen_class(rng); gen_request(rng, c) }
        };
        steps.push(SStep::Q { src, udp: !rng.chance(1, 8), req });
        if rng.chance(1, 12) {
            steps.push(SStep::Shift(1));
        }
    }
    (p, steps)
}

/// C26, sub-second phase: requests at t₀, t₀ + 1.6 s, t₀ + 2.3 s … (shift + real sleeps). The
/// bucket's ticks are at t₀ + n·1 s, so every request is ≥ 0.2 s away from a tick.
fn gen_phase_history(rng: &mut Rng) -> (Params, Vec<SStep>) {
    let rate = rng.range(1, 2) as u32;
    let window = rng.range(1, 2) as u32;
    let p = Params { ne: rate, nx: rate, er: rate, window, slip: *rng.pick(&[0usize, 1]), v4len: 24, v6len: 56, size: 65537 };
    let class = *rng.pick(&[0usize, 1, 2, 3]);
    let req = gen_request(rng, class);
    let src = gen_src(rng);
    let cap = (rate * window) as usize;
    let mut steps = Vec::new();
    let mut burst = |steps: &mut Vec<SStep>, n: usize| {
        for _ in 0..n {
            steps.push(SStep::Q { src, udp: true, req: req.clone() });
        }
    };
    burst(&mut steps, cap + rng.below(2));           // exhaust (or nearly) at t₀
    let w1 = rng.range(550, 700) as u64;              // t₀ + 0.55‥0.70
    steps.push(SStep::Wait(w1));
    if rng.chance(1, 2) {
        burst(&mut steps, 1);                         // still inside the first second
    }
    steps.push(SStep::Shift(rng.range(1, 3) as u64)); // whole seconds: frac unchanged
    burst(&mut steps, rate as usize * 3 + 1);         // refilled by the ticks so far, exhausted again
    let w2 = 1250 - w1 + rng.below(100) as u64;       // nominal frac 0.25‥0.35 of the *next* second
    steps.push(SStep::Wait(w2));
    burst(&mut steps, rate as usize + 1);             // one more tick must have happened
    (p, steps)
}

fn emit_history(p: &Params, steps: &[SStep], em: &mut Emitter, discarded: &mut u64) {
    // histories with real sleeps are expensive: one more attempt only
    let tries = if steps.iter().any(|s| matches!(s, SStep::Wait(_))) { 1 } else { 5 };
    for _ in 0..tries {
        match guarded_exec(p, steps) {
            Ok(Some(x)) => {
                em.emit(&x.case, &x.result);
                return;
            }
            Ok(None) => *discarded += 1,
            Err(e) => {
                // configuration error or panic: the case line carries the script without probes
                let parts: Vec<String> = steps.iter().map(|s| match s {
                    SStep::Shift(n) => format!("s{}", n),
                    SStep::Wait(n) => format!("w{}", n),
                    SStep::Q { src, udp, req } => format!("q,{},{},{},0,0,0,-,-,0,0,0,0,0,0,0", src_hex(src), if *udp { "u" } else { "t" }, hex(req)),
                }).collect();
                em.emit(&format!("rrl {} {}", p.text(), parts.join(";")), &e);
                return;
            }
        }
    }
}

fn guarded_exec(p: &Params, steps: &[SStep]) -> Result<Option<Exec>, String> {
    match std::panic::catch_unwind(std::panic::AssertUnwindSafe(|| exec(p, steps))) {
        Ok(r) => r,
        Err(_) => Err("panic".to_string()),
    }
}

pub fn gen(rng: &mut Rng, thorough: bool, em: &mut Emitter) {
    gen_group("rrl", rng, thorough, em)
}

pub fn gen_group(group: &str, rng: &mut Rng, thorough: bool, em: &mut Emitter) {
    let mut discarded = 0u64;
    match group {
        "rrl" => {
            // fixed regression histories first: D10 (rate 100, idle 42 949 673 s; idle 2^32 s)
            let q = |s: &str| SStep::Q { src: IpAddr::V4(Ipv4Addr::new(192, 0, 2, 1)), udp: true,
                                         req: encode_request(7, 0, nm(s).wire_repr(), 1, 1, None, Shape::Normal) };
            let base = Params { ne: 100, nx: 100, er: 100, window: 1, slip: 0, v4len: 24, v6len: 56, size: 65537 };
            emit_history(&base, &[q("a.example."), SStep::Shift(42_949_673), q("a.example.")], em, &mut discarded);
            let one = Params { ne: 1, nx: 1, er: 1, window: 1, ..base.clone() };
            emit_history(&one, &[q("a.example."), q("a.example."), SStep::Shift(1u64 << 32), q("a.example."), q("a.example.")], em, &mut discarded);
            emit_history(&one, &[q("a.example."), q("a.example."), SStep::Shift(1), q("a.example."), q("a.example.")], em, &mut discarded);
            // D17: a NOERROR response without question (root-name stream), limit 1, slip 0 and slip 1
            let t = SStep::Q { src: IpAddr::V4(Ipv4Addr::new(192, 0, 2, 1)), udp: true, req: tsig_noquestion_request(9) };
            emit_history(&one, &[t.clone(), t.clone(), SStep::Shift(1), t.clone(), q("."), q(".")], em, &mut discarded);
            emit_history(&Params { slip: 1, ..one.clone() }, &[t.clone(), t.clone(), q("a.example."), t.clone()], em, &mut discarded);
            // invalid configurations
            for bad in [
                Params { ne: 0, ..one.clone() }, Params { nx: 0, ..one.clone() }, Params { er: 0, ..one.clone() },
                Params { window: 0, ..one.clone() }, Params { ne: 65536, window: 65536, ..one.clone() },
                Params { v4len: 33, ..one.clone() }, Params { v6len: 65, ..one.clone() }, Params { size: 0, ..one.clone() },
                Params { ne: 65537, window: 65535, ..one.clone() },
            ] {
                emit_history(&bad, &[q("a.example.")], em, &mut discarded);
            }
            // sub-second phases: real sleeps, so run them side by side
            let k = if thorough { 64 } else { 16 };
            let scripts: Vec<(Params, Vec<SStep>)> = (0..k).map(|_| gen_phase_history(rng)).collect();
            let results: Vec<Result<Option<Exec>, String>> = std::thread::scope(|s| {
                let hs: Vec<_> = scripts.iter().map(|(p, st)| s.spawn(move || guarded_exec(p, st))).collect();
                hs.into_iter().map(|h| h.join().unwrap_or(Err("panic".into()))).collect()
            });
            for ((p, steps), r) in scripts.iter().zip(results) {
                match r {
                    Ok(Some(x)) => em.emit(&x.case, &x.result),
                    _ => emit_history(p, steps, em, &mut discarded), // drifted or failed: once more, alone
                }
            }
            let n = if thorough { 60_000 } else { 5_000 };
            for _ in 0..n {
                let (p, steps) = gen_history(rng);
                emit_history(&p, &steps, em, &mut discarded);
            }
        }
        "rrlkey" => {
            let n = if thorough { 200_000 } else { 20_000 };
            for _ in 0..n {
                let (p, steps) = gen_pair(rng);
                emit_history(&p, &steps, em, &mut discarded);
            }
        }
        _ => {
            let n = if thorough { 400 } else { 60 };
            for i in 0..n {
                let threads = if i < 16 { i + 1 } else { rng.range(1, 16) };
                let per = *rng.pick(&[1usize, 2, 10, 50, 200, 500]);
                let total = (threads * per) as u64;
                let slip = *rng.pick(&[0u64, 1, 2]);
                // capacity around the burst size, tiny, or far above
                let cap = match rng.below(6) {
                    0 => 1,
                    1 => total,
                    2 => total + 1,
                    3 => total.saturating_sub(1).max(1),
                    4 => (total / 2).max(1),
                    _ => total * 3 + 7,
                };
                let window = *rng.pick(&[1u64, 1, 2, 5]);
                let rate = (cap / window).max(1);
                let pre = match rng.below(4) { 0 => rng.below(5) as u64, 1 => (rate * window) / 2, _ => 0 };
                let size = *rng.pick(&[1u64, 3, 1009, 65537]);
                let yields = rng.below(2) as u64;
                let v = [rate, rate, rate, window, slip, size, pre, threads as u64, per as u64, yields];
                let case = format!("burst {}", v.iter().map(|x| x.to_string()).collect::<Vec<_>>().join(" "));
                match burst(&v) {
                    Some(r) => em.emit(&case, &r),
                    None => discarded += 1,
                }
            }
            // fresh-stream bursts: the concurrent requests are the first of their stream
            let n2 = if thorough { 200 } else { 40 };
            for _ in 0..n2 {
                let threads = rng.range(2, 16);
                let per = *rng.pick(&[1usize, 2, 4, 8]);
                let total = (threads * per) as u64;
                let slip = *rng.pick(&[0u64, 1, 2]);
                let cap = match rng.below(5) { 0 => 1, 1 => (total / 3).max(1), 2 => (total / 2).max(1), 3 => total.saturating_sub(1).max(1), _ => 5 };
                let rounds = *rng.pick(&[50u64, 200, 400]);
                let size = *rng.pick(&[1u64, 3, 1009, 65537]);
                let v = [cap, cap, cap, 1, slip, size, rounds, threads as u64, per as u64];
                let case = format!("bursts {}", v.iter().map(|x| x.to_string()).collect::<Vec<_>>().join(" "));
                match bursts(&v) {
                    Some(r) => em.emit(&case, &r),
                    None => discarded += 1,
                }
            }
        }
    }
    em.emit(&format!("rrl-discarded-{}", discarded), "ok");
}
