//! group `catalog` — C22: `HashMapTreeCatalog` (src/db/hash_map_tree/catalog.rs), the default
//! `Catalog::get` (src/db/catalog.rs) and `SingleZoneCatalog` (src/db/single_zone_catalog.rs).
//!
//! One case = one whole history (see lean/QV/Driver/Catalog.lean for the syntax). `Loaded`
//! entries hold a real `Arc<HashMapTreeZone>`; the metadata is `(id, serial)` where `serial` is
//! the index of the inserting step, and every `Loaded` entry read back is checked to still hold
//! the very `Arc` that was inserted with it (pointer identity) — a mismatch prints `!z`.
use crate::common::*;
use quandary::class::Class;
use quandary::db::catalog::Entry;
use quandary::db::zone::GluePolicy;
use quandary::db::{Catalog, HashMapTreeCatalog, HashMapTreeZone, SingleZoneCatalog, Zone};
use quandary::name::Name;
use std::sync::Arc;

type Meta = (u64, usize);
type E = Entry<HashMapTreeZone, Meta>;

fn name_of(hexs: &str) -> Option<Box<Name>> {
    Name::try_from_uncompressed_all(&unhex(hexs)?).ok()
}

struct Zones(Vec<Option<Arc<HashMapTreeZone>>>);

fn make_entry(f: &[&str], serial: usize, zones: &mut Zones) -> Option<E> {
    let [n, c, i, k] = f else { return None };
    let name = name_of(n)?;
    let class = Class::from(c.parse::<u16>().ok()?);
    let id = i.parse::<u64>().ok()?;
    while zones.0.len() <= serial {
        zones.0.push(None);
    }
    Some(match *k {
        "L" => {
            let z = Arc::new(HashMapTreeZone::new(name, class, GluePolicy::Narrow));
            zones.0[serial] = Some(z.clone());
            Entry::Loaded(z, (id, serial))
        }
        "N" => Entry::NotYetLoaded(name, class, (id, serial)),
        "F" => Entry::FailedToLoad(name, class, (id, serial)),
        _ => return None,
    })
}

fn show_entry(e: &E, zones: &Zones) -> String {
    let (id, serial) = *e.metadata();
    let (kind, ok) = match e {
        Entry::Loaded(z, _) => (
            "L",
            zones.0.get(serial).and_then(|o| o.as_ref()).map_or(false, |t| Arc::ptr_eq(t, z))
                && z.name() == e.name()
                && z.class() == e.class(),
        ),
        Entry::NotYetLoaded(..) => ("N", true),
        Entry::FailedToLoad(..) => ("F", true),
    };
    format!(
        "{}:{}:{}:{}{}",
        hex(e.name().wire_repr()),
        u16::from(e.class()),
        id,
        kind,
        if ok { "" } else { "!z" }
    )
}

fn show_opt(e: Option<&E>, zones: &Zones) -> String {
    e.map_or("-".to_string(), |e| show_entry(e, zones))
}

fn name_class(f: &[&str]) -> Option<(Box<Name>, Class)> {
    let [n, c] = f else { return None };
    Some((name_of(n)?, Class::from(c.parse::<u16>().ok()?)))
}

fn run_cat(history: &str) -> Option<String> {
    let mut cat: HashMapTreeCatalog<HashMapTreeZone, Meta> = HashMapTreeCatalog::new();
    let mut zones = Zones(Vec::new());
    let mut out: Vec<String> = Vec::new();
    for (serial, step) in history.split(';').enumerate() {
        let f: Vec<&str> = step.split(':').collect();
        match f[0] {
            "it" if f.len() == 1 => {
                let mut v: Vec<String> = cat.iter().map(|e| show_entry(e, &zones)).collect();
                v.sort();
                out.push(if v.is_empty() { "-".into() } else { v.join(",") });
            }
            "i" => {
                let e = make_entry(&f[1..], serial, &mut zones)?;
                let old = cat.insert(e);
                out.push(show_opt(old.as_ref(), &zones));
            }
            "r" => {
                let (n, c) = name_class(&f[1..])?;
                let old = cat.remove(&n, c);
                out.push(show_opt(old.as_ref(), &zones));
            }
            "l" => {
                let (n, c) = name_class(&f[1..])?;
                out.push(show_opt(cat.lookup(&n, c), &zones));
            }
            "g" => {
                let (n, c) = name_class(&f[1..])?;
                out.push(show_opt(cat.get(&n, c), &zones));
            }
            _ => return None,
        }
    }
    Some(format!("ok {}", out.join(";")))
}

fn run_szc(entry: &str, history: &str) -> Option<String> {
    let mut zones = Zones(Vec::new());
    let f: Vec<&str> = entry.split(':').collect();
    let e = make_entry(&f, 0, &mut zones)?;
    let cat = SingleZoneCatalog::new(e);
    let mut out: Vec<String> = Vec::new();
    for step in history.split(';') {
        let f: Vec<&str> = step.split(':').collect();
        let (n, c) = name_class(&f[1..])?;
        match f[0] {
            "l" => out.push(show_opt(cat.lookup(&n, c), &zones)),
            "g" => out.push(show_opt(cat.get(&n, c), &zones)),
            _ => return None,
        }
    }
    Some(format!("ok {}", out.join(";")))
}

pub fn run(op: &str, a: &[&str]) -> Option<String> {
    Some(match (op, a) {
        ("cat", [h]) => {
            let h = h.to_string();
            guarded(move || run_cat(&h).unwrap_or_else(|| "bad-op".into()))
        }
        ("szc", [e, h]) => {
            let (e, h) = (e.to_string(), h.to_string());
            guarded(move || run_szc(&e, &h).unwrap_or_else(|| "bad-op".into()))
        }
        _ => return None,
    })
}

// ------------------------------------------------------------------------------------------
// generators
// ------------------------------------------------------------------------------------------

/// wire hex of a name given as labels, left to right
fn wire(labels: &[&[u8]]) -> String {
    let mut v = Vec::new();
    for l in labels {
        v.push(l.len() as u8);
        v.extend_from_slice(l);
    }
    v.push(0);
    hex(&v)
}

fn emit(em: &mut Emitter, case: String) {
    let mut it = case.split(' ');
    let op = it.next().unwrap();
    let args: Vec<&str> = it.collect();
    let r = run(op, &args).unwrap();
    em.emit(&case, &r);
}

const KINDS: [&str; 3] = ["L", "N", "F"];

/// every history of exactly `len` mutating ops (insert x / remove x for x in `names`), followed
/// by a full observation: iter, then get and lookup of every probe name
fn exhaustive(em: &mut Emitter, names: &[String], probes: &[String], class: u16, max_len: usize) {
    let nops = names.len() * 2;
    let mut obs = String::from("it");
    for p in probes {
        obs.push_str(&format!(";g:{p}:{class};l:{p}:{class}"));
    }
    for len in 0..=max_len {
        let total = nops.pow(len as u32);
        for code in 0..total {
            let mut c = code;
            let mut steps: Vec<String> = Vec::with_capacity(len + 1);
            for i in 0..len {
                let o = c % nops;
                c /= nops;
                let n = &names[o / 2];
                if o % 2 == 0 {
                    steps.push(format!("i:{n}:{class}:{}:{}", i + 1, KINDS[(i + o / 2) % 3]));
                } else {
                    steps.push(format!("r:{n}:{class}"));
                }
            }
            steps.push(obs.clone());
            emit(em, format!("cat {}", steps.join(";")));
        }
    }
}

const LABELS: [&[u8]; 7] = [b"a", b"b", b"c", b"A", b"B", b"*", b"a-1"];
const CLASSES: [u16; 3] = [1, 3, 4];

fn rand_name(rng: &mut Rng) -> Vec<&'static [u8]> {
    // small alphabet, depth 0..=4, biased towards the first three labels so that names nest
    let depth = match rng.below(10) {
        0 => 0,
        1..=3 => 1,
        4..=6 => 2,
        7..=8 => 3,
        _ => 4,
    };
    (0..depth).map(|_| if rng.chance(3, 4) { LABELS[rng.below(3)] } else { *rng.pick(&LABELS) }).collect()
}

fn flip_case(l: &'static [u8]) -> &'static [u8] {
    match l {
        b"a" => b"A",
        b"b" => b"B",
        b"A" => b"a",
        b"B" => b"b",
        b"c" => b"C",
        x => x,
    }
}

/// every name within two labels of `n`: n, its two nearest ancestors, children and grandchildren
fn neighbourhood(n: &[&'static [u8]]) -> Vec<Vec<&'static [u8]>> {
    let mut out = vec![n.to_vec()];
    if !n.is_empty() {
        out.push(n[1..].to_vec());
    }
    if n.len() >= 2 {
        out.push(n[2..].to_vec());
    }
    let alpha: [&[u8]; 4] = [b"a", b"b", b"c", b"*"];
    for x in alpha {
        let mut c = vec![x];
        c.extend_from_slice(n);
        out.push(c.clone());
        for y in alpha {
            let mut g = vec![y];
            g.extend_from_slice(&c);
            out.push(g);
        }
    }
    out
}

fn random_history(rng: &mut Rng, em: &mut Emitter) {
    let nsteps = rng.range(3, 24);
    let mut pool: Vec<(Vec<&'static [u8]>, u16)> = Vec::new();
    let mut steps: Vec<String> = Vec::new();
    let mut next_id = 1;
    for _ in 0..nsteps {
        let reuse = !pool.is_empty() && rng.chance(1, 2);
        let (mut n, c) = if reuse {
            let (n, c) = rng.pick(&pool).clone();
            // the same name, an ancestor, or a descendant of a known name
            match rng.below(4) {
                0 if !n.is_empty() => (n[1..].to_vec(), c),
                1 => {
                    let mut m = vec![LABELS[rng.below(3)]];
                    m.extend_from_slice(&n);
                    (m, c)
                }
                _ => (n, c),
            }
        } else {
            let c = if rng.chance(1, 12) { rng.below(65536) as u16 } else { *rng.pick(&CLASSES) };
            (rand_name(rng), c)
        };
        if rng.chance(1, 4) {
            n = n.iter().map(|l| if rng.chance(1, 2) { flip_case(l) } else { *l }).collect();
        }
        let c = if rng.chance(1, 10) { *rng.pick(&CLASSES) } else { c };
        let w = wire(&n);
        if rng.chance(3, 5) {
            steps.push(format!("i:{w}:{c}:{next_id}:{}", rng.pick(&KINDS)));
            next_id += 1;
            pool.push((n.clone(), c));
        } else {
            steps.push(format!("r:{w}:{c}"));
        }
        // observations
        if rng.chance(2, 3) {
            let mut nb = neighbourhood(&n);
            if rng.chance(1, 2) {
                // a sample is enough most of the time
                let keep = rng.range(3, 8);
                while nb.len() > keep {
                    let i = rng.below(nb.len());
                    nb.swap_remove(i);
                }
            }
            for m in nb {
                if m.len() > 6 {
                    continue;
                }
                let m: Vec<&[u8]> = m.iter().map(|l| if rng.chance(1, 6) { flip_case(l) } else { *l }).collect();
                let w = wire(&m);
                let cc = if rng.chance(1, 8) { *rng.pick(&CLASSES) } else { c };
                steps.push(format!("l:{w}:{cc}"));
                steps.push(format!("g:{w}:{cc}"));
            }
        }
        if rng.chance(1, 2) {
            steps.push("it".into());
        }
    }
    steps.push("it".into());
    emit(em, format!("cat {}", steps.join(";")));
}

fn random_single(rng: &mut Rng, em: &mut Emitter) {
    let n = rand_name(rng);
    let c = *rng.pick(&CLASSES);
    let entry = format!("{}:{c}:{}:{}", wire(&n), rng.range(1, 99), rng.pick(&KINDS));
    let mut steps = Vec::new();
    let mut qs = neighbourhood(&n);
    for _ in 0..4 {
        qs.push(rand_name(rng));
    }
    for m in qs {
        let m: Vec<&[u8]> = m.iter().map(|l| if rng.chance(1, 4) { flip_case(l) } else { *l }).collect();
        let cc = if rng.chance(1, 6) { *rng.pick(&CLASSES) } else { c };
        let w = wire(&m);
        steps.push(format!("l:{w}:{cc}"));
        steps.push(format!("g:{w}:{cc}"));
    }
    emit(em, format!("szc {entry} {}", steps.join(";")));
}

pub fn gen(rng: &mut Rng, thorough: bool, em: &mut Emitter) {
    // 0. regression witness of the repaired defect D09 and the unit tests' histories
    emit(em, "cat i:016100:1:1:L;i:0162016100:1:2:N;r:0162016100:1;g:016100:1;l:0163016100:1;it".into());
    emit(em, "cat i:016100:1:1:N;i:0162016100:1:2:N;r:016100:1;g:016100:1;g:0162016100:1;r:0162016100:1;it".into());
    emit(em, "cat r:016100:1;it;l:00:1".into());

    // 1. exhaustive histories over four nested names
    //    chain  . ⊃ a. ⊃ b.a. ⊃ c.b.a.      tree  a. ⊃ {b.a. ⊃ d.b.a., c.a.}
    let (max_chain, max_tree) = if thorough { (5, 5) } else { (5, 4) };
    let chain = vec![wire(&[]), wire(&[b"a"]), wire(&[b"b", b"a"]), wire(&[b"c", b"b", b"a"])];
    let mut chain_probes = chain.clone();
    chain_probes.push(wire(&[b"d", b"c", b"b", b"a"]));
    chain_probes.push(wire(&[b"x", b"a"]));
    chain_probes.push(wire(&[b"C", b"B", b"A"]));
    exhaustive(em, &chain, &chain_probes, 1, max_chain);
    let tree = vec![wire(&[b"a"]), wire(&[b"b", b"a"]), wire(&[b"c", b"a"]), wire(&[b"d", b"b", b"a"])];
    let mut tree_probes = tree.clone();
    tree_probes.push(wire(&[]));
    tree_probes.push(wire(&[b"x", b"d", b"b", b"a"]));
    tree_probes.push(wire(&[b"d", b"c", b"a"]));
    tree_probes.push(wire(&[b"B", b"a"]));
    exhaustive(em, &tree, &tree_probes, 4, max_tree);

    // 2. random histories: nested names over a small alphabet, case variants, three classes
    let n = if thorough { 40_000 } else { 2_500 };
    for _ in 0..n {
        random_history(rng, em);
    }
    // 3. SingleZoneCatalog
    let n = if thorough { 10_000 } else { 800 };
    for _ in 0..n {
        random_single(rng, em);
    }
}
