//! Shared harness plumbing: PRNG, hex, panic capture, case emitter.
use std::io::Write;
use std::panic::{catch_unwind, AssertUnwindSafe};

/// xorshift64* — every random choice of a run derives from one state (VERIF_SEED).
pub struct Rng(pub u64);

impl Rng {
    pub fn new(seed: u64) -> Self {
        Rng(seed.wrapping_mul(0x9E37_79B9_7F4A_7C15) ^ 0xD1B5_4A32_D192_ED03 | 1)
    }
    pub fn next(&mut self) -> u64 {
        let mut x = self.0;
        x ^= x >> 12;
        x ^= x << 25;
        x ^= x >> 27;
        self.0 = x;
        x.wrapping_mul(0x2545_F491_4F6C_DD1D)
    }
    /// uniform in 0..n (n > 0)
    pub fn below(&mut self, n: usize) -> usize {
        (self.next() % (n as u64)) as usize
    }
    pub fn range(&mut self, lo: usize, hi: usize) -> usize {
        lo + self.below(hi - lo + 1)
    }
    pub fn chance(&mut self, num: usize, den: usize) -> bool {
        self.below(den) < num
    }
    pub fn pick<'a, T>(&mut self, xs: &'a [T]) -> &'a T {
        &xs[self.below(xs.len())]
    }
    pub fn byte(&mut self) -> u8 {
        self.next() as u8
    }
}

pub fn hex(b: &[u8]) -> String {
    if b.is_empty() {
        return "-".to_string();
    }
    let mut s = String::with_capacity(b.len() * 2);
    for x in b {
        s.push_str(&format!("{:02x}", x));
    }
    s
}

pub fn unhex(s: &str) -> Option<Vec<u8>> {
    if s == "-" {
        return Some(vec![]);
    }
    if s.len() % 2 != 0 {
        return None;
    }
    (0..s.len() / 2)
        .map(|i| u8::from_str_radix(&s[2 * i..2 * i + 2], 16).ok())
        .collect()
}

/// Run `f` on the real code; a panic becomes the outcome "panic".
pub fn guarded<F: FnOnce() -> String>(f: F) -> String {
    match catch_unwind(AssertUnwindSafe(f)) {
        Ok(s) => s,
        Err(_) => "panic".to_string(),
    }
}

/// Writes `<case>\t<impl result>` lines.
pub struct Emitter {
    out: Box<dyn Write>,
    pub n: u64,
}

impl Emitter {
    pub fn new(path: &str) -> Self {
        let out: Box<dyn Write> = if path == "-" {
            Box::new(std::io::BufWriter::new(std::io::stdout()))
        } else {
            Box::new(std::io::BufWriter::with_capacity(
                1 << 20,
                std::fs::File::create(path).expect("cannot create output file"),
            ))
        };
        Emitter { out, n: 0 }
    }
    pub fn emit(&mut self, case: &str, result: &str) {
        debug_assert!(!case.contains('\t') && !case.contains('\n'));
        writeln!(self.out, "{}\t{}", case, result).unwrap();
        self.n += 1;
    }
    pub fn finish(mut self) {
        self.out.flush().unwrap();
    }
}

pub fn silence_panics() {
    if std::env::var("QVH_PANIC_MSG").is_ok() {
        return; // debugging aid: keep the default hook
    }
    std::panic::set_hook(Box::new(|_| {}));
}
