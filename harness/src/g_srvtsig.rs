//! group `srvtsig` — C10: TSIG-signed requests through `Server::handle_message`.
//!
//! A case = configuration (catalog as in g_server + TSIG key set) + an UNSIGNED request + signing
//! parameters. The harness signs the request ITSELF (own RFC 8945 §4.3 implementation below, written
//! from the RFC; `hmac`/`sha1`/`sha2` crates) with time = (wall-clock second now) + offset, calls the
//! real `Server::handle_message`, and prints the response canonically with all TSIG times RELATIVE
//! to `now` and the response MAC replaced by the verdict of the harness's own RFC 8945 verification
//! (`valid<n>` / `invalid<n>` / `empty`) — so that a replay at a later time gives the same text.
//!
//!   srvt <u|t> <payload> <catalog> <keys> <reqhex> <sign> <now>                  → canonical text | none | panic
//!   audt <u|t> <payload> <catalog> <keys> <reqhex> <sign> <now> <resp> <plain>   → ok
//!        resp  = the implementation's response octets to the signed request (hex | none | panic)
//!        plain = its response to the same request with the TSIG RR taken out again (reference for
//!                "answered normally"); the driver's spec column audits them: `tags:C10:…`
//!
//! keys = `-` or `<namehex>/<1|256>/<secrethex>` joined by `,` (name: uncompressed wire)
//! sign = `skey,salg,hash,secret,offset,fudge,maclen,tamper,tweak,idmode,err,other,cls,ttl,place`
//!   skey    owner octets of the TSIG RR (uncompressed name, or a compression pointer)
//!   salg    algorithm name octets in the RDATA (uncompressed wire)
//!   hash    1 | 256: HMAC-SHA1 / HMAC-SHA256 actually used to sign
//!   secret  key octets actually used to sign
//!   offset  time signed = now + offset (clamped to 0 ..< 2^48)
//!   maclen  MAC truncated to this many octets (longer than the hash output: zero padded)
//!   tamper  `-` or `<pos>x<xor>`: octet `pos` of the final message is XORed after signing
//!   tweak   TSIG original ID = header ID + tweak (mod 2^16)
//!   idmode  0: MAC computed per RFC (message ID := original ID); 1: over the header ID as sent
//!   err,other  error and other-data fields of the request TSIG
//!   cls,ttl    CLASS and TTL fields of the TSIG RR (RFC: 255, 0)
//!   place   last | notlast | two | an | trail
//! now  = the wall-clock second the case was generated at (informational for the harness, which
//!        always uses the current time; the driver evaluates model and spec at this `now`).
#![allow(unused)]
use crate::common::*;
use crate::dns;
use crate::g_server::{self, Cat, ZoneCfg};
use hmac::{Hmac, Mac};
use quandary::message::tsig::Algorithm;
use quandary::name::Name;
use quandary::server::{Server, TsigKeyMap};
use sha1::Sha1;
use sha2::Sha256;
use std::sync::Arc;
use std::time::{SystemTime, UNIX_EPOCH};

#[derive(Clone, Debug)]
pub struct KeyCfg { pub name: Vec<u8>, pub sha256: bool, pub secret: Vec<u8> }

#[derive(Clone, Debug)]
pub struct Sign {
    pub skey: Vec<u8>, pub salg: Vec<u8>, pub sha256: bool, pub secret: Vec<u8>,
    pub offset: i64, pub fudge: u16, pub maclen: usize, pub tamper: Option<(usize, u8)>,
    pub tweak: u16, pub idmode: u8, pub err: u16, pub other: Vec<u8>, pub cls: u16, pub ttl: u32,
    pub place: String,
}

fn enc_keys(ks: &[KeyCfg]) -> String {
    if ks.is_empty() { return "-".into(); }
    ks.iter().map(|k| format!("{}/{}/{}", hex(&k.name), if k.sha256 { 256 } else { 1 }, hex(&k.secret))).collect::<Vec<_>>().join(",")
}

fn dec_keys(s: &str) -> Option<Vec<KeyCfg>> {
    if s == "-" { return Some(vec![]); }
    let mut out = Vec::new();
    for k in s.split(',') {
        let f: Vec<&str> = k.split('/').collect();
        if f.len() != 3 { return None; }
        out.push(KeyCfg { name: unhex(f[0])?, sha256: match f[1] { "1" => false, "256" => true, _ => return None }, secret: unhex(f[2])? });
    }
    Some(out)
}

fn enc_sign(s: &Sign) -> String {
    format!("{},{},{},{},{},{},{},{},{},{},{},{},{},{},{}", hex(&s.skey), hex(&s.salg), if s.sha256 { 256 } else { 1 }, hex(&s.secret),
            s.offset, s.fudge, s.maclen, match s.tamper { None => "-".to_string(), Some((p, x)) => format!("{}x{}", p, x) },
            s.tweak, s.idmode, s.err, hex(&s.other), s.cls, s.ttl, s.place)
}

fn dec_sign(s: &str) -> Option<Sign> {
    let f: Vec<&str> = s.split(',').collect();
    if f.len() != 15 { return None; }
    let tamper = if f[7] == "-" { None } else {
        let g: Vec<&str> = f[7].split('x').collect();
        if g.len() != 2 { return None; }
        Some((g[0].parse().ok()?, g[1].parse().ok()?))
    };
    Some(Sign {
        skey: unhex(f[0])?, salg: unhex(f[1])?, sha256: match f[2] { "1" => false, "256" => true, _ => return None },
        secret: unhex(f[3])?, offset: f[4].parse().ok()?, fudge: f[5].parse().ok()?, maclen: f[6].parse().ok()?, tamper,
        tweak: f[8].parse().ok()?, idmode: f[9].parse().ok()?, err: f[10].parse().ok()?, other: unhex(f[11])?,
        cls: f[12].parse().ok()?, ttl: f[13].parse().ok()?, place: f[14].to_string(),
    })
}

// ------------------------------------------------------------------------------------------
// the harness's own RFC 8945 implementation (independent of quandary)
// ------------------------------------------------------------------------------------------

fn hmac_of(sha256: bool, key: &[u8], data: &[u8]) -> Vec<u8> {
    if sha256 {
        let mut m = Hmac::<Sha256>::new_from_slice(key).unwrap();
        m.update(data);
        m.finalize().into_bytes().to_vec()
    } else {
        let mut m = Hmac::<Sha1>::new_from_slice(key).unwrap();
        m.update(data);
        m.finalize().into_bytes().to_vec()
    }
}

/// RFC 4034 §6.2 canonical form of an uncompressed wire name: letters in lower case
fn canon_name(w: &[u8]) -> Vec<u8> {
    let mut out = w.to_vec();
    let mut p = 0;
    while p < out.len() {
        let l = out[p] as usize;
        if l == 0 || l > 63 { break; }
        for i in p + 1..(p + 1 + l).min(out.len()) { out[i] = out[i].to_ascii_lowercase(); }
        p += 1 + l;
    }
    out
}

fn u48(t: u64) -> [u8; 6] { let b = t.to_be_bytes(); [b[2], b[3], b[4], b[5], b[6], b[7]] }

/// RFC 8945 §4.3.3 TSIG variables
fn tsig_variables(key_name: &[u8], alg_name: &[u8], time: u64, fudge: u16, err: u16, other: &[u8]) -> Vec<u8> {
    let mut v = canon_name(key_name);
    v.extend_from_slice(&[0x00, 0xff, 0, 0, 0, 0]); // CLASS ANY, TTL 0
    v.extend(canon_name(alg_name));
    v.extend_from_slice(&u48(time));
    v.extend_from_slice(&fudge.to_be_bytes());
    v.extend_from_slice(&err.to_be_bytes());
    v.extend_from_slice(&(other.len() as u16).to_be_bytes());
    v.extend_from_slice(other);
    v
}

fn clamp_time(now: u64, offset: i64) -> u64 {
    let t = now as i128 + offset as i128;
    t.clamp(0, (1i128 << 48) - 1) as u64
}

pub struct Signed { pub msg: Vec<u8>, pub tsig_start: usize, pub tsig_end: usize, pub mac_off: usize, pub mac_len: usize }

/// RFC 8945 §4.3 request signing; `req` has at least 12 octets
pub fn sign_request(req: &[u8], s: &Sign, now: u64) -> Signed {
    let time = clamp_time(now, s.offset);
    let id = u16::from_be_bytes([req[0], req[1]]);
    let origid = id.wrapping_add(s.tweak);
    // the key name as a reader will see it (the owner may be a compression pointer into `req`)
    let mut probe = req.to_vec();
    probe.extend_from_slice(&s.skey);
    let key_name = dns::decode_name(&probe, req.len()).map(|x| x.0).unwrap_or_else(|| s.skey.clone());
    // §4.3.2: the message before the TSIG RR is added, with the original ID
    let mut digest = req.to_vec();
    let did = if s.idmode == 0 { origid } else { id };
    digest[0..2].copy_from_slice(&did.to_be_bytes());
    digest.extend(tsig_variables(&key_name, &s.salg, time, s.fudge, s.err, &s.other));
    let tag = hmac_of(s.sha256, &s.secret, &digest);
    let mut mac = tag.clone();
    mac.resize(s.maclen, 0);
    // RFC 8945 §4.2 RDATA
    let mut rd = s.salg.clone();
    rd.extend_from_slice(&u48(time));
    rd.extend_from_slice(&s.fudge.to_be_bytes());
    rd.extend_from_slice(&(mac.len() as u16).to_be_bytes());
    rd.extend_from_slice(&mac);
    rd.extend_from_slice(&origid.to_be_bytes());
    rd.extend_from_slice(&s.err.to_be_bytes());
    rd.extend_from_slice(&(s.other.len() as u16).to_be_bytes());
    rd.extend_from_slice(&s.other);
    let rr = dns::rr(&s.skey, 250, s.cls, s.ttl, &rd);
    let mut m = req.to_vec();
    let tsig_start = m.len();
    m.extend_from_slice(&rr);
    let tsig_end = m.len();
    let bump = |m: &mut Vec<u8>, off: usize, by: u16| { let v = u16::from_be_bytes([m[off], m[off + 1]]).wrapping_add(by); m[off..off + 2].copy_from_slice(&v.to_be_bytes()); };
    match s.place.as_str() {
        "notlast" => { m.extend(dns::rr(&[0], 1, 1, 0, &[192, 0, 2, 1])); bump(&mut m, 10, 2); }
        "two" => { m.extend_from_slice(&rr); bump(&mut m, 10, 2); }
        "an" => { bump(&mut m, 6, 1); }
        "trail" => { m.push(0); bump(&mut m, 10, 1); }
        _ => { bump(&mut m, 10, 1); }
    }
    if let Some((p, x)) = s.tamper { let n = m.len(); m[p % n] ^= x; }
    Signed { msg: m, tsig_start, tsig_end, mac_off: tsig_start + s.skey.len() + 10 + s.salg.len() + 10, mac_len: s.maclen }
}

/// the signed message with the TSIG RR taken out again (ARCOUNT − 1): the request an unauthenticated
/// client would have sent; only meaningful for `place` = last | trail
fn stripped(sg: &Signed) -> Vec<u8> {
    let mut m = sg.msg[..sg.tsig_start].to_vec();
    m.extend_from_slice(&sg.msg[sg.tsig_end..]);
    if m.len() >= 12 { let v = u16::from_be_bytes([m[10], m[11]]).wrapping_sub(1); m[10..12].copy_from_slice(&v.to_be_bytes()); }
    m
}

/// RFC 8945 §5.3 / §4.3: verify the TSIG of a response with the harness's own computation.
/// `prior` = the request MAC. Returns `empty` | `valid<n>` | `invalid<n>` | `nokey<n>`.
fn mac_status(resp: &[u8], d: &dns::DMsg, t: &dns::DRr, keys: &[KeyCfg], prior: &[u8]) -> String {
    let Some(f) = parse_tsig_rdata(&t.rdata) else { return "badrdata".into() };
    if f.mac.is_empty() { return "empty".into(); }
    let lname = canon_name(&t.owner);
    let Some(k) = keys.iter().find(|k| canon_name(&k.name) == lname) else { return format!("nokey{}", f.mac.len()) };
    // position of the TSIG RR: it is the last record; find it by re-walking is not needed — the
    // message without it is everything up to `len − rrlen`, but the owner may be compressed, so
    // locate the record start with the decoder
    let Some(start) = last_rr_start(resp) else { return "badresp".into() };
    let mut m = resp[..start].to_vec();
    m[0..2].copy_from_slice(&f.origid.to_be_bytes());
    let ar = u16::from_be_bytes([m[10], m[11]]).wrapping_sub(1);
    m[10..12].copy_from_slice(&ar.to_be_bytes());
    let mut digest = (prior.len() as u16).to_be_bytes().to_vec();
    digest.extend_from_slice(prior);
    digest.extend(m);
    digest.extend(tsig_variables(&t.owner, &t.rdata[..f.alg_len], f.time, f.fudge, f.err, &f.other));
    let sha256 = canon_name(&t.rdata[..f.alg_len]) == b"\x0bhmac-sha256\x00";
    let tag = hmac_of(sha256, &k.secret, &digest);
    let _ = d;
    if tag == f.mac { format!("valid{}", f.mac.len()) } else { format!("invalid{}", f.mac.len()) }
}

struct TsigFields { alg_len: usize, time: u64, fudge: u16, mac: Vec<u8>, origid: u16, err: u16, other: Vec<u8> }

fn parse_tsig_rdata(r: &[u8]) -> Option<TsigFields> {
    let mut p = 0usize;
    loop { let l = *r.get(p)? as usize; if l > 63 { return None; } p += 1 + l; if l == 0 { break; } }
    let a = p;
    if r.len() < a + 16 { return None; }
    let mut t = [0u8; 8];
    t[2..8].copy_from_slice(&r[a..a + 6]);
    let time = u64::from_be_bytes(t);
    let fudge = u16::from_be_bytes([r[a + 6], r[a + 7]]);
    let maclen = u16::from_be_bytes([r[a + 8], r[a + 9]]) as usize;
    if r.len() < a + 10 + maclen + 6 { return None; }
    let mac = r[a + 10..a + 10 + maclen].to_vec();
    let q = a + 10 + maclen;
    let origid = u16::from_be_bytes([r[q], r[q + 1]]);
    let err = u16::from_be_bytes([r[q + 2], r[q + 3]]);
    let olen = u16::from_be_bytes([r[q + 4], r[q + 5]]) as usize;
    let other = r[q + 6..].to_vec();
    if other.len() != olen { return None; }
    Some(TsigFields { alg_len: a, time, fudge, mac, origid, err, other })
}

/// offset of the last record of a message (walks questions and records)
fn last_rr_start(msg: &[u8]) -> Option<usize> {
    if msg.len() < 12 { return None; }
    let c = |i: usize| u16::from_be_bytes([msg[i], msg[i + 1]]) as usize;
    let mut p = 12;
    for _ in 0..c(4) { let (_, k) = dns::decode_name(msg, p)?; p += k + 4; }
    let n = c(6) + c(8) + c(10);
    let mut last = None;
    for _ in 0..n {
        last = Some(p);
        let (_, k) = dns::decode_name(msg, p)?;
        if p + k + 10 > msg.len() { return None; }
        let rdlen = u16::from_be_bytes([msg[p + k + 8], msg[p + k + 9]]) as usize;
        p += k + 10 + rdlen;
    }
    if p != msg.len() { return None; }
    last
}

fn rr_str(r: &dns::DRr) -> String { format!("{}/{}/{}/{}/{}", hex(&r.owner), r.ty, r.class, r.ttl, hex(&r.rdata)) }

fn sec_str(rrs: &[&dns::DRr]) -> String {
    let mut v: Vec<String> = rrs.iter().map(|r| rr_str(r)).collect();
    v.sort();
    format!("[{}]", v.join(","))
}

/// Canonical text of a response (same layout as `dns::canonical`), TSIG shown as
/// owner/class/ttl/alg/time−now/fudge/<mac status>/origid/error/<other: `t<time−now>` when it is a
/// 48-bit time, else hex>/<last|notlast>
pub fn canonical_t(msg: &[u8], now: u64, keys: &[KeyCfg], prior: &[u8]) -> String {
    let Some(d) = dns::decode_message(msg) else { return format!("undecodable len={}", msg.len()); };
    let q = if d.questions.is_empty() { "-".to_string() } else {
        d.questions.iter().map(|(w, t, c)| format!("{}/{}/{}", hex(w), t, c)).collect::<Vec<_>>().join("+")
    };
    let opts: Vec<&dns::DRr> = d.ar.iter().filter(|r| r.ty == 41).collect();
    let tsigs: Vec<&dns::DRr> = d.ar.iter().filter(|r| r.ty == 250).collect();
    let rest: Vec<&dns::DRr> = d.ar.iter().filter(|r| r.ty != 41 && r.ty != 250).collect();
    let opt = if opts.is_empty() { "-".to_string() } else {
        opts.iter().map(|o| format!("{}/{}/{:08x}/{}", hex(&o.owner), o.class, o.ttl, hex(&o.rdata))).collect::<Vec<_>>().join("+")
    };
    let last = d.ar.last().map(|l| l.ty == 250).unwrap_or(false);
    let tsig = if tsigs.is_empty() { "-".to_string() } else {
        tsigs.iter().map(|t| {
            let Some(f) = parse_tsig_rdata(&t.rdata) else { return format!("badrdata:{}", hex(&t.rdata)); };
            let other = if f.other.len() == 6 { let mut b = [0u8; 8]; b[2..8].copy_from_slice(&f.other); format!("t{}", u64::from_be_bytes(b) as i64 - now as i64) } else { hex(&f.other) };
            let status = if tsigs.len() == 1 && last { mac_status(msg, &d, t, keys, prior) } else { format!("unchecked{}", f.mac.len()) };
            format!("{}/{}/{}/{}/{}/{}/{}/{}/{}/{}/{}", hex(&t.owner), t.class, t.ttl, hex(&t.rdata[..f.alg_len]), f.time as i64 - now as i64,
                    f.fudge, status, f.origid, f.err, other, if last { "last" } else { "notlast" })
        }).collect::<Vec<_>>().join("+")
    };
    format!("R id={} flags={:04x} q={} an={} ns={} ar={} opt={} tsig={} len={}", d.id, d.flags, q,
            sec_str(&d.an.iter().collect::<Vec<_>>()), sec_str(&d.ns.iter().collect::<Vec<_>>()), sec_str(&rest), opt, tsig, msg.len())
}

// ------------------------------------------------------------------------------------------
// running the real server
// ------------------------------------------------------------------------------------------

fn now_secs() -> u64 { SystemTime::now().duration_since(UNIX_EPOCH).map(|d| d.as_secs()).unwrap_or(0) }

pub fn make_server(zs: &[ZoneCfg], payload: u16, keys: &[KeyCfg]) -> Option<Server<Cat>> {
    let server = g_server::make_server(zs, payload)?;
    let mut map = TsigKeyMap::new();
    for k in keys {
        let name: Box<Name> = Name::try_from_uncompressed_all(&k.name).ok()?;
        let alg = if k.sha256 { Algorithm::HmacSha256 } else { Algorithm::HmacSha1 };
        if map.insert(name, (alg, k.secret.clone().into_boxed_slice())).is_some() { return None; } // names must be distinct
    }
    server.set_tsig_keys(Arc::new(map));
    Some(server)
}

pub static CLOCK_RETRIES: std::sync::atomic::AtomicU64 = std::sync::atomic::AtomicU64::new(0);
pub static CLOCK_DISCARDS: std::sync::atomic::AtomicU64 = std::sync::atomic::AtomicU64::new(0);

pub struct Exec { pub now: u64, pub signed: Signed, pub resp: Result<Option<Vec<u8>>, ()> }

/// A TSIG owner given as a compression pointer is resolved against the request when the MAC input is
/// built. If the name it points to cannot be decoded inside the request alone (a mutated QNAME whose
/// label runs past the end of the request swallows the TSIG record that is about to be appended), the
/// signed message is self-referential: what the pointer denotes depends on the MAC octets. Harness and
/// model then need not construct the same octets — such requests are not generated as signed cases
/// (they are exercised unsigned by the `server`/`srvscan` groups).
pub fn degenerate(req: &[u8], s: &Sign) -> bool {
    if s.skey.len() >= 2 && s.skey[0] >= 0xc0 {
        let target = (((s.skey[0] & 0x3f) as usize) << 8) | s.skey[1] as usize;
        let mut probe = req.to_vec();
        probe.extend_from_slice(&s.skey);
        let a = dns::decode_name(&probe, req.len()).map(|x| x.0);
        let b = if target < req.len() { dns::decode_name(req, target).map(|x| x.0) } else { None };
        return b.is_none() || a != b;
    }
    false
}

/// sign at the current second and handle; repeated until the wall-clock second did not change
/// between signing and the end of the call (so the server's `now` is exactly `now`)
pub fn exec(server: &Server<Cat>, req: &[u8], s: &Sign, tcp: bool) -> Option<Exec> {
    if degenerate(req, s) {
        CLOCK_DISCARDS.fetch_add(1, std::sync::atomic::Ordering::Relaxed);
        return None;
    }
    for _ in 0..8 {
        let now0 = now_secs();
        let signed = sign_request(req, s, now0);
        let resp = g_server::handle(server, &signed.msg, tcp);
        let now1 = now_secs();
        if now0 == now1 { return Some(Exec { now: now0, signed, resp }); }
        CLOCK_RETRIES.fetch_add(1, std::sync::atomic::Ordering::Relaxed);
    }
    CLOCK_DISCARDS.fetch_add(1, std::sync::atomic::Ordering::Relaxed);
    None
}

fn prior_mac(sg: &Signed) -> Vec<u8> {
    let e = (sg.mac_off + sg.mac_len).min(sg.msg.len());
    let s = sg.mac_off.min(e);
    sg.msg[s..e].to_vec()
}

fn canon_result(e: &Exec, keys: &[KeyCfg]) -> String {
    match &e.resp {
        Ok(Some(b)) => canonical_t(b, e.now, keys, &prior_mac(&e.signed)),
        Ok(None) => "none".into(),
        Err(()) => "panic".into(),
    }
}

fn resp_hex(r: &Result<Option<Vec<u8>>, ()>) -> String {
    match r { Ok(Some(b)) => hex(b), Ok(None) => "none".into(), Err(()) => "panic".into() }
}

pub fn run(op: &str, a: &[&str]) -> Option<String> {
    match (op, a) {
        ("srvt", [tr, payload, cat, keys, req, sign, _now]) => {
            let (Some(zs), Some(ks), Some(req), Some(sg), Ok(payload)) = (g_server::dec_catalog(cat), dec_keys(keys), unhex(req), dec_sign(sign), payload.parse::<u16>()) else { return Some("bad-op".into()) };
            if req.len() < 12 { return Some("bad-op".into()); }
            let Some(server) = make_server(&zs, payload, &ks) else { return Some("bad-op".into()) };
            let Some(e) = exec(&server, &req, &sg, *tr == "t") else { return Some("clock".into()) };
            Some(canon_result(&e, &ks))
        }
        ("audt", [tr, payload, cat, keys, req, sign, now, resp, plain]) => {
            // re-run at the current time; the recorded octets must say the same thing (relative to
            // the recorded `now`) as what the implementation returns now
            let (Some(zs), Some(ks), Some(req), Some(sg), Ok(payload), Ok(now)) = (g_server::dec_catalog(cat), dec_keys(keys), unhex(req), dec_sign(sign), payload.parse::<u16>(), now.parse::<u64>()) else { return Some("bad-op".into()) };
            if req.len() < 12 { return Some("bad-op".into()); }
            let Some(server) = make_server(&zs, payload, &ks) else { return Some("bad-op".into()) };
            let tcp = *tr == "t";
            let Some(e) = exec(&server, &req, &sg, tcp) else { return Some("clock".into()) };
            let cur = canon_result(&e, &ks);
            let recorded_signed = sign_request(&req, &sg, now);
            let rec = match *resp { "none" => "none".to_string(), "panic" => "panic".to_string(),
                h => match unhex(h) { Some(b) => canonical_t(&b, now, &ks, &prior_mac(&recorded_signed)), None => return Some("bad-op".into()) } };
            let p = resp_hex(&g_server::handle(&server, &stripped(&e.signed), tcp));
            // (`plain` does not depend on the time unless the offset clamps at 0 / 2^48, which the
            //  generators avoid)
            Some(if cur == rec && p == *plain { "ok".into() } else { format!("stale {} | {}", cur, p) })
        }
        _ => None,
    }
}

// ------------------------------------------------------------------------------------------
// generators
// ------------------------------------------------------------------------------------------

fn lname(labels: &[&[u8]]) -> Vec<u8> { dns::name_from_labels(&labels.iter().map(|l| l.to_vec()).collect::<Vec<_>>()) }

/// a name of exactly `n` octets (n ≥ 1): labels of up to 63 letters
fn long_name(rng: &mut Rng, n: usize) -> Vec<u8> {
    let mut w = Vec::new();
    let mut left = n - 1;
    while left > 0 {
        let l = if left >= 64 { if left - 64 == 1 { 62 } else { 63 } } else { left - 1 };
        if l == 0 { break; }
        w.push(l as u8);
        for _ in 0..l { w.push(b'a' + rng.below(26) as u8); }
        left -= l + 1;
    }
    w.push(0);
    w
}

fn mixed_case(rng: &mut Rng, w: &[u8]) -> Vec<u8> {
    let mut out = w.to_vec();
    let mut p = 0;
    while p < out.len() {
        let l = out[p] as usize;
        if l == 0 || l > 63 { break; }
        for i in p + 1..(p + 1 + l).min(out.len()) { if out[i].is_ascii_alphabetic() && rng.chance(1, 2) { out[i] ^= 0x20; } }
        p += 1 + l;
    }
    out
}

const SHA1_NAME: &[u8] = b"\x09hmac-sha1\x00";
const SHA256_NAME: &[u8] = b"\x0bhmac-sha256\x00";

fn alg_name(sha256: bool) -> Vec<u8> { if sha256 { SHA256_NAME.to_vec() } else { SHA1_NAME.to_vec() } }

fn gen_keys(rng: &mut Rng) -> Vec<KeyCfg> {
    let n = match rng.below(10) { 0 => 0, 1..=5 => 1, 6..=8 => 2, _ => 3 };
    let mut ks: Vec<KeyCfg> = Vec::new();
    for _ in 0..n {
        let name = match rng.below(12) {
            0 => vec![0],
            1 => long_name(rng, 255),
            2 => long_name(rng, 200),
            3 => mixed_case(rng, &lname(&[b"Key", b"Example"])),
            4 => lname(&[b"a"]),               // also a QNAME in the catalogs: compression targets
            _ => { let l: Vec<u8> = (0..rng.range(1, 8)).map(|_| b'a' + rng.below(26) as u8).collect(); lname(&[&l, b"keys"]) }
        };
        if ks.iter().any(|k| canon_name(&k.name) == canon_name(&name)) { continue; }
        let slen = *rng.pick(&[0usize, 1, 16, 20, 32, 32, 32, 63, 64, 65, 100]);
        ks.push(KeyCfg { name, sha256: rng.chance(2, 3), secret: (0..slen).map(|_| rng.byte()).collect() });
    }
    ks
}

fn out_len(sha256: bool) -> usize { if sha256 { 32 } else { 20 } }

/// signing parameters: valid with probability ≈ 1/3, otherwise one to three deviations
fn gen_sign(rng: &mut Rng, keys: &[KeyCfg], req: &[u8]) -> Sign {
    let base = if keys.is_empty() { KeyCfg { name: lname(&[b"nokey"]), sha256: true, secret: vec![1, 2, 3] } } else { rng.pick(keys).clone() };
    let mut s = Sign {
        skey: base.name.clone(), salg: alg_name(base.sha256), sha256: base.sha256, secret: base.secret.clone(),
        offset: *rng.pick(&[0i64, 0, 0, 1, -1, 100, -100, 295, -295]), fudge: 300, maclen: out_len(base.sha256), tamper: None,
        tweak: 0, idmode: 0, err: 0, other: vec![], cls: 255, ttl: 0, place: "last".into(),
    };
    if rng.chance(1, 3) { s.skey = mixed_case(rng, &s.skey); }
    if rng.chance(1, 4) { s.salg = mixed_case(rng, &s.salg); }
    let n_dev = match rng.below(6) { 0 | 1 => 0, 2 | 3 => 1, 4 => 2, _ => 3 };
    for _ in 0..n_dev {
        match rng.below(19) {
            0 => { s.secret = (0..rng.range(0, 40)).map(|_| rng.byte()).collect(); }          // wrong secret
            1 => { s.skey = lname(&[b"unknown", b"keys"]); }                                   // unknown key
            2 => { s.sha256 = !s.sha256; s.salg = alg_name(s.sha256); s.maclen = out_len(s.sha256); } // key configured with the other algorithm
            3 => { s.salg = match rng.below(4) {                                               // unknown algorithm
                0 => lname(&[b"hmac-md5", b"sig-alg", b"reg", b"int"]), 1 => lname(&[b"hmac-sha512"]), 2 => vec![0], _ => long_name(rng, 255) }; }
            4 => { s.sha256 = !s.sha256; }                                                     // name says one hash, MAC made with the other
            5 | 6 => {                                                                         // time
                s.fudge = *rng.pick(&[300u16, 300, 300, 0, 1, 10, 65535]);
                let f = s.fudge as i64;
                s.offset = *rng.pick(&[f, -f, f + 1, -f - 1, f + 5, -f - 5, f - 5, 5 - f, 1_000_000, -1_000_000, 100_000_000_000, 0]);
            }
            7 | 8 => {                                                                         // MAC length
                let o = out_len(s.sha256);
                s.maclen = *rng.pick(&[0usize, 1, 9, 10, 11, o / 2 - 1, o / 2, o / 2 + 1, 15, 16, 17, o - 1, o, o + 1, 40]);
            }
            9 | 10 => { s.tamper = Some((usize::MAX / 2, 0)); }                               // position chosen below
            11 => { s.tweak = *rng.pick(&[1u16, 0xffff, 0x1234]); if rng.chance(1, 3) { s.idmode = 1; } }
            12 => { s.err = *rng.pick(&[16u16, 17, 18, 1, 0xffff]); if rng.chance(1, 2) { s.other = (0..*rng.pick(&[6usize, 1, 20])).map(|_| rng.byte()).collect(); } }
            13 => { match rng.below(4) { 0 => s.cls = 1, 1 => s.cls = 254, 2 => s.ttl = *rng.pick(&[1u32, 0x7fff_ffff, 300]), _ => s.ttl = *rng.pick(&[0x8000_0000u32, 0x8000_0001, 0xffff_ffff]) } }
            14 => { s.place = rng.pick(&["notlast", "two", "an", "trail", "trail"]).to_string(); }
            15 => { if req.len() > 14 { s.skey = dns::pointer(12); } }                         // owner compressed against the QNAME
            16 => { s.idmode = 1; }
            _ => {                                                                             // time, default fudge
                s.offset = *rng.pick(&[300i64, -300, 301, -301, 305, -305, 295, -295, 1_000_000, -1_000_000, 86_400, -3600]);
            }
        }
    }
    if s.tamper.is_some() {
        let len = sign_request(req, &s, 1_000_000_000).msg.len();
        let tsig_at = req.len();
        let pos = match rng.below(6) {
            0 => rng.below(2),                                   // the ID (not covered: replaced by the original ID)
            1 => 2 + rng.below(10),                              // flags and counts
            2 => if tsig_at > 12 { 12 + rng.below(tsig_at - 12) } else { 2 },   // question / records
            3 => tsig_at + rng.below(len - tsig_at),             // anywhere in the TSIG RR
            4 => (tsig_at + s.skey.len() + 10 + s.salg.len() + 10 + rng.below(s.maclen.max(1))).min(len - 1), // the MAC
            _ => (tsig_at + s.skey.len() + 10 + s.salg.len() + rng.below(8)).min(len - 1),                    // time / fudge
        };
        s.tamper = Some((pos, 1u8 << rng.below(8)));
    }
    s
}

fn emit_case(em: &mut Emitter, zs: &[ZoneCfg], payload: u16, cat: &str, keys: &[KeyCfg], req: &[u8], s: &Sign) {
    if req.len() < 12 { return; }
    let Some(server) = make_server(zs, payload, keys) else { return };
    let ks = enc_keys(keys);
    let rh = hex(req);
    let sg = enc_sign(s);
    for (tr, tcp) in [("u", false), ("t", true)] {
        let Some(e) = exec(&server, req, s, tcp) else { continue };
        em.emit(&format!("srvt {} {} {} {} {} {} {}", tr, payload, cat, ks, rh, sg, e.now), &canon_result(&e, keys));
        let plain = resp_hex(&g_server::handle(&server, &stripped(&e.signed), tcp));
        em.emit(&format!("audt {} {} {} {} {} {} {} {} {}", tr, payload, cat, ks, rh, sg, e.now, resp_hex(&e.resp), plain), "ok");
    }
}

/// a query whose QNAME is long (the D03 shape needs little room left in 512 octets)
fn long_query(rng: &mut Rng, edns: bool) -> Vec<u8> {
    let n = *rng.pick(&[255usize, 200, 120, 60]);
    let qname = long_name(rng, n);
    let mut body = dns::question(&qname, 1, 1);
    let mut ar = 0;
    if edns { body.extend(dns::rr(&[0], 41, *rng.pick(&[512u16, 1232, 4096, 600]), 0, &[])); ar = 1; }
    let mut m = dns::header(rng.next() as u16, 0x0100, 1, 0, 0, ar);
    m.extend(body);
    m
}

pub fn gen(rng: &mut Rng, thorough: bool, em: &mut Emitter) {
    let n_cat = if thorough { 2500 } else { 330 };
    let per = if thorough { 36 } else { 20 };
    for _ in 0..n_cat {
        let zs = g_server::gen_catalog(rng);
        let payload = *rng.pick(&[512u16, 600, 1232, 4096, 65535]);
        let cat = g_server::enc_catalog(&zs);
        if g_server::make_server(&zs, payload).is_none() { continue; }
        let keys = gen_keys(rng);
        for _ in 0..per {
            let req = match rng.below(10) {
                0 => g_server::gen_request(rng, &zs),
                1 => { let e = rng.chance(1, 2); long_query(rng, e) }
                _ => g_server::gen_clean_query(rng, &zs),
            };
            if req.len() < 12 { continue; }
            let s = gen_sign(rng, &keys, &req);
            emit_case(em, &zs, payload, &cat, &keys, &req, &s);
        }
    }
    // the D03 shape: key and/or algorithm names of 255 octets, with and without EDNS
    let n_big = if thorough { 120 } else { 24 };
    for i in 0..n_big {
        let zs = g_server::gen_catalog(rng);
        let payload = *rng.pick(&[512u16, 1232, 4096]);
        let cat = g_server::enc_catalog(&zs);
        if g_server::make_server(&zs, payload).is_none() { continue; }
        let kn_len = *rng.pick(&[255usize, 255, 230, 180]);
        let kname = long_name(rng, kn_len);
        let keys = vec![KeyCfg { name: kname.clone(), sha256: rng.chance(1, 2), secret: (0..32).map(|_| rng.byte()).collect() }];
        let req = if rng.chance(1, 2) { let e = rng.chance(1, 2); long_query(rng, e) } else { g_server::gen_clean_query(rng, &zs) };
        if req.len() < 12 { continue; }
        let mut s = gen_sign(rng, &keys, &req);
        match i % 4 {
            0 => { s = Sign { skey: kname.clone(), salg: alg_name(keys[0].sha256), sha256: keys[0].sha256, secret: keys[0].secret.clone(), offset: 0, fudge: 300,
                              maclen: out_len(keys[0].sha256), tamper: None, tweak: 0, idmode: 0, err: 0, other: vec![], cls: 255, ttl: 0, place: "last".into() }; }
            1 => { s.salg = long_name(rng, 255); s.place = "last".into(); s.cls = 255; s.ttl = 0; s.tamper = None; }   // the recorded D03 witness: both names 255 octets
            2 => { s.skey = long_name(rng, 255); s.place = "last".into(); s.cls = 255; s.ttl = 0; s.tamper = None; }   // unknown long key
            _ => {}
        }
        emit_case(em, &zs, payload, &cat, &keys, &req, &s);
    }
    // sweeps on one valid configuration: every MAC length, every offset around the fudge boundary
    {
        let zs = g_server::gen_catalog(rng);
        let cat = g_server::enc_catalog(&zs);
        if g_server::make_server(&zs, 1232).is_some() {
            for sha256 in [false, true] {
                let keys = vec![KeyCfg { name: lname(&[b"sweep", b"keys"]), sha256, secret: (0..24).map(|_| rng.byte()).collect() }];
                let req = g_server::gen_clean_query(rng, &zs);
                let base = Sign { skey: keys[0].name.clone(), salg: alg_name(sha256), sha256, secret: keys[0].secret.clone(), offset: 0, fudge: 300,
                                  maclen: out_len(sha256), tamper: None, tweak: 0, idmode: 0, err: 0, other: vec![], cls: 255, ttl: 0, place: "last".into() };
                for maclen in 0..=36usize { let mut s = base.clone(); s.maclen = maclen; emit_case(em, &zs, 1232, &cat, &keys, &req, &s); }
                for off in (-303i64..=-297).chain(297..=303) { let mut s = base.clone(); s.offset = off; emit_case(em, &zs, 1232, &cat, &keys, &req, &s); }
                for f in [0u16, 1, 2] { for off in -3i64..=3 { let mut s = base.clone(); s.fudge = f; s.offset = off; emit_case(em, &zs, 1232, &cat, &keys, &req, &s); } }
                if thorough {
                    // every single-bit flip of the signed message
                    let len = sign_request(&req, &base, 1_000_000_000).msg.len();
                    for pos in 0..len { let mut s = base.clone(); s.tamper = Some((pos, 1u8 << rng.below(8))); emit_case(em, &zs, 1232, &cat, &keys, &req, &s); }
                }
            }
        }
    }
    let r = CLOCK_RETRIES.load(std::sync::atomic::Ordering::Relaxed);
    let d = CLOCK_DISCARDS.load(std::sync::atomic::Ordering::Relaxed);
    if r + d > 0 { eprintln!("srvtsig: {} retries because the wall-clock second changed during a case, {} cases discarded", r, d); }
}
