//! group `server` — C01–C05, C07–C10: `Server::handle_message` end to end.
//!
//! Case lines (one request against one configuration):
//!   srv <u|t> <payload> <catalog> <reqhex>            → response hex | none | panic
//!   aud <payload> <catalog> <reqhex> <udp> <tcp>      → ok      (udp/tcp = response hex | none | panic;
//!        the driver's spec column audits the implementation's own octets: C02 C03 C04 C07 C08 C09 …)
//!
//! catalog = `-` or zones joined by `|`; zone = `<L|N|F>:<apexhex>:<class>:<glue 0|1>:<rec>,<rec>…`
//! rec = `<ownerhex>/<type>/<ttl>/<rdatahex>`   (records are added in this order)
#![allow(unused)]
use crate::common::*;
use crate::dns;
use quandary::class::Class;
use quandary::db::catalog::Entry;
use quandary::db::zone::GluePolicy;
use quandary::db::{HashMapTreeCatalog, HashMapTreeZone};
use quandary::name::Name;
use quandary::rr::{Rdata, Ttl, Type};
use quandary::server::{ReceivedInfo, Response, Server, Transport};
use std::net::{IpAddr, Ipv4Addr};
use std::sync::Arc;

#[derive(Clone, Debug)]
pub struct Rec { pub owner: Vec<u8>, pub ty: u16, pub ttl: u32, pub rdata: Vec<u8> }

#[derive(Clone, Debug)]
pub struct ZoneCfg { pub kind: char, pub apex: Vec<u8>, pub class: u16, pub glue_wide: bool, pub recs: Vec<Rec> }

pub fn enc_catalog(zs: &[ZoneCfg]) -> String {
    if zs.is_empty() { return "-".into(); }
    zs.iter().map(|z| {
        let recs = if z.recs.is_empty() { "-".to_string() } else {
            z.recs.iter().map(|r| format!("{}/{}/{}/{}", hex(&r.owner), r.ty, r.ttl, hex(&r.rdata))).collect::<Vec<_>>().join(",")
        };
        format!("{}:{}:{}:{}:{}", z.kind, hex(&z.apex), z.class, if z.glue_wide { 1 } else { 0 }, recs)
    }).collect::<Vec<_>>().join("|")
}

pub fn dec_catalog(s: &str) -> Option<Vec<ZoneCfg>> {
    if s == "-" { return Some(vec![]); }
    let mut out = Vec::new();
    for z in s.split('|') {
        let f: Vec<&str> = z.split(':').collect();
        if f.len() != 5 { return None; }
        let mut recs = Vec::new();
        if f[4] != "-" {
            for r in f[4].split(',') {
                let g: Vec<&str> = r.split('/').collect();
                if g.len() != 4 { return None; }
                recs.push(Rec { owner: unhex(g[0])?, ty: g[1].parse().ok()?, ttl: g[2].parse().ok()?, rdata: unhex(g[3])? });
            }
        }
        out.push(ZoneCfg { kind: f[0].chars().next()?, apex: unhex(f[1])?, class: f[2].parse().ok()?, glue_wide: f[3] == "1", recs });
    }
    Some(out)
}

pub type Cat = HashMapTreeCatalog<HashMapTreeZone, ()>;

fn name(w: &[u8]) -> Option<Box<Name>> { Name::try_from_uncompressed_all(w).ok() }

/// Build the real catalog. Records whose `add` fails are skipped (the generators produce
/// consistent zones; the count of skipped records is returned so a case can be discarded).
pub fn build_catalog(zs: &[ZoneCfg]) -> Option<(Cat, usize)> {
    let mut cat = Cat::new();
    let mut skipped = 0;
    for z in zs {
        let apex = name(&z.apex)?;
        let class = Class::from(z.class);
        match z.kind {
            'L' => {
                let mut zone = HashMapTreeZone::new(apex, class, if z.glue_wide { GluePolicy::Wide } else { GluePolicy::Narrow });
                for r in &z.recs {
                    let owner = name(&r.owner)?;
                    let rd: &Rdata = <&Rdata>::try_from(&r.rdata[..]).ok()?;
                    if zone.add(&owner, Type::from(r.ty), class, Ttl::from(r.ttl), rd).is_err() { skipped += 1; }
                }
                cat.insert(Entry::Loaded(Arc::new(zone), ()));
            }
            'N' => { cat.insert(Entry::NotYetLoaded(apex, class, ())); }
            _ => { cat.insert(Entry::FailedToLoad(apex, class, ())); }
        }
    }
    // The served catalog is reached through a *history*, not only through inserts: temporary entries
    // below and above each configured zone are inserted and removed again. By C22 the catalog is the
    // same finite map afterwards; a catalog implementation that prunes or loses entries on removal
    // now shows up in the responses (C07: which entry answers).
    for z in zs.iter().take(4) {
        let class = Class::from(z.class);
        let mut tmp: Vec<Vec<u8>> = Vec::new();
        let mut one = vec![3u8, b't', b'm', b'p']; one.extend_from_slice(&z.apex); tmp.push(one);
        let mut two = vec![1u8, b'x', 1, b'y']; two.extend_from_slice(&z.apex); tmp.push(two);
        if z.apex.len() > 1 { let l = z.apex[0] as usize; tmp.push(z.apex[1 + l..].to_vec()); } // the parent
        for t in tmp {
            if t.len() > 255 || zs.iter().any(|o| o.class == z.class && o.apex.eq_ignore_ascii_case(&t)) { continue; }
            let Some(n) = name(&t) else { continue };
            cat.insert(Entry::NotYetLoaded(n.clone(), class, ()));
            cat.remove(&n, class);
        }
    }
    Some((cat, skipped))
}

pub fn handle(server: &Server<Cat>, req: &[u8], tcp: bool) -> Result<Option<Vec<u8>>, ()> {
    let info = ReceivedInfo::new(IpAddr::V4(Ipv4Addr::new(192, 0, 2, 1)), if tcp { Transport::Tcp } else { Transport::Udp });
    let mut buf = vec![0u8; 65535];
    let r = std::panic::catch_unwind(std::panic::AssertUnwindSafe(|| server.handle_message(req, info, &mut buf)));
    match r {
        Ok(Response::Single(n)) => Ok(Some(buf[..n].to_vec())),
        Ok(Response::None) => Ok(None),
        Err(_) => Err(()),
    }
}

fn resp_hex(r: &Result<Option<Vec<u8>>, ()>) -> String {
    match r { Ok(Some(b)) => hex(b), Ok(None) => "none".into(), Err(()) => "panic".into() }
}

pub fn make_server(zs: &[ZoneCfg], payload: u16) -> Option<Server<Cat>> {
    let (cat, skipped) = build_catalog(zs)?;
    if skipped > 0 { return None; }
    let mut s = Server::new(Arc::new(cat));
    s.set_edns_udp_payload_size(payload).ok()?;
    Some(s)
}

pub fn run(op: &str, a: &[&str]) -> Option<String> {
    match (op, a) {
        ("srv", [tr, payload, cat, req]) => {
            let (Some(zs), Some(req), Ok(payload)) = (dec_catalog(cat), unhex(req), payload.parse::<u16>()) else { return Some("bad-op".into()) };
            let Some(server) = make_server(&zs, payload) else { return Some("bad-op".into()) };
            Some(resp_hex(&handle(&server, &req, *tr == "t")))
        }
        ("aud", [payload, cat, req, _udp, _tcp]) => {
            // re-run and check that the recorded octets are what the implementation returns now
            let (Some(zs), Some(req), Ok(payload)) = (dec_catalog(cat), unhex(req), payload.parse::<u16>()) else { return Some("bad-op".into()) };
            let Some(server) = make_server(&zs, payload) else { return Some("bad-op".into()) };
            let u = resp_hex(&handle(&server, &req, false));
            let t = resp_hex(&handle(&server, &req, true));
            Some(if u == *_udp && t == *_tcp { "ok".into() } else { format!("stale {} {}", u, t) })
        }
        _ => None,
    }
}

// ------------------------------------------------------------------------------------------
// generators
// ------------------------------------------------------------------------------------------

const LBL: [&[u8]; 9] = [b"a", b"b", b"c", b"www", b"ns", b"mx", b"*", b"d", b"e"];

fn lname(labels: &[&[u8]]) -> Vec<u8> {
    dns::name_from_labels(&labels.iter().map(|l| l.to_vec()).collect::<Vec<_>>())
}

fn under(rng: &mut Rng, apex: &[u8], depth: usize) -> Vec<u8> {
    let mut w = Vec::new();
    for _ in 0..depth {
        let l = *rng.pick(&LBL);
        w.push(l.len() as u8);
        w.extend_from_slice(l);
    }
    w.extend_from_slice(apex);
    w
}

fn case_flip(rng: &mut Rng, w: &[u8]) -> Vec<u8> {
    // flip the case of letters inside labels (not the length octets)
    let mut out = w.to_vec();
    let mut p = 0;
    while p < out.len() {
        let l = out[p] as usize;
        if l == 0 { break; }
        for i in p + 1..(p + 1 + l).min(out.len()) {
            if out[i].is_ascii_alphabetic() && rng.chance(1, 2) { out[i] ^= 0x20; }
        }
        p += 1 + l;
    }
    out
}

fn soa_rdata(rng: &mut Rng, apex: &[u8], minimum: u32) -> Vec<u8> {
    let mut v = under(rng, apex, 1);
    v.extend(under(rng, apex, 1));
    for x in [1u32, 7200, 3600, 86400, minimum] { v.extend_from_slice(&x.to_be_bytes()); }
    v
}

/// One zone with interesting content. TTLs are chosen per (owner, type) so adds never mismatch;
/// exact duplicate RDATA within an RRset is avoided.
pub fn gen_zone(rng: &mut Rng, apex: Vec<u8>, class: u16) -> ZoneCfg {
    let mut recs: Vec<Rec> = Vec::new();
    let mut seen: std::collections::HashSet<(Vec<u8>, u16, Vec<u8>)> = Default::default();
    let mut ttls: std::collections::HashMap<(Vec<u8>, u16), u32> = Default::default();
    let lower = |w: &[u8]| -> Vec<u8> { w.iter().map(|b| b.to_ascii_lowercase()).collect() };
    let mut push = |rng: &mut Rng, recs: &mut Vec<Rec>, owner: Vec<u8>, ty: u16, rdata: Vec<u8>| {
        let key = (lower(&owner), ty);
        let ttl = *ttls.entry(key.clone()).or_insert_with(|| *rng.pick(&[0u32, 60, 300, 3600, 86400]));
        if seen.insert((key.0.clone(), ty, lower(&rdata))) {
            recs.push(Rec { owner, ty, ttl, rdata });
        }
    };
    if rng.chance(9, 10) {
        let min = *rng.pick(&[0u32, 30, 60, 3600, 86400, 0x8000_0001]);
        let rd = soa_rdata(rng, &apex, min);
        push(rng, &mut recs, apex.clone(), 6, rd);
    }
    if rng.chance(9, 10) {
        for _ in 0..rng.range(1, 2) { let t = under(rng, &apex, 1); push(rng, &mut recs, apex.clone(), 2, t); }
    }
    let n = rng.range(0, 14);
    for _ in 0..n {
        let depth = rng.range(0, 3);
        let mut owner = under(rng, &apex, depth);
        match rng.below(14) {
            0..=2 => { let rd: Vec<u8> = (0..4).map(|_| rng.byte()).collect(); push(rng, &mut recs, owner, 1, rd); }
            3 => { if class == 1 { let rd: Vec<u8> = (0..16).map(|_| rng.byte()).collect(); push(rng, &mut recs, owner, 28, rd); } }
            4 | 5 => { let d = rng.range(0, 2); let t = under(rng, &apex, d); push(rng, &mut recs, owner, 5, t); }
            6 => { // delegation
                if owner != apex {
                    let k = rng.range(1, 2);
                    for _ in 0..k {
                        let t = match rng.below(3) { 0 => under(rng, &owner, 1), 1 => under(rng, &apex, 1), _ => lname(&[b"ns", b"other"]) };
                        push(rng, &mut recs, owner.clone(), 2, t.clone());
                        if rng.chance(2, 3) { let rd: Vec<u8> = (0..4).map(|_| rng.byte()).collect(); push(rng, &mut recs, t, 1, rd); }
                    }
                }
            }
            7 => { let d = rng.range(0, 2); let t = under(rng, &apex, d); let mut rd = vec![0, rng.byte()]; rd.extend(t); push(rng, &mut recs, owner, 15, rd); }
            8 => { let d = rng.range(0, 2); let t = under(rng, &apex, d); let mut rd: Vec<u8> = (0..6).map(|_| rng.byte()).collect(); rd.extend(t); push(rng, &mut recs, owner, 33, rd); }
            9 => { let rd = vec![3, b'a', b'b', b'c']; push(rng, &mut recs, owner, 16, rd); }
            10 => { // malformed RDATA for a name-bearing type
                let rd = match rng.below(3) { 0 => vec![], 1 => vec![5, b'a'], _ => vec![1, b'a', 0, 7] };
                let ty = *rng.pick(&[2u16, 5, 15, 6]);
                push(rng, &mut recs, owner, ty, rd);
            }
            11 => { let t = under(rng, &apex, 1); let ty = *rng.pick(&[3u16, 4, 7, 12]); push(rng, &mut recs, owner, ty, t); }
            12 => { let rd: Vec<u8> = (0..rng.below(6)).map(|_| rng.byte()).collect(); let ty = *rng.pick(&[99u16, 10, 13, 65280]); push(rng, &mut recs, owner, ty, rd); }
            _ => { let rd: Vec<u8> = (0..4).map(|_| rng.byte()).collect(); push(rng, &mut recs, owner, 1, rd); }
        }
    }
    // CNAME chains and loops
    if rng.chance(1, 3) {
        let len = rng.range(1, 10);
        let names: Vec<Vec<u8>> = (0..=len).map(|i| { let l = format!("c{}", i); let mut w = vec![l.len() as u8]; w.extend_from_slice(l.as_bytes()); w.extend_from_slice(&apex); w }).collect();
        for i in 0..len { push(rng, &mut recs, names[i].clone(), 5, names[i + 1].clone()); }
        match rng.below(3) {
            0 => { let j = rng.below(len + 1); push(rng, &mut recs, names[len].clone(), 5, names[j].clone()); } // loop
            1 => { let rd: Vec<u8> = (0..4).map(|_| rng.byte()).collect(); push(rng, &mut recs, names[len].clone(), 1, rd); }
            _ => {}
        }
    }
    // shuffle a little so insertion order varies
    for i in (1..recs.len()).rev() { if rng.chance(1, 3) { let j = rng.below(i + 1); recs.swap(i, j); } }
    ZoneCfg { kind: 'L', apex, class, glue_wide: rng.chance(1, 4), recs }
}

pub fn gen_catalog(rng: &mut Rng) -> Vec<ZoneCfg> {
    let apexes: [Vec<u8>; 6] = [lname(&[b"a"]), lname(&[b"b", b"a"]), lname(&[b"example"]), vec![0], lname(&[b"c", b"b", b"a"]), lname(&[b"com"])];
    let mut zs = Vec::new();
    let n = match rng.below(8) { 0 => 0, 1..=4 => 1, 5 | 6 => 2, _ => 3 };
    let mut used: std::collections::HashSet<(Vec<u8>, u16)> = Default::default();
    for _ in 0..n {
        let apex = rng.pick(&apexes).clone();
        let class = *rng.pick(&[1u16, 1, 1, 1, 3, 4]);
        if !used.insert((apex.clone(), class)) { continue; }
        match rng.below(8) {
            0 => zs.push(ZoneCfg { kind: 'N', apex, class, glue_wide: false, recs: vec![] }),
            1 => zs.push(ZoneCfg { kind: 'F', apex, class, glue_wide: false, recs: vec![] }),
            _ => zs.push(gen_zone(rng, apex, class)),
        }
    }
    zs
}

fn opt_rr(rng: &mut Rng, payload: u16, ttl: u32, owner: &[u8]) -> Vec<u8> {
    let rd = if rng.chance(1, 6) { dns::rand_rdata(rng, 41, &[], false) } else { vec![] };
    dns::rr(owner, 41, payload, ttl, &rd)
}

/// names worth asking about: owners in the zones, their neighbours, RDATA targets
fn query_names(rng: &mut Rng, zs: &[ZoneCfg]) -> Vec<Vec<u8>> {
    let mut v: Vec<Vec<u8>> = Vec::new();
    for z in zs {
        v.push(z.apex.clone());
        for r in &z.recs {
            v.push(r.owner.clone());
            // one label below / sibling / parent
            let mut below = vec![1, *rng.pick(&[b'a', b'z', b'*'])]; below.extend_from_slice(&r.owner); if below.len() <= 255 { v.push(below); }
            if r.owner.len() > 1 { let l = r.owner[0] as usize; v.push(r.owner[1 + l..].to_vec()); }
        }
    }
    v.push(lname(&[b"nowhere", b"test"]));
    v.push(vec![0]);
    v
}

/// a clean, well-formed QUERY aimed at the zone contents (C05/C04), optionally with EDNS
pub fn gen_clean_query(rng: &mut Rng, zs: &[ZoneCfg]) -> Vec<u8> {
    let names = query_names(rng, zs);
    let mut qname = rng.pick(&names).clone();
    if rng.chance(1, 4) { qname = case_flip(rng, &qname); }
    let loaded: Vec<&ZoneCfg> = zs.iter().filter(|z| z.kind == 'L').collect();
    let qclass = if loaded.is_empty() || rng.chance(1, 20) { 1 } else { rng.pick(&loaded).class };
    let qtype = if rng.chance(1, 3) {
        // a type that occurs in the zones
        let tys: Vec<u16> = zs.iter().flat_map(|z| z.recs.iter().map(|r| r.ty)).collect();
        if tys.is_empty() { 1 } else { *rng.pick(&tys) }
    } else { *rng.pick(&[1u16, 1, 2, 5, 6, 15, 16, 28, 33, 255, 255, 12, 99]) };
    let mut ar = 0u16;
    let mut body = dns::question(&qname, qtype, qclass);
    if rng.chance(1, 2) {
        let payload = *rng.pick(&[0u16, 512, 513, 600, 1232, 4096, 65535]);
        body.extend(dns::rr(&[0], 41, payload, 0, &[])); ar += 1;
    }
    let mut m = dns::header(rng.next() as u16, if rng.chance(1, 2) { 0x0100 } else { 0 }, 1, 0, 0, ar);
    m.extend(body);
    m
}

pub fn gen_request(rng: &mut Rng, zs: &[ZoneCfg]) -> Vec<u8> {
    if rng.chance(1, 2) { return gen_clean_query(rng, zs); }
    let names = query_names(rng, zs);
    let mut qname = rng.pick(&names).clone();
    if rng.chance(1, 5) { qname = case_flip(rng, &qname); }
    let qtype = *rng.pick(&[1u16, 1, 2, 5, 6, 15, 16, 28, 33, 255, 255, 251, 252, 253, 254, 12, 99, 41, 250]);
    let qclass = match rng.below(12) { 0 => 255, 1 => 3, 2 => 254, 3 => 4, _ => zs.first().map(|z| z.class).unwrap_or(1) };
    let opcode: u16 = if rng.chance(1, 10) { rng.below(16) as u16 } else { 0 };
    let mut flags: u16 = (opcode << 11) | if rng.chance(1, 2) { 0x0100 } else { 0 };
    if rng.chance(1, 8) { flags = rng.next() as u16; }
    let qd: u16 = match rng.below(16) { 0 => 0, 1 => 2, _ => 1 };
    let mut body = Vec::new();
    for _ in 0..qd.min(2) { body.extend(dns::question(&qname, qtype, qclass)); }
    let mut an = 0u16; let mut ns = 0u16; let mut ar = 0u16;
    // occasional ordinary records in the request
    if rng.chance(1, 10) { let rd = dns::rand_rdata(rng, 1, &[], false); body.extend(dns::rr(&dns::pointer(12), 1, 1, 5, &rd)); an += 1; }
    if rng.chance(1, 14) { body.extend(opt_rr(rng, 1232, 0, &[0])); if rng.chance(1, 2) { an += 1 } else { ns += 1 } } // OPT in the wrong section
    if rng.chance(1, 8) { let rd = dns::rand_rdata(rng, 16, &[], false); body.extend(dns::rr(&qname, 16, 1, 0, &rd)); ar += 1; } // plain record before the OPT
    if rng.chance(1, 2) {
        let payload = *rng.pick(&[0u16, 511, 512, 513, 1232, 4096, 65535, 100]);
        let ttl: u32 = match rng.below(8) { 0 => 0x0001_0000, 1 => 0x8001_0000, 2 => rng.next() as u32, 3 => 0x0000_8000, 4 => 0xff00_0000, _ => 0 };
        let owner: Vec<u8> = if rng.chance(1, 10) { lname(&[b"x"]) } else { vec![0] };
        body.extend(opt_rr(rng, payload, ttl, &owner)); ar += 1;
        if rng.chance(1, 12) { body.extend(opt_rr(rng, payload, 0, &[0])); ar += 1; } // second OPT
    }
    if rng.chance(1, 12) { let rd = dns::rand_rdata(rng, 16, &[], false); body.extend(dns::rr(&qname, 16, 1, 0, &rd)); ar += 1; }
    let mut m = dns::header(rng.next() as u16, flags, qd, an, ns, ar);
    m.extend(body);
    // mutations (C08): truncation, junk, count edits, byte flips
    if rng.chance(1, 4) { dns::mutate(rng, &mut m); }
    if rng.chance(1, 16) { dns::mutate(rng, &mut m); }
    m
}

/// a zone with large RRsets and long names, to reach the size limits (C04)
pub fn gen_big_zone(rng: &mut Rng) -> ZoneCfg {
    let long = |rng: &mut Rng, n: usize| -> Vec<u8> { let mut l: Vec<u8> = Vec::new(); for _ in 0..n { l.push(b'a' + rng.below(26) as u8); } l };
    let apex = if rng.chance(1, 2) { lname(&[b"big"]) } else {
        let n1 = rng.range(20, 63); let n2 = rng.range(20, 63); let l1 = long(rng, n1); let l2 = long(rng, n2);
        dns::name_from_labels(&[l1, l2])
    };
    let mut recs = Vec::new();
    let mut soa = under(rng, &apex, 1); soa.extend(under(rng, &apex, 1));
    for x in [1u32, 2, 3, 4, 60] { soa.extend_from_slice(&x.to_be_bytes()); }
    recs.push(Rec { owner: apex.clone(), ty: 6, ttl: 300, rdata: soa });
    let host = |rng: &mut Rng, i: usize| -> Vec<u8> { let l = format!("h{}", i); let mut w = vec![l.len() as u8]; w.extend_from_slice(l.as_bytes()); if rng.chance(1, 3) { let k = rng.range(10, 40); let x = long(rng, k); w.push(x.len() as u8); w.extend(x); } w };
    let n_ns = rng.range(1, 12);
    let mut targets = Vec::new();
    for i in 0..n_ns { let mut t = host(rng, i); t.extend_from_slice(&apex); targets.push(t.clone()); recs.push(Rec { owner: apex.clone(), ty: 2, ttl: 300, rdata: t }); }
    for t in &targets {
        for _ in 0..rng.range(0, 3) { recs.push(Rec { owner: t.clone(), ty: 1, ttl: 60, rdata: (0..4).map(|_| rng.byte()).collect() }); }
        if rng.chance(1, 2) { recs.push(Rec { owner: t.clone(), ty: 28, ttl: 60, rdata: (0..16).map(|_| rng.byte()).collect() }); }
    }
    // a big RRset
    let mut owner = vec![1, b'w']; owner.extend_from_slice(&apex);
    let n = *rng.pick(&[1usize, 5, 20, 28, 29, 30, 31, 40, 100, 400]);
    let ty = *rng.pick(&[1u16, 16, 15, 28]);
    let mut seen = std::collections::HashSet::new();
    for i in 0..n {
        let rd: Vec<u8> = match ty {
            1 => vec![10, (i >> 8) as u8, i as u8, rng.byte()],
            28 => { let mut v = vec![0x20; 14]; v.push((i >> 8) as u8); v.push(i as u8); v }
            16 => { let k = rng.range(1, 60); let mut v = vec![k as u8]; let x = long(rng, k); v.extend(x); v }
            _ => { let mut v = vec![(i >> 8) as u8, i as u8]; v.extend(targets[i % targets.len()].clone()); v }
        };
        if seen.insert(rd.clone()) { recs.push(Rec { owner: owner.clone(), ty, ttl: 30, rdata: rd }); }
    }
    // a delegation with many in-bailiwick and sibling name servers
    let mut child = vec![3, b's', b'u', b'b']; child.extend_from_slice(&apex);
    for i in 0..rng.range(1, 10) {
        let mut t = host(rng, 100 + i);
        if rng.chance(2, 3) { t.extend_from_slice(&child); } else { t.extend_from_slice(&apex); }
        recs.push(Rec { owner: child.clone(), ty: 2, ttl: 300, rdata: t.clone() });
        for _ in 0..rng.range(0, 3) { recs.push(Rec { owner: t.clone(), ty: 1, ttl: 60, rdata: (0..4).map(|_| rng.byte()).collect() }); }
        if rng.chance(1, 2) { recs.push(Rec { owner: t.clone(), ty: 28, ttl: 60, rdata: (0..16).map(|_| rng.byte()).collect() }); }
    }
    // dedupe exact duplicates (same owner/type/rdata)
    let mut uniq = std::collections::HashSet::new();
    recs.retain(|r| uniq.insert((r.owner.clone(), r.ty, r.rdata.clone())));
    ZoneCfg { kind: 'L', apex, class: 1, glue_wide: false, recs }
}

pub fn emit_pair(em: &mut Emitter, server: &Server<Cat>, payload: u16, cat: &str, req: &[u8]) {
    let u = handle(server, req, false);
    let t = handle(server, req, true);
    let rh = hex(req);
    em.emit(&format!("aud {} {} {} {} {}", payload, cat, rh, resp_hex(&u), resp_hex(&t)), "ok");
    if EMIT_SRV {
        for (tr, r) in [("u", &u), ("t", &t)] {
            em.emit(&format!("srv {} {} {} {}", tr, payload, cat, rh), &resp_hex(r));
        }
    }
}

/// RRsets with more RDATA names than a `HintPointerVec` holds (16), whose late targets share labels,
/// with address RRsets of varying size: near the UDP limit an optional additional RRset is rolled
/// back and a later, hint-less owner is compressed heuristically (C02/C13: rollback of the writer's
/// compression anchors).
pub fn gen_hint_overflow_zone(rng: &mut Rng) -> ZoneCfg {
    let apex = lname(&[b"ex", b"test"]);
    let mut recs = Vec::new();
    let mut soa = under(rng, &apex, 1); soa.extend(under(rng, &apex, 1));
    for x in [1u32, 2, 3, 4, 60] { soa.extend_from_slice(&x.to_be_bytes()); }
    recs.push(Rec { owner: apex.clone(), ty: 6, ttl: 300, rdata: soa });
    let ty = *rng.pick(&[15u16, 15, 2, 33]);
    let n_plain = rng.range(14, 19);
    let mk = |labels: &[&[u8]], apex: &[u8]| -> Vec<u8> { let mut w = Vec::new(); for l in labels { w.push(l.len() as u8); w.extend_from_slice(l); } w.extend_from_slice(apex); w };
    let mut targets: Vec<Vec<u8>> = Vec::new();
    for i in 0..n_plain { let l = format!("m{}", i); targets.push(mk(&[l.as_bytes()], &apex)); }
    // consecutive late targets share their parent label most of the time (a rolled-back owner is then
    // the natural compression partner of the next one)
    let shared: [&[u8]; 3] = match rng.below(4) { 0 => [b"foo", b"bar", b"foo"], 1 => [b"foo", b"foo", b"bar"], _ => [b"foo", b"foo", b"foo"] };
    for (i, l) in [b"x", b"y", b"z", b"v"].iter().enumerate().take(rng.range(2, 4)) {
        targets.push(mk(&[&l[..], shared[i % 3]], &apex));
    }
    for (i, t) in targets.iter().enumerate() {
        let rd: Vec<u8> = match ty {
            15 => { let mut v = vec![0, i as u8]; v.extend(t); v }
            33 => { let mut v = vec![0, i as u8, 0, 0, 0, 53]; v.extend(t); v }
            _ => t.clone(),
        };
        recs.push(Rec { owner: apex.clone(), ty, ttl: 300, rdata: rd });
        // the first late target often has an address RRset too big to fit (it is dropped), the
        // following ones small ones (they fit and are compressed against what came before)
        let n_a = if i == n_plain { rng.range(4, 24) } else if i > n_plain { if rng.chance(3, 4) { 1 } else { rng.range(1, 24) } } else { 1 };
        for k in 0..n_a { recs.push(Rec { owner: t.clone(), ty: 1, ttl: 60, rdata: vec![10, i as u8, k as u8, rng.byte()] }); }
        if rng.chance(1, 4) { recs.push(Rec { owner: t.clone(), ty: 28, ttl: 60, rdata: (0..16).map(|_| rng.byte()).collect() }); }
    }
    let mut uniq = std::collections::HashSet::new();
    recs.retain(|r| uniq.insert((r.owner.clone(), r.ty, r.rdata.clone())));
    ZoneCfg { kind: 'L', apex, class: 1, glue_wide: false, recs }
}

/// the queries that go with it: the big RRset, with the payload sizes around the boundaries
pub fn gen_hint_overflow_queries(rng: &mut Rng, z: &ZoneCfg) -> Vec<Vec<u8>> {
    let ty = z.recs.iter().map(|r| r.ty).find(|t| *t == 15 || *t == 2 || *t == 33).unwrap_or(15);
    let mut out = Vec::new();
    for payload in [None, Some(512u16), Some(560), Some(600), Some(700), Some(1232)] {
        let mut body = dns::question(&z.apex, ty, 1);
        let mut ar = 0;
        if let Some(p) = payload { body.extend(dns::rr(&[0], 41, p, 0, &[])); ar = 1; }
        let mut m = dns::header(rng.next() as u16, 0x0100, 1, 0, 0, ar);
        m.extend(body);
        out.push(m);
    }
    out
}

/// `srv` lines need the server model in the driver; enabled once it exists.
pub const EMIT_SRV: bool = true;

pub fn gen(rng: &mut Rng, thorough: bool, em: &mut Emitter) {
    let n_cat = if thorough { 1500 } else { 120 };
    let per = if thorough { 60 } else { 40 };
    for _ in 0..n_cat {
        let zs = gen_catalog(rng);
        let payload = *rng.pick(&[512u16, 513, 1232, 4096, 65535]);
        let Some(server) = make_server(&zs, payload) else { continue };
        let cat = enc_catalog(&zs);
        for _ in 0..per {
            let req = gen_request(rng, &zs);
            emit_pair(em, &server, payload, &cat, &req);
        }
        // every header-flag combination on one query (C03): sampled in quick, all opcodes×flags in thorough
        let base = gen_request(rng, &zs);
        if base.len() >= 12 {
            let k = if thorough { 64 } else { 8 };
            for _ in 0..k {
                let mut m = base.clone();
                m[2] = rng.byte(); m[3] = rng.byte();
                emit_pair(em, &server, payload, &cat, &m);
            }
        }
    }
    // large RRsets, long names, many name servers: the size limits (C04)
    let n_big = if thorough { 300 } else { 25 };
    for _ in 0..n_big {
        let z = gen_big_zone(rng);
        let zs = vec![z];
        let payload = *rng.pick(&[512u16, 513, 700, 1232, 4096, 65535]);
        let Some(server) = make_server(&zs, payload) else { continue };
        let cat = enc_catalog(&zs);
        for _ in 0..12 {
            let req = gen_clean_query(rng, &zs);
            emit_pair(em, &server, payload, &cat, &req);
        }
    }
    // more RDATA names than hint slots + additional RRsets dropped at the limit (writer rollback)
    let n_ho = if thorough { 400 } else { 40 };
    for _ in 0..n_ho {
        let z = gen_hint_overflow_zone(rng);
        let qs = gen_hint_overflow_queries(rng, &z);
        let zs = vec![z];
        let payload = *rng.pick(&[512u16, 560, 1232, 4096]);
        let Some(server) = make_server(&zs, payload) else { continue };
        let cat = enc_catalog(&zs);
        for q in qs { emit_pair(em, &server, payload, &cat, &q); }
    }
    // short messages: all lengths 0..=14 with counts set (C01 witnesses live here)
    let zs = gen_catalog(rng);
    if let Some(server) = make_server(&zs, 1232) {
        let cat = enc_catalog(&zs);
        for len in 0..=16usize {
            for qd in 0..=2u16 { for an in 0..=1u16 { for ar in 0..=1u16 {
                let mut m = dns::header(7, 0x0100, qd, an, 0, ar);
                m.extend_from_slice(&[0, 0, 1, 0, 1, 0xc0, 0x0c, 0, 1]);
                m.truncate(len);
                emit_pair(em, &server, 1232, &cat, &m);
            }}}
        }
    }
}

#[allow(dead_code)]
pub fn debug_big(rng: &mut Rng) {
    for _ in 0..5 {
        let z = gen_big_zone(rng);
        let r = build_catalog(&[z.clone()]);
        eprintln!("big zone: {} recs -> {:?}", z.recs.len(), r.map(|x| x.1));
        if let Some(apex) = name(&z.apex) {
            let mut zone = HashMapTreeZone::new(apex, Class::from(1), GluePolicy::Narrow);
            for rec in &z.recs {
                let owner = name(&rec.owner);
                if owner.is_none() { eprintln!("  bad owner {}", hex(&rec.owner)); continue; }
                let rd: &Rdata = <&Rdata>::try_from(&rec.rdata[..]).unwrap();
                if let Err(e) = zone.add(&owner.unwrap(), Type::from(rec.ty), Class::from(1), Ttl::from(rec.ttl), rd) { eprintln!("  add failed {:?} ty {} owner {}", e, rec.ty, hex(&rec.owner)); break; }
            }
        }
    }
}
