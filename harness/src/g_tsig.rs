//! group `tsig` — C11: src/message/tsig.rs, src/rr/rdata/tsig.rs, `Writer::finish_with_mac`.
//!
//! ops (one case per line; byte strings hex, `-` = empty; names as uncompressed wire hex;
//! times as decimal Unix seconds < 2^48; modes `req|resp|subs`; algorithms `hmac-sha1|hmac-sha256`):
//!
//!   sha <sha1|sha256> <msg>                          `sha1` / `sha2` crates     → ok <digest>
//!   shavec <sha1|sha256> <msg> <expected>            same; the spec column is the published value
//!   sharep <sha1|sha256> <octet> <count> <expected>  digest of `count` copies of one octet
//!   hmac <alg> <key> <msg>                           `hmac` crate               → ok <mac>
//!   hmacvec <alg> <key> <msg> <expected>             same; spec column = published value
//!   tsign <mode> <alg> <key> <msg> <keyname> <time> <fudge> <origid> <error> <servertime> <pmac>
//!        `PreparedTsigRr::sign_*` on `msg` (the message without the TSIG RR, final ARCOUNT)
//!                                                                               → ok <mac> <rdata> | panic
//!   twrite <mode> <alg> <key> <keyname> <time> <fudge> <origid> <error> <servertime> <pmac> <recipe> <prefix>
//!        the message is built by the real `Writer` from `recipe`, `set_tsig`, `finish_with_mac`;
//!        the finished message is read back with the real `Reader`; `prefix` (recorded when the case
//!        was generated) must be the message up to the TSIG RR
//!                                                   → ok <mac> <rdata of the TSIG RR> <owner of the TSIG RR>
//!   tverify <mode> <alg> <key> <now> <msg> <keyname> <rdata> <pmac>
//!        `ReadTsigRr::try_from(ReadRr{owner: keyname, TSIG, ANY, 0, rdata})` then `verify_*(msg, …)`
//!                                   → ok | err:BadSig | err:BadTime | err:FormErr | panic | invalid-rdata
//!   tvmsg <mode> <alg> <key> <now> <fullmsg> <pmac>
//!        a complete message is taken apart by the real `Reader` (questions and all RRs but the last
//!        skipped, last RR parsed, `ReadTsigRr::try_from`), then `verify_*`
//!                                   → ok | err:… | panic | unreadable | rr:FormErr | rr:NotTsig
use crate::common::*;
use hmac::{Hmac, Mac};
use quandary::class::Class;
use quandary::message::reader::ReadRr;
use quandary::message::tsig::{Algorithm, FromReadRrError, PreparedTsigRr, ReadTsigRr, VerificationError};
use quandary::message::writer::{Hint, HintedName, TsigMode};
use quandary::message::{ExtendedRcode, Qclass, Question, Reader, Writer};
use quandary::name::{LowercaseName, Name};
use quandary::rr::rdata::TimeSigned;
use quandary::rr::{Rdata, Ttl, Type};
use sha1::Sha1;
use sha2::{Digest, Sha256};
use std::borrow::Cow;

fn bad() -> Option<String> {
    Some("bad-op".to_string())
}

fn alg_of(s: &str) -> Option<Algorithm> {
    match s {
        "hmac-sha1" => Some(Algorithm::HmacSha1),
        "hmac-sha256" => Some(Algorithm::HmacSha256),
        _ => None,
    }
}

fn alg_str(a: Algorithm) -> &'static str {
    match a {
        Algorithm::HmacSha1 => "hmac-sha1",
        Algorithm::HmacSha256 => "hmac-sha256",
    }
}

fn crate_sha(alg: &str, msg: &[u8]) -> Option<Vec<u8>> {
    match alg {
        "sha1" => Some(Sha1::digest(msg).to_vec()),
        "sha256" => Some(Sha256::digest(msg).to_vec()),
        _ => None,
    }
}

fn crate_hmac(alg: Algorithm, key: &[u8], msg: &[u8]) -> Vec<u8> {
    match alg {
        Algorithm::HmacSha1 => {
            let mut m = Hmac::<Sha1>::new_from_slice(key).unwrap();
            m.update(msg);
            m.finalize().into_bytes().to_vec()
        }
        Algorithm::HmacSha256 => {
            let mut m = Hmac::<Sha256>::new_from_slice(key).unwrap();
            m.update(msg);
            m.finalize().into_bytes().to_vec()
        }
    }
}

fn lname(wire: &[u8]) -> Option<Box<LowercaseName>> {
    Name::try_from_uncompressed_all(wire).ok().map(|n| n.into())
}

fn time_of(s: &str) -> Option<TimeSigned> {
    TimeSigned::try_from_unix_time(s.parse::<u64>().ok()?).ok()
}

fn verr(e: VerificationError) -> String {
    format!("err:{:?}", e)
}

#[allow(clippy::too_many_arguments)]
fn prepared(keyname: &str, time: &str, fudge: &str, origid: &str, error: &str, servertime: &str) -> Option<PreparedTsigRr> {
    Some(PreparedTsigRr {
        key_name: lname(&unhex(keyname)?)?,
        time_signed: time_of(time)?,
        fudge: fudge.parse().ok()?,
        original_id: origid.parse().ok()?,
        error: ExtendedRcode::from(error.parse::<u16>().ok()?),
        server_time: time_of(servertime)?,
    })
}

fn tsig_mode(mode: &str, alg: Algorithm, key: &[u8], pmac: &[u8]) -> Option<TsigMode> {
    Some(match mode {
        "req" => TsigMode::Request { algorithm: alg, key: key.into() },
        "resp" => TsigMode::Response { algorithm: alg, request_mac: pmac.into(), key: key.into() },
        "subs" => TsigMode::Subsequent { algorithm: alg, prior_mac: pmac.into(), key: key.into() },
        _ => return None,
    })
}

/// Build a message with the real `Writer` from a recipe (`;`-separated steps), then `set_tsig` (at
/// the step `tsig`, or at the end) and `finish_with_mac`. Returns (message, mac).
fn write_message(recipe: &str, mode: TsigMode, rr: PreparedTsigRr) -> Result<(Vec<u8>, Option<Box<[u8]>>), String> {
    let steps: Vec<&str> = if recipe == "-" { vec![] } else { recipe.split(';').collect() };
    let mut buflen = 4096usize;
    for s in &steps {
        if let Some(n) = s.strip_prefix("buf:") {
            buflen = n.parse().map_err(|_| "buf")?;
        }
    }
    let mut buf = vec![0u8; buflen];
    let len;
    let mac;
    {
        let mut w = Writer::new(&mut buf, buflen).map_err(|e| format!("new:{:?}", e))?;
        let mut tsig = Some((mode, rr));
        for s in &steps {
            let f: Vec<&str> = s.split(':').collect();
            match f.as_slice() {
                ["buf", _] => {}
                ["id", n] => w.set_id(n.parse().map_err(|_| "id")?),
                ["fl", bits] if bits.len() == 5 => {
                    let b: Vec<bool> = bits.chars().map(|c| c == '1').collect();
                    w.set_qr(b[0]);
                    w.set_aa(b[1]);
                    w.set_tc(b[2]);
                    w.set_rd(b[3]);
                    w.set_ra(b[4]);
                }
                ["q", name, qt, qc] => {
                    let qname = Name::try_from_uncompressed_all(&unhex(name).ok_or("q")?).map_err(|_| "qname")?;
                    let q = Question {
                        qname,
                        qtype: qt.parse::<u16>().map_err(|_| "qt")?.into(),
                        qclass: qc.parse::<u16>().map_err(|_| "qc")?.into(),
                    };
                    w.add_question(&q).map_err(|e| format!("q:{:?}", e))?;
                }
                [sec @ ("an" | "ns" | "ar"), owner, ty, cl, ttl, rd] => {
                    let owner = Name::try_from_uncompressed_all(&unhex(owner).ok_or("owner")?).map_err(|_| "owner")?;
                    let rdv = unhex(rd).ok_or("rdata")?;
                    let rdata: &Rdata = (&rdv[..]).try_into().map_err(|_| "rdata")?;
                    let ty = Type::from(ty.parse::<u16>().map_err(|_| "type")?);
                    let cl = Class::from(cl.parse::<u16>().map_err(|_| "class")?);
                    let ttl = Ttl::from(ttl.parse::<u32>().map_err(|_| "ttl")?);
                    let hn = HintedName::new(Hint::None, &owner);
                    match *sec {
                        "an" => w.add_answer_rr(hn, ty, cl, ttl, rdata, None),
                        "ns" => w.add_authority_rr(hn, ty, cl, ttl, rdata, None),
                        _ => w.add_additional_rr(hn, ty, cl, ttl, rdata, None),
                    }
                    .map_err(|e| format!("{}:{:?}", sec, e))?;
                }
                ["edns", n] => w.set_edns(n.parse().map_err(|_| "edns")?).map_err(|e| format!("edns:{:?}", e))?,
                ["tsig"] => {
                    if let Some((m, r)) = tsig.take() {
                        w.set_tsig(m, r).map_err(|e| format!("tsig:{:?}", e))?;
                    }
                }
                _ => return Err(format!("step:{}", s)),
            }
        }
        if let Some((m, r)) = tsig.take() {
            w.set_tsig(m, r).map_err(|e| format!("tsig:{:?}", e))?;
        }
        let (l, m) = w.finish_with_mac();
        len = l;
        mac = m;
    }
    buf.truncate(len);
    Ok((buf, mac))
}

/// Take a finished message apart with the real `Reader`: (prefix up to the last RR, last RR).
fn split_last_rr(msg: &[u8]) -> Result<(&[u8], ReadRr<'_>), String> {
    let mut reader = Reader::try_from(msg).map_err(|e| format!("{:?}", e))?;
    for _ in 0..reader.qdcount() {
        reader.skip_question().map_err(|e| format!("{:?}", e))?;
    }
    let total = reader.ancount() as usize + reader.nscount() as usize + reader.arcount() as usize;
    if total == 0 {
        return Err("no-rr".into());
    }
    for _ in 0..total - 1 {
        reader.skip_rr().map_err(|e| format!("{:?}", e))?;
    }
    let prefix = reader.message_to_cursor();
    // only a TSIG record is parsed (other types are C18's business)
    let peek = reader.peek_rr().map_err(|e| format!("{:?}", e))?;
    if peek.rr_type() != Type::TSIG {
        return Err("not-tsig".into());
    }
    let rr = peek.parse().map_err(|e| format!("{:?}", e))?;
    if !reader.at_eom() {
        return Err("trailing".into());
    }
    Ok((prefix, rr))
}

fn do_verify(rr: &ReadTsigRr, mode: &str, msg: &[u8], pmac: &[u8], alg: Algorithm, key: &[u8], now: TimeSigned) -> String {
    let r = match mode {
        "req" => rr.verify_request(msg, alg, key, now),
        "resp" => rr.verify_response(msg, pmac, alg, key, now),
        _ => rr.verify_subsequent(msg, pmac, alg, key, now),
    };
    match r {
        Ok(()) => "ok".to_string(),
        Err(e) => verr(e),
    }
}

pub fn run(op: &str, a: &[&str]) -> Option<String> {
    Some(match (op, a) {
        ("sha", [alg, m]) | ("shavec", [alg, m, _]) => {
            let Some(msg) = unhex(m) else { return bad() };
            let Some(d) = crate_sha(alg, &msg) else { return bad() };
            format!("ok {}", hex(&d))
        }
        ("sharep", [alg, octet, count, _]) => {
            let (Some(o), Ok(n)) = (unhex(octet), count.parse::<usize>()) else { return bad() };
            if o.len() != 1 || n > 1 << 26 {
                return bad();
            }
            let Some(d) = crate_sha(alg, &vec![o[0]; n]) else { return bad() };
            format!("ok {}", hex(&d))
        }
        ("hmac", [alg, k, m]) | ("hmacvec", [alg, k, m, _]) => {
            let (Some(alg), Some(key), Some(msg)) = (alg_of(alg), unhex(k), unhex(m)) else { return bad() };
            format!("ok {}", hex(&crate_hmac(alg, &key, &msg)))
        }
        ("tsign", [mode, alg, k, m, keyname, time, fudge, origid, error, servertime, pmac]) => {
            let (Some(alg), Some(key), Some(msg), Some(pmac)) = (alg_of(alg), unhex(k), unhex(m), unhex(pmac)) else { return bad() };
            let Some(p) = prepared(keyname, time, fudge, origid, error, servertime) else { return bad() };
            if !matches!(*mode, "req" | "resp" | "subs") {
                return bad();
            }
            guarded(|| {
                let (rdata, mac) = match *mode {
                    "req" => p.sign_request(&msg, alg, &key),
                    "resp" => p.sign_response(&msg, &pmac, alg, &key),
                    _ => p.sign_subsequent(&msg, &pmac, alg, &key),
                };
                format!("ok {} {}", hex(&mac), hex(rdata.octets()))
            })
        }
        ("twrite", [mode, alg, k, keyname, time, fudge, origid, error, servertime, pmac, recipe, prefix]) => {
            let (Some(alg), Some(key), Some(pmac), Some(prefix)) = (alg_of(alg), unhex(k), unhex(pmac), unhex(prefix)) else { return bad() };
            let Some(p) = prepared(keyname, time, fudge, origid, error, servertime) else { return bad() };
            let Some(tm) = tsig_mode(mode, alg, &key, &pmac) else { return bad() };
            guarded(|| {
                let (msg, mac) = match write_message(recipe, tm, p) {
                    Ok(x) => x,
                    Err(e) => return format!("setup-err:{}", e),
                };
                let Some(mac) = mac else { return "no-mac".to_string() };
                let (pre, rr) = match split_last_rr(&msg) {
                    Ok(x) => x,
                    Err(e) => return format!("unreadable:{}", e),
                };
                if pre != &prefix[..] {
                    return format!("prefix-mismatch {}", hex(pre));
                }
                if rr.class != Qclass::ANY.into() || u32::from(rr.ttl) != 0 {
                    return "bad-class-ttl".to_string();
                }
                // the owner may have been compressed (Standard mode) against an earlier name that differs in
                // case: names are compared ignoring ASCII case (length octets are ≤ 63, so lower-casing
                // the wire form touches letters only)
                format!("ok {} {} {}", hex(&mac), hex(rr.rdata.octets()), hex(&rr.owner.wire_repr().to_ascii_lowercase()))
            })
        }
        ("tverify", [mode, alg, k, now, m, keyname, rdata, pmac]) => {
            let (Some(alg), Some(key), Some(msg), Some(kn), Some(rd), Some(pmac)) =
                (alg_of(alg), unhex(k), unhex(m), unhex(keyname), unhex(rdata), unhex(pmac))
            else {
                return bad();
            };
            let (Some(now), Ok(owner)) = (time_of(now), Name::try_from_uncompressed_all(&kn)) else { return bad() };
            if !matches!(*mode, "req" | "resp" | "subs") || rd.len() > 65535 {
                return bad();
            }
            guarded(|| {
                let rdata: Box<Rdata> = rd.clone().try_into().unwrap();
                if rdata.validate_as_tsig().is_err() {
                    return "invalid-rdata".to_string();
                }
                let rr = ReadRr {
                    owner,
                    rr_type: Type::TSIG,
                    class: Qclass::ANY.into(),
                    ttl: Ttl::from(0),
                    rdata: Cow::Owned(rdata),
                };
                let tsig = match ReadTsigRr::try_from(rr) {
                    Ok(t) => t,
                    Err(FromReadRrError::FormErr) => return "rr:FormErr".to_string(),
                    Err(FromReadRrError::NotTsig) => return "rr:NotTsig".to_string(),
                };
                do_verify(&tsig, mode, &msg, &pmac, alg, &key, now)
            })
        }
        ("tvmsg", [mode, alg, k, now, m, pmac]) => {
            let (Some(alg), Some(key), Some(msg), Some(pmac)) = (alg_of(alg), unhex(k), unhex(m), unhex(pmac)) else { return bad() };
            let Some(now) = time_of(now) else { return bad() };
            if !matches!(*mode, "req" | "resp" | "subs") {
                return bad();
            }
            guarded(|| {
                let (pre, rr) = match split_last_rr(&msg) {
                    Ok(x) => x,
                    Err(_) => return "unreadable".to_string(),
                };
                let tsig = match ReadTsigRr::try_from(rr) {
                    Ok(t) => t,
                    Err(FromReadRrError::FormErr) => return "rr:FormErr".to_string(),
                    Err(FromReadRrError::NotTsig) => return "rr:NotTsig".to_string(),
                };
                // the caller (like the server) looks the algorithm up by the name in the RR
                if Algorithm::from_name(tsig.algorithm()) != Some(alg) {
                    return "alg-mismatch".to_string();
                }
                do_verify(&tsig, mode, pre, &pmac, alg, &key, now)
            })
        }
        _ => return None,
    })
}

// ------------------------------------------------------------------------------------------------
// generators
// ------------------------------------------------------------------------------------------------

const MODES: [&str; 3] = ["req", "resp", "subs"];
const ALGS: [Algorithm; 2] = [Algorithm::HmacSha1, Algorithm::HmacSha256];
const BADTIME: u16 = 18;
const MAX_TIME: u64 = (1 << 48) - 1;

fn emit(em: &mut Emitter, case: String) -> String {
    let mut it = case.split(' ');
    let op = it.next().unwrap();
    let args: Vec<&str> = it.collect();
    let r = run(op, &args).unwrap_or_else(|| "bad-op".into());
    em.emit(&case, &r);
    r
}

fn rand_bytes(rng: &mut Rng, n: usize) -> Vec<u8> {
    (0..n).map(|_| rng.byte()).collect()
}

fn rand_label(rng: &mut Rng, n: usize) -> Vec<u8> {
    let mut v = vec![n as u8];
    for _ in 0..n {
        v.push(match rng.below(10) {
            0 => rng.byte(),
            1..=3 => b'A' + rng.below(26) as u8,
            4 => b'0' + rng.below(10) as u8,
            _ => b'a' + rng.below(26) as u8,
        });
    }
    v
}

/// a valid uncompressed name (wire form)
fn rand_name(rng: &mut Rng) -> Vec<u8> {
    let mut v = Vec::new();
    match rng.below(20) {
        0 => {}                 // root
        1 => {
            // maximal: 255 octets
            for _ in 0..3 {
                v.extend(rand_label(rng, 63));
            }
            v.extend(rand_label(rng, 61));
        }
        2 => {
            for _ in 0..rng.range(60, 127) {
                v.extend(rand_label(rng, 1));
            }
        }
        _ => {
            for _ in 0..rng.range(1, 4) {
                let n = rng.range(1, 10);
                v.extend(rand_label(rng, n));
            }
        }
    }
    v.push(0);
    v
}

fn rand_key(rng: &mut Rng) -> Vec<u8> {
    let n = match rng.below(12) {
        0 => 0,
        1 => *rng.pick(&[1usize, 20, 32, 63, 64, 65, 127, 128, 129, 200]),
        _ => rng.range(1, 200),
    };
    rand_bytes(rng, n)
}

fn rand_fudge(rng: &mut Rng) -> u16 {
    match rng.below(8) {
        0 => 0,
        1 => 1,
        2 => 65535,
        3 => rng.below(65536) as u16,
        _ => 300,
    }
}

fn rand_time(rng: &mut Rng) -> u64 {
    match rng.below(16) {
        0 => 0,
        1 => rng.below(400) as u64,           // smaller than most fudges: saturating_sub
        2 => MAX_TIME,
        3 => MAX_TIME - rng.below(70000) as u64,
        4 => rng.next() & MAX_TIME,
        5 => 0xffff_ffff + rng.below(3) as u64 - 1, // around 2^32
        _ => 1_600_000_000 + rng.below(200_000_000) as u64,
    }
}

fn rand_error(rng: &mut Rng) -> u16 {
    match rng.below(10) {
        0 => BADTIME,
        1 => *rng.pick(&[16u16, 17, 18, 1, 9, 22, 65535]),
        2 => rng.below(65536) as u16,
        _ => 0,
    }
}

/// A DNS message without its TSIG RR from a small encoder: header, questions, uncompressed RRs.
/// ARCOUNT counts the (absent) TSIG RR unless an edge case is chosen.
fn rand_message(rng: &mut Rng, small: bool) -> Vec<u8> {
    let mut m = Vec::new();
    m.extend(rand_bytes(rng, 4)); // id, flags
    let qd = if rng.chance(4, 5) { 1 } else { rng.below(3) };
    let (an, ns, ar) = if small { (rng.below(2), rng.below(2), rng.below(2)) } else { (rng.below(5), rng.below(3), rng.below(3)) };
    let arcount: u16 = match rng.below(24) {
        0 => 0,        // violates the precondition: `- 1` underflows
        1 => 1,
        2 => 0x0100,   // borrow across the two octets
        3 => 0xffff,
        4 => 0x8000,
        _ => ar as u16 + 1,
    };
    for c in [qd as u16, an as u16, ns as u16, arcount] {
        m.extend(c.to_be_bytes());
    }
    for _ in 0..qd {
        m.extend(rand_name(rng));
        m.extend(rand_bytes(rng, 4));
    }
    for _ in 0..an + ns + ar {
        m.extend(rand_name(rng));
        m.extend((*rng.pick(&[1u16, 16, 2, 28, 6, 41, 65280])).to_be_bytes());
        m.extend(1u16.to_be_bytes());
        m.extend(rand_bytes(rng, 4));
        let n = if small { rng.below(12) } else { rng.below(60) };
        m.extend((n as u16).to_be_bytes());
        m.extend(rand_bytes(rng, n));
    }
    m
}

fn rand_pmac(rng: &mut Rng, mode: &str) -> Vec<u8> {
    if mode == "req" {
        return vec![];
    }
    let n = match rng.below(12) {
        0 => 0,
        1 => 20,
        2 => *rng.pick(&[1usize, 10, 16, 64, 255, 256, 300]),
        _ => 32,
    };
    rand_bytes(rng, n)
}

struct Signed {
    mode: &'static str,
    alg: Algorithm,
    key: Vec<u8>,
    msg: Vec<u8>,
    keyname: Vec<u8>,
    time: u64,
    fudge: u16,
    origid: u16,
    error: u16,
    servertime: u64,
    pmac: Vec<u8>,
    mac: Vec<u8>,
}

impl Signed {
    fn other(&self) -> Vec<u8> {
        if self.error == BADTIME { self.servertime.to_be_bytes()[2..].to_vec() } else { vec![] }
    }
    /// TSIG RDATA from its fields (the harness's own serialiser, so that single fields can be altered)
    #[allow(clippy::too_many_arguments)]
    fn rdata_with(&self, alg_name: &[u8], time: u64, fudge: u16, mac: &[u8], origid: u16, error: u16, other: &[u8], other_len: u16) -> Vec<u8> {
        let mut v = alg_name.to_vec();
        v.extend(&time.to_be_bytes()[2..]);
        v.extend(fudge.to_be_bytes());
        v.extend((mac.len() as u16).to_be_bytes());
        v.extend(mac);
        v.extend(origid.to_be_bytes());
        v.extend(error.to_be_bytes());
        v.extend(other_len.to_be_bytes());
        v.extend(other);
        v
    }
    fn alg_name(&self) -> Vec<u8> {
        self.alg.name().wire_repr().to_vec()
    }
    fn rdata(&self, mac: &[u8]) -> Vec<u8> {
        let o = self.other();
        self.rdata_with(&self.alg_name(), self.time, self.fudge, mac, self.origid, self.error, &o, o.len() as u16)
    }
}

#[allow(clippy::too_many_arguments)]
fn verify_case(mode: &str, alg: Algorithm, key: &[u8], now: u64, msg: &[u8], keyname: &[u8], rdata: &[u8], pmac: &[u8]) -> String {
    format!("tverify {} {} {} {} {} {} {} {}", mode, alg_str(alg), hex(key), now, hex(msg), hex(keyname), hex(rdata), hex(pmac))
}

/// times around the window of (t, fudge)
fn window_times(t: u64, fudge: u16) -> Vec<u64> {
    let f = fudge as u64;
    let mut v = vec![t, t.saturating_sub(f), t + f, t.saturating_sub(f + 1), t + f + 1, t.saturating_sub(f.saturating_sub(1)), t + f.saturating_sub(1), 0, MAX_TIME, t.saturating_sub(f + 5), t + f + 5];
    for x in v.iter_mut() {
        if *x > MAX_TIME {
            *x = MAX_TIME;
        }
    }
    v.sort();
    v.dedup();
    v
}

fn other_alg(a: Algorithm) -> Algorithm {
    if a == Algorithm::HmacSha1 { Algorithm::HmacSha256 } else { Algorithm::HmacSha1 }
}

fn swap_case(name: &[u8]) -> Vec<u8> {
    // flip the case of the letters inside labels (a valid name stays the same name)
    let mut v = name.to_vec();
    let mut i = 0;
    while i < v.len() && v[i] != 0 {
        let n = v[i] as usize;
        for j in i + 1..(i + 1 + n).min(v.len()) {
            if v[j].is_ascii_alphabetic() {
                v[j] ^= 0x20;
            }
        }
        i += n + 1;
    }
    v
}

/// One signing case plus the verification cases derived from what the real code signed.
fn sign_and_verify(rng: &mut Rng, em: &mut Emitter, thorough: bool, every_position: bool) {
    let mode = *rng.pick(&MODES);
    let alg = *rng.pick(&ALGS);
    let key = rand_key(rng);
    let msg = if rng.chance(1, 40) { let n = rng.below(12); rand_bytes(rng, n) } else { rand_message(rng, every_position) };
    let keyname = rand_name(rng);
    let time = rand_time(rng);
    let fudge = rand_fudge(rng);
    let origid = rng.below(65536) as u16;
    let error = rand_error(rng);
    let servertime = rand_time(rng);
    let pmac = rand_pmac(rng, mode);
    let case = format!(
        "tsign {} {} {} {} {} {} {} {} {} {} {}",
        mode, alg_str(alg), hex(&key), hex(&msg), hex(&keyname), time, fudge, origid, error, servertime, hex(&pmac)
    );
    let r = emit(em, case);
    let mac = match r.strip_prefix("ok ") {
        Some(rest) => unhex(rest.split(' ').next().unwrap()).unwrap(),
        // the real code panicked (short message / ARCOUNT 0): verify with a made-up MAC all the same
        None => rand_bytes(rng, alg.output_size()),
    };
    let s = Signed { mode, alg, key, msg, keyname, time, fudge, origid, error, servertime, pmac, mac };
    let out = alg.output_size();
    let full = s.rdata(&s.mac);

    // 1. the signer's own output, at times around the window
    let times = window_times(s.time, s.fudge);
    let picks: Vec<u64> = if thorough { times.clone() } else { (0..3).map(|_| *rng.pick(&times)).collect() };
    for now in picks {
        emit(em, verify_case(mode, alg, &s.key, now, &s.msg, &s.keyname, &full, &s.pmac));
    }
    // key name / algorithm name in another case: same name, must still verify
    emit(em, verify_case(mode, alg, &s.key, s.time, &s.msg, &swap_case(&s.keyname), &full, &s.pmac));
    if rng.chance(1, 3) {
        let o = s.other();
        let rd = s.rdata_with(&swap_case(&s.alg_name()), s.time, s.fudge, &s.mac, s.origid, s.error, &o, o.len() as u16);
        emit(em, verify_case(mode, alg, &s.key, s.time, &s.msg, &s.keyname, &rd, &s.pmac));
    }

    // 2. truncated / extended MACs
    let lens: Vec<usize> = if thorough || rng.chance(1, 8) { (0..=out + 1).collect() } else { (0..3).map(|_| rng.below(out + 2)).collect() };
    for n in lens {
        let mut m = s.mac.clone();
        m.resize(n.max(m.len()), 0x5a);
        let m = &m[..n];
        // inside and outside the time window: FormErr > BadSig > BadTime
        let now = if rng.chance(2, 3) { s.time } else { *rng.pick(&times) };
        emit(em, verify_case(mode, alg, &s.key, now, &s.msg, &s.keyname, &s.rdata(m), &s.pmac));
        if rng.chance(1, 3) && n > 0 {
            // truncated and wrong in the last kept octet
            let mut w = m.to_vec();
            w[n - 1] ^= 1 << rng.below(8);
            emit(em, verify_case(mode, alg, &s.key, now, &s.msg, &s.keyname, &s.rdata(&w), &s.pmac));
        }
    }

    // 3. wrong key / algorithm / prior MAC / mode
    let now = if rng.chance(3, 4) { s.time } else { *rng.pick(&times) };
    let mut k2 = s.key.clone();
    if k2.is_empty() || rng.chance(1, 3) { k2.push(rng.byte()) } else { let i = rng.below(k2.len()); k2[i] ^= 1 << rng.below(8) }
    emit(em, verify_case(mode, alg, &k2, now, &s.msg, &s.keyname, &full, &s.pmac));
    // algorithm argument differs from the RR's algorithm name: assert_eq! panics
    emit(em, verify_case(mode, other_alg(alg), &s.key, now, &s.msg, &s.keyname, &full, &s.pmac));
    // RR rewritten to name the other algorithm
    {
        let o = s.other();
        let oa = other_alg(alg);
        let rd = s.rdata_with(oa.name().wire_repr(), s.time, s.fudge, &s.mac, s.origid, s.error, &o, o.len() as u16);
        emit(em, verify_case(mode, oa, &s.key, now, &s.msg, &s.keyname, &rd, &s.pmac));
    }
    if mode != "req" {
        let mut p2 = s.pmac.clone();
        match rng.below(3) {
            0 => p2.push(0),
            1 if !p2.is_empty() => { p2.pop(); }
            _ => { if p2.is_empty() { p2.push(1) } else { let i = rng.below(p2.len()); p2[i] ^= 1 << rng.below(8) } }
        }
        emit(em, verify_case(mode, alg, &s.key, now, &s.msg, &s.keyname, &full, &p2));
    }
    let m2 = *rng.pick(&MODES);
    if m2 != mode {
        emit(em, verify_case(m2, alg, &s.key, now, &s.msg, &s.keyname, &full, &s.pmac));
    }

    // 4. every TSIG variable altered, MAC kept
    {
        let o = s.other();
        let ol = o.len() as u16;
        let an = s.alg_name();
        let bit16 = 1u16 << rng.below(16);
        let bit48 = 1u64 << rng.below(48);
        let mut alts: Vec<(Vec<u8>, Vec<u8>)> = Vec::new(); // (keyname, rdata)
        alts.push((s.keyname.clone(), s.rdata_with(&an, s.time ^ bit48, s.fudge, &s.mac, s.origid, s.error, &o, ol)));
        alts.push((s.keyname.clone(), s.rdata_with(&an, s.time, s.fudge ^ bit16, &s.mac, s.origid, s.error, &o, ol)));
        alts.push((s.keyname.clone(), s.rdata_with(&an, s.time, s.fudge, &s.mac, s.origid ^ bit16, s.error, &o, ol)));
        alts.push((s.keyname.clone(), s.rdata_with(&an, s.time, s.fudge, &s.mac, s.origid, s.error ^ bit16, &o, ol)));
        // other data: appended octet, changed octet, dropped
        let mut o2 = o.clone();
        o2.push(rng.byte());
        alts.push((s.keyname.clone(), s.rdata_with(&an, s.time, s.fudge, &s.mac, s.origid, s.error, &o2, o2.len() as u16)));
        if !o.is_empty() {
            let mut o3 = o.clone();
            let i = rng.below(o3.len());
            o3[i] ^= 1 << rng.below(8);
            alts.push((s.keyname.clone(), s.rdata_with(&an, s.time, s.fudge, &s.mac, s.origid, s.error, &o3, ol)));
            alts.push((s.keyname.clone(), s.rdata_with(&an, s.time, s.fudge, &s.mac, s.origid, s.error, &[], 0)));
        }
        // key name: another name (a letter changed to a non-letter-equivalent, a label added)
        let mut kn = s.keyname.clone();
        if kn.len() > 1 {
            let i = 1 + rng.below(kn[0] as usize);
            kn[i] = if kn[i] == b'0' { b'1' } else { b'0' };
            alts.push((kn, full.clone()));
        }
        if s.keyname.len() + 2 <= 255 {
            let mut kn = vec![1u8, b'x'];
            kn.extend(&s.keyname);
            alts.push((kn, full.clone()));
        }
        for (kn, rd) in alts {
            let now = if rng.chance(3, 4) { s.time } else { *rng.pick(&times) };
            emit(em, verify_case(mode, alg, &s.key, now, &s.msg, &kn, &rd, &s.pmac));
        }
        // malformed RDATA: other-len field disagrees, truncated
        emit(em, verify_case(mode, alg, &s.key, s.time, &s.msg, &s.keyname, &s.rdata_with(&an, s.time, s.fudge, &s.mac, s.origid, s.error, &o, ol + 1), &s.pmac));
        let cut = rng.below(full.len());
        emit(em, verify_case(mode, alg, &s.key, s.time, &s.msg, &s.keyname, &full[..cut], &s.pmac));
    }

    // 5. single-octet corruption of the covered message
    if !s.msg.is_empty() {
        let positions: Vec<usize> = if every_position { (0..s.msg.len()).collect() } else { (0..6).map(|_| rng.below(s.msg.len())).chain([0, 1, 2, 9, 10, 11, s.msg.len() - 1]).filter(|&i| i < s.msg.len()).collect() };
        for i in positions {
            let mut m = s.msg.clone();
            m[i] ^= if rng.chance(1, 2) { 1 << rng.below(8) } else { rng.range(1, 255) as u8 };
            emit(em, verify_case(mode, alg, &s.key, s.time, &m, &s.keyname, &full, &s.pmac));
        }
        // an octet appended / removed at the end
        let mut m = s.msg.clone();
        m.push(rng.byte());
        emit(em, verify_case(mode, alg, &s.key, s.time, &m, &s.keyname, &full, &s.pmac));
        let mut m = s.msg.clone();
        m.pop();
        emit(em, verify_case(mode, alg, &s.key, s.time, &m, &s.keyname, &full, &s.pmac));
        // the message ID is *not* covered (it is replaced by the original ID): must still verify
        if s.msg.len() >= 12 {
            let mut m = s.msg.clone();
            m[0] = rng.byte();
            m[1] = rng.byte();
            emit(em, verify_case(mode, alg, &s.key, s.time, &m, &s.keyname, &full, &s.pmac));
        }
    }
}

fn rand_recipe(rng: &mut Rng) -> String {
    let mut steps: Vec<String> = Vec::new();
    if rng.chance(1, 4) {
        steps.push(format!("buf:{}", *rng.pick(&[512usize, 1232, 4096, 65535])));
    }
    steps.push(format!("id:{}", rng.below(65536)));
    if rng.chance(2, 3) {
        steps.push(format!("fl:{}{}{}{}{}", rng.below(2), rng.below(2), rng.below(2), rng.below(2), rng.below(2)));
    }
    let early_tsig = rng.chance(1, 3);
    let edns = rng.chance(1, 3);
    if early_tsig && rng.chance(1, 2) {
        steps.push("tsig".into());
    }
    for _ in 0..(if rng.chance(5, 6) { 1 } else { 0 }) {
        let n = if rng.chance(1, 10) { rand_name(rng) } else { short_name(rng) };
        steps.push(format!("q:{}:{}:{}", hex(&n), *rng.pick(&[1u16, 16, 252, 255, 6]), *rng.pick(&[1u16, 3, 255])));
    }
    if edns && rng.chance(1, 2) {
        steps.push(format!("edns:{}", *rng.pick(&[512u16, 1232, 4096])));
    }
    for sec in ["an", "ns", "ar"] {
        for _ in 0..rng.below(3) {
            let owner = short_name(rng);
            // TXT / unknown type / NULL: RDATA without names, so the recipe stays valid by construction
            let (ty, rd) = match rng.below(3) {
                0 => {
                    let n = rng.below(20);
                    let mut v = vec![n as u8];
                    v.extend(rand_bytes(rng, n));
                    (16u16, v)
                }
                1 => { let n = rng.below(30); (65280u16, rand_bytes(rng, n)) }
                _ => (1u16, rand_bytes(rng, 4)),
            };
            steps.push(format!("{}:{}:{}:1:{}:{}", sec, hex(&owner), ty, rng.below(100000), hex(&rd)));
        }
    }
    if early_tsig {
        steps.push("tsig".into());
    }
    if edns && !steps.iter().any(|s| s.starts_with("edns")) {
        steps.push("edns:1232".into());
    }
    steps.join(";")
}

fn short_name(rng: &mut Rng) -> Vec<u8> {
    let mut v = Vec::new();
    for _ in 0..rng.range(1, 3) {
        let n = rng.range(1, 8);
        v.extend(rand_label(rng, n));
    }
    v.push(0);
    v
}

/// A message written by the real `Writer`, its MAC and TSIG RR, then whole-message verification
/// through the real `Reader` with corruption anywhere in the message (TSIG RR included).
fn write_and_verify(rng: &mut Rng, em: &mut Emitter, thorough: bool, every_position: bool) {
    let mode = *rng.pick(&MODES);
    let alg = *rng.pick(&ALGS);
    let key = rand_key(rng);
    let keyname = if rng.chance(1, 8) { rand_name(rng) } else { short_name(rng) };
    let time = rand_time(rng);
    let fudge = rand_fudge(rng);
    let origid = rng.below(65536) as u16;
    let error = rand_error(rng);
    let servertime = rand_time(rng);
    let pmac = rand_pmac(rng, mode);
    let recipe = rand_recipe(rng);
    // run the Writer once to learn the prefix (an *input* of the case for the model)
    let (Some(p), Some(tm)) = (
        prepared(&hex(&keyname), &time.to_string(), &fudge.to_string(), &origid.to_string(), &error.to_string(), &servertime.to_string()),
        tsig_mode(mode, alg, &key, &pmac),
    ) else { return };
    let Ok((msg, _)) = write_message(&recipe, tm, p) else { return };
    let Ok((prefix, _)) = split_last_rr(&msg) else { return };
    let case = format!(
        "twrite {} {} {} {} {} {} {} {} {} {} {} {}",
        mode, alg_str(alg), hex(&key), hex(&keyname), time, fudge, origid, error, servertime, hex(&pmac), recipe, hex(prefix)
    );
    emit(em, case);

    // whole-message verification
    let tv = |now: u64, m: &[u8], key: &[u8], pmac: &[u8]| format!("tvmsg {} {} {} {} {} {}", mode, alg_str(alg), hex(key), now, hex(m), hex(pmac));
    let times = window_times(time, fudge);
    let picks: Vec<u64> = if thorough { times.clone() } else { (0..2).map(|_| *rng.pick(&times)).chain([time]).collect() };
    for now in picks {
        emit(em, tv(now, &msg, &key, &pmac));
    }
    let positions: Vec<usize> = if every_position && msg.len() <= 300 { (0..msg.len()).collect() } else { (0..8).map(|_| rng.below(msg.len())).collect() };
    for i in positions {
        let mut m = msg.clone();
        m[i] ^= if rng.chance(1, 2) { 1 << rng.below(8) } else { rng.range(1, 255) as u8 };
        emit(em, tv(time, &m, &key, &pmac));
    }
    // TTL of the TSIG RR (a TSIG variable, "MUST be 0"): the four TTL octets sit 10 + RDLENGTH before the end
    let rdlen = msg.len() - prefix.len();
    let _ = rdlen;
    if let Ok((pre, rr)) = split_last_rr(&msg) {
        let ttl_at = msg.len() - rr.rdata.len() - 6;
        debug_assert!(ttl_at > pre.len());
        for v in [0x8000_0000u32, 0xffff_ffff, 0x7fff_ffff, 1, 0x8000_0000 | rng.next() as u32] {
            let mut m = msg.clone();
            m[ttl_at..ttl_at + 4].copy_from_slice(&v.to_be_bytes());
            emit(em, tv(time, &m, &key, &pmac));
        }
        // CLASS of the TSIG RR
        let mut m = msg.clone();
        m[ttl_at - 2..ttl_at].copy_from_slice(&(*rng.pick(&[1u16, 254, 0, 0xff00])).to_be_bytes());
        emit(em, tv(time, &m, &key, &pmac));
    }
}

fn primitives(rng: &mut Rng, em: &mut Emitter, thorough: bool) {
    // every length around the padding boundaries, then random ones
    let max = if thorough { 260 } else { 140 };
    for n in 0..=max {
        let m = rand_bytes(rng, n);
        for a in ["sha1", "sha256"] {
            emit(em, format!("sha {} {}", a, hex(&m)));
        }
    }
    let n = if thorough { 3000 } else { 200 };
    for _ in 0..n {
        let len = if rng.chance(1, 20) { rng.range(1000, 20000) } else { rng.below(600) };
        let m = rand_bytes(rng, len);
        emit(em, format!("sha {} {}", *rng.pick(&["sha1", "sha256"]), hex(&m)));
    }
    // HMAC: key lengths 0..=200 (every length around the block size), message lengths likewise
    for kl in (0..=200).filter(|k| thorough || *k <= 2 || (60..=70).contains(k) || k % 7 == 0 || *k >= 198) {
        let key = rand_bytes(rng, kl);
        let ml = rng.below(300);
        let m = rand_bytes(rng, ml);
        for a in ALGS {
            emit(em, format!("hmac {} {} {}", alg_str(a), hex(&key), hex(&m)));
        }
    }
    let n = if thorough { 5000 } else { 300 };
    for _ in 0..n {
        let key = rand_key(rng);
        let ml = *rng.pick(&[0usize, 1, 54, 55, 56, 63, 64, 65, 119, 120, 128]);
        let ml = if rng.chance(1, 2) { ml } else { rng.below(1500) };
        let m = rand_bytes(rng, ml);
        emit(em, format!("hmac {} {} {}", alg_str(*rng.pick(&ALGS)), hex(&key), hex(&m)));
    }
}

pub fn gen(rng: &mut Rng, thorough: bool, em: &mut Emitter) {
    primitives(rng, em, thorough);
    // oversize prior MACs: the asserts of sign_response / sign_subsequent / verify_response, and the
    // missing one of verify_subsequent
    for mode in ["resp", "subs"] {
        for n in [65535usize, 65536] {
            let msg = rand_message(rng, true);
            let pm = rand_bytes(rng, n);
            let key = rand_key(rng);
            let kn = short_name(rng);
            let r = emit(em, format!("tsign {} hmac-sha256 {} {} {} 1600000000 300 7 0 0 {}", mode, hex(&key), hex(&msg), hex(&kn), hex(&pm)));
            let mac = r.strip_prefix("ok ").and_then(|x| unhex(x.split(' ').next().unwrap())).unwrap_or_else(|| vec![7; 32]);
            let s = Signed { mode: "subs", alg: Algorithm::HmacSha256, key: key.clone(), msg: msg.clone(), keyname: kn.clone(), time: 1_600_000_000, fudge: 300, origid: 7, error: 0, servertime: 0, pmac: vec![], mac: mac.clone() };
            emit(em, verify_case(mode, Algorithm::HmacSha256, &key, 1_600_000_000, &msg, &kn, &s.rdata(&mac), &pm));
        }
    }
    let n = if thorough { 6000 } else { 1500 };
    for _ in 0..n {
        sign_and_verify(rng, em, thorough, false);
    }
    // every covered position of small messages
    let n = if thorough { 1200 } else { 20 };
    for _ in 0..n {
        sign_and_verify(rng, em, false, true);
    }
    let n = if thorough { 4000 } else { 800 };
    for _ in 0..n {
        write_and_verify(rng, em, thorough, false);
    }
    let n = if thorough { 600 } else { 8 };
    for _ in 0..n {
        write_and_verify(rng, em, false, true);
    }
}
