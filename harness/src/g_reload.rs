//! group `reload` — C31: the daemon's real `zones::load` / `zones::reload`
//! (src/bin/quandaryd/zones.rs) and `config::load_from_path` (src/bin/quandaryd/config.rs),
//! compiled into the harness from the repository under test (see build.rs), run in-process on a
//! scratch directory with real configuration and zone files and explicit modification times.
//!
//! One case = one whole history (syntax: lean/QV/Driver/Reload.lean). The three lines that tie
//! configuration loading to (re)loading mirror `run.rs` (`try_running`, `reload_zones_and_keys`):
//! a configuration that fails to load leaves the served catalog untouched.
use crate::common::*;
use crate::{config, zones};
use quandary::class::Class;
use quandary::db::catalog::Entry;
use quandary::db::{Catalog, Zone};
use quandary::name::Name;
use std::fs;
use std::path::{Path, PathBuf};
use std::sync::atomic::{AtomicU64, Ordering};
use std::time::{Duration, SystemTime};

static COUNTER: AtomicU64 = AtomicU64::new(0);

struct Scratch(PathBuf);
impl Scratch {
    fn new() -> Self {
        let d = std::env::temp_dir().join(format!(
            "qvh-reload-{}-{}",
            std::process::id(),
            COUNTER.fetch_add(1, Ordering::Relaxed)
        ));
        let _ = fs::remove_dir_all(&d);
        fs::create_dir_all(&d).expect("scratch dir");
        Scratch(d)
    }
}
impl Drop for Scratch {
    fn drop(&mut self) {
        let _ = fs::remove_dir_all(&self.0);
    }
}

fn name_of(hexs: &str) -> Option<Box<Name>> {
    Name::try_from_uncompressed_all(&unhex(hexs)?).ok()
}

/// `sub.<apex>` in presentation form
fn sub(label: &str, apex: &Name) -> String {
    if apex.is_root() {
        format!("{label}.")
    } else {
        format!("{label}.{apex}")
    }
}

fn zone_file_text(content: &str) -> Option<String> {
    let f: Vec<&str> = content.split('.').collect();
    Some(match f[..] {
        ["bad"] => "this is ( not a zone file\n".to_string(),
        ["inv", a, c] => {
            let apex = name_of(a)?;
            let class = Class::from(c.parse::<u16>().ok()?);
            // SOA but no NS at the apex: validation error MissingApexNs
            format!(
                "{apex} 3600 {class} SOA {} {} 1 3600 600 86400 60\n",
                sub("ns", &apex),
                sub("h", &apex)
            )
        }
        ["ok", id, a, c] => {
            let apex = name_of(a)?;
            let class = Class::from(c.parse::<u16>().ok()?);
            let id: u32 = id.parse().ok()?;
            // an out-of-zone name server: no glue or address records are needed, in any class
            format!(
                "{apex} 3600 {class} SOA ns.outside. {} {id} 3600 600 86400 60\n\
                 {apex} 3600 {class} NS ns.outside.\n",
                sub("h", &apex)
            )
        }
        _ => return None,
    })
}

fn write_files(dir: &Path, files: &str) -> Option<()> {
    for e in fs::read_dir(dir).ok()? {
        let p = e.ok()?.path();
        if p.extension().map_or(false, |x| x == "zone") {
            fs::remove_file(p).ok()?;
        }
    }
    if files == "-" {
        return Some(());
    }
    for f in files.split(',') {
        let [p, m, c] = f.split(':').collect::<Vec<_>>()[..] else { return None };
        let path = dir.join(format!("z{}.zone", p.parse::<u32>().ok()?));
        fs::write(&path, zone_file_text(c)?).ok()?;
        let t = SystemTime::UNIX_EPOCH + Duration::from_secs(1_000_000_000 + m.parse::<u64>().ok()?);
        fs::OpenOptions::new().write(true).open(&path).ok()?.set_modified(t).ok()?;
    }
    Some(())
}

fn write_config(dir: &Path, zones: &str) -> Option<PathBuf> {
    write_config_with(dir, zones, "", "")
}

/// `preamble` = top-level keys (before any table), `extra_zones` = further `[[zones]]` tables
fn write_config_with(dir: &Path, zones: &str, preamble: &str, extra_zones: &str) -> Option<PathBuf> {
    let mut text = String::from(preamble);
    text.push_str(extra_zones);
    if zones == "-" {
        if extra_zones.is_empty() {
            text.push_str("zones = []\n");
        }
    } else {
        for z in zones.split(',') {
            let [n, c, p] = z.split(':').collect::<Vec<_>>()[..] else { return None };
            let name = name_of(n)?;
            let class = Class::from(c.parse::<u16>().ok()?);
            text.push_str(&format!(
                "[[zones]]\nname = \"{name}\"\nclass = \"{class}\"\npath = \"z{}.zone\"\n\n",
                p.parse::<u32>().ok()?
            ));
        }
    }
    let path = dir.join("quandaryd.toml");
    fs::write(&path, text).ok()?;
    Some(path)
}

fn soa_serial(zone: &quandary::db::HashMapTreeZone) -> Option<u32> {
    let soa = zone.soa()?;
    let rdata = soa.rdatas.iter().next()?;
    let o = rdata.octets();
    let (_, k1) = Name::try_from_uncompressed(o).ok()?;
    let (_, k2) = Name::try_from_uncompressed(&o[k1..]).ok()?;
    let s = o.get(k1 + k2..k1 + k2 + 4)?;
    Some(u32::from_be_bytes([s[0], s[1], s[2], s[3]]))
}

type E = Entry<quandary::db::HashMapTreeZone, zones::Metadata>;

fn show_state(e: Option<&E>) -> String {
    match e {
        None => "-".into(),
        Some(Entry::Loaded(z, _)) => match soa_serial(z) {
            Some(s) => format!("L{s}"),
            None => "L?".into(),
        },
        Some(Entry::FailedToLoad(..)) => "F".into(),
        Some(Entry::NotYetLoaded(..)) => "N".into(),
    }
}

fn run_history(h: &str) -> Option<String> {
    let scratch = Scratch::new();
    let dir = &scratch.0;
    // the keys observed: every (name, class) configured anywhere, in order of first appearance
    let mut keys: Vec<(Box<Name>, Class)> = Vec::new();
    for step in h.split('/') {
        let (z, _) = step.split_once('@')?;
        if z == "-" {
            continue;
        }
        for zc in z.split(',') {
            let f: Vec<&str> = zc.split(':').collect();
            let (n, c) = (name_of(f.first()?)?, Class::from(f.get(1)?.parse::<u16>().ok()?));
            if !keys.iter().any(|(kn, kc)| *kc == c && **kn == *n) {
                keys.push((n, c));
            }
        }
    }
    let probes: Vec<Box<Name>> = keys
        .iter()
        .map(|(n, _)| {
            let mut w = vec![1u8, b'x'];
            w.extend_from_slice(n.wire_repr());
            Name::try_from_uncompressed_all(&w).unwrap()
        })
        .collect();

    let mut catalog: Option<zones::Catalog> = None;
    let mut out: Vec<String> = Vec::new();
    for step in h.split('/') {
        let (z, f) = step.split_once('@')?;
        write_files(dir, f)?;
        let cfg_path = write_config(dir, z)?;
        // run.rs: try_running / reload_zones_and_keys
        match config::load_from_path(&cfg_path, catalog.is_some()) {
            Ok(cfg) => {
                catalog = Some(match &catalog {
                    None => zones::load(cfg.zones),
                    Some(c) => zones::reload(cfg.zones, c),
                });
            }
            Err(_) => {} // "Failed to reload zones and keys": the catalog stays
        }
        let g: Vec<String> = keys
            .iter()
            .map(|(n, c)| show_state(catalog.as_ref().and_then(|cat| cat.get(n, *c))))
            .collect();
        let l: Vec<String> = keys
            .iter()
            .zip(&probes)
            .map(|((_, c), p)| show_state(catalog.as_ref().and_then(|cat| cat.lookup(p, *c))))
            .collect();
        out.push(format!("{}|{}", g.join(","), l.join(",")));
    }
    Some(format!("ok {}", out.join(";")))
}

pub fn run(op: &str, a: &[&str]) -> Option<String> {
    Some(match (op, a) {
        ("rl", [h]) => {
            let h = h.to_string();
            guarded(move || run_history(&h).unwrap_or_else(|| "bad-op".into()))
        }
        ("daemon", [h]) => {
            let h = h.to_string();
            guarded(move || match run_daemon_history(&h) {
                Ok(r) => r,
                Err(why) => {
                    eprintln!("daemon scenario not synchronised ({why}): {h}");
                    "discarded".into()
                }
            })
        }
        ("daemonskip", [_]) => "discarded".into(),
        _ => return None,
    })
}

// ------------------------------------------------------------------------------------------
// daemon-level scenarios: the real `quandaryd` process, SIGHUP, UDP
// ------------------------------------------------------------------------------------------
//
// `daemon <history>` (same history syntax as `rl`, class IN only, no duplicated zone): the
// `quandaryd` binary of the repository under test is started on a loopback port with the
// configuration and files of step 0; every further step edits the files / the configuration and
// sends SIGHUP. A sentinel zone `qvh-sync.` that the case does not mention is configured in every
// step and gets a new SOA serial each time: the daemon swaps in a whole catalog atomically, so
// once the sentinel answers with the step's serial the (re)load has been applied. After each
// step every zone name configured anywhere in the history is queried (SOA, IN) over UDP:
//
//   REFUSED → `-`   SERVFAIL → `F`   an SOA in the answer or authority section → `L<serial>`
//
// i.e. the state of the entry that answers the name (longest match). Result `ok s1,…,sn;…`.
// Timing never decides a verdict: all waits are bounded polls with retries; a history that
// cannot be synchronised (daemon did not start, sentinel never appeared, a query got no answer)
// is reported as `daemonskip <history>` / `discarded` and counted, not compared.

use std::net::UdpSocket;
use std::process::{Child, Command, Stdio};
use std::sync::OnceLock;
use std::time::Instant;

const SENTINEL: &str = "qvh-sync.";

struct Daemon(Child);
impl Drop for Daemon {
    fn drop(&mut self) {
        let _ = self.0.kill();
        let _ = self.0.wait();
    }
}

/// Builds (once per process) the `quandaryd` binary of the repository under test into a target
/// directory under <framework>/work and returns a private copy of it.
fn daemon_binary() -> Option<&'static PathBuf> {
    static BIN: OnceLock<Option<PathBuf>> = OnceLock::new();
    BIN.get_or_init(|| {
        let repo = env!("QVH_REPO");
        let work = Path::new(env!("QVH_ROOT")).join("work");
        let tdir = work.join("quandaryd-target").join(if repo == "/repo" { "repo" } else { "other" });
        fs::create_dir_all(&tdir).ok()?;
        // one build at a time per target directory (concurrent checks)
        let lock = fs::File::create(tdir.join(".qvh-lock")).ok()?;
        lock.lock().ok()?;
        let out = Command::new("cargo")
            .args(["build", "--offline", "-q", "--bin", "quandaryd", "--target-dir"])
            .arg(&tdir)
            .current_dir(repo)
            .env("CARGO_NET_OFFLINE", "true")
            .stdin(Stdio::null())
            .output()
            .ok()?;
        if !out.status.success() {
            eprintln!("cannot build quandaryd of {repo}: {}", String::from_utf8_lossy(&out.stderr));
            return None;
        }
        let built = tdir.join("debug").join("quandaryd");
        let bytes = fs::read(&built).ok()?;
        use sha2::Digest;
        let h = sha2::Sha256::digest(&bytes);
        // `qvh-` prefix: bin/check prunes such files from work/ when they are old
        let copy = work.join(format!("qvh-daemon-{}", hex(&h[..8])));
        if !copy.exists() {
            let tmp = work.join(format!("qvh-daemon-tmp{}", std::process::id()));
            fs::write(&tmp, &bytes).ok()?;
            use std::os::unix::fs::PermissionsExt;
            fs::set_permissions(&tmp, fs::Permissions::from_mode(0o755)).ok()?;
            fs::rename(&tmp, &copy).ok()?;
        }
        let _ = lock.unlock();
        Some(copy)
    })
    .as_ref()
}

/// one SOA/IN query; `None` = no (decodable) response after three tries
fn query_state(port: u16, qname: &[u8]) -> Option<String> {
    let sock = UdpSocket::bind("127.0.0.1:0").ok()?;
    sock.set_read_timeout(Some(Duration::from_millis(400))).ok()?;
    static QID: AtomicU64 = AtomicU64::new(1);
    for _ in 0..3 {
        let id = QID.fetch_add(1, Ordering::Relaxed) as u16;
        let mut msg = crate::dns::header(id, 0, 1, 0, 0, 0);
        msg.extend(crate::dns::question(qname, 6, 1));
        if sock.send_to(&msg, ("127.0.0.1", port)).is_err() {
            continue;
        }
        let mut buf = [0u8; 1500];
        let deadline = Instant::now() + Duration::from_millis(400);
        while Instant::now() < deadline {
            let Ok((n, _)) = sock.recv_from(&mut buf) else { break };
            let Some(d) = crate::dns::decode_message(&buf[..n]) else { continue };
            if d.id != id || d.flags & 0x8000 == 0 {
                continue; // a late answer to an earlier try
            }
            let soa = d.an.iter().chain(d.ns.iter()).find(|r| r.ty == 6 && r.rdata.len() >= 20);
            return Some(match (d.flags & 0xf, soa) {
                (5, _) => "-".into(),
                (2, _) => "F".into(),
                (_, Some(r)) => {
                    let p = r.rdata.len() - 20;
                    format!("L{}", u32::from_be_bytes([r.rdata[p], r.rdata[p + 1], r.rdata[p + 2], r.rdata[p + 3]]))
                }
                (rc, None) => format!("?{rc}"),
            });
        }
    }
    None
}

fn free_port() -> Option<u16> {
    // a port that is free for UDP *and* TCP right now (the daemon binds both)
    for _ in 0..20 {
        let u = UdpSocket::bind("127.0.0.1:0").ok()?;
        let port = u.local_addr().ok()?.port();
        if std::net::TcpListener::bind(("127.0.0.1", port)).is_ok() {
            return Some(port);
        }
    }
    None
}

fn write_sentinel(dir: &Path, step: usize) -> Option<()> {
    let path = dir.join("sync.zone");
    fs::write(
        &path,
        format!(
            "{SENTINEL} 3600 IN SOA ns.outside. h.{SENTINEL} {} 3600 600 86400 60\n{SENTINEL} 3600 IN NS ns.outside.\n",
            step + 1
        ),
    )
    .ok()?;
    let t = SystemTime::UNIX_EPOCH + Duration::from_secs(2_000_000_000 + step as u64);
    fs::OpenOptions::new().write(true).open(&path).ok()?.set_modified(t).ok()
}

fn await_sentinel(port: u16, step: usize, child: &mut Child, limit: Duration) -> Result<(), String> {
    let want = format!("L{}", step + 1);
    let sname = Name::try_from_uncompressed_all(b"\x08qvh-sync\x00").unwrap();
    let deadline = Instant::now() + limit;
    loop {
        if query_state(port, sname.wire_repr()).as_deref() == Some(&want) {
            return Ok(());
        }
        if let Ok(Some(st)) = child.try_wait() {
            return Err(format!("quandaryd exited ({st})"));
        }
        if Instant::now() >= deadline {
            return Err(format!("sentinel did not reach step {step}"));
        }
        std::thread::sleep(Duration::from_millis(20));
    }
}

fn run_daemon_history(h: &str) -> Result<String, String> {
    let bin = daemon_binary().ok_or("no quandaryd binary")?;
    let bad = || "malformed history".to_string();
    // keys: every name configured anywhere (class IN only), in order of first appearance
    let mut keys: Vec<Box<Name>> = Vec::new();
    for step in h.split('/') {
        let (z, _) = step.split_once('@').ok_or_else(bad)?;
        if z == "-" {
            continue;
        }
        let mut seen: Vec<Box<Name>> = Vec::new();
        for zc in z.split(',') {
            let f: Vec<&str> = zc.split(':').collect();
            if f.len() != 3 || f[1] != "1" {
                return Err("daemon scenarios are class IN only".into());
            }
            let n = name_of(f[0]).ok_or_else(bad)?;
            if seen.iter().any(|k| **k == *n) {
                return Err("duplicated zone (configuration error): cannot be synchronised".into());
            }
            seen.push(n.clone());
            if !keys.iter().any(|k| **k == *n) {
                keys.push(n);
            }
        }
    }
    let sentinel_cfg = format!("[[zones]]\nname = \"{SENTINEL}\"\npath = \"sync.zone\"\n\n");
    let mut last_err = String::new();
    'attempt: for _ in 0..3 {
        let scratch = Scratch::new();
        let dir = &scratch.0;
        let port = free_port().ok_or("no free port")?;
        let preamble = format!("bind = \"127.0.0.1:{port}\"\n\n");
        let mut daemon: Option<Daemon> = None;
        let mut out: Vec<String> = Vec::new();
        for (si, step) in h.split('/').enumerate() {
            let (z, f) = step.split_once('@').ok_or_else(bad)?;
            write_files(dir, f).ok_or_else(bad)?;
            write_sentinel(dir, si).ok_or("cannot write the sentinel")?;
            let cfg = write_config_with(dir, z, &preamble, &sentinel_cfg).ok_or_else(bad)?;
            match daemon.as_mut() {
                None => {
                    let child = Command::new(bin)
                        .arg("run")
                        .arg("--config")
                        .arg(&cfg)
                        .stdin(Stdio::null())
                        .stdout(Stdio::null())
                        .stderr(Stdio::null())
                        .spawn()
                        .map_err(|e| format!("cannot start quandaryd: {e}"))?;
                    daemon = Some(Daemon(child));
                    if let Err(e) = await_sentinel(port, si, &mut daemon.as_mut().unwrap().0, Duration::from_secs(15)) {
                        last_err = e; // e.g. the port was taken in the meantime: try again elsewhere
                        continue 'attempt;
                    }
                }
                Some(d) => {
                    let ok = Command::new("kill")
                        .arg("-HUP")
                        .arg(d.0.id().to_string())
                        .status()
                        .map_or(false, |s| s.success());
                    if !ok {
                        return Err("cannot send SIGHUP".into());
                    }
                    await_sentinel(port, si, &mut d.0, Duration::from_secs(15))?;
                }
            }
            let mut states = Vec::new();
            for k in &keys {
                states.push(query_state(port, k.wire_repr()).ok_or("a query got no answer")?);
            }
            out.push(states.join(","));
        }
        return Ok(format!("ok {}", out.join(";")));
    }
    Err(last_err)
}

fn emit_daemon(em: &mut Emitter, h: &str) {
    let r = run("daemon", &[h]).unwrap();
    if r == "discarded" {
        em.emit(&format!("daemonskip {h}"), &r);
    } else {
        em.emit(&format!("daemon {h}"), &r);
    }
}

fn gen_daemon(rng: &mut Rng, em: &mut Emitter) {
    if daemon_binary().is_none() {
        em.emit("daemonskip build", "discarded");
        return;
    }
    let a = wire(&[b"a"]);
    let b = wire(&[b"b", b"a"]);
    let e = wire(&[b"e"]);
    // latest good data: a. v1 at start-up, v2 by the first SIGHUP, broken at the second, deleted at
    // the third, fixed (v5) at the fourth; e. is added after start-up, then breaks
    emit_daemon(em, &format!(
        "{a}:1:1@1:10:ok.1.{a}.1/{a}:1:1,{e}:1:3@1:11:ok.2.{a}.1,3:11:ok.3.{e}.1/{a}:1:1,{e}:1:3@1:12:bad,3:12:inv.{e}.1/{a}:1:1,{e}:1:3@3:12:inv.{e}.1/{a}:1:1,{e}:1:3@1:14:ok.5.{a}.1,3:12:inv.{e}.1"));
    // the D12 shape: a never-loaded failing child under a loaded parent, later fixed, then removed
    emit_daemon(em, &format!(
        "{a}:1:1@1:10:ok.1.{a}.1/{a}:1:1,{b}:1:2@1:10:ok.1.{a}.1/{a}:1:1,{b}:1:2@1:10:ok.1.{a}.1,2:12:ok.2.{b}.1/{a}:1:1,{b}:1:2@1:13:bad,2:13:bad/{a}:1:1@1:13:bad,2:13:bad"));
    // unchanged files, touched files, a zone moved to another path
    emit_daemon(em, &format!(
        "{a}:1:1@1:10:ok.1.{a}.1,2:10:ok.2.{a}.1/{a}:1:1@1:10:ok.1.{a}.1,2:10:ok.2.{a}.1/{a}:1:2@1:10:ok.1.{a}.1,2:10:ok.2.{a}.1/{a}:1:2@1:10:ok.1.{a}.1,2:11:ok.2.{a}.1/-@-/{a}:1:1@1:10:ok.1.{a}.1"));
    for _ in 0..60 {
        let c = random_history_mode(rng, true, true);
        emit_daemon(em, c.strip_prefix("rl ").unwrap());
    }
}

// ------------------------------------------------------------------------------------------
// generators
// ------------------------------------------------------------------------------------------

fn wire(labels: &[&[u8]]) -> String {
    let mut v = Vec::new();
    for l in labels {
        v.push(l.len() as u8);
        v.extend_from_slice(l);
    }
    v.push(0);
    hex(&v)
}

fn emit(em: &mut Emitter, case: String) {
    let h = case.strip_prefix("rl ").unwrap().to_string();
    let r = run("rl", &[&h]).unwrap();
    em.emit(&case, &r);
}

/// one zone of the generated universe
struct Z {
    name: Vec<&'static [u8]>,
    alt: Vec<&'static [u8]>, // the same name in another case
    class: u16,
    path: usize,
    configured: bool,
}

#[derive(Clone)]
struct F {
    mtime: u64,
    content: String,
}

/// A history over a small universe of nested zones (parent / child / grandchild / sibling, one
/// zone in class CH). `sound` = files only change content together with a newer mtime (the
/// environment assumption under which the spec column constrains the case).
fn random_history(rng: &mut Rng, sound: bool) -> String {
    random_history_mode(rng, sound, false)
}

/// `daemon` = only class IN, no duplicated zone (the daemon-level scenarios query over UDP in
/// class IN and synchronise on a sentinel zone that a configuration error would not reload)
fn random_history_mode(rng: &mut Rng, sound: bool, daemon: bool) -> String {
    let universe: [(&[&'static [u8]], &[&'static [u8]], u16); 6] = [
        (&[b"a"], &[b"A"], 1),
        (&[b"b", b"a"], &[b"B", b"a"], 1),
        (&[b"c", b"b", b"a"], &[b"c", b"B", b"A"], 1),
        (&[b"d", b"a"], &[b"D", b"a"], 1),
        (&[b"e"], &[b"E"], 1),
        (&[b"a"], &[b"a"], 3),
    ];
    let n = if daemon { rng.range(2, 5) } else { rng.range(2, 6) };
    let mut zs: Vec<Z> = universe[..n]
        .iter()
        .enumerate()
        .map(|(i, (nm, alt, c))| Z {
            name: nm.to_vec(),
            alt: alt.to_vec(),
            class: *c,
            path: i + 1,
            configured: rng.chance(2, 3),
        })
        .collect();
    rng_shuffle(rng, &mut zs);
    let mut files: Vec<Option<F>> = vec![None; 16];
    let mut next_id = 1u32;
    let mut clock = 10u64;
    let nsteps = rng.range(2, 7);
    let mut steps: Vec<String> = Vec::new();
    for si in 0..nsteps {
        clock += 1;
        // configuration edits
        for z in zs.iter_mut() {
            if si > 0 && rng.chance(1, 5) {
                z.configured = !z.configured;
            }
            if si > 0 && rng.chance(1, 12) {
                z.path = rng.range(1, 8); // move the zone to another file (maybe another zone's)
            }
        }
        // file edits for every zone of the universe (configured or not)
        for z in zs.iter() {
            let apex = wire(&z.name);
            let cur = files[z.path].clone();
            let action = rng.below(12);
            let newer = if sound || rng.chance(2, 3) { clock } else { cur.as_ref().map_or(clock, |f| f.mtime.saturating_sub(rng.below(2) as u64)) };
            match action {
                0..=3 => {} // untouched: same content, same mtime
                4..=6 => {
                    // new valid version
                    files[z.path] = Some(F { mtime: newer, content: format!("ok.{next_id}.{apex}.{}", z.class) });
                    next_id += 1;
                }
                7 => files[z.path] = Some(F { mtime: newer, content: "bad".into() }),
                8 => files[z.path] = Some(F { mtime: newer, content: format!("inv.{apex}.{}", z.class) }),
                9 => files[z.path] = None, // deleted
                10 => {
                    // touched: same content, newer mtime
                    if let Some(f) = files[z.path].as_mut() {
                        f.mtime = clock;
                    }
                }
                _ => {
                    // a valid file for a *different* apex (wrong file in place)
                    let other = wire(&[b"z", b"z"]);
                    files[z.path] = Some(F { mtime: newer, content: format!("ok.{next_id}.{other}.{}", z.class) });
                    next_id += 1;
                }
            }
        }
        let mut zl: Vec<String> = zs
            .iter()
            .filter(|z| z.configured)
            .map(|z| {
                let nm = if rng.chance(1, 6) { &z.alt } else { &z.name };
                format!("{}:{}:{}", wire(nm), z.class, z.path)
            })
            .collect();
        if !daemon && rng.chance(1, 15) && !zl.is_empty() {
            // a duplicated zone: config.rs must reject the whole configuration
            let d = rng.pick(&zl).clone();
            zl.push(d);
        }
        let fl: Vec<String> = files
            .iter()
            .enumerate()
            .filter_map(|(p, f)| f.as_ref().map(|f| format!("{p}:{}:{}", f.mtime, f.content)))
            .collect();
        steps.push(format!(
            "{}@{}",
            if zl.is_empty() { "-".into() } else { zl.join(",") },
            if fl.is_empty() { "-".into() } else { fl.join(",") }
        ));
    }
    format!("rl {}", steps.join("/"))
}

fn rng_shuffle<T>(rng: &mut Rng, v: &mut [T]) {
    for i in (1..v.len()).rev() {
        let j = rng.below(i + 1);
        v.swap(i, j);
    }
}

/// systematic: parent `a.` and child `b.a.`; every combination of a per-step action on each of
/// the two zones over `len` steps. Actions: keep, new valid version, break (bad file, newer),
/// delete file, unconfigure, (re)configure.
fn systematic(em: &mut Emitter, len: usize) {
    const NA: usize = 6;
    let total = (NA * NA).pow(len as u32);
    let a = wire(&[b"a"]);
    let b = wire(&[b"b", b"a"]);
    for code in 0..total {
        let mut c = code;
        let mut conf = [true, false];
        let mut files: [Option<F>; 2] = [Some(F { mtime: 10, content: format!("ok.1.{a}.1") }), None];
        let mut next_id = 2;
        let mut steps = Vec::new();
        // step 0: only the parent, loaded
        steps.push(format!("{a}:1:1@1:10:ok.1.{a}.1"));
        for si in 0..len {
            let clock = 11 + si as u64;
            for zi in 0..2 {
                let act = c % NA;
                c /= NA;
                let apex = if zi == 0 { &a } else { &b };
                match act {
                    0 => {}
                    1 => {
                        files[zi] = Some(F { mtime: clock, content: format!("ok.{next_id}.{apex}.1") });
                        next_id += 1;
                    }
                    2 => files[zi] = Some(F { mtime: clock, content: "bad".into() }),
                    3 => files[zi] = None,
                    4 => conf[zi] = false,
                    _ => conf[zi] = true,
                }
            }
            let mut zl = Vec::new();
            if conf[0] {
                zl.push(format!("{a}:1:1"));
            }
            if conf[1] {
                zl.push(format!("{b}:1:2"));
            }
            let fl: Vec<String> = files
                .iter()
                .enumerate()
                .filter_map(|(p, f)| f.as_ref().map(|f| format!("{}:{}:{}", p + 1, f.mtime, f.content)))
                .collect();
            steps.push(format!(
                "{}@{}",
                if zl.is_empty() { "-".into() } else { zl.join(",") },
                if fl.is_empty() { "-".into() } else { fl.join(",") }
            ));
        }
        emit(em, format!("rl {}", steps.join("/")));
    }
}

pub fn gen(rng: &mut Rng, thorough: bool, em: &mut Emitter) {
    let a = wire(&[b"a"]);
    let b = wire(&[b"b", b"a"]);
    // 0. the D12 shape: a never-loaded failing child under a loaded parent (missing file, bad
    //    file, invalid file), then the child gets fixed, then broken again
    for broken in ["", "2:11:bad", &format!("2:11:inv.{b}.1")] {
        let f2 = if broken.is_empty() { String::new() } else { format!(",{broken}") };
        emit(
            em,
            format!(
                "rl {a}:1:1@1:10:ok.1.{a}.1/{a}:1:1,{b}:1:2@1:10:ok.1.{a}.1{f2}/{a}:1:1,{b}:1:2@1:10:ok.1.{a}.1,2:12:ok.2.{b}.1/{a}:1:1,{b}:1:2@1:13:bad,2:13:bad/{b}:1:2@2:13:bad"
            ),
        );
    }
    // mtime bookkeeping: equal mtime is "unchanged", a failed load does not advance the recorded
    // mtime, an older file is not reloaded (spec column `-` where content changed silently)
    emit(em, format!("rl {a}:1:1@1:10:ok.1.{a}.1/{a}:1:1@1:10:ok.1.{a}.1/{a}:1:1@1:12:bad/{a}:1:1@1:11:ok.3.{a}.1/{a}:1:1@1:11:ok.3.{a}.1"));
    emit(em, format!("rl {a}:1:1@1:10:ok.1.{a}.1/{a}:1:1@1:10:ok.2.{a}.1/{a}:1:1@1:9:ok.3.{a}.1/{a}:1:1@1:11:ok.4.{a}.1"));
    // path change forces a reload; duplicate zone = configuration error
    emit(em, format!("rl {a}:1:1@1:10:ok.1.{a}.1,2:10:ok.2.{a}.1/{a}:1:2@1:10:ok.1.{a}.1,2:10:ok.2.{a}.1/{a}:1:2,{a}:1:1@1:10:ok.1.{a}.1,2:10:ok.2.{a}.1/-@-"));

    // 1. systematic two-zone histories
    systematic(em, if thorough { 3 } else { 2 });
    // 2. random histories over the nested universe
    let n = if thorough { 20_000 } else { 1_500 };
    for _ in 0..n {
        let c = random_history(rng, true);
        emit(em, c);
    }
    let n = if thorough { 4_000 } else { 300 };
    for _ in 0..n {
        let c = random_history(rng, false);
        emit(em, c);
    }
    // 3. daemon-level scenarios (thorough tier and the enlarged search only: they cost a build of
    //    the real `quandaryd` and about half a second each)
    if thorough {
        gen_daemon(rng, em);
    }
}
