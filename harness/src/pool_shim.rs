//! `std::sync` / `std::thread` / `std::time` look-alikes for the copied `src/thread.rs` (C29),
//! built on the `shuttle` controlled scheduler, plus the event log of an execution.
//!
//! * `Mutex` wraps `shuttle::sync::Mutex` and logs `aq` (acquired) / `rl` (released) events with
//!   a snapshot of the protected record taken by the probe appended to the copied source.
//! * `Condvar` is implemented here (shuttle's own `wait_timeout` never times out): waiter records
//!   with a state flag; `notify_one` picks a random waiter; an untimed waiter parks until
//!   notified; a *timed* waiter stays runnable — when the scheduler runs it again before anybody
//!   notified it, its timeout fires (`to` event) — so timeouts fire at every point the scheduler
//!   can choose.  A bounded number of spurious wake-ups per execution (`sp` events).
//! * `Instant` is a virtual clock that jumps forward at random `now()` calls (so "deadline
//!   already passed" and "respawn not throttled" branches are exercised).
//! * `thread::Builder::spawn` logs `sw parent child`, and fails on request (`sf`).
//!
//! Every random choice comes from `shuttle::rand`, i.e. from the scheduler, so an execution is a
//! deterministic function of the recorded schedule.
#![allow(dead_code)]
use std::collections::HashMap;
use std::sync::atomic::{AtomicU8, Ordering::SeqCst};
use std::sync::Mutex as StdMutex;

/// snapshot function installed by g_pool (the probe of the copied source)
pub type SnapFn = fn(&dyn std::any::Any) -> Option<(char, usize, usize, usize)>;

pub struct Exec {
    pub log: Vec<String>,
    pub tids: HashMap<shuttle::thread::ThreadId, usize>,
    pub next_tid: usize,
    pub next_cv: usize,
    pub spurious_left: usize,
    pub spawn_failures_left: usize,
    pub allow_spawn_failure: bool,
    pub clock_ns: u64,
    pub snap: Option<SnapFn>,
}

static EXEC: StdMutex<Option<Exec>> = StdMutex::new(None);

pub fn with_exec<R>(f: impl FnOnce(&mut Exec) -> R) -> R {
    let mut g = EXEC.lock().unwrap_or_else(|e| e.into_inner());
    f(g.as_mut().expect("no execution in progress"))
}

/// start a fresh execution record; the calling (root) thread becomes tid 0
pub fn begin_execution(snap: SnapFn, spurious: usize, spawn_failures: usize) {
    let mut e = Exec {
        log: Vec::with_capacity(256),
        tids: HashMap::new(),
        next_tid: 1,
        next_cv: 0,
        spurious_left: spurious,
        spawn_failures_left: spawn_failures,
        allow_spawn_failure: false,
        clock_ns: 1_000_000_000,
        snap: Some(snap),
    };
    e.tids.insert(shuttle::thread::current().id(), 0);
    e.log.push("ar,0".to_string());
    *EXEC.lock().unwrap_or_else(|e| e.into_inner()) = Some(e);
}

pub fn take_log() -> Vec<String> {
    let mut g = EXEC.lock().unwrap_or_else(|e| e.into_inner());
    match g.as_mut() {
        Some(e) => std::mem::take(&mut e.log),
        None => Vec::new(),
    }
}

/// for the panic hook: never blocks
pub fn try_take_log() -> Vec<String> {
    match EXEC.try_lock() {
        Ok(mut g) => g.as_mut().map(|e| std::mem::take(&mut e.log)).unwrap_or_default(),
        Err(_) => Vec::new(),
    }
}

pub fn log(s: String) {
    with_exec(|e| e.log.push(s));
}

pub fn cur_tid() -> usize {
    let id = shuttle::thread::current().id();
    with_exec(|e| *e.tids.get(&id).expect("thread without tid"))
}

pub fn rand_u64() -> u64 {
    use shuttle::rand::RngCore;
    shuttle::rand::thread_rng().next_u64()
}

pub fn rand_below(n: usize) -> usize {
    (rand_u64() % n as u64) as usize
}

/// spawn a thread that is *not* part of the group (submitters, shutters, awaiters)
pub fn spawn_ext<F: FnOnce() + Send + 'static>(f: F) -> shuttle::thread::JoinHandle<()> {
    let child = with_exec(|e| {
        let c = e.next_tid;
        e.next_tid += 1;
        e.log.push(format!("ar,{c}"));
        c
    });
    shuttle::thread::spawn(move || {
        let id = shuttle::thread::current().id();
        with_exec(|e| {
            e.tids.insert(id, child);
        });
        f()
    })
}

pub mod sync {
    use super::*;
    pub use std::sync::Arc;
    use std::ops::{Deref, DerefMut};

    #[derive(Debug)]
    pub struct Poison;
    pub type LockResult<G> = Result<G, Poison>;

    pub struct Mutex<T: 'static> {
        inner: shuttle::sync::Mutex<T>,
    }

    pub struct MutexGuard<'a, T: 'static> {
        g: Option<shuttle::sync::MutexGuard<'a, T>>,
        m: &'a Mutex<T>,
    }

    fn snap_of<T: 'static>(t: &T) -> (char, usize, usize, usize) {
        let f = with_exec(|e| e.snap);
        f.and_then(|f| f(t as &dyn std::any::Any)).unwrap_or(('?', 0, 0, 0))
    }

    impl<T: 'static> Mutex<T> {
        pub fn new(t: T) -> Self {
            Mutex { inner: shuttle::sync::Mutex::new(t) }
        }
        pub fn lock(&self) -> LockResult<MutexGuard<'_, T>> {
            let g = match self.inner.lock() {
                Ok(g) => g,
                Err(_) => return Err(Poison),
            };
            let (l, _, _, _) = snap_of(&*g);
            let t = cur_tid();
            log(format!("aq,{t},{l}"));
            Ok(MutexGuard { g: Some(g), m: self })
        }
    }

    impl<T: 'static> Deref for MutexGuard<'_, T> {
        type Target = T;
        fn deref(&self) -> &T {
            self.g.as_ref().unwrap()
        }
    }
    impl<T: 'static> DerefMut for MutexGuard<'_, T> {
        fn deref_mut(&mut self) -> &mut T {
            self.g.as_mut().unwrap()
        }
    }
    impl<T: 'static> Drop for MutexGuard<'_, T> {
        fn drop(&mut self) {
            if let Some(g) = self.g.take() {
                let (l, a, b, c) = snap_of(&*g);
                let t = cur_tid();
                log(format!("rl,{t},{l},{a},{b},{c}"));
                drop(g);
            }
        }
    }

    const WAITING: u8 = 0;
    const NOTIFIED: u8 = 1;
    const TIMEDOUT: u8 = 2;
    const SPURIOUS: u8 = 3;

    struct Waiter {
        tid: usize,
        state: AtomicU8,
        /// an untimed waiter blocks in `recv` on the other end (shuttle's `park` may wake
        /// spuriously without bound, which a depth-first scheduler turns into an endless loop)
        wake: StdMutex<shuttle::sync::mpsc::Sender<()>>,
    }

    pub struct Condvar {
        id: usize,
        waiters: StdMutex<Vec<Arc<Waiter>>>,
    }

    pub struct WaitTimeoutResult(bool);
    impl WaitTimeoutResult {
        pub fn timed_out(&self) -> bool {
            self.0
        }
    }

    impl Condvar {
        pub fn new() -> Self {
            let id = with_exec(|e| {
                let i = e.next_cv;
                e.next_cv += 1;
                i
            });
            Condvar { id, waiters: StdMutex::new(Vec::new()) }
        }
        pub fn id(&self) -> usize {
            self.id
        }

        pub fn notify_one(&self) {
            let t = cur_tid();
            let mut ws = self.waiters.lock().unwrap();
            if ws.is_empty() {
                drop(ws);
                log(format!("n1,{t},{},-", self.id));
                return;
            }
            let n = ws.len();
            drop(ws);
            let i = rand_below(n);
            ws = self.waiters.lock().unwrap();
            let w = ws.remove(i);
            drop(ws);
            w.state.store(NOTIFIED, SeqCst);
            log(format!("n1,{t},{},{}", self.id, w.tid));
            let _ = w.wake.lock().unwrap().send(());
        }

        pub fn notify_all(&self) {
            let t = cur_tid();
            let ws: Vec<Arc<Waiter>> = std::mem::take(&mut *self.waiters.lock().unwrap());
            log(format!("na,{t},{}", self.id));
            for w in ws {
                w.state.store(NOTIFIED, SeqCst);
                let _ = w.wake.lock().unwrap().send(());
            }
        }

        fn wait_inner<'a, T: 'static>(&self, mut guard: MutexGuard<'a, T>, timed: bool) -> (MutexGuard<'a, T>, bool) {
            let tid = cur_tid();
            let (tx, rx) = shuttle::sync::mpsc::channel::<()>();
            let w = Arc::new(Waiter {
                tid,
                state: AtomicU8::new(WAITING),
                wake: StdMutex::new(tx),
            });
            self.waiters.lock().unwrap().push(w.clone());
            let m = guard.m;
            let inner = guard.g.take().unwrap();
            let (l, a, b, c) = snap_of(&*inner);
            log(format!("wt,{tid},{l},{},{},{a},{b},{c}", self.id, timed as u8));
            drop(inner);
            drop(guard);
            // may this wait end without a notification?
            let spurious = with_exec(|e| e.spurious_left > 0) && rand_below(8) == 0;
            if timed || spurious {
                let rounds = 1 + rand_below(4);
                for _ in 0..rounds {
                    if w.state.load(SeqCst) != WAITING {
                        break;
                    }
                    shuttle::thread::yield_now();
                }
                if w.state.load(SeqCst) == WAITING {
                    // nobody notified us: the timeout fires / a spurious wake-up happens now
                    let as_timeout = timed && !(spurious && rand_below(2) == 0);
                    let mut ws = self.waiters.lock().unwrap();
                    ws.retain(|x| !Arc::ptr_eq(x, &w));
                    drop(ws);
                    if as_timeout {
                        w.state.store(TIMEDOUT, SeqCst);
                        log(format!("to,{tid}"));
                    } else {
                        w.state.store(SPURIOUS, SeqCst);
                        with_exec(|e| e.spurious_left = e.spurious_left.saturating_sub(1));
                        log(format!("sp,{tid}"));
                    }
                }
            } else {
                while w.state.load(SeqCst) == WAITING {
                    let _ = rx.recv();
                }
            }
            let timed_out = w.state.load(SeqCst) == TIMEDOUT;
            let g = m.lock().expect("poisoned");
            (g, timed_out)
        }

        pub fn wait<'a, T: 'static>(&self, guard: MutexGuard<'a, T>) -> LockResult<MutexGuard<'a, T>> {
            Ok(self.wait_inner(guard, false).0)
        }

        pub fn wait_timeout<'a, T: 'static>(
            &self,
            guard: MutexGuard<'a, T>,
            _dur: std::time::Duration,
        ) -> LockResult<(MutexGuard<'a, T>, WaitTimeoutResult)> {
            let (g, to) = self.wait_inner(guard, true);
            Ok((g, WaitTimeoutResult(to)))
        }

        pub fn wait_while<'a, T: 'static, F>(&self, mut guard: MutexGuard<'a, T>, mut condition: F) -> LockResult<MutexGuard<'a, T>>
        where
            F: FnMut(&mut T) -> bool,
        {
            while condition(&mut *guard) {
                guard = self.wait(guard)?;
            }
            Ok(guard)
        }
    }
}

pub mod thread {
    use super::*;
    pub use shuttle::thread::{current, JoinHandle, ThreadId};
    pub use std::thread::panicking;

    pub struct Builder {
        name: Option<String>,
    }

    impl Builder {
        pub fn new() -> Self {
            Builder { name: None }
        }
        pub fn name(mut self, name: String) -> Self {
            self.name = Some(name);
            self
        }
        pub fn spawn<F, T>(self, f: F) -> std::io::Result<JoinHandle<T>>
        where
            F: FnOnce() -> T + Send + 'static,
            T: Send + 'static,
        {
            let parent = cur_tid();
            let may_fail = with_exec(|e| e.allow_spawn_failure && e.spawn_failures_left > 0);
            if may_fail && rand_below(6) == 0 {
                with_exec(|e| e.spawn_failures_left -= 1);
                log(format!("sf,{parent}"));
                drop(f); // as std does: the closure (and the handle it owns) is dropped in the parent
                return Err(std::io::Error::new(std::io::ErrorKind::Other, "injected spawn failure"));
            }
            let child = with_exec(|e| {
                let c = e.next_tid;
                e.next_tid += 1;
                e.log.push(format!("sw,{parent},{c}"));
                c
            });
            let mut b = shuttle::thread::Builder::new();
            if let Some(n) = self.name {
                b = b.name(n);
            }
            b.spawn(move || {
                let id = shuttle::thread::current().id();
                with_exec(|e| {
                    e.tids.insert(id, child);
                });
                let r = f();
                log(format!("ex,{child}"));
                r
            })
        }
    }
}

pub mod time {
    use super::*;
    pub use std::time::Duration;

    /// virtual clock: every `now()` advances it by 1 ns, and with probability 1/4 by 10 s
    #[derive(Clone, Copy, Debug, PartialEq, Eq, PartialOrd, Ord)]
    pub struct Instant(u64);

    impl Instant {
        pub fn now() -> Instant {
            let jump = rand_below(4) == 0;
            with_exec(|e| {
                e.clock_ns += if jump { 10_000_000_000 } else { 1 };
                Instant(e.clock_ns)
            })
        }
        pub fn duration_since(&self, earlier: Instant) -> Duration {
            Duration::from_nanos(self.0.saturating_sub(earlier.0))
        }
        pub fn checked_duration_since(&self, earlier: Instant) -> Option<Duration> {
            self.0.checked_sub(earlier.0).map(Duration::from_nanos)
        }
    }

    impl std::ops::Add<Duration> for Instant {
        type Output = Instant;
        fn add(self, d: Duration) -> Instant {
            Instant(self.0.saturating_add(d.as_nanos() as u64))
        }
    }
}
