#!/usr/bin/env python3
"""X — extractor (DESIGN.md §2.4).

Re-reads *named* Rust items of the repository's current working tree and regenerates
lean/QV/Generated/*.lean.  It is a tokenizer-level reader, not a Rust parser: it understands

  * `const NAME: T = <integer expression>;`
  * `pub const X: Self = Self(n);`  /  `pub const X: Type = Type(n);` inside `impl T {`
  * the arms `Caseless("NS") => Ok(Self::NS)` of `impl FromStr for T`
  * the arms `Self::A => f.write_str("A")` / `write!(f, "IN")` of `impl fmt::Display for T`
  * `matches!(expr, A | B | C)` and `match x { pat => handler }` dispatch tables of named fns

A missing or reshaped item makes extraction fail loudly (exit 2 with the item's name); the
orchestrator turns that into a proof-obligation failure.

Files are only rewritten when their content changes so that `lake build` stays incremental.
Usage: extract.py <repo> <outdir>
"""
import hashlib
import json
import os
import re
import sys


class ExtractError(Exception):
    pass


def read(repo, rel):
    p = os.path.join(repo, rel)
    try:
        with open(p, encoding="utf-8") as f:
            return f.read()
    except OSError as e:
        raise ExtractError(f"{rel}: cannot read ({e})")


def strip_comments(src):
    # remove // comments (not inside strings; good enough for the items we read)
    out = []
    for line in src.split("\n"):
        m = re.search(r'(?<!:)//', line)
        if m and line[:m.start()].count('"') % 2 == 0:
            line = line[:m.start()]
        out.append(line)
    return "\n".join(out)


def int_expr(expr, item):
    e = expr.strip().replace("_", "")
    e = re.sub(r"(?<=[0-9a-fA-F])(usize|u8|u16|u32|u64|i32|i64)\b", "", e)
    if not re.fullmatch(r"[0-9a-fA-Fx+\-*/()<>\s!&|]+", e):
        raise ExtractError(f"{item}: not an integer expression: {expr!r}")
    try:
        return int(eval(e, {"__builtins__": {}}))
    except Exception as ex:  # noqa
        raise ExtractError(f"{item}: cannot evaluate {expr!r}: {ex}")


def const(src, rel, name):
    m = re.search(r"\bconst\s+" + name + r"\s*:\s*[A-Za-z0-9_]+\s*=\s*([^;]+);", src)
    if not m:
        raise ExtractError(f"{rel}: const {name} not found")
    return int_expr(m.group(1), f"{rel}:{name}")


def block_after(src, header_re, item):
    """Return the text of the `{ ... }` block that follows the first match of header_re."""
    m = re.search(header_re, src)
    if not m:
        raise ExtractError(f"{item}: header not found")
    i = src.index("{", m.end() - 1)
    depth = 0
    j = i
    in_str = False
    while j < len(src):
        c = src[j]
        if in_str:
            if c == "\\":
                j += 1
            elif c == '"':
                in_str = False
        elif c == '"':
            in_str = True
        elif c == "{":
            depth += 1
        elif c == "}":
            depth -= 1
            if depth == 0:
                return src[i + 1:j]
        j += 1
    raise ExtractError(f"{item}: unbalanced braces")


def self_consts(src, rel, ty):
    blk = block_after(src, r"\bimpl\s+" + ty + r"\s*\{", f"{rel}: impl {ty}")
    out = []
    for m in re.finditer(r"pub\s+const\s+([A-Z0-9_]+)\s*:\s*(?:Self|" + ty + r")\s*=\s*(?:Self|" + ty + r")\(([^)]+)\)\s*;", blk):
        out.append((m.group(1), int_expr(m.group(2), f"{rel}:{ty}::{m.group(1)}")))
    if not out:
        raise ExtractError(f"{rel}: impl {ty}: no constants found")
    return out


def fromstr_arms(src, rel, ty):
    blk = block_after(src, r"\bimpl\s+FromStr\s+for\s+" + ty + r"\s*\{", f"{rel}: impl FromStr for {ty}")
    arms = re.findall(r'Caseless\("([^"]+)"\)\s*=>\s*Ok\(Self::([A-Z0-9_]+)\)', blk)
    if not arms:
        raise ExtractError(f"{rel}: impl FromStr for {ty}: no arms found")
    n_arrows = len(re.findall(r'Caseless\("', blk))
    if n_arrows != len(arms):
        raise ExtractError(f"{rel}: impl FromStr for {ty}: {n_arrows} Caseless arms but {len(arms)} understood")
    return arms


def display_arms(src, rel, ty):
    blk = block_after(src, r"\bimpl\s+fmt::Display\s+for\s+" + ty + r"\s*\{", f"{rel}: impl Display for {ty}")
    arms = re.findall(r'Self::([A-Z0-9_]+)\s*=>\s*(?:f\.write_str\("([^"]*)"\)|write!\(f,\s*"([^"{}]*)"\))', blk)
    if not arms:
        raise ExtractError(f"{rel}: impl Display for {ty}: no arms found")
    n = len(re.findall(r"Self::[A-Z0-9_]+\s*=>", blk))
    if n != len(arms):
        raise ExtractError(f"{rel}: impl Display for {ty}: {n} Self:: arms but {len(arms)} understood")
    m = re.search(r'(?:Self\(value\)\s*=>\s*write!\(f,\s*"([^"{}]*)\{value\}"\)|_\s*=>\s*([A-Za-z]+)::from\(\*self\)\.fmt\(f\))', blk)
    if not m:
        raise ExtractError(f"{rel}: impl Display for {ty}: fallback arm not understood")
    fallback = ("prefix", m.group(1)) if m.group(1) is not None else ("delegate", m.group(2))
    return [(a, b or c) for a, b, c in arms], fallback


def lean_str(s):
    return '"' + s.replace("\\", "\\\\").replace('"', '\\"') + '"'


def gen_header(title, sources):
    return ("/- GENERATED by tools/extract.py from the repository's working tree — do not edit.\n"
            f"   {title}\n   sources: {', '.join(sources)} -/\n\nnamespace QV.Gen\n\n")


def write_if_changed(path, content):
    os.makedirs(os.path.dirname(path), exist_ok=True)
    try:
        with open(path, encoding="utf-8") as f:
            if f.read() == content:
                return False
    except OSError:
        pass
    with open(path, "w", encoding="utf-8") as f:
        f.write(content)
    return True


def gen_consts(repo):
    items = [
        ("src/name/mod.rs", "MAX_N_LABELS"), ("src/name/mod.rs", "MAX_WIRE_LEN"), ("src/name/mod.rs", "MAX_LABEL_LEN"),
        ("src/server/mod.rs", "TSIG_FUDGE"), ("src/server/query.rs", "MAX_CNAME_CHAIN_LEN"),
        ("src/zone_file/directive.rs", "INCLUDE_PATH_MAX"), ("src/zone_file/reader.rs", "MAX_READ_FIELD_SIZE"),
        ("src/message/writer.rs", "OPT_RECORD_SIZE"), ("src/message/writer.rs", "HINT_POINTER_VEC_SIZE"),
    ]
    for n in ["HEADER_SIZE", "ID_START", "ID_END", "QR_BYTE", "QR_MASK", "OPCODE_BYTE", "OPCODE_MASK", "OPCODE_SHIFT",
              "AA_BYTE", "AA_MASK", "TC_BYTE", "TC_MASK", "RD_BYTE", "RD_MASK", "RA_BYTE", "RA_MASK", "RCODE_BYTE",
              "RCODE_MASK", "QDCOUNT_START", "QDCOUNT_END", "ANCOUNT_START", "ANCOUNT_END", "NSCOUNT_START",
              "NSCOUNT_END", "ARCOUNT_START", "ARCOUNT_END", "POINTER_MAX"]:
        items.append(("src/message/constants.rs", n))
    out = gen_header("integer constants", sorted({r for r, _ in items}))
    vals = {}
    cache = {}
    for rel, name in items:
        src = cache.setdefault(rel, strip_comments(read(repo, rel)))
        v = const(src, rel, name)
        vals[name] = v
        out += f"/-- `{rel}`: `{name}` -/\ndef {name} : Nat := {v}\n"
    out += "\nend QV.Gen\n"
    return out, vals


CODE_TABLES = [
    # (lean name, file, type, has FromStr, has Display)
    ("type", "src/rr/rr_type.rs", "Type", True, True),
    ("class", "src/class.rs", "Class", True, True),
    ("qtype", "src/message/question.rs", "Qtype", True, True),
    ("qclass", "src/message/question.rs", "Qclass", True, True),
    ("opcode", "src/message/opcode.rs", "Opcode", False, True),
    ("rcode", "src/message/rcode.rs", "Rcode", False, True),
    ("extRcode", "src/message/rcode.rs", "ExtendedRcode", False, True),
]


def gen_tables(repo):
    out = gen_header("code tables: constants, FromStr arms, Display arms", sorted({t[1] for t in CODE_TABLES}))
    summary = {}
    for lname, rel, ty, has_fs, has_disp in CODE_TABLES:
        src = strip_comments(read(repo, rel))
        consts = self_consts(src, rel, ty)
        cmap = dict(consts)
        out += f"/-- `{rel}`: associated constants of `{ty}` -/\ndef {lname}Consts : List (String × Nat) :=\n  ["
        out += ", ".join(f"({lean_str(n)}, {v})" for n, v in consts) + "]\n"
        if has_fs:
            arms = fromstr_arms(src, rel, ty)
            rows = []
            for text, cname in arms:
                if cname not in cmap:
                    raise ExtractError(f"{rel}: FromStr for {ty}: unknown constant {cname}")
                rows.append((text, cmap[cname]))
            out += f"/-- `{rel}`: `impl FromStr for {ty}`, arms in source order (mnemonic, value) -/\n"
            out += f"def {lname}Parse : List (String × Nat) :=\n  [" + ", ".join(f"({lean_str(t)}, {v})" for t, v in rows) + "]\n"
        if has_disp:
            arms, fallback = display_arms(src, rel, ty)
            rows = []
            for cname, text in arms:
                if cname not in cmap:
                    raise ExtractError(f"{rel}: Display for {ty}: unknown constant {cname}")
                rows.append((cmap[cname], text))
            out += f"/-- `{rel}`: `impl Display for {ty}`, arms in source order (value, text) -/\n"
            out += f"def {lname}Display : List (Nat × String) :=\n  [" + ", ".join(f"({v}, {lean_str(t)})" for v, t in rows) + "]\n"
            if fallback[0] == "prefix":
                out += f"def {lname}DisplayPrefix : String := {lean_str(fallback[1])}\n"
            else:
                out += f"/-- fallback arm delegates to `{fallback[1]}`'s Display -/\ndef {lname}DisplayDelegate : String := {lean_str(fallback[1])}\n"
        summary[lname] = len(consts)
        out += "\n"
    out += "end QV.Gen\n"
    return out, summary


EXTRA = []  # further generators register themselves here: (filename, fn(repo) -> (text, summary))


def main():
    repo = sys.argv[1] if len(sys.argv) > 1 else "/repo"
    outdir = sys.argv[2] if len(sys.argv) > 2 else os.path.join(os.path.dirname(os.path.abspath(__file__)), "..", "lean", "QV", "Generated")
    report = {"repo": repo, "files": {}, "errors": []}
    gens = [("Consts.lean", gen_consts), ("Tables.lean", gen_tables)] + EXTRA
    for fname, fn in gens:
        try:
            text, summary = fn(repo)
            changed = write_if_changed(os.path.join(outdir, fname), text)
            report["files"][fname] = {"sha256": hashlib.sha256(text.encode()).hexdigest()[:16], "changed": changed,
                                      "summary": summary}
        except ExtractError as e:
            report["errors"].append(f"{fname}: {e}")
    print(json.dumps(report))
    return 2 if report["errors"] else 0


if __name__ == "__main__":
    import glob
    import importlib.util
    here = os.path.dirname(os.path.abspath(__file__))
    for path in sorted(glob.glob(os.path.join(here, "extract_*.py"))):
        spec = importlib.util.spec_from_file_location(os.path.basename(path)[:-3], path)
        m = importlib.util.module_from_spec(spec)
        spec.loader.exec_module(m)
        m.register(EXTRA, sys.modules[__name__])
    sys.exit(main())
