"""Extractor plug-in (C23–C25): the dispatch data of src/zone_file/record.rs.

Generates lean/QV/Generated/ZoneFileDispatch.lean with

  parseRdataArms      arms of `parse_rdata`'s `match rr_type`, in source order:
                      (type values, class guard, handler name)
  parseRdataDefault   what the `_` arm does (must be: require `\\#`, then `parse_unknown_rdata`)
  parseTypeRejected   types `parse_type` refuses, with the error kind
  rdataHandlers       per `parse_*_rdata` handler: the `Expected…` error kind given to
                      `check_backslash_hash` and the validator applied to RDATA in RFC 3597 form
  wksMaskMsbFirst     which bit of a WKS bitmap octet `serialize_in_wks` (src/rr/rdata/std13.rs)
                      sets for port p: `1 << (p % 8)` (false: least significant bit first, finding
                      D18) or `0x80 >> (p % 8)` (true: the order of RFC 1035 §3.4.2)

The model dispatches through these tables; the C24 theorems are stated over them, so changing
an arm re-checks the proofs.
"""
import re


def register(extra, mod):
    def gen(repo):
        rel = "src/zone_file/record.rs"
        src = mod.strip_comments(mod.read(repo, rel))
        tsrc = mod.strip_comments(mod.read(repo, "src/rr/rr_type.rs"))
        csrc = mod.strip_comments(mod.read(repo, "src/class.rs"))
        types = dict(mod.self_consts(tsrc, "src/rr/rr_type.rs", "Type"))
        classes = dict(mod.self_consts(csrc, "src/class.rs", "Class"))

        # ---- parse_rdata ----
        body = mod.block_after(src, r"\bfn\s+parse_rdata\s*\(", f"{rel}: fn parse_rdata")
        m = re.search(r"match\s+rr_type\s*\{", body)
        if not m:
            raise mod.ExtractError(f"{rel}: parse_rdata: `match rr_type` not found")
        arms_txt = mod.block_after(body, r"match\s+rr_type\s*\{", f"{rel}: parse_rdata match")
        # split off the default arm
        dm = re.search(r"\b_\s*=>\s*\{", arms_txt)
        if not dm:
            raise mod.ExtractError(f"{rel}: parse_rdata: `_ =>` arm not found")
        head = arms_txt[:dm.start()]
        default_blk = mod.block_after(arms_txt[dm.start():], r"_\s*=>\s*\{", f"{rel}: parse_rdata default arm")
        arms = []
        consumed = 0
        for am in re.finditer(r"((?:Type::[A-Z0-9_]+\s*\|?\s*)+)(?:if\s+class\s*==\s*Class::([A-Z0-9_]+)\s*)?=>\s*self\.([a-z0-9_]+)\(\)\s*,", head):
            names = re.findall(r"Type::([A-Z0-9_]+)", am.group(1))
            for n in names:
                if n not in types:
                    raise mod.ExtractError(f"{rel}: parse_rdata: unknown type constant {n}")
            guard = am.group(2)
            if guard is not None and guard not in classes:
                raise mod.ExtractError(f"{rel}: parse_rdata: unknown class constant {guard}")
            arms.append(([types[n] for n in names], classes[guard] if guard else None, am.group(3)))
            consumed += len(am.group(0))
        if len(re.findall(r"=>", head)) != len(arms):
            raise mod.ExtractError(f"{rel}: parse_rdata: {len(re.findall(r'=>', head))} arms but {len(arms)} understood")
        if not arms:
            raise mod.ExtractError(f"{rel}: parse_rdata: no arms found")
        dflat = re.sub(r"\s+", " ", default_blk)
        if not (re.search(r"if !self\.check_backslash_hash\(ErrorKind::ExpectedBackslashHash\)\? \{ return Err\(", dflat)
                and re.search(r"\} self\.parse_unknown_rdata\(\) *$", dflat.strip())):
            raise mod.ExtractError(f"{rel}: parse_rdata: default arm not of the form `require \\#; parse_unknown_rdata()`")

        # ---- parse_type ----
        tbody = mod.block_after(src, r"\bfn\s+parse_type\s*\(", f"{rel}: fn parse_type")
        rej = re.findall(r"Type::([A-Z0-9_]+)\s*=>\s*Err\(Error::new\(position,\s*ErrorKind::([A-Za-z]+)\)\)", tbody)
        if not rej or "_ => Ok(rr_type)" not in re.sub(r"\s+", " ", tbody):
            raise mod.ExtractError(f"{rel}: parse_type: rejection arms not understood")
        n_arms = len(re.findall(r"Type::[A-Z0-9_]+\s*=>", tbody))
        if n_arms != len(rej):
            raise mod.ExtractError(f"{rel}: parse_type: {n_arms} Type:: arms but {len(rej)} understood")
        for n, _ in rej:
            if n not in types:
                raise mod.ExtractError(f"{rel}: parse_type: unknown type constant {n}")

        # ---- handlers ----
        handlers = []
        for name in sorted({a[2] for a in arms}):
            hb = mod.block_after(src, r"\bfn\s+" + name + r"\s*\(", f"{rel}: fn {name}")
            flat = re.sub(r"\s+", " ", hb)
            m1 = re.match(r" ?if self\.check_backslash_hash\(ErrorKind::([A-Za-z0-9]+)\)\? \{ self\.parse_unknown_rdata_with_validation\((.*?)\) \} else \{", flat)
            if not m1:
                raise mod.ExtractError(f"{rel}: {name}: not of the form `if check_backslash_hash(..)? {{ parse_unknown_rdata_with_validation(..) }} else {{ .. }}`")
            v = m1.group(2).strip()
            mv = re.fullmatch(r"Rdata::([a-z0-9_]+)", v)
            if mv:
                validator = mv.group(1)
            elif re.fullmatch(r"\|rdata\| \{ Name::validate_uncompressed_all\(rdata\.octets\(\)\) \}", v):
                validator = "validate_name"
            else:
                raise mod.ExtractError(f"{rel}: {name}: validator not understood: {v!r}")
            handlers.append((name, m1.group(1), validator))

        # ---- serialize_in_wks: octet index and bit mask of a port ----
        wrel = "src/rr/rdata/std13.rs"
        wsrc = mod.strip_comments(mod.read(repo, wrel))
        wb = re.sub(r"\s+", " ", mod.block_after(wsrc, r"\bfn\s+serialize_in_wks\s*\(", f"{wrel}: fn serialize_in_wks"))
        if not re.search(r"let offset = \(\*port as usize\) / 8 ;", wb.replace(";", " ;")):
            raise mod.ExtractError(f"{wrel}: serialize_in_wks: `let offset = (*port as usize) / 8;` not found")
        mm = re.search(r"let mask(?: ?: ?u8)? = ([^;]+);", wb)
        if not mm:
            raise mod.ExtractError(f"{wrel}: serialize_in_wks: `let mask = …;` not found")
        mask = re.sub(r"\s+", "", mm.group(1)).replace("_", "")
        mask = re.sub(r"(?<=[0-9a-fA-F])u(8|16|32|size)\b", "", mask)
        mask = mask.replace("(*port%8)", "(port%8)").replace("*port%8", "port%8")
        if mask in ("1<<(port%8)",):
            wks_msb = False
        elif mask in ("0x80>>(port%8)", "128>>(port%8)", "1<<(7-port%8)", "1<<(7-(port%8))"):
            wks_msb = True
        else:
            raise mod.ExtractError(f"{wrel}: serialize_in_wks: bit mask not understood: {mm.group(1).strip()!r}")
        if not re.search(r"buf\[start_index \+ offset\] \|= mask ;", wb.replace(";", " ;")):
            raise mod.ExtractError(f"{wrel}: serialize_in_wks: `buf[start_index + offset] |= mask;` not found")

        out = mod.gen_header("zone-file RDATA dispatch (parse_rdata, parse_type, parse_*_rdata); WKS bit mask", [rel, "src/rr/rr_type.rs", "src/class.rs", wrel])
        out += "/-- `parse_rdata`: arms of `match rr_type` in source order: (types, class guard, handler) -/\n"
        out += "def parseRdataArms : List (List Nat × Option Nat × String) :=\n  ["
        out += ",\n   ".join("([" + ", ".join(str(t) for t in ts) + "], " + ("none" if g is None else f"some {g}") + ", " + mod.lean_str(h) + ")"
                           for ts, g, h in arms) + "]\n\n"
        out += "/-- the `_` arm of `parse_rdata`: `\\#` is required, then `parse_unknown_rdata` (no validation) -/\n"
        out += "def parseRdataDefault : String := \"parse_unknown_rdata\"\n\n"
        out += "/-- `parse_type`: types refused in zone files, with the error kind -/\n"
        out += "def parseTypeRejected : List (Nat × String) :=\n  [" + ", ".join(f"({types[n]}, {mod.lean_str(k)})" for n, k in rej) + "]\n\n"
        out += "/-- per handler: (name, error kind of `check_backslash_hash`, validator of the RFC 3597 form) -/\n"
        out += "def rdataHandlers : List (String × String × String) :=\n  ["
        out += ",\n   ".join(f"({mod.lean_str(a)}, {mod.lean_str(b)}, {mod.lean_str(c)})" for a, b, c in handlers) + "]\n\n"
        out += "/-- `serialize_in_wks`: the mask for port `p` in octet `p / 8` is `0x80 >> (p % 8)` (true, RFC 1035\n"
        out += "    §3.4.2 with the bit numbering of §2.3.2) or `1 << (p % 8)` (false, known finding D18) -/\n"
        out += f"def wksMaskMsbFirst : Bool := {'true' if wks_msb else 'false'}\n\n"
        out += "end QV.Gen\n"
        return out, {"arms": len(arms), "rejected": len(rej), "handlers": len(handlers), "wks_mask_msb_first": wks_msb}

    extra.append(("ZoneFileDispatch.lean", gen))
