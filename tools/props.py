"""Per-property configuration of the orchestrator (bin/check).

groups      harness generator groups whose cases decide the property (qvh gen <group> …)
module      Lean module holding the property's theorems (QV.Properties.<id> by default)
features    cargo features of /repo the harness needs for this property
strict_err  compare error *variants* between implementation and model for the verdict
            (only where the property names the error; otherwise informational)
design_ref  DESIGN.md section
"""

PROPS = {
    "C12": {
        "groups": ["writer"],
        "design_ref": "§6 C12/C13",
        "technique": "Lean 4 proof over a byte-exact model of Writer (all public methods, three compression modes, hints, rollback, templates, EDNS/TSIG reservations): invariant + rollback + size-limit + no-spurious-truncation + ext-RCODE theorems for all op sequences, refinement to an abstract message via an independent RFC 1035 decoder; model tied to src/message/writer.rs by whole-session differential correspondence; the spec (independent decoder + abstract semantics + pointer audit) is evaluated on the implementation's own octets for every generated session",
        "strict_err": True,
    },
    "C13": {
        "groups": ["writerptr"],
        "design_ref": "§6 C12/C13",
        "technique": "Lean 4 proof: every pointer emission of the Writer model is logged (ghost state); theorems for all op sequences and modes on where pointers are emitted and on their targets; components table checked against RFC 3597 §4; pointer audit (strictly backwards, onto a label start of an earlier name, not in SRV/CH-A/unknown RDATA, none while Disabled) on the implementation's octets with the independent decoder for every generated session",
        "strict_err": True,
    },
    "C14": {
        "groups": ["wire"],
        "design_ref": "§6 C14",
        "technique": "Lean 4 proof: parser ↔ inductive RFC 1035 §4.1.4 relation (sound+complete, no panic, termination); model tied to src/name/wire.rs by differential correspondence incl. exhaustive ≤5-octet buffers",
    },
}

TRUSTED_BASE = [
    "Lean 4.33.0 kernel (leanchecker re-check in the thorough tier)",
    "axioms allowed: propext, Classical.choice, Quot.sound (audited per theorem with #print axioms); no sorry/admit/native_decide/bv_decide/own axioms",
    "QV/Spec/*: that the specification says what the property says (DESIGN.md §6 records every interpretation)",
    "correspondence check (harness/ + Lean driver + canonicaliser): differential testing that the hand-written model mirrors /repo's current source; the extractor (tools/extract.py) ties constants and tables",
    "rustc/cargo dev profile (overflow checks on); std, arrayvec, hashbrown, hmac/sha crates as used by quandary",
]
