"""Per-property configuration of the orchestrator (bin/check).

groups      harness generator groups whose cases decide the property (qvh gen <group> …)
module      Lean module holding the property's theorems (QV.Properties.<id> by default)
features    cargo features of /repo the harness needs for this property
strict_err  compare error *variants* between implementation and model for the verdict
            (only where the property names the error; otherwise informational)
design_ref  DESIGN.md section
"""

PROPS = {
    "C11": {
        "groups": ["tsig"],
        "strict_err": True,
        "design_ref": "§6 C11",
        "technique": "Lean 4 proof for an arbitrary MAC function: digest input of the three signing/verification modes = RFC 8945 §4.3 construction; verify = ok ↔ allowed MAC size ∧ MAC = truncated tag ∧ |now − signed| ≤ fudge, with FormErr > BadSig > BadTime; verify∘sign = ok inside the window; injectivity of the digest input in every covered field (tampering ⇒ explicit truncated-MAC collision); Lean SHA-1/SHA-256/HMAC and the TSIG model tied to src/message/tsig.rs, src/rr/rdata/tsig.rs, Writer::finish_with_mac and the hmac/sha1/sha2 crates by differential correspondence (published vectors in corpus/C11)",
        "assumptions": [
            "HMAC-SHA1 / HMAC-SHA256 are collision- and forgery-resistant (not proved; the tamper theorem reduces acceptance of an altered message to an explicit truncated-tag collision)",
            "callers uphold the documented preconditions of sign_*/verify_* (message of at least 12 octets whose ARCOUNT counts the TSIG RR, prior MAC ≤ 65535 octets, algorithm argument = algorithm named in the RR); outside them the code panics, which the model reproduces",
        ],
        "evidence_notes": [
            "interpretation: RFC 8945 §5.3.1 'Prior MAC (running)' is framed with its two-octet size like the request MAC of §4.3.1 (BIND-generated vectors of the repository verify only that way)",
            "the digest input is not injective in (message, key name) for arbitrary octet strings (no delimiter between message and key name): C11_request_digest_ambiguous gives the witness; it is injective for equal-length messages and, more generally, when neither message body is a proper prefix of the other (true of well-framed DNS messages with equal counts)",
        ],
    },
    "C14": {
        "groups": ["wire"],
        "design_ref": "§6 C14",
        "technique": "Lean 4 proof: parser ↔ inductive RFC 1035 §4.1.4 relation (sound+complete, no panic, termination); model tied to src/name/wire.rs by differential correspondence incl. exhaustive ≤5-octet buffers",
    },
}

TRUSTED_BASE = [
    "Lean 4.33.0 kernel (leanchecker re-check in the thorough tier)",
    "axioms allowed: propext, Classical.choice, Quot.sound (audited per theorem with #print axioms); no sorry/admit/native_decide/bv_decide/own axioms",
    "QV/Spec/*: that the specification says what the property says (DESIGN.md §6 records every interpretation)",
    "correspondence check (harness/ + Lean driver + canonicaliser): differential testing that the hand-written model mirrors /repo's current source; the extractor (tools/extract.py) ties constants and tables",
    "rustc/cargo dev profile (overflow checks on); std, arrayvec, hashbrown, hmac/sha crates as used by quandary",
]
