"""Per-property configuration of the orchestrator (bin/check).

One JSON file per property in tools/props.d/<id>.json (so that branches never conflict):

groups      harness generator groups whose cases decide the property (qvh gen <group> …)
module      Lean module holding the property's theorems (QV.Properties.<id> by default)
features    cargo features of /repo the harness needs for this property
strict_err  compare error *variants* between implementation and model for the verdict
            (only where the property names the error; otherwise informational)
design_ref  DESIGN.md section
technique, level_text, level_note, assumptions, evidence_notes   free text for MANIFEST/evidence
"""
import glob
import json
import os

_HERE = os.path.dirname(os.path.abspath(__file__))
PROPS = {}
for _p in sorted(glob.glob(os.path.join(_HERE, "props.d", "C*.json"))):
    with open(_p, encoding="utf-8") as _f:
        PROPS[os.path.basename(_p)[:-5]] = json.load(_f)

TRUSTED_BASE = [
    "Lean 4.33.0 kernel (leanchecker re-check in the thorough tier)",
    "axioms allowed: propext, Classical.choice, Quot.sound (audited per theorem with #print axioms); no sorry/admit/native_decide/bv_decide/own axioms",
    "QV/Spec/*: that the specification says what the property says (DESIGN.md §6 records every interpretation)",
    "correspondence check (harness/ + Lean driver + canonicaliser): differential testing that the hand-written model mirrors /repo's current source; the extractor (tools/extract.py) ties constants and tables",
    "rustc/cargo dev profile (overflow checks on); std, arrayvec, hashbrown, hmac/sha crates as used by quandary"
]
