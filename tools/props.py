"""Per-property configuration of the orchestrator (bin/check).

groups      harness generator groups whose cases decide the property (qvh gen <group> …)
module      Lean module holding the property's theorems (QV.Properties.<id> by default)
features    cargo features of /repo the harness needs for this property
strict_err  compare error *variants* between implementation and model for the verdict
            (only where the property names the error; otherwise informational)
design_ref  DESIGN.md section
"""

PROPS = {
    "C14": {
        "groups": ["wire"],
        "design_ref": "§6 C14",
        "technique": "Lean 4 proof: parser ↔ inductive RFC 1035 §4.1.4 relation (sound+complete, no panic, termination); model tied to src/name/wire.rs by differential correspondence incl. exhaustive ≤5-octet buffers",
    },
    "C22": {
        "groups": ["catalog"],
        "design_ref": "§6 C06 zone lookups · C20 zone store · C21 validation · C22 catalog",
        "technique": "Lean 4 proof: the catalog tree refines a finite map (class × case-folded name) ⇀ entry for every history of inserts/removes (invariant + abstraction function; lookup = longest suffix, get = exact, iter = permutation of the bindings, frame theorems for remove/insert); model tied to src/db/hash_map_tree/catalog.rs, src/db/catalog.rs, src/db/single_zone_catalog.rs by whole-history differential correspondence incl. exhaustive histories over 4 nested names",
        "evidence_notes": [
            "one case = one whole history; every step's result (returned entry, lookup, get, sorted iter) is compared; Loaded entries are checked for Arc pointer identity with the zone inserted",
            "quick: all histories of <= 5 inserts/removes over the chain . a. b.a. c.b.a. and <= 4 over the tree a. b.a. c.a. d.b.a.; thorough: <= 5 over both",
        ],
    },
    "C31": {
        "groups": ["reload"],
        "design_ref": "§6 C31 — reload",
        "technique": "Lean 4 proof: load_impl/check_mtime on the C22 catalog model refines a per-zone rule folded over each zone's own view of the history (every history of configuration + file-state steps incl. configuration errors; independence of zones as a theorem); model tied to src/bin/quandaryd/zones.rs + config.rs by running the real load/reload in-process on scratch directories with explicit mtimes",
        "assumptions": [
            "file system and zone-file parser/validator are abstracted: a file has a modification time (or cannot be stat'ed) and, for a given zone configuration, either loads to some data or fails",
            "'unchanged on disk' is the daemon's criterion (same path, mtime not newer than recorded); the executable oracle constrains only histories satisfying MtimeSound (a file that is not newer still has the loaded content), cf. theorem C31_rule_text",
            "signal delivery, the RwLock swap of the served catalog (C32) and UDP transport are outside this property's model; run.rs's reload path is mirrored by three lines in harness/src/g_reload.rs",
        ],
        "evidence_notes": [
            "one case = one whole history of (configuration, files) steps; after each step every zone configured anywhere in the history is observed by exact get and by longest-match lookup of a name below it; data identified by SOA serial",
            "duplicate zone entries are rejected by config.rs (configuration error: catalog unchanged); generated and checked",
        ],
    },
}

TRUSTED_BASE = [
    "Lean 4.33.0 kernel (leanchecker re-check in the thorough tier)",
    "axioms allowed: propext, Classical.choice, Quot.sound (audited per theorem with #print axioms); no sorry/admit/native_decide/bv_decide/own axioms",
    "QV/Spec/*: that the specification says what the property says (DESIGN.md §6 records every interpretation)",
    "correspondence check (harness/ + Lean driver + canonicaliser): differential testing that the hand-written model mirrors /repo's current source; the extractor (tools/extract.py) ties constants and tables",
    "rustc/cargo dev profile (overflow checks on); std, arrayvec, hashbrown, hmac/sha crates as used by quandary",
]
