"""Per-property configuration of the orchestrator (bin/check).

groups      harness generator groups whose cases decide the property (qvh gen <group> …)
module      Lean module holding the property's theorems (QV.Properties.<id> by default)
features    cargo features of /repo the harness needs for this property
strict_err  compare error *variants* between implementation and model for the verdict
            (only where the property names the error; otherwise informational)
design_ref  DESIGN.md section
"""

PROPS = {
    "C14": {
        "groups": ["wire"],
        "design_ref": "§6 C14",
        "technique": "Lean 4 proof: parser ↔ inductive RFC 1035 §4.1.4 relation (sound+complete, no panic, termination); model tied to src/name/wire.rs by differential correspondence incl. exhaustive ≤5-octet buffers",
    },
    "C18": {
        "groups": ["rdata"],
        "design_ref": "§6 C18",
        "technique": "Lean 4 proof: Rdata::validate ↔ per-RFC RDATA grammar for every (class,type); Rdata::read never panics, is sound w.r.t. the decompression spec and round-trips valid RDATA; dispatch tables extracted from src/rr/rdata/mod.rs; differential correspondence incl. every (cursor, rdlength) on short messages",
        "assumptions": [
            "usize is 64 bits; Rdata::read is called with cursor + rdlength ≤ usize::MAX (true for every cursor that is an offset into a message); the overflow panic outside that range is modelled (theorem C18_read_overflow_panics) and compared with the real code, not constrained by the spec",
            "the compressed write/read round trip is proved for reader + Rdata::components given the writer contract `Written` (each component is in the message, names in any encoding that decodes to them); that the writer model establishes it is C12/C13",
        ],
        "evidence_notes": [
            "dispatch arms of Rdata::{equals,validate,read,components} are extracted into lean/QV/Generated/RdataDispatch.lean on every run; validate_eq/read_eq/equals_eq/components_eq prove them equal to the RFC table fmtOf for every (class,type)",
            "interpretation: names in NS/MD/MF/CNAME/MB/MG/MR/PTR/SOA/MINFO/MX (any class), SRV (IN) and A (CH) are decompressed on read (RFC 3597 §4); A/WKS/AAAA/SRV outside class IN and A outside IN/CH are opaque; OPT may hold zero options; TXT needs at least one character-string",
        ],
    },
    "C19": {
        "groups": ["rdata"],
        "design_ref": "§6 C19",
        "technique": "Lean 4 proof: Rdata::equals = spec equality (field-wise, names case-insensitive, octet-wise fallback) for every (class,type) and all inputs, hence an equivalence; RdataSetOwned::from_iter/iter = first-of-each-class; dispatch tables extracted; differential correspondence on pairs, triples and sets",
        "assumptions": [
            "RdataSet length prefixes use native endianness (modelled little-endian; encode and decode agree, so unobservable)",
            "members of an RdataSet are at most 65535 octets (invariant of the Rdata type; `len as u16` would truncate otherwise)",
        ],
        "evidence_notes": [
            "interpretation: 'pre-RFC 3597 name-bearing types' = the formats with a field layout in QV.Spec.layoutOf (NS-like, SOA, MINFO, MX any class; SRV in IN; A in CH); 'well formed' = RdataSpec; names compare equal iff their wire forms agree after ASCII case folding (RFC 4343)",
        ],
    },
}

TRUSTED_BASE = [
    "Lean 4.33.0 kernel (leanchecker re-check in the thorough tier)",
    "axioms allowed: propext, Classical.choice, Quot.sound (audited per theorem with #print axioms); no sorry/admit/native_decide/bv_decide/own axioms",
    "QV/Spec/*: that the specification says what the property says (DESIGN.md §6 records every interpretation)",
    "correspondence check (harness/ + Lean driver + canonicaliser): differential testing that the hand-written model mirrors /repo's current source; the extractor (tools/extract.py) ties constants and tables",
    "rustc/cargo dev profile (overflow checks on); std, arrayvec, hashbrown, hmac/sha crates as used by quandary",
]
