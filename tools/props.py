"""Per-property configuration of the orchestrator (bin/check).

groups      harness generator groups whose cases decide the property (qvh gen <group> …)
module      Lean module holding the property's theorems (QV.Properties.<id> by default)
features    cargo features of /repo the harness needs for this property
strict_err  compare error *variants* between implementation and model for the verdict
            (only where the property names the error; otherwise informational)
design_ref  DESIGN.md section
"""

PROPS = {
    "C14": {
        "groups": ["wire"],
        "design_ref": "§6 C14",
        "technique": "Lean 4 proof: parser ↔ inductive RFC 1035 §4.1.4 relation (sound+complete, no panic, termination); model tied to src/name/wire.rs by differential correspondence incl. exhaustive ≤5-octet buffers",
    },
    "C17": {
        "groups": ["codes"],
        "design_ref": "§6 C17",
        "technique": "Lean 4 proof over the extracted mnemonic tables: display→parse round trip for all 65536 values × 4 kinds (decimal print/parse lemma by induction + finite table facts by kernel evaluation), RFC 3597 TYPEnnn/CLASSnnn for every value and every case variant of the word, 4-bit conversions; Rust's u16::from_str / eq_ignore_ascii_case / str::get modelled on UTF-8 octets; model tied to the source by an exhaustive differential run (all values, all case variants of all mnemonics)",
        "assumptions": [
            "core::num u16::from_str, str::eq_ignore_ascii_case, str::get/is_char_boundary and Display for u16 are re-implemented in the model (QV/Model/Codes.lean) and compared with the real ones through the harness on every case",
        ],
        "evidence_notes": [
            "exhaustive in both tiers: crt/cdisp over 4 kinds × 65536 values, copc/crc over 256, cext over 65536, every ASCII-case variant of every mnemonic × 4 kinds, the exact word + one random case variant of TYPE/CLASS × 65536 values × 4 kinds",
            "known finding D13: mnemonic arms `match Caseless(text) { Caseless(\"IN\") => … }` are structural patterns, i.e. case-sensitive; Lean: C17_counterexample / C17_mnemonic_variant_rejected; C17_partial excludes exactly KF_caseVariant",
        ],
    },
}

TRUSTED_BASE = [
    "Lean 4.33.0 kernel (leanchecker re-check in the thorough tier)",
    "axioms allowed: propext, Classical.choice, Quot.sound (audited per theorem with #print axioms); no sorry/admit/native_decide/bv_decide/own axioms",
    "QV/Spec/*: that the specification says what the property says (DESIGN.md §6 records every interpretation)",
    "correspondence check (harness/ + Lean driver + canonicaliser): differential testing that the hand-written model mirrors /repo's current source; the extractor (tools/extract.py) ties constants and tables",
    "rustc/cargo dev profile (overflow checks on); std, arrayvec, hashbrown, hmac/sha crates as used by quandary",
]
