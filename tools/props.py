"""Per-property configuration of the orchestrator (bin/check).

groups      harness generator groups whose cases decide the property (qvh gen <group> …)
module      Lean module holding the property's theorems (QV.Properties.<id> by default)
features    cargo features of /repo the harness needs for this property
strict_err  compare error *variants* between implementation and model for the verdict
            (only where the property names the error; otherwise informational)
design_ref  DESIGN.md section
"""

PROPS = {
    "C15": {
        "groups": ["reader"],
        "design_ref": "§6 C15",
        "technique": "Lean 4 proof: every reader operation total (no panic), atomic on failure, and ↔ the RFC 1035 §4.1.2/§4.1.3 question/record relation; peek+skip = skip_rr, peek+parse = read_rr; model tied to src/message/reader.rs by differential correspondence on op sequences over generated and truncated messages",
    },
    "C14": {
        "groups": ["wire"],
        "design_ref": "§6 C14",
        "technique": "Lean 4 proof: parser ↔ inductive RFC 1035 §4.1.4 relation (sound+complete, no panic, termination); model tied to src/name/wire.rs by differential correspondence incl. exhaustive ≤5-octet buffers",
    },
    "C18": {
        "groups": ["rdata"],
        "design_ref": "§6 C18",
        "technique": "Lean 4 proof: Rdata::validate ↔ per-RFC RDATA grammar for every (class,type); Rdata::read never panics, is sound w.r.t. the decompression spec and round-trips valid RDATA; dispatch tables extracted from src/rr/rdata/mod.rs; differential correspondence incl. every (cursor, rdlength) on short messages",
        "assumptions": [
            "usize is 64 bits; Rdata::read is called with cursor + rdlength ≤ usize::MAX (true for every cursor that is an offset into a message); the overflow panic outside that range is modelled and compared, not constrained by the spec",
        ],
    },
    "C19": {
        "groups": ["rdata"],
        "design_ref": "§6 C19",
        "technique": "Lean 4 proof: Rdata::equals = spec equality (field-wise, names case-insensitive, octet-wise fallback) for every (class,type) and all inputs, hence an equivalence; RdataSetOwned::from_iter/iter = first-of-each-class; dispatch tables extracted; differential correspondence on pairs, triples and sets",
        "assumptions": [
            "RdataSet length prefixes use native endianness (modelled little-endian; encode and decode agree, so unobservable)",
        ],
    "C06": {
        "groups": ["zone"],
        "design_ref": "§6 C06 zone lookups · C20 zone store · C21 validation · C22 catalog",
        "technique": "Lean 4 proof: tree lookup (lookup_impl) = flat-record-list RFC 1034 §4.3.2 / RFC 4592 specification for every add sequence, name, type and option combination (tree invariant + abstraction); model tied to src/db/hash_map_tree/{zone,node}.rs, src/db/rrset.rs by differential correspondence on whole zone sessions incl. exhaustive small zones",
    },
    "C20": {
        "groups": ["zone"],
        "design_ref": "§6 C06 zone lookups · C20 zone store · C21 validation · C22 catalog",
        "strict_err": True,
        "technique": "Lean 4 proof: add succeeds ↔ owner/class/TTL conditions, rejected add leaves the tree unchanged, abstraction to the flat de-duplicated record list commutes with add, iteration is a permutation of the specified nodes/RRsets; correspondence on add sequences with iteration after every prefix",
    },
    "C21": {
        "groups": ["zone"],
        "design_ref": "§6 C06 zone lookups · C20 zone store · C21 validation · C22 catalog",
        "technique": "Lean 4 proof: validate (as a set) = issues of a reference checker stated as a predicate over the flat record list; severity split extracted from ValidationIssue::is_error (tools/extract_validation.py); correspondence on random and exhaustive zones under both glue policies and classes IN/CH/HS",
    },
    "C22": {
        "groups": ["catalog"],
        "design_ref": "§6 C06 zone lookups · C20 zone store · C21 validation · C22 catalog",
        "technique": "Lean 4 proof: the catalog tree refines a finite map (class × case-folded name) ⇀ entry for every history of inserts/removes (invariant + abstraction function; lookup = longest suffix, get = exact, iter = permutation of the bindings, frame theorems for remove/insert); model tied to src/db/hash_map_tree/catalog.rs, src/db/catalog.rs, src/db/single_zone_catalog.rs by whole-history differential correspondence incl. exhaustive histories over 4 nested names",
        "evidence_notes": [
            "one case = one whole history; every step's result (returned entry, lookup, get, sorted iter) is compared; Loaded entries are checked for Arc pointer identity with the zone inserted",
            "quick: all histories of <= 5 inserts/removes over the chain . a. b.a. c.b.a. and <= 4 over the tree a. b.a. c.a. d.b.a.; thorough: <= 5 over both",
        ],
    },
}

TRUSTED_BASE = [
    "Lean 4.33.0 kernel (leanchecker re-check in the thorough tier)",
    "axioms allowed: propext, Classical.choice, Quot.sound (audited per theorem with #print axioms); no sorry/admit/native_decide/bv_decide/own axioms",
    "QV/Spec/*: that the specification says what the property says (DESIGN.md §6 records every interpretation)",
    "correspondence check (harness/ + Lean driver + canonicaliser): differential testing that the hand-written model mirrors /repo's current source; the extractor (tools/extract.py) ties constants and tables",
    "rustc/cargo dev profile (overflow checks on); std, arrayvec, hashbrown, hmac/sha crates as used by quandary",
]
