"""Per-property configuration of the orchestrator (bin/check).

groups      harness generator groups whose cases decide the property (qvh gen <group> …)
module      Lean module holding the property's theorems (QV.Properties.<id> by default)
features    cargo features of /repo the harness needs for this property
strict_err  compare error *variants* between implementation and model for the verdict
            (only where the property names the error; otherwise informational)
design_ref  DESIGN.md section
"""

PROPS = {
    "C14": {
        "groups": ["wire"],
        "design_ref": "§6 C14",
        "technique": "Lean 4 proof: parser ↔ inductive RFC 1035 §4.1.4 relation (sound+complete, no panic, termination); model tied to src/name/wire.rs by differential correspondence incl. exhaustive ≤5-octet buffers",
    },
    "C06": {
        "groups": ["zone"],
        "design_ref": "§6 C06 zone lookups · C20 zone store · C21 validation · C22 catalog",
        "technique": "Lean 4 proof: tree lookup (lookup_impl) = flat-record-list RFC 1034 §4.3.2 / RFC 4592 specification for every add sequence, name, type and option combination (tree invariant + abstraction); model tied to src/db/hash_map_tree/{zone,node}.rs, src/db/rrset.rs by differential correspondence on whole zone sessions incl. exhaustive small zones",
        "assumptions": [
            "names are case-folded label lists: the model works on lower-cased labels (Label Eq/Hash are ASCII-case-insensitive, src/name/label.rs); the harness sends mixed-case names to the real code and lower-cases every name it returns before comparing",
            "Rdata::equals is a parameter `eqv` of model, spec and theorems (no property of it is needed); the driver instantiates it with a transcription of src/rr/rdata/{mod,std13,helpers}.rs for the generated types A (IN and CH), NS, CNAME, SOA, MX, TXT, AAAA and octet equality for type 99 (MINFO and SRV are not generated)",
            "RrsetList's binary_search_by_key on the Vec sorted by rr_type is modelled as a linear scan; equivalent on strictly sorted lists, and sortedness is a proved invariant of add (rrsetsAdd_sorted)",
        ],
        "evidence_notes": [
            "one case = one zone session (header + adds + up to 64/128 lookup steps + iteration/validation); `evaluations` counts sessions, each holding ~100 compared step results",
            "unchecked lookups of names not at or below the apex are outside the property (LookupOptions: 'may panic or return incorrect data'): such sessions are compared implementation-vs-model only (spec column '-'); the model reproduces the usize-underflow panic for names shorter than the apex",
            "quick: exhaustive zones of <=2 records over a 24-record universe (labels a,b,*) + 250 random zones (<=40 records, 4-label alphabet incl. *, classes IN/CH/HS, both glue policies, case variants, duplicates, TTL/class mismatches, out-of-zone owners, invalid RDATA); thorough: exhaustive <=4 records (12 950 zones) + 1500 random zones",
        ],
    },
    "C20": {
        "groups": ["zone"],
        "design_ref": "§6 C06 zone lookups · C20 zone store · C21 validation · C22 catalog",
        "strict_err": True,
        "technique": "Lean 4 proof: add succeeds ↔ owner/class/TTL conditions, rejected add leaves the tree unchanged, abstraction to the flat de-duplicated record list commutes with add, iteration is a permutation of the specified nodes/RRsets; correspondence on add sequences with iteration after every prefix",
        "assumptions": [
            "names are case-folded label lists: the model works on lower-cased labels (Label Eq/Hash are ASCII-case-insensitive, src/name/label.rs); the harness sends mixed-case names to the real code and lower-cases every name it returns before comparing",
            "Rdata::equals is a parameter `eqv` of model, spec and theorems (no property of it is needed); the driver instantiates it with a transcription of src/rr/rdata/{mod,std13,helpers}.rs for the generated types A (IN and CH), NS, CNAME, SOA, MX, TXT, AAAA and octet equality for type 99 (MINFO and SRV are not generated)",
            "RrsetList's binary_search_by_key on the Vec sorted by rr_type is modelled as a linear scan; equivalent on strictly sorted lists, and sortedness is a proved invariant of add (rrsetsAdd_sorted)",
        ],
        "evidence_notes": [
            "strict_err: the three add failures (NotInZone, ClassMismatch, TtlMismatch) are named by the property and compared verbatim inside the session result (`e:<Variant>`)",
            "every session applies failed adds too and keeps querying/iterating afterwards, so a rejected add that changed anything observable would differ from the specification's unchanged flat list",
        ],
    },
    "C21": {
        "groups": ["zone"],
        "design_ref": "§6 C06 zone lookups · C20 zone store · C21 validation · C22 catalog",
        "technique": "Lean 4 proof: validate (as a set) = issues of a reference checker stated as a predicate over the flat record list; severity split extracted from ValidationIssue::is_error (tools/extract_validation.py); correspondence on random and exhaustive zones under both glue policies and classes IN/CH/HS",
        "assumptions": [
            "names are case-folded label lists: the model works on lower-cased labels (Label Eq/Hash are ASCII-case-insensitive, src/name/label.rs); the harness sends mixed-case names to the real code and lower-cases every name it returns before comparing",
            "Rdata::equals is a parameter `eqv` of model, spec and theorems (no property of it is needed); the driver instantiates it with a transcription of src/rr/rdata/{mod,std13,helpers}.rs for the generated types A (IN and CH), NS, CNAME, SOA, MX, TXT, AAAA and octet equality for type 99 (MINFO and SRV are not generated)",
            "RrsetList's binary_search_by_key on the Vec sorted by rr_type is modelled as a linear scan; equivalent on strictly sorted lists, and sortedness is a proved invariant of add (rrsetsAdd_sorted)",
        ],
        "evidence_notes": [
            "interpretation: every NS RRset below the apex is checked as a delegation, including those occluded by a higher cut (the code's documented TODO behaviour); address checks apply in classes IN and CH only (class_has_addrs, extracted)",
            "name extraction from NS/MX RDATA is a parameter of model and spec in the theorems; the driver uses the model of Name::try_from_uncompressed_all on the model side and the independent RFC 1035 decoder of QV.Spec.NameWire on the spec side",
            "issues are compared as sorted, de-duplicated sets with their E/W flag taken from the real is_error(); Err(InvalidRdata) is compared as `V!InvalidRdata`",
        ],
    },
}

TRUSTED_BASE = [
    "Lean 4.33.0 kernel (leanchecker re-check in the thorough tier)",
    "axioms allowed: propext, Classical.choice, Quot.sound (audited per theorem with #print axioms); no sorry/admit/native_decide/bv_decide/own axioms",
    "QV/Spec/*: that the specification says what the property says (DESIGN.md §6 records every interpretation)",
    "correspondence check (harness/ + Lean driver + canonicaliser): differential testing that the hand-written model mirrors /repo's current source; the extractor (tools/extract.py) ties constants and tables",
    "rustc/cargo dev profile (overflow checks on); std, arrayvec, hashbrown, hmac/sha crates as used by quandary",
]
