"""Per-property configuration of the orchestrator (bin/check).

groups      harness generator groups whose cases decide the property (qvh gen <group> …)
module      Lean module holding the property's theorems (QV.Properties.<id> by default)
features    cargo features of /repo the harness needs for this property
strict_err  compare error *variants* between implementation and model for the verdict
            (only where the property names the error; otherwise informational)
design_ref  DESIGN.md section
"""

PROPS = {
    "C26": {
        "groups": ["rrl"],
        "features": ["verif_hooks"],
        "design_ref": "§6 C26–C28",
        "technique": "Lean 4 proof: process_response (explicit time, explicit RandomState) refines an eager token bucket per stream for every time-stamped history and all valid configurations (invariant count+tokens=cap, last_refill=t₀+m·1s); u64/u32 refill arithmetic = ℕ for all gaps; slip 0/1 and the shape of a slipped response; model tied to src/server/rrl.rs by whole-history correspondence through Server::handle_message with the verif_hooks time shift and bucket probe",
        "assumptions": [
            "C26: hash-table hypotheses of the history theorems are explicit: NoBucketCollision (documented: a colliding entry is forgotten), NoInitialKey (a response whose key equals the dummy key the table is initialised with), HashInjectiveOn (the key stores a 32-bit hash of the QNAME); histories outside them are still compared with the model (which takes bucket index and hash as recorded inputs) but not with the spec",
            "C26: time is the monotonic clock read under the bucket lock; the correspondence run moves time only by the whole-second hook and keeps each history below 0.4 s of real time (longer ones are discarded and counted: op rrl-discarded-<n>)",
            "C26: what the handler produced before RRL (response or none, extended RCODE, OPT, wildcard source of synthesis) is a recorded input taken from a second Server without rate limiting",
        ],
        "evidence_notes": [
            "outcome_histogram key `rrl-discarded-<n> ok` = number of histories thrown away because the real clock advanced more than 0.4 s during the history (timing can therefore never flip a decision)",
            "generators: gaps 0..10^9 s, boundary gaps 2^32/rate ± 1, 2^32 ± 1, > 2^33; rates 1..10^6 and 42 949 672/3; windows 1..100; slips 0/1/2/5; table sizes 1, 2, 3, 17, 1009, 65537 (tiny ones force bucket collisions: model only); fixed regression histories for D10 first",
        ],
    },
    "C27": {
        "groups": ["rrlkey"],
        "features": ["verif_hooks"],
        "design_ref": "§6 C26–C28",
        "technique": "Lean 4 proof: key equality ↔ (family after IPv4-mapped canonicalisation, masked destination, category, QNAME hash for NOERROR only); masked equality ↔ first len bits agree for every prefix length 0..32 / 0..64 (BitVec proof, not a sample); with HashInjectiveOn: same key ↔ SameStream of the spec; TCP / non-QUERY / unanswered requests never touch the table; decisions follow streams (C26_history); correspondence: request pairs and triples under a limit of one response per stream",
        "assumptions": [
            "C27: `exactly when` needs HashInjectiveOn for the names involved (the table stores a 32-bit hash); same stream ⇒ same key is unconditional (C27_same_stream_same_key)",
            "C27: the RCODE and the wildcard source of synthesis of a response are recorded inputs (they are outputs of query processing, C05/C06)",
        ],
        "evidence_notes": [
            "generators: sources IPv4 / IPv6 / IPv4-mapped / ::a.b.c.d, second source with one bit flipped at positions len-2..len+1, 0, 31 (63, 64, 127 for IPv6); prefix lengths incl. 0, 1, 31, 32, 63, 64 and random; QNAME case variants, wildcard siblings, the wildcard itself; NOERROR/NXDOMAIN/REFUSED/SERVFAIL/NOTIMP/FORMERR/BADVERS; TCP; opcodes 1,2,4,5,6,15; QDCOUNT=2 and QR=1 (no response)",
        ],
    },
    "C28": {
        "groups": ["rrlburst"],
        "features": ["verif_hooks"],
        "design_ref": "§6 C26–C28",
        "technique": "Lean 4 proof over a transition system (n threads × lock/read/write/unlock on the shared entry, body = the model's critical section): for every interleaving exactly min(n, cap−used) responses are sent, the counter ends at min(used+n, cap), all n accounted for; holds in every reachable state; mutual exclusion and deadlock freedom are invariants; a split-lock variant is refuted in the same system. Stress op: 1–16 OS threads behind a barrier on one stream within < 0.5 s, counts compared with model and spec",
        "level_text": "Theorems about a Lean 4 transition-system model of the locking discipline in Rrl::process_response, for all interleavings of the modelled steps and any number of threads. PARTIAL with respect to the real runtime: mutual exclusion and memory ordering of std::sync::Mutex, OS preemption granularity and the absence of thread death inside the critical section are assumed, and only exercised by a multi-threaded stress run (counts compared), not proved.",
        "assumptions": [
            "C28: std::sync::Mutex provides mutual exclusion and makes the previous holder's writes visible; threads are preempted only in ways equivalent to an interleaving of the modelled lock/read/write/unlock steps; no panic inside the critical section (C26_never_panics) so no poisoning",
            "C28: `within one second` = all clock readings of the burst lie within one second of each other and of the bucket's last refill (hypothesis WithinOneSecond/Good); the stress op enforces it by discarding bursts whose wall-clock time exceeds 0.5 s",
            "C28: the stress run samples schedules chosen by the OS; it does not enumerate them",
        ],
        "evidence_notes": [
            "burst <rates> <window> <slip> <size> <pre> <threads> <per> <yield>: result = counts only (sent, slipped, dropped)",
        ],
    },
    "C14": {
        "groups": ["wire"],
        "design_ref": "§6 C14",
        "technique": "Lean 4 proof: parser ↔ inductive RFC 1035 §4.1.4 relation (sound+complete, no panic, termination); model tied to src/name/wire.rs by differential correspondence incl. exhaustive ≤5-octet buffers",
    },
}

TRUSTED_BASE = [
    "Lean 4.33.0 kernel (leanchecker re-check in the thorough tier)",
    "axioms allowed: propext, Classical.choice, Quot.sound (audited per theorem with #print axioms); no sorry/admit/native_decide/bv_decide/own axioms",
    "QV/Spec/*: that the specification says what the property says (DESIGN.md §6 records every interpretation)",
    "correspondence check (harness/ + Lean driver + canonicaliser): differential testing that the hand-written model mirrors /repo's current source; the extractor (tools/extract.py) ties constants and tables",
    "rustc/cargo dev profile (overflow checks on); std, arrayvec, hashbrown, hmac/sha crates as used by quandary",
]
