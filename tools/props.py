"""Per-property configuration of the orchestrator (bin/check).

groups      harness generator groups whose cases decide the property (qvh gen <group> …)
module      Lean module holding the property's theorems (QV.Properties.<id> by default)
features    cargo features of /repo the harness needs for this property
strict_err  compare error *variants* between implementation and model for the verdict
            (only where the property names the error; otherwise informational)
design_ref  DESIGN.md section
"""

PROPS = {
    "C14": {
        "groups": ["wire"],
        "design_ref": "§6 C14",
        "technique": "Lean 4 proof: parser ↔ inductive RFC 1035 §4.1.4 relation (sound+complete, no panic, termination); model tied to src/name/wire.rs by differential correspondence incl. exhaustive ≤5-octet buffers",
    },
    "C32": {
        "groups": ["snapshot"],
        "design_ref": "§6 C32",
        "technique": "Lean 4 proof: nondeterministic transition system (any number of handlers and swappers, every interleaving) with an inductive invariant: each response = f c k req for ONE catalog and ONE key set, each current at some instant of the handling window (linearizable reads); handlers started after set_catalog g returned use g. Structural premise 'one read per message' extracted from src/server/*.rs on every run; generation-marker stress with OS threads validated against the model's admissible set",
        "level_text": "Theorems (all interleavings, unbounded handlers/swappers) about a Lean 4 model of the RwLock<Arc<_>> snapshot discipline; partial with respect to the real runtime: std::sync::RwLock atomicity, Arc immutability and the memory model are assumed, and the code is tied to the model by (a) the extractor's read counts (a second read of the catalog/key cell breaks the build of C32_structural_premise) and (b) a stress run on real OS threads whose every response is checked against the model's admissible set.",
        "assumptions": [
            "std::sync::RwLock: a read returns the value of the latest completed write (atomic cell); Arc<C> contents are immutable (no interior mutability in Catalog/TsigKeyMap)",
            "the response is a function of (catalog snapshot, key-set snapshot, request, clock): handle_message consults no other mutable server state that a swap changes (checked structurally: self.catalog()/self.tsig_keys() occur once each; RRL state is outside this property)",
            "stress windows: SeqCst atomics published before/after each swap give a superset of the generations current during a request; OS scheduling decides which interleavings are exercised (measured, not exhaustive)",
        ],
        "evidence_notes": [
            "snapobs cases: one per response observed under concurrent swaps (impl column is always ok: the observation is the recorded input); model column = admissible under some interleaving (C32_window_admits), spec column = single snapshot & not stale",
        ],
    },
}

TRUSTED_BASE = [
    "Lean 4.33.0 kernel (leanchecker re-check in the thorough tier)",
    "axioms allowed: propext, Classical.choice, Quot.sound (audited per theorem with #print axioms); no sorry/admit/native_decide/bv_decide/own axioms",
    "QV/Spec/*: that the specification says what the property says (DESIGN.md §6 records every interpretation)",
    "correspondence check (harness/ + Lean driver + canonicaliser): differential testing that the hand-written model mirrors /repo's current source; the extractor (tools/extract.py) ties constants and tables",
    "rustc/cargo dev profile (overflow checks on); std, arrayvec, hashbrown, hmac/sha crates as used by quandary",
]
