"""Per-property configuration of the orchestrator (bin/check).

groups      harness generator groups whose cases decide the property (qvh gen <group> …)
module      Lean module holding the property's theorems (QV.Properties.<id> by default)
features    cargo features of /repo the harness needs for this property
strict_err  compare error *variants* between implementation and model for the verdict
            (only where the property names the error; otherwise informational)
design_ref  DESIGN.md section
"""

PROPS = {
    "C14": {
        "groups": ["wire"],
        "design_ref": "§6 C14",
        "technique": "Lean 4 proof: parser ↔ inductive RFC 1035 §4.1.4 relation (sound+complete, no panic, termination); model tied to src/name/wire.rs by differential correspondence incl. exhaustive ≤5-octet buffers",
    },
    "C29": {
        "groups": ["pool"],
        "harness_features": ["pool"],
        "design_ref": "§6 C29",
        "technique": "Lean 4 proof: src/thread.rs as a nondeterministic transition system at lock granularity (2 mutexes, 3 condvars with waiter sets / nondeterministic notify_one / spurious wake-ups / timeouts firing at any moment, per-thread program counters for arbitrarily many threads, tasks tracked by id); inductive invariants over ALL reachable states: available = registered workers, every queued task covered by an awake registered worker (the invariant D11 broke; pre-fix relation proved to strand a task), thread_count = live group threads, mutual exclusion + lock order group→pool, each task in exactly one place and started at most once, thread_count = 0 ⇒ queue empty ∧ every accepted task done. Tied to the code by trace validation: the UNMODIFIED src/thread.rs (imports rewritten to a shim) runs under the shuttle scheduler (random, PCT, bounded DFS; timeouts fire at every scheduling point) and every logged execution must be a path of the model",
        "level_text": "Theorems about a Lean 4 model of ThreadGroup/ThreadPool for all interleavings and any number of threads and tasks (inductive invariants; no bounded exploration is presented as proof). Partial with respect to the real runtime: std::sync::Mutex/Condvar semantics, OS scheduling and real time are assumptions of the model; the model is tied to the current source on every run by executing the unmodified src/thread.rs under a controlled scheduler and validating each execution's lock-granularity log (with snapshots of the private records) as a path of the model, and by checking the property's end conditions on each execution. Deadlock-freedom is proved at the level of the mutexes (lock order, mutual exclusion) and of the wake-up protocol for queued tasks; full progress for all condition-variable waits is not yet a theorem (checked by the scheduler's deadlock detection on every explored execution).",
        "assumptions": [
            "std::sync::Mutex: mutual exclusion, no fairness assumed; Condvar: Mesa semantics, waiter sets, notify_one wakes exactly one waiter if there is one, spurious wake-ups possible, a timed-out waiter has left the waiter set before it re-acquires the mutex; timeouts eventually fire",
            "submitters, shutters and awaiters are threads outside the group; tasks terminate, do not panic and do not call into the pool; one pool per group; thread creation may fail (modelled) except during start_pool",
            "ThreadPool::shut_down is called at most once and not after/concurrently with ThreadGroup::shut_down (otherwise Slab::remove panics while the group mutex is held — observation outside this property, see report)",
            "trace validation runs the copied source under shuttle 0.9.3 with a condvar/Instant shim of the harness (harness/src/pool_shim.rs): real Condvar/OS timing is not exercised",
        ],
        "evidence_notes": [
            "each case is one execution of the real thread.rs under a recorded schedule (scenario + scheduler seed); impl column = re-execution reproduces the trace; model column = trace is a path of QV.Pool.next with matching record snapshots, notify calls and call results; spec column = end conditions of the property on the trace",
        ],
    },
    "C32": {
        "groups": ["snapshot"],
        "design_ref": "§6 C32",
        "technique": "Lean 4 proof: nondeterministic transition system (any number of handlers and swappers, every interleaving) with an inductive invariant: each response = f c k req for ONE catalog and ONE key set, each current at some instant of the handling window (linearizable reads); handlers started after set_catalog g returned use g. Structural premise 'one read per message' extracted from src/server/*.rs on every run; generation-marker stress with OS threads validated against the model's admissible set",
        "level_text": "Theorems (all interleavings, unbounded handlers/swappers) about a Lean 4 model of the RwLock<Arc<_>> snapshot discipline; partial with respect to the real runtime: std::sync::RwLock atomicity, Arc immutability and the memory model are assumed, and the code is tied to the model by (a) the extractor's read counts (a second read of the catalog/key cell breaks the build of C32_structural_premise) and (b) a stress run on real OS threads whose every response is checked against the model's admissible set.",
        "assumptions": [
            "std::sync::RwLock: a read returns the value of the latest completed write (atomic cell); Arc<C> contents are immutable (no interior mutability in Catalog/TsigKeyMap)",
            "the response is a function of (catalog snapshot, key-set snapshot, request, clock): handle_message consults no other mutable server state that a swap changes (checked structurally: self.catalog()/self.tsig_keys() occur once each; RRL state is outside this property)",
            "stress windows: SeqCst atomics published before/after each swap give a superset of the generations current during a request; OS scheduling decides which interleavings are exercised (measured, not exhaustive)",
        ],
        "evidence_notes": [
            "snapobs cases: one per response observed under concurrent swaps (impl column is always ok: the observation is the recorded input); model column = admissible under some interleaving (C32_window_admits), spec column = single snapshot & not stale",
        ],
    },
}

TRUSTED_BASE = [
    "Lean 4.33.0 kernel (leanchecker re-check in the thorough tier)",
    "axioms allowed: propext, Classical.choice, Quot.sound (audited per theorem with #print axioms); no sorry/admit/native_decide/bv_decide/own axioms",
    "QV/Spec/*: that the specification says what the property says (DESIGN.md §6 records every interpretation)",
    "correspondence check (harness/ + Lean driver + canonicaliser): differential testing that the hand-written model mirrors /repo's current source; the extractor (tools/extract.py) ties constants and tables",
    "rustc/cargo dev profile (overflow checks on); std, arrayvec, hashbrown, hmac/sha crates as used by quandary",
]
