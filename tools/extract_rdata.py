"""X plug-in — RDATA dispatch arms (C18, C19).

Reads the `match rr_type { … }` arms of `Rdata::equals`, `Rdata::validate`, `Rdata::read` and
`Rdata::components` in src/rr/rdata/mod.rs (pattern, optional `class == Class::X` guard, handler)
and the `types: &[…]` lists of the `components_as_*` / `Components::for_*` constructors, and writes
lean/QV/Generated/RdataDispatch.lean.  The model's dispatch (`QV.Rdata.lookup`) walks these tables,
so editing an arm in Rust changes the model and re-checks every theorem that depends on it.

An arm is `Type::A | Type::B … [if class == Class::C] => <expr>,`.  The handler recorded for an arm
is the *name* of the function the expression calls (last path segment; `self.`/`Self::`/`helpers::`
prefixes dropped), so purely syntactic rewrites of the call do not disturb the table:

  helpers::names_equal(&self.octets, &other.octets)        → names_equal
  self.equals_as_soa(other)                                → equals_as_soa
  with_decompression(Self::read_soa)                       → with_decompression:read_soa
  without_decompression(|_| Ok(()))                        → without_decompression:noop
  self.octets == other.octets                              → octets_eq        (default arm of equals)
  Ok(())                                                   → ok               (default arm of validate)
"""
import re


def _split_arms(body, item, mod):
    """split a match body into (pattern, expr) at top-level commas"""
    arms, depth, cur = [], 0, ""
    for ch in body:
        if ch in "([{":
            depth += 1
        elif ch in ")]}":
            depth -= 1
        if ch == "," and depth == 0:
            if cur.strip():
                arms.append(cur.strip())
            cur = ""
        else:
            cur += ch
    if cur.strip():
        arms.append(cur.strip())
    out = []
    for a in arms:
        if "=>" not in a:
            raise mod.ExtractError(f"{item}: arm without `=>`: {a[:60]!r}")
        pat, expr = a.split("=>", 1)
        out.append((" ".join(pat.split()), " ".join(expr.split())))
    return out


def _handler(expr, item, mod):
    e = expr.strip()
    if e == "self.octets == other.octets":
        return "octets_eq"
    if e == "Ok(())":
        return "ok"
    m = re.fullmatch(r"(with_decompression|without_decompression)\((.*)\)", e)
    if m:
        inner = m.group(2).strip()
        if re.fullmatch(r"\|_\|\s*Ok\(\(\)\)", inner):
            return m.group(1) + ":noop"
        mm = re.fullmatch(r"(?:[A-Za-z_][A-Za-z0-9_]*::)*([a-z_][a-z0-9_]*)", inner)
        if not mm:
            raise mod.ExtractError(f"{item}: handler not understood: {e!r}")
        return m.group(1) + ":" + mm.group(1)
    m = re.match(r"(?:self\.|(?:[A-Za-z_][A-Za-z0-9_]*::)+)?([a-z_][a-z0-9_]*)\s*\(", e)
    if not m:
        raise mod.ExtractError(f"{item}: handler not understood: {e!r}")
    return m.group(1)


def _arms(src, fn, tconst, cconst, mod):
    item = f"src/rr/rdata/mod.rs: Rdata::{fn}"
    blk = mod.block_after(src, r"\bpub\s+fn\s+" + fn + r"\s*[(<]", item)
    m = re.search(r"\bmatch\s+rr_type\s*\{", blk)
    if not m:
        raise mod.ExtractError(f"{item}: `match rr_type` not found")
    body = mod.block_after(blk[m.start():], r"\bmatch\s+rr_type\s*\{", item)
    rows, default = [], None
    for pat, expr in _split_arms(body, item, mod):
        h = _handler(expr, item, mod)
        if pat == "_":
            default = h
            continue
        if default is not None:
            raise mod.ExtractError(f"{item}: arm after the `_` arm")
        g = re.fullmatch(r"(.*?)\s+if\s+class\s*==\s*Class::([A-Z0-9_]+)", pat)
        guard = None
        if g:
            pat = g.group(1)
            if g.group(2) not in cconst:
                raise mod.ExtractError(f"{item}: unknown class constant {g.group(2)}")
            guard = cconst[g.group(2)]
        elif " if " in pat:
            raise mod.ExtractError(f"{item}: guard not understood: {pat!r}")
        tys = []
        for p in pat.split("|"):
            mm = re.fullmatch(r"\s*Type::([A-Z0-9_]+)\s*", p)
            if not mm or mm.group(1) not in tconst:
                raise mod.ExtractError(f"{item}: pattern not understood: {p!r}")
            tys.append(tconst[mm.group(1)])
        rows.append((tys, guard, h))
    if default is None:
        raise mod.ExtractError(f"{item}: no `_` arm")
    return rows, default


def _component_types(text, item, mod):
    m = re.search(r"types\s*:\s*&\[(.*?)\]", text, re.S)
    if not m:
        raise mod.ExtractError(f"{item}: `types: &[…]` not found")
    out = []
    for part in [p.strip() for p in m.group(1).split(",") if p.strip()]:
        mm = re.fullmatch(r"ComponentType::(CompressibleName|UncompressibleName|FixedLen\(\s*(\d+)\s*\))", part)
        if not mm:
            raise mod.ExtractError(f"{item}: component type not understood: {part!r}")
        if part.startswith("ComponentType::CompressibleName"):
            out.append(("C", 0))
        elif part.startswith("ComponentType::UncompressibleName"):
            out.append(("U", 0))
        else:
            out.append(("F", int(mm.group(2))))
    return out


def gen_rdata_dispatch(repo, mod):
    files = ["src/rr/rdata/mod.rs", "src/rr/rdata/std13.rs", "src/rr/rdata/srv.rs", "src/rr/rr_type.rs", "src/class.rs"]
    src = mod.strip_comments(mod.read(repo, files[0]))
    tconst = dict(mod.self_consts(mod.strip_comments(mod.read(repo, "src/rr/rr_type.rs")), "src/rr/rr_type.rs", "Type"))
    cconst = dict(mod.self_consts(mod.strip_comments(mod.read(repo, "src/class.rs")), "src/class.rs", "Class"))
    out = mod.gen_header("RDATA dispatch: match arms of Rdata::{equals,validate,read,components}; component type lists", files)
    out += "/- an arm: (values of the `Type::X` alternatives, value of the `class == Class::Y` guard if any, handler) -/\n\n"
    summary = {}
    comp_handlers = set()
    for fn in ["equals", "validate", "read", "components"]:
        rows, default = _arms(src, fn, tconst, cconst, mod)
        nm = "rdata" + fn.capitalize()
        out += f"/-- `src/rr/rdata/mod.rs`: `Rdata::{fn}`, arms in source order -/\n"
        out += f"def {nm}Arms : List (List Nat × Option Nat × String) :=\n  ["
        out += ",\n   ".join(
            "([" + ", ".join(str(t) for t in tys) + "], " + ("none" if g is None else f"some {g}") + ", " + mod.lean_str(h) + ")"
            for tys, g, h in rows) + "]\n"
        out += f"/-- the `_ =>` arm -/\ndef {nm}Default : String := {mod.lean_str(default)}\n\n"
        summary[fn] = len(rows)
        if fn == "components":
            comp_handlers = {h for _, _, h in rows} | {default}
    # component type lists of every constructor the components dispatch can call
    texts = {}
    for rel in files[:3]:
        s = mod.strip_comments(mod.read(repo, rel))
        for m in re.finditer(r"\bfn\s+((?:components_as|for)_[a-z0-9_]+)\s*[(<]", s):
            texts[m.group(1)] = mod.block_after(s[m.start():], r"\bfn\s+" + m.group(1) + r"\s*[(<]", f"{rel}: fn {m.group(1)}")
    rows = []
    for h in sorted(comp_handlers):
        if h not in texts:
            raise mod.ExtractError(f"components handler {h}: function not found")
        rows.append((h, _component_types(texts[h], f"fn {h}", mod)))
    out += "/-- `types: &[…]` of each `Components` constructor: (\"C\",0) compressible name, (\"U\",0) uncompressible\n"
    out += "    name, (\"F\",n) `FixedLen(n)` -/\n"
    out += "def rdataComponentTypes : List (String × List (String × Nat)) :=\n  ["
    out += ",\n   ".join("(" + mod.lean_str(h) + ", [" + ", ".join(f"({mod.lean_str(k)}, {n})" for k, n in tys) + "])" for h, tys in rows)
    out += "]\n\nend QV.Gen\n"
    summary["component_constructors"] = len(rows)
    return out, summary


def register(extra, mod):
    extra.append(("RdataDispatch.lean", lambda repo: gen_rdata_dispatch(repo, mod)))
