"""Extractor plug-in for C31 (DESIGN.md §6 C31): the structural premise "the daemon's signal loop
threads the served catalog through its reloads", read off src/bin/quandaryd/run.rs.

The correspondence group `reload` runs the real `zones::load` / `zones::reload` in-process and
threads the catalog itself; what `run.rs` does with the catalog between two SIGHUPs is read here:

  try_running:
      let mut V = Arc::new(zones::load(config.zones));       -- the baseline variable V
      server.set_catalog(V.clone());                         -- start-up installs it
      …
      SIGHUP => { … match reload_zones_and_keys(&reload_source, &server, &V) {
                        Ok(N) => V = N,                      -- the loop threads the new catalog
                        Err(e) => { … } } }
  reload_zones_and_keys(reload_source, server, P):
      let C = Arc::new(zones::reload(zone_configs, P));      -- the baseline argument is P
      server.set_catalog(C.clone());                         -- a successful reload installs C
      Ok(C)                                                  -- and returns that same C

Emits lean/QV/Generated/Reload.lean with four Booleans:

  reloadStartupInstallsCatalog  `server.set_catalog(V.clone())` / `(V)` follows the start-up load
  reloadLoopThreadsCatalog      V is declared `let mut`, and the `Ok(N)` arm of the SIGHUP match
                                assigns `V = N` where N is the value returned by
                                `reload_zones_and_keys` (which returns the catalog it built)
  reloadInstallsCatalog         `server.set_catalog(<the new catalog>)` is executed on the success
                                path: inside `reload_zones_and_keys` before its `Ok(C)`, or in the
                                `Ok(N)` arm
  reloadBaselineIsCurrent       the SIGHUP arm passes `&V` as the catalog argument and
                                `reload_zones_and_keys` passes that parameter to `zones::reload`

`QV.C31.C31_structural_premise` requires all four to be `true`. Shapes that are not understood
(no SIGHUP arm, no call of `reload_zones_and_keys`, several candidate variables, an `Ok` arm that
is neither an assignment nor a `set_catalog` call nor a block of such statements, …) make the
extraction fail loudly rather than guess.
"""
import re

REL = "src/bin/quandaryd/run.rs"
ID = r"[A-Za-z_][A-Za-z0-9_]*"


def _split_args(s):
    """split a Rust argument list at top-level commas"""
    out, depth, cur = [], 0, ""
    for c in s:
        if c in "([{<":
            depth += 1
        elif c in ")]}>":
            depth -= 1
        if c == "," and depth == 0:
            out.append(cur.strip())
            cur = ""
        else:
            cur += c
    if cur.strip():
        out.append(cur.strip())
    return out


def _call_args(mod, text, callee_re, item):
    """argument list of the single call matching callee_re in text"""
    ms = list(re.finditer(callee_re + r"\s*\(", text))
    if len(ms) != 1:
        raise mod.ExtractError(f"{REL}: {item}: expected exactly one call, found {len(ms)}")
    i = ms[0].end()
    depth, j = 1, i
    while j < len(text) and depth:
        if text[j] == "(":
            depth += 1
        elif text[j] == ")":
            depth -= 1
        j += 1
    if depth:
        raise mod.ExtractError(f"{REL}: {item}: unbalanced parentheses")
    return _split_args(text[i:j - 1]), ms[0].start(), j


def _ok_arm(mod, match_body):
    """(bound name, list of statements) of the `Ok(name) => …` arm of a match body"""
    m = re.search(r"\bOk\s*\(\s*(" + ID + r")\s*\)\s*=>\s*", match_body)
    if not m:
        raise mod.ExtractError(f"{REL}: SIGHUP arm: no `Ok(<name>) =>` arm in the match on reload_zones_and_keys")
    rest = match_body[m.end():]
    if rest.lstrip().startswith("{"):
        body = mod.block_after(rest, r"\{", f"{REL}: Ok arm block")
        stmts = [s.strip() for s in body.split(";") if s.strip()]
    else:
        # a single expression up to the top-level comma that ends the arm
        depth, j = 0, 0
        while j < len(rest):
            c = rest[j]
            if c in "([{":
                depth += 1
            elif c in ")]}":
                if depth == 0:
                    break
                depth -= 1
            elif c == "," and depth == 0:
                break
            j += 1
        stmts = [rest[:j].strip()]
    return m.group(1), stmts


def gen_reload(mod):
    def gen(repo):
        src = mod.strip_comments(mod.read(repo, REL))
        i = src.find("#[cfg(test)]")
        if i >= 0:
            src = src[:i]
        tr = mod.block_after(src, r"\bfn\s+try_running\s*\(", f"{REL}: fn try_running")
        rz_sig = re.search(r"\bfn\s+reload_zones_and_keys\s*\(([^)]*)\)", src, re.S)
        if not rz_sig:
            raise mod.ExtractError(f"{REL}: fn reload_zones_and_keys not found")
        rz = mod.block_after(src, r"\bfn\s+reload_zones_and_keys\s*\(", f"{REL}: fn reload_zones_and_keys")

        # --- start-up: the baseline variable
        ms = list(re.finditer(r"\blet\s+(mut\s+)?(" + ID + r")\s*=\s*Arc::new\s*\(\s*zones::load\s*\(", tr))
        if len(ms) != 1:
            raise mod.ExtractError(f"{REL}: try_running: expected exactly one `let [mut] V = Arc::new(zones::load(…`, found {len(ms)}")
        var, var_mut, load_end = ms[0].group(2), bool(ms[0].group(1)), ms[0].end()
        if len(re.findall(r"\blet\s+(?:mut\s+)?" + var + r"\b", tr)) != 1:
            raise mod.ExtractError(f"{REL}: try_running: the baseline variable `{var}` is declared more than once (shadowing)")

        # --- the SIGHUP arm
        if len(re.findall(r"\bSIGHUP\s*=>", tr)) != 1:
            raise mod.ExtractError(f"{REL}: try_running: expected exactly one `SIGHUP =>` arm")
        arm = mod.block_after(tr, r"\bSIGHUP\s*=>\s*\{", f"{REL}: SIGHUP arm")
        if len(re.findall(r"\breload_zones_and_keys\s*\(", tr)) != 1:
            raise mod.ExtractError(f"{REL}: try_running: reload_zones_and_keys must be called exactly once (in the SIGHUP arm)")
        args, _, _ = _call_args(mod, arm, r"\bmatch\s+reload_zones_and_keys", "SIGHUP arm: `match reload_zones_and_keys(…)`")
        if len(args) != 3:
            raise mod.ExtractError(f"{REL}: SIGHUP arm: reload_zones_and_keys takes {len(args)} arguments, 3 expected")
        match_body = mod.block_after(arm, r"\bmatch\s+reload_zones_and_keys\s*\(", f"{REL}: SIGHUP arm: match body")
        ok_name, ok_stmts = _ok_arm(mod, match_body)

        # --- reload_zones_and_keys
        params = [p.split(":")[0].strip() for p in _split_args(rz_sig.group(1))]
        if len(params) != 3:
            raise mod.ExtractError(f"{REL}: reload_zones_and_keys has {len(params)} parameters, 3 expected")
        cat_param = params[2]
        rargs, _, _ = _call_args(mod, rz, r"\bzones::reload", "reload_zones_and_keys: `zones::reload(…)`")
        if len(rargs) != 2:
            raise mod.ExtractError(f"{REL}: zones::reload takes {len(rargs)} arguments, 2 expected")
        m = re.search(r"\blet\s+(" + ID + r")\s*=\s*Arc::new\s*\(\s*zones::reload\s*\(", rz)
        if not m:
            raise mod.ExtractError(f"{REL}: reload_zones_and_keys: `let C = Arc::new(zones::reload(…` not found")
        newcat = m.group(1)
        tail = re.search(r"\bOk\s*\(\s*(" + ID + r")\s*\)\s*$", rz.strip())
        if not tail:
            raise mod.ExtractError(f"{REL}: reload_zones_and_keys does not end in `Ok(<name>)`")
        returns_new = tail.group(1) == newcat
        set_in_fn = re.search(r"\bserver\s*\.\s*set_catalog\s*\(\s*" + newcat + r"\s*(?:\.\s*clone\s*\(\s*\))?\s*\)\s*;", rz)
        # any `?`/`return` after the install would still be on the success path only if before Ok: the
        # install must precede the final Ok and follow the construction
        installs_in_fn = bool(set_in_fn and returns_new and set_in_fn.start() > m.start())

        # --- classify the Ok arm's statements
        assign_re = re.compile(r"^(" + ID + r")\s*=\s*(" + ID + r")(?:\s*\.\s*clone\s*\(\s*\))?$")
        setcat_re = re.compile(r"^server\s*\.\s*set_catalog\s*\(\s*(" + ID + r")(?:\s*\.\s*clone\s*\(\s*\))?\s*\)$")
        threads_stmt = installs_in_arm = False
        for s in ok_stmts:
            a, c = assign_re.match(s), setcat_re.match(s)
            if a:
                if a.group(1) == var and a.group(2) == ok_name:
                    threads_stmt = True
                else:
                    raise mod.ExtractError(f"{REL}: SIGHUP arm: Ok arm assigns `{s}`; not understood")
            elif c:
                if c.group(1) == ok_name:
                    installs_in_arm = True
                else:
                    raise mod.ExtractError(f"{REL}: SIGHUP arm: Ok arm installs `{c.group(1)}`, not the returned catalog `{ok_name}`")
            elif re.match(r"^(?:info|debug|warn|error|trace)!\s*\(", s):
                pass
            else:
                raise mod.ExtractError(f"{REL}: SIGHUP arm: statement `{s[:60]}` in the Ok arm is not understood")

        # no other assignment to the baseline variable anywhere in try_running
        n_assign = len(re.findall(r"(?<![\w.])" + var + r"\s*=(?![=>])", tr))
        if n_assign != 1 + (1 if threads_stmt else 0):
            raise mod.ExtractError(f"{REL}: try_running: `{var}` is assigned {n_assign} times; only its declaration and the Ok arm are understood")

        startup_installs = bool(re.search(
            r"\bserver\s*\.\s*set_catalog\s*\(\s*" + var + r"\s*(?:\.\s*clone\s*\(\s*\))?\s*\)\s*;", tr[load_end:]))
        threads = var_mut and threads_stmt and returns_new
        installs = installs_in_fn or (installs_in_arm and returns_new)
        baseline = args[2].replace(" ", "") == "&" + var and rargs[1].replace(" ", "") == cat_param

        def b(x):
            return "true" if x else "false"

        out = mod.gen_header("C31: how the signal loop of the daemon threads and installs the reloaded catalog", [REL])
        out += ("/-- `server.set_catalog(V.clone())` follows `let mut V = Arc::new(zones::load(…))` in `try_running` -/\n"
                f"def reloadStartupInstallsCatalog : Bool := {b(startup_installs)}\n")
        out += ("/-- the `Ok(N)` arm of the SIGHUP match assigns the catalog returned by `reload_zones_and_keys`\n"
                "    to the (mutable) variable that is passed to the next call -/\n"
                f"def reloadLoopThreadsCatalog : Bool := {b(threads)}\n")
        out += ("/-- `server.set_catalog(<the new catalog>)` is executed on the success path of a reload -/\n"
                f"def reloadInstallsCatalog : Bool := {b(installs)}\n")
        out += ("/-- the `catalog` argument of `zones::reload` is that threaded variable -/\n"
                f"def reloadBaselineIsCurrent : Bool := {b(baseline)}\n")
        out += "\nend QV.Gen\n"
        return out, {"variable": var, "mutable": var_mut, "ok_arm": ok_stmts, "startup_installs": startup_installs,
                     "threads": threads, "installs": installs, "installs_where": "fn" if installs_in_fn else ("arm" if installs_in_arm else "nowhere"),
                     "baseline_is_current": baseline}
    return gen


def register(extra, mod):
    extra.append(("Reload.lean", gen_reload(mod)))
