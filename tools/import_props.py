#!/usr/bin/env python3
"""import_props.py <git-ref> — copy the PROPS entries of another branch's tools/props.py (old
single-file format) or tools/props.d/*.json into tools/props.d/ of the working tree."""
import json, os, subprocess, sys
ref = sys.argv[1]
here = os.path.dirname(os.path.abspath(__file__))
root = os.path.dirname(here)
names = subprocess.run(["git", "-C", root, "ls-tree", "--name-only", ref, "tools/props.d/"], capture_output=True, text=True).stdout.split()
only = set(sys.argv[2:])
n = 0
for nm in names:
    pid = os.path.basename(nm)[:-5]
    if only and pid not in only: continue
    txt = subprocess.run(["git", "-C", root, "show", f"{ref}:{nm}"], capture_output=True, text=True).stdout
    open(os.path.join(here, "props.d", pid + ".json"), "w").write(txt); n += 1
src = subprocess.run(["git", "-C", root, "show", f"{ref}:tools/props.py"], capture_output=True, text=True).stdout
if "PROPS = {" in src and "props.d" not in src:
    g = {}
    exec(compile(src, "props.py", "exec"), g)
    for pid, v in g["PROPS"].items():
        if only and pid not in only: continue
        json.dump(v, open(os.path.join(here, "props.d", pid + ".json"), "w"), indent=1, ensure_ascii=False); n += 1
print(f"imported {n} entries from {ref}")
