"""X plug-in for C06/C20/C21: items of the zone store / zone validation that the Lean model takes
from the source (tools/extract.py picks this file up automatically).

  src/db/zone/validation.rs   enum ValidationIssue (variants, in order, with/without payload)
                              ValidationIssue::is_error  (`!matches!(*self, A(_) | B(_))`)
                              class_has_addrs            (`class == Class::X || class == Class::Y`)
  src/db/error.rs             enum Error (variants)
  src/rr/rr_type.rs           Type::{A, NS, CNAME, SOA, MX, AAAA}
  src/class.rs                Class::{IN, CH}

Output: lean/QV/Generated/Validation.lean
"""
import re


def register(extra, mod):
    def gen(repo):
        rel = "src/db/zone/validation.rs"
        src = mod.strip_comments(mod.read(repo, rel))
        # --- enum ValidationIssue
        blk = mod.block_after(src, r"\bpub\s+enum\s+ValidationIssue\b[^{]*\{", f"{rel}: enum ValidationIssue")
        variants = []
        for part in blk.split(","):
            part = part.strip()
            if not part:
                continue
            m = re.fullmatch(r"([A-Z][A-Za-z0-9]*)\s*(\((.*)\))?", part, re.S)
            if not m:
                raise mod.ExtractError(f"{rel}: enum ValidationIssue: variant not understood: {part!r}")
            variants.append((m.group(1), m.group(2) is not None))
        if not variants:
            raise mod.ExtractError(f"{rel}: enum ValidationIssue: no variants")
        names = [v for v, _ in variants]
        # --- is_error
        body = mod.block_after(src, r"\bpub\s+fn\s+is_error\s*\(\s*&self\s*\)\s*->\s*bool\s*\{", f"{rel}: ValidationIssue::is_error")
        m = re.fullmatch(r"\s*(!?)\s*matches!\(\s*\*?self\s*,\s*(.*?)\)\s*", body, re.S)
        if not m:
            raise mod.ExtractError(f"{rel}: ValidationIssue::is_error: body is not `[!]matches!(*self, …)`: {body.strip()[:80]!r}")
        negated = m.group(1) == "!"
        listed = []
        for alt in m.group(2).split("|"):
            a = re.fullmatch(r"\s*Self::([A-Z][A-Za-z0-9]*)\s*(\(\s*_\s*\))?\s*", alt)
            if not a or a.group(1) not in names:
                raise mod.ExtractError(f"{rel}: ValidationIssue::is_error: alternative not understood: {alt.strip()!r}")
            listed.append(a.group(1))
        errors = [n for n in names if (n in listed) != negated]
        warnings = [n for n in names if n not in errors]
        # --- class_has_addrs
        body = mod.block_after(src, r"\bfn\s+class_has_addrs\s*\(\s*class\s*:\s*Class\s*\)\s*->\s*bool\s*\{", f"{rel}: class_has_addrs")
        cls_src = mod.strip_comments(mod.read(repo, "src/class.rs"))
        cmap = dict(mod.self_consts(cls_src, "src/class.rs", "Class"))
        addr_classes = []
        for alt in body.split("||"):
            a = re.fullmatch(r"\s*class\s*==\s*Class::([A-Z0-9_]+)\s*", alt)
            if not a or a.group(1) not in cmap:
                raise mod.ExtractError(f"{rel}: class_has_addrs: disjunct not understood: {alt.strip()!r}")
            addr_classes.append(cmap[a.group(1)])
        # --- db::Error
        erel = "src/db/error.rs"
        esrc = mod.strip_comments(mod.read(repo, erel))
        eblk = mod.block_after(esrc, r"\bpub\s+enum\s+Error\s*\{", f"{erel}: enum Error")
        evars = [p.strip() for p in eblk.split(",") if p.strip()]
        for v in evars:
            if not re.fullmatch(r"[A-Z][A-Za-z0-9]*", v):
                raise mod.ExtractError(f"{erel}: enum Error: variant not understood: {v!r}")
        # --- type / class numbers
        tsrc = mod.strip_comments(mod.read(repo, "src/rr/rr_type.rs"))
        tmap = dict(mod.self_consts(tsrc, "src/rr/rr_type.rs", "Type"))
        out = mod.gen_header("zone store / zone validation: issue variants, severity split, address classes, RR type numbers",
                             [rel, erel, "src/rr/rr_type.rs", "src/class.rs"])
        for t in ["A", "NS", "CNAME", "SOA", "MX", "AAAA"]:
            if t not in tmap:
                raise mod.ExtractError(f"src/rr/rr_type.rs: Type::{t} not found")
            out += f"/-- `src/rr/rr_type.rs`: `Type::{t}` -/\ndef T_{t} : Nat := {tmap[t]}\n"
        for c in ["IN", "CH"]:
            if c not in cmap:
                raise mod.ExtractError(f"src/class.rs: Class::{c} not found")
            out += f"/-- `src/class.rs`: `Class::{c}` -/\ndef CLASS_{c} : Nat := {cmap[c]}\n"
        lst = lambda xs: "[" + ", ".join(mod.lean_str(x) for x in xs) + "]"  # noqa: E731
        out += f"\n/-- `{rel}`: variants of `enum ValidationIssue`, in source order -/\n"
        out += f"def validationVariants : List String := {lst(names)}\n"
        out += f"/-- `{rel}`: the variants carrying a name -/\n"
        out += f"def validationVariantsWithName : List String := {lst([n for n, p in variants if p])}\n"
        out += f"/-- `{rel}`: `ValidationIssue::is_error` is true exactly for these variants -/\n"
        out += f"def validationErrors : List String := {lst(errors)}\n"
        out += f"/-- `{rel}`: … and false (warning) for these -/\n"
        out += f"def validationWarnings : List String := {lst(warnings)}\n"
        out += f"/-- `{rel}`: `class_has_addrs` is true exactly for these class numbers -/\n"
        out += "def addrClasses : List Nat := [" + ", ".join(str(c) for c in addr_classes) + "]\n"
        out += f"/-- `{erel}`: variants of `db::Error` -/\n"
        out += f"def dbErrors : List String := {lst(evars)}\n"
        out += "\nend QV.Gen\n"
        return out, {"variants": len(names), "errors": len(errors), "warnings": warnings, "addr_classes": addr_classes}

    extra.append(("Validation.lean", gen))
