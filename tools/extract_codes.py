"""Extractor plug-in for C17: the parts of the code <-> text conversions that tools/extract.py's
table reader does not cover.

  * `impl FromStr for Type` / `Class`: scrutinee of the `match` (is the text normalised with
    `to_ascii_uppercase` before the `Caseless("…")` arms are tried, or not), and the RFC 3597 fallback arm
    `text.get(0..N).map_or(false, |prefix| prefix.eq_ignore_ascii_case("WORD"))`,
    `text[M..].parse::<u16>()`;
  * `impl FromStr for Qtype` / `Qclass`: scrutinee, and the fallback arm `_ => T::from_str(text).map(Into::into)`;
  * `impl TryFrom<u8> for Opcode`, `impl TryFrom<u8> for Rcode`, `impl TryFrom<ExtendedRcode> for Rcode`:
    the bound of `if value < N { Ok(Self(value)) } else { Err(..) }`.

Output: lean/QV/Generated/CodesShape.lean.  A reshaped item makes extraction fail loudly.
"""
import re


def register(extra, mod):
    def norm(s):
        return re.sub(r"\s+", "", s)

    def fromstr_block(repo, rel, ty):
        """normalised text of the impl block, and how the scrutinee of the mnemonic `match` is
        normalised: "to_ascii_uppercase" for `let upper = text.to_ascii_uppercase(); match
        Caseless(&upper) {`, "none" for `match Caseless(text) {` (a tuple-struct pattern compares
        the inner string exactly, so without normalisation the arms are case-sensitive)."""
        src = mod.strip_comments(mod.read(repo, rel))
        blk = norm(mod.block_after(src, r"\bimpl\s+FromStr\s+for\s+" + ty + r"\s*\{", f"{rel}: impl FromStr for {ty}"))
        if "letupper=text.to_ascii_uppercase();matchCaseless(&upper){" in blk:
            how = "to_ascii_uppercase"
        elif "matchCaseless(text){" in blk and "upper" not in blk:
            how = "none"
        else:
            raise mod.ExtractError(f"{rel}: FromStr for {ty}: scrutinee of the mnemonic match not understood")
        return blk, how

    def generic(repo, rel, ty):
        b, how = fromstr_block(repo, rel, ty)
        m = re.search(r'_=>\{iftext\.get\(0\.\.(\d+)\)\.map_or\(false,\|prefix\|prefix\.eq_ignore_ascii_case\("([^"]*)"\)\)'
                      r'\{text\[(\d+)\.\.\]\.parse::<u16>\(\)\.map\(Self::from\)\.or\(Err\("[^"]*"\)\)\}else\{Err\("[^"]*"\)\}\}', b)
        if not m:
            raise mod.ExtractError(f"{rel}: FromStr for {ty}: RFC 3597 fallback arm not understood")
        return int(m.group(1)), m.group(2), int(m.group(3)), how

    def delegate(repo, rel, ty):
        b, how = fromstr_block(repo, rel, ty)
        m = re.search(r"_=>([A-Za-z]+)::from_str\(text\)\.map\(Into::into\),?\}", b)
        if not m:
            raise mod.ExtractError(f"{rel}: FromStr for {ty}: delegating fallback arm not understood")
        return m.group(1), how

    def bound(repo, rel, header, field, item):
        src = mod.strip_comments(mod.read(repo, rel))
        blk = norm(mod.block_after(src, header, item))
        m = re.search(r"if" + re.escape(field) + r"<(\d+)\{Ok\(Self\(" + re.escape(field) + r"(?:asu8)?\)\)\}else\{Err\(", blk)
        if not m:
            raise mod.ExtractError(f"{item}: `if {field} < N {{ Ok(Self(..)) }} else {{ Err(..) }}` not found")
        return int(m.group(1))

    def gen(repo):
        out = mod.gen_header("shape of the code <-> text conversions (FromStr fallback arms, TryFrom bounds)",
                             ["src/class.rs", "src/message/opcode.rs", "src/message/question.rs",
                              "src/message/rcode.rs", "src/rr/rr_type.rs"])
        summary = {}
        for lname, rel, ty in [("type", "src/rr/rr_type.rs", "Type"), ("class", "src/class.rs", "Class")]:
            end, word, start, how = generic(repo, rel, ty)
            out += f"/-- `{rel}`: `impl FromStr for {ty}`, fallback arm: `text.get(0..{end})`, \n"
            out += f"    `prefix.eq_ignore_ascii_case({mod.lean_str(word)})`, `text[{start}..].parse::<u16>()` -/\n"
            out += f"def {lname}ParseGetEnd : Nat := {end}\n"
            out += f"def {lname}ParsePrefix : String := {mod.lean_str(word)}\n"
            out += f"def {lname}ParseSliceFrom : Nat := {start}\n"
            out += f"/-- how the text is normalised before the mnemonic arms are tried -/\n"
            out += f"def {lname}ParseNormalise : String := {mod.lean_str(how)}\n\n"
            summary[lname] = [end, word, start, how]
        for lname, rel, ty in [("qtype", "src/message/question.rs", "Qtype"), ("qclass", "src/message/question.rs", "Qclass")]:
            d, how = delegate(repo, rel, ty)
            out += f"/-- `{rel}`: `impl FromStr for {ty}`, fallback arm delegates to `{d}::from_str` -/\n"
            out += f"def {lname}ParseDelegate : String := {mod.lean_str(d)}\n"
            out += f"/-- how the text is normalised before the mnemonic arms are tried -/\n"
            out += f"def {lname}ParseNormalise : String := {mod.lean_str(how)}\n\n"
            summary[lname] = [d, how]
        for lname, rel, header, field in [
            ("opcodeTryFromBound", "src/message/opcode.rs", r"\bimpl\s+TryFrom<u8>\s+for\s+Opcode\s*\{", "value"),
            ("rcodeTryFromBound", "src/message/rcode.rs", r"\bimpl\s+TryFrom<u8>\s+for\s+Rcode\s*\{", "value"),
            ("rcodeFromExtBound", "src/message/rcode.rs", r"\bimpl\s+TryFrom<ExtendedRcode>\s+for\s+Rcode\s*\{", "value.0"),
        ]:
            n = bound(repo, rel, header, field, f"{rel}: {lname}")
            out += f"/-- `{rel}`: `if {field} < {n} {{ Ok(Self(..)) }} else {{ Err(..) }}` -/\ndef {lname} : Nat := {n}\n\n"
            summary[lname] = n
        out += "end QV.Gen\n"
        return out, summary

    extra.append(("CodesShape.lean", gen))
