"""Extractor plug-in for C32 (DESIGN.md §6 C32): the structural premise "one read of the catalog
and at most one of the key set per message", read off src/server/*.rs.

Emits lean/QV/Generated/Snapshot.lean with
  snapshotCatalogReads / snapshotKeyReads            occurrences of `self.catalog()` / `self.tsig_keys()`
                                                     inside handle_message + handle_message_with_context
  snapshotCatalogReadsElsewhere / …KeyReadsElsewhere other reads of the two cells anywhere in src/server
                                                     (method calls outside those two fns, direct field
                                                     access outside the four accessors), tests excluded
  snapshotKeyReadOnlyForLastRecord                   the `self.tsig_keys()` call sits in the TSIG branch
                                                     after `if index != arcount - 1 { … return; }`
  snapshotContextHoldsRef                            `struct Context` has the field `catalog: &'c C`
  snapshotAccessorsAtomic                            the accessor bodies are one locked read / write
`QV.C32.C32_structural_premise` requires 1, 1, 0, 0, true, true, true.
"""
import os
import re


def _fn_body(mod, src, name, rel):
    return mod.block_after(src, r"\bfn\s+" + name + r"\s*(?:<[^>]*>)?\s*\(", f"{rel}: fn {name}")


def _strip_tests(src):
    i = src.find("#[cfg(test)]")
    return src if i < 0 else src[:i]


def gen_snapshot(mod):
    def gen(repo):
        rel = "src/server/mod.rs"
        src = _strip_tests(mod.strip_comments(mod.read(repo, rel)))
        hm = _fn_body(mod, src, "handle_message", rel)
        hmc = _fn_body(mod, src, "handle_message_with_context", rel)
        cat_call = re.compile(r"\bself\s*\.\s*catalog\s*\(\s*\)")
        key_call = re.compile(r"\bself\s*\.\s*tsig_keys\s*\(\s*\)")
        cat_reads = len(cat_call.findall(hm)) + len(cat_call.findall(hmc))
        key_reads = len(key_call.findall(hm)) + len(key_call.findall(hmc))

        # accessors
        acc = {
            "catalog": r"^\s*self\s*\.\s*catalog\s*\.\s*read\s*\(\s*\)\s*\.\s*unwrap\s*\(\s*\)\s*\.\s*clone\s*\(\s*\)\s*$",
            "set_catalog": r"^\s*\*\s*self\s*\.\s*catalog\s*\.\s*write\s*\(\s*\)\s*\.\s*unwrap\s*\(\s*\)\s*=\s*catalog\s*;\s*$",
            "tsig_keys": r"^\s*self\s*\.\s*tsig_keys\s*\.\s*read\s*\(\s*\)\s*\.\s*unwrap\s*\(\s*\)\s*\.\s*clone\s*\(\s*\)\s*$",
            "set_tsig_keys": r"^\s*\*\s*self\s*\.\s*tsig_keys\s*\.\s*write\s*\(\s*\)\s*\.\s*unwrap\s*\(\s*\)\s*=\s*tsig_keys\s*;\s*$",
        }
        atomic = True
        acc_bodies = {}
        for name, pat in acc.items():
            body = mod.block_after(src, r"\bpub\s+fn\s+" + name + r"\s*\(", f"{rel}: fn {name}")
            acc_bodies[name] = body
            if not re.match(pat, body, re.S):
                atomic = False

        # reads elsewhere in src/server (any file): `.catalog()` / `.tsig_keys()` calls on a server
        # outside the two handler fns, and direct field access `self.catalog.` / `self.tsig_keys.`
        # outside the accessors
        any_cat_call = re.compile(r"\.\s*catalog\s*\(\s*\)")
        any_key_call = re.compile(r"\.\s*tsig_keys\s*\(\s*\)")
        field_cat = re.compile(r"\bself\s*\.\s*catalog\s*\.")
        field_key = re.compile(r"\bself\s*\.\s*tsig_keys\s*\.")
        cat_else = key_else = 0
        sdir = os.path.join(repo, "src", "server")
        try:
            files = sorted(f for f in os.listdir(sdir) if f.endswith(".rs"))
        except OSError as e:
            raise mod.ExtractError(f"src/server: cannot list ({e})")
        for fn in files:
            r = "src/server/" + fn
            text = _strip_tests(mod.strip_comments(mod.read(repo, r)))
            cat_else += len(any_cat_call.findall(text)) + len(field_cat.findall(text))
            key_else += len(any_key_call.findall(text)) + len(field_key.findall(text))
        # subtract what is accounted for: the calls inside the handler fns and the accessor bodies
        cat_else -= cat_reads + sum(len(field_cat.findall(acc_bodies[n])) for n in ("catalog", "set_catalog"))
        key_else -= key_reads + sum(len(field_key.findall(acc_bodies[n])) for n in ("tsig_keys", "set_tsig_keys"))
        if cat_else < 0 or key_else < 0:
            raise mod.ExtractError(f"{rel}: read accounting went negative ({cat_else}, {key_else})")

        # the key read is in the TSIG branch, after the last-record guard
        guarded = False
        m = re.search(r"peek_rr\s*\.\s*rr_type\s*\(\s*\)\s*==\s*Type::TSIG\s*\{", hmc)
        if m:
            branch = hmc[m.end():]
            g = re.search(r"if\s+index\s*!=\s*arcount\s*-\s*1\s*\{[^{}]*\breturn\s*;\s*\}", branch)
            k = key_call.search(branch)
            if g and k and g.end() < k.start() and not key_call.search(hmc[:m.end()]):
                guarded = True

        # Context stores a reference
        ctx = mod.block_after(src, r"\bstruct\s+Context\s*<[^>]*>\s*\{", f"{rel}: struct Context")
        holds_ref = bool(re.search(r"\bcatalog\s*:\s*&\s*'[a-z]+\s+C\s*,", ctx))

        def b(x):
            return "true" if x else "false"

        out = mod.gen_header("C32: reads of the catalog / key-set cells in the message-handling code", ["src/server/*.rs"])
        out += f"/-- `self.catalog()` calls inside `handle_message` + `handle_message_with_context` -/\ndef snapshotCatalogReads : Nat := {cat_reads}\n"
        out += f"/-- `self.tsig_keys()` calls inside the same two functions -/\ndef snapshotKeyReads : Nat := {key_reads}\n"
        out += f"/-- other reads of the catalog cell anywhere in src/server (tests excluded) -/\ndef snapshotCatalogReadsElsewhere : Nat := {cat_else}\n"
        out += f"/-- other reads of the key-set cell anywhere in src/server (tests excluded) -/\ndef snapshotKeyReadsElsewhere : Nat := {key_else}\n"
        out += f"/-- the key read follows `if index != arcount - 1 {{ … return; }}` in the TSIG branch -/\ndef snapshotKeyReadOnlyForLastRecord : Bool := {b(guarded)}\n"
        out += f"/-- `struct Context` has `catalog: &'c C` -/\ndef snapshotContextHoldsRef : Bool := {b(holds_ref)}\n"
        out += f"/-- `catalog`/`set_catalog`/`tsig_keys`/`set_tsig_keys` are one locked read / write each -/\ndef snapshotAccessorsAtomic : Bool := {b(atomic)}\n"
        out += "\nend QV.Gen\n"
        return out, {"catalog_reads": cat_reads, "key_reads": key_reads, "catalog_elsewhere": cat_else,
                     "key_elsewhere": key_else, "key_guarded": guarded, "context_ref": holds_ref, "accessors_atomic": atomic}
    return gen


def register(extra, mod):
    extra.append(("Snapshot.lean", gen_snapshot(mod)))
