"""X plug-in for response rate limiting (C26–C28): reads from src/server/rrl.rs

  * the defaults that `RrlParams::new` puts into the structure (slip, netmasks, size),
  * the arms of `impl From<ExtendedRcode> for Category` (which RCODEs get their own category),
  * the opcode that `subject_to_rrl` compares with,

and regenerates lean/QV/Generated/Rrl.lean.  The model (QV/Model/Rrl.lean) uses these values;
changing one of them in the source re-checks every theorem that depends on it.
"""
import re

REL = "src/server/rrl.rs"


def gen_rrl(mod):
    def fn(repo):
        src = mod.strip_comments(mod.read(repo, REL))
        # --- defaults in RrlParams::new --------------------------------------------------------
        blk = mod.block_after(src, r"\bpub\s+fn\s+new\s*\(\s*noerror_rate", f"{REL}: RrlParams::new")
        ok = re.search(r"Ok\(Self\s*\{(.*?)\}\)", blk, re.S)
        if not ok:
            raise mod.ExtractError(f"{REL}: RrlParams::new: `Ok(Self {{ … }})` not found")
        fields = dict(re.findall(r"\b([a-z0-9_]+)\s*:\s*([0-9a-fA-Fx_]+)\s*,", ok.group(1)))
        want = ["slip", "ipv4_netmask", "ipv6_netmask", "size"]
        for w in want:
            if w not in fields:
                raise mod.ExtractError(f"{REL}: RrlParams::new: default for `{w}` not found")
        vals = {w: mod.int_expr(fields[w], f"{REL}:RrlParams::new:{w}") for w in want}
        # --- Category arms ----------------------------------------------------------------------
        blk = mod.block_after(src, r"\bimpl\s+From<ExtendedRcode>\s+for\s+Category\s*\{", f"{REL}: impl From<ExtendedRcode> for Category")
        arms = re.findall(r"(ExtendedRcode::([A-Z0-9_]+)|_)\s*=>\s*Self::([A-Za-z]+)\s*,", blk)
        n_arrows = len(re.findall(r"=>", blk))
        if not arms or n_arrows != len(arms):
            raise mod.ExtractError(f"{REL}: Category::from: {n_arrows} arms but {len(arms)} understood")
        rsrc = mod.strip_comments(mod.read(repo, "src/message/rcode.rs"))
        ext = dict(mod.self_consts(rsrc, "src/message/rcode.rs", "ExtendedRcode"))
        cats = {"NoError": 0, "NxDomain": 1, "Error": 2}
        expr = None
        rows = []
        if arms[-1][0] != "_":
            raise mod.ExtractError(f"{REL}: Category::from: last arm is not the wildcard")
        for pat, name, cat in arms:
            if cat not in cats:
                raise mod.ExtractError(f"{REL}: Category::from: unknown category {cat}")
            if pat != "_" and name not in ext:
                raise mod.ExtractError(f"{REL}: Category::from: unknown ExtendedRcode::{name}")
            rows.append((pat if pat == "_" else name, cat))
        expr = str(cats[arms[-1][2]])
        for pat, name, cat in reversed(arms[:-1]):
            expr = f"if rcode = {ext[name]} then {cats[cat]} else {expr}"
        # --- opcode compared in subject_to_rrl ---------------------------------------------------
        blk = mod.block_after(src, r"\bfn\s+subject_to_rrl\b", f"{REL}: subject_to_rrl")
        m = re.search(r"opcode\(\)\s*==\s*Opcode::([A-Z]+)", blk)
        t = re.search(r"transport\s*==\s*Transport::([A-Za-z]+)", blk)
        if not m or not t:
            raise mod.ExtractError(f"{REL}: subject_to_rrl: opcode/transport comparison not understood")
        osrc = mod.strip_comments(mod.read(repo, "src/message/opcode.rs"))
        ops = dict(mod.self_consts(osrc, "src/message/opcode.rs", "Opcode"))
        if m.group(1) not in ops:
            raise mod.ExtractError(f"{REL}: subject_to_rrl: unknown Opcode::{m.group(1)}")
        if t.group(1) not in ("Udp", "Tcp"):
            raise mod.ExtractError(f"{REL}: subject_to_rrl: unknown Transport::{t.group(1)}")
        # --- QNAME used for a NOERROR response without question (D17) ----------------------------
        blk = mod.block_after(src, r"\bfn\s+process_response\b", f"{REL}: process_response")
        if re.search(r"context\s*\.\s*question\s*\.\s*as_ref\(\)\s*\.\s*unwrap\(\)", blk):
            fallback_root = False
        elif re.search(r"else\s*\{\s*Name::root\(\)\s*\}", blk):
            fallback_root = True
        else:
            raise mod.ExtractError(f"{REL}: process_response: QNAME selection for the hash not understood")
        out = mod.gen_header("response rate limiting: defaults, category arms, limited opcode/transport",
                             [REL, "src/message/rcode.rs", "src/message/opcode.rs"])
        out += f"/-- `{REL}`: `RrlParams::new` default `slip` -/\ndef RRL_DEFAULT_SLIP : Nat := {vals['slip']}\n"
        out += f"/-- `{REL}`: `RrlParams::new` default `ipv4_netmask` -/\ndef RRL_DEFAULT_IPV4_NETMASK : Nat := {vals['ipv4_netmask']}\n"
        out += f"/-- `{REL}`: `RrlParams::new` default `ipv6_netmask` -/\ndef RRL_DEFAULT_IPV6_NETMASK : Nat := {vals['ipv6_netmask']}\n"
        out += f"/-- `{REL}`: `RrlParams::new` default `size` -/\ndef RRL_DEFAULT_SIZE : Nat := {vals['size']}\n"
        out += (f"/-- `{REL}`: `impl From<ExtendedRcode> for Category`, arms in source order "
                f"({', '.join(a + ' ⇒ ' + c for a, c in rows)}); 0 = NoError, 1 = NxDomain, 2 = Error -/\n"
                f"def rrlCategoryCode (rcode : Nat) : Nat := {expr}\n")
        out += f"/-- `{REL}`: `subject_to_rrl` limits only `Opcode::{m.group(1)}` … -/\ndef RRL_LIMITED_OPCODE : Nat := {ops[m.group(1)]}\n"
        out += f"/-- … received over `Transport::{t.group(1)}` (1 = Udp, 0 = Tcp) -/\ndef RRL_LIMITED_TRANSPORT_IS_UDP : Bool := {'true' if t.group(1) == 'Udp' else 'false'}\n"
        out += (f"/-- `{REL}`: `process_response` hashes `Name::root()` for a NOERROR response that has neither a source of "
                f"synthesis nor a question (false = it `unwrap`s the question and panics) -/\n"
                f"def RRL_QNAME_FALLBACK_IS_ROOT : Bool := {'true' if fallback_root else 'false'}\n")
        out += "\nend QV.Gen\n"
        return out, {"defaults": vals, "category_arms": rows, "opcode": m.group(1), "transport": t.group(1), "qname_fallback_root": fallback_root}
    return fn


def register(extra, mod):
    extra.append(("Rrl.lean", gen_rrl(mod)))
