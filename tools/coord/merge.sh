#!/bin/sh
# merge an agent branch; MANIFEST.json, evidence, bin/check, tools/props.py keep main's version
b=$1
if ! git diff --quiet HEAD; then echo "working tree dirty: commit first"; exit 1; fi
git merge --no-edit agent/$b >/dev/null 2>&1
for f in $(git diff --name-only --diff-filter=U); do
  case $f in
    MANIFEST.json|known_findings.json|evidence/*|bin/check|tools/props.py|DESIGN.md|GUIDE.md|.gitattributes) git checkout --ours -- $f 2>/dev/null; git add $f;;
    *) echo "UNRESOLVED $f";;
  esac
done
if git diff --name-only --diff-filter=U | grep -q .; then echo "merge $b: conflicts remain"; exit 1; fi
git commit -q --no-edit 2>/dev/null
python3 tools/import_props.py agent/$b $2 $3 $4 $5
echo "merged $b"
