import json,sys
pid=sys.argv[1]
for l in open('/verif/properties.jsonl'):
    p=json.loads(l)
    if p['id']==pid: break
wt=f"/tmp/mut-{pid}"
print(f"""You are given a scratch git worktree of the Rust project matttpt/quandary (an authoritative DNS server library + daemon) at {wt} (it is yours alone; work ONLY there; do not touch /repo, /verif or any other directory; no network; build with `CARGO_NET_OFFLINE=true cargo build --offline`, run the existing tests with `CARGO_NET_OFFLINE=true cargo test --offline` — they must all still pass).

Here is a semantic property that the code is supposed to satisfy:

  id: {p['id']}
  title: {p['title']}
  statement: {p['statement']}
  quantifier: {p['quantifier']['text']}
  code anchors: {', '.join(p['anchors']['files'])}

TASK: produce a realistic change to the source under {wt}/src that BREAKS this property while the crate still compiles and the existing test suite still passes unchanged. It must be the kind of slip a maintainer could plausibly make (an off-by-one, a dropped or reordered check, a wrong variable, a missing case, a stale cache, a changed constant, two individually plausible edits that only misbehave together …) and it must need something SPECIFIC to manifest — a particular unusual input, boundary value, multi-step sequence of operations, interleaving, or configuration — not something ordinary use would expose at once, and not something the existing tests catch. Do not add dead/obviously malicious code, do not touch tests, keep the diff small (a few lines).

Deliverables, all under {wt}/MUTATION/ (create the directory):
  1. patch.diff — `git diff` of your source change (relative to HEAD of the worktree; source files only, not MUTATION/).
  2. demo — a demonstration that FAILS with the change and PASSES without it: either a Rust integration test file `demo.rs` (to be copied to {wt}/tests/demo_{pid.lower()}.rs and run with `cargo test --offline --test demo_{pid.lower()}`) or a small program/example with exact run instructions. It must use only the crate's public API (or, for daemon code, run the built binary).
  3. meta.json — {{"property": "{p['id']}", "summary": "<one line: what was changed>", "needs": "<what specific input/sequence/interleaving is needed for it to manifest>", "ran": ["<commands you ran and their outcomes>"]}}.
Verify yourself before finishing: (a) with your change applied, `cargo test --offline` (existing suite) passes; (b) the demo fails with the change; (c) after reverting the source change the demo passes — NEVER use `git stash` (the stash is shared between all worktrees of the repository and other people work in sibling worktrees): use `git diff -- src > /tmp/{pid}.patch && git apply -R /tmp/{pid}.patch`, run the demo, then `git apply /tmp/{pid}.patch`; leave the worktree WITH the change applied and the demo test file in place. Report briefly what you changed and what triggers it.""")
