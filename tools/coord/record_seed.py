import json,re,sys
log=open(sys.argv[1]).read()
blocks=re.split(r'^##### ',log,flags=re.M)[1:]
for b in blocks:
    name=b.split('\n',1)[0].strip().split()[0]
    if not name.startswith('C') or '[check]' not in b: continue
    checks=re.findall(r'\[check\] (C\d+) .*?theorems (\S+), cases (\d+), impl≠spec (\d+), impl≠model (\d+)',b)
    viols={v[0]:v[1] for v in re.findall(r'VIOLATION property=(\S+) replay=\S+( no-failing-input-found)?',b)}
    with_fail='FAILED' in b.split('demo WITH the change')[1].split('== bin/check')[0]
    without_ok=re.search(r'demo WITHOUT.*?test result: ok',b,flags=re.S) is not None
    suite=re.findall(r'test result: ok\. (\d+) passed',b.split('existing suite WITH')[1].split('== demo WITH the change')[0])
    f=f'/verif/seeded/{name}/meta.json'; meta=json.load(open(f))
    cs=[]
    for c in checks:
        v=viols.get(c[0])
        cs.append(f"bin/check {c[0]}: "+("NOT REPORTED" if v is None else ("VIOLATION no-failing-input-found" if v else "VIOLATION impl-vs-spec"))+f", {c[3]} cases (impl≠model {c[4]})")
    meta['verified_by_coordinator']={"existing_suite_with_change":"+".join(suite)+" tests pass","demo_with_change":"fails" if with_fail else "DOES NOT FAIL","demo_without_change":"passes" if without_ok else "DOES NOT PASS","check":"; ".join(cs),"how":f"bin/seedtest {name}"}
    json.dump(meta,open(f,'w'),indent=1)
    print(name, meta['verified_by_coordinator'])
