#!/usr/bin/env python3
"""Regenerates /verif/MANIFEST.json from tools/props.py (one source of truth)."""
import json
import os
import sys

ROOT = os.path.dirname(os.path.dirname(os.path.abspath(__file__)))
sys.path.insert(0, os.path.join(ROOT, "tools"))
from props import PROPS  # noqa: E402

ALL = [json.loads(l)["id"] for l in open(os.path.join(ROOT, "properties.jsonl"))]
BASELINE = ("cd /repo/$(cat /w/out/cargo_root.txt) && cargo nextest run --workspace --no-fail-fast "
            "--tool-config-file pb:/w/lib/nextest.toml --profile pb --test-threads 8 --offline")

LEVEL_NOTE = ("Trusted: Lean 4.33.0 kernel; axioms ⊆ {propext, Classical.choice, Quot.sound} (audited per theorem on every run); "
              "the spec in lean/QV/Spec says what the property says; the hand-written model mirrors the Rust source — tied on every run by "
              "the differential correspondence check (harness built against /repo's working tree vs the compiled Lean driver) and by the "
              "extractor for constants/tables; dev-profile semantics; std/arrayvec/hmac/sha crates.")


def main():
    checks = []
    for pid in ALL:
        if pid not in PROPS:
            continue
        c = PROPS[pid]
        checks.append({
            "property_id": pid,
            "quick_cmd": f"bin/check {pid} --tier quick",
            "thorough_cmd": f"bin/check {pid} --tier thorough",
            "evidence_file": f"/verif/evidence/{pid}.json",
            "replay_cmd_template": f"bin/check {pid} --replay {{path}}",
            "engine": "lean4-proof+correspondence",
            "level_claimed": {
                "category": "proof",
                "text": c.get("level_text", "Theorems about a Lean 4 model of the anchored code, for all inputs/histories the property quantifies over; "
                                            "the model is tied to the current source by a differential correspondence check and an extractor on every run."),
                "design_ref": c.get("design_ref", "§6"),
            },
            "level_note": c.get("level_note", LEVEL_NOTE),
            "technique": c["technique"],
        })
    na = [{"property_id": p, "reason": PROPS.get(p, {}).get("na_reason",
           "not claimed yet: model/theorems/correspondence for this property are still being built (DESIGN.md §9 order of work); the technique applies")}
          for p in ALL if p not in PROPS]
    m = {
        "version": 1,
        "setup_cmd": "bin/setup",
        "hooks": {
            "guard": "cargo feature `verif_hooks` (off by default)",
            "enable": "harness/Cargo.toml depends on quandary with features = [\"verif_hooks\"] for the properties that need it (C26–C28)",
            "baseline_off_cmd": BASELINE,
            "source_commits": json.load(open(os.path.join(ROOT, "hooks.json")))["source_commits"] if os.path.exists(os.path.join(ROOT, "hooks.json")) else [],
            "add_only": True,
        },
        "engines": [{
            "name": "lean4-proof+correspondence",
            "path": "bin/check",
            "serves_properties": [c["property_id"] for c in checks],
            "kind_free_text": "Lean 4 theorems over a hand-written executable model (lean/QV), tied to /repo on every run by an extractor "
                              "(tools/extract.py) and a differential correspondence check (harness/ vs the compiled Lean driver qvdrv)",
        }],
        "checks": checks,
        "notes": "See DESIGN.md. known_findings.json lists fixed/known defects. Every check rebuilds the harness against /repo's working tree.",
        "not_applicable": na,
    }
    with open(os.path.join(ROOT, "MANIFEST.json"), "w") as f:
        json.dump(m, f, indent=1)
        f.write("\n")
    print(f"MANIFEST.json: {len(checks)} checks, {len(na)} not claimed")


if __name__ == "__main__":
    main()
