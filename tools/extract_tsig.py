"""Extractor plug-in for C11 (TSIG): constants of src/message/tsig.rs that the Lean model uses.

Generated/Tsig.lean:
  tsigAlgorithms      `enum Algorithm` variants with the wire form of their `lazy_static` names
  TSIG_MIN_MAC_SIZE   the `10` of `mac_size < 10.max(half_output_size)` (check_mac_size)
  TSIG_CLASS_TTL      the literal fed to the MAC between key name and algorithm name
  XRCODE_BADTIME      `ExtendedRcode::BADTIME`
  TYPE_TSIG, QCLASS_ANY
"""
import re


def _wire(text, item, mod):
    if not text.endswith("."):
        raise mod.ExtractError(f"{item}: algorithm name {text!r} is not absolute")
    out = []
    for lab in text[:-1].split("."):
        if not lab or len(lab) > 63 or not re.fullmatch(r"[a-z0-9-]+", lab):
            raise mod.ExtractError(f"{item}: unexpected label {lab!r}")
        out.append(len(lab))
        out.extend(lab.encode())
    out.append(0)
    return out


def gen_tsig(mod):
    def gen(repo):
        rel = "src/message/tsig.rs"
        src = mod.strip_comments(mod.read(repo, rel))
        # enum Algorithm { A, B }
        body = mod.block_after(src, r"pub\s+enum\s+Algorithm\s*\{", f"{rel}: enum Algorithm")
        variants = [v.strip() for v in body.strip().strip("{}").split(",") if v.strip()]
        if not variants or not all(re.fullmatch(r"[A-Za-z0-9]+", v) for v in variants):
            raise mod.ExtractError(f"{rel}: enum Algorithm has an unexpected shape: {variants}")
        # static ref X_NAME: Box<LowercaseName> = "…".parse().unwrap();
        statics = dict(re.findall(r"static\s+ref\s+([A-Z0-9_]+)\s*:\s*Box<LowercaseName>\s*=\s*\"([^\"]+)\"\s*\.parse\(\)", src))
        # fn name(): Self::V => &X_NAME
        namefn = mod.block_after(src, r"pub\s+fn\s+name\s*\(\s*&self\s*\)\s*->\s*&'static\s+LowercaseName\s*\{", f"{rel}: Algorithm::name")
        arms = dict(re.findall(r"Self::([A-Za-z0-9]+)\s*=>\s*&([A-Z0-9_]+)", namefn))
        # fn output_size(): Self::V => Hmac::<ShaN>::output_size()
        outfn = mod.block_after(src, r"pub\s+fn\s+output_size\s*\(\s*&self\s*\)\s*->\s*usize\s*\{", f"{rel}: Algorithm::output_size")
        hashes = dict(re.findall(r"Self::([A-Za-z0-9]+)\s*=>\s*Hmac::<([A-Za-z0-9]+)>::output_size\(\)", outfn))
        known = {"Sha1": 20, "Sha224": 28, "Sha256": 32, "Sha384": 48, "Sha512": 64}
        rows = []
        for v in variants:
            if v not in arms or arms[v] not in statics:
                raise mod.ExtractError(f"{rel}: no name for Algorithm::{v}")
            if v not in hashes or hashes[v] not in known:
                raise mod.ExtractError(f"{rel}: no known hash for Algorithm::{v}")
            rows.append((v, statics[arms[v]], _wire(statics[arms[v]], f"{rel}: {arms[v]}", mod), hashes[v], known[hashes[v]]))
        m = re.search(r"mac_size\s*<\s*(\d+)\s*\.max\(\s*half_output_size\s*\)", src)
        if not m:
            raise mod.ExtractError(f"{rel}: check_mac_size: `mac_size < N.max(half_output_size)` not found")
        min_mac = int(m.group(1))
        m = re.search(r"let\s+half_output_size\s*=\s*\(algorithm\.output_size\(\)\s*\+\s*1\)\s*/\s*2\s*;", src)
        if not m:
            raise mod.ExtractError(f"{rel}: check_mac_size: half_output_size is no longer (output_size + 1) / 2")
        m = re.search(r"vars\.key_name\(\)\.wire_repr\(\)\);\s*authenticator\.update\(b\"((?:\\x[0-9a-fA-F]{2})+)\"\);", src)
        if not m:
            raise mod.ExtractError(f"{rel}: add_tsig_variables: class/TTL literal not found")
        class_ttl = [int(x, 16) for x in re.findall(r"\\x([0-9a-fA-F]{2})", m.group(1))]
        rc = mod.strip_comments(mod.read(repo, "src/message/rcode.rs"))
        xr = mod.block_after(rc, r"impl\s+ExtendedRcode\s*\{", "src/message/rcode.rs: impl ExtendedRcode")
        m = re.search(r"pub\s+const\s+BADTIME\s*:\s*Self\s*=\s*Self\((\d+)\)", xr)
        if not m:
            raise mod.ExtractError("src/message/rcode.rs: ExtendedRcode::BADTIME not found")
        badtime = int(m.group(1))
        ty = mod.strip_comments(mod.read(repo, "src/rr/rr_type.rs"))
        m = re.search(r"pub\s+const\s+TSIG\s*:\s*Type\s*=\s*Type\((\d+)\)", ty)
        if not m:
            raise mod.ExtractError("src/rr/rr_type.rs: Type::TSIG not found")
        type_tsig = int(m.group(1))
        q = mod.strip_comments(mod.read(repo, "src/message/question.rs"))
        qb = mod.block_after(q, r"impl\s+Qclass\s*\{", "src/message/question.rs: impl Qclass")
        m = re.search(r"pub\s+const\s+ANY\s*:\s*Self\s*=\s*Self\((\d+)\)", qb)
        if not m:
            raise mod.ExtractError("src/message/question.rs: Qclass::ANY not found")
        qany = int(m.group(1))

        t = mod.gen_header("TSIG constants (C11)", [rel, "src/message/rcode.rs", "src/rr/rr_type.rs", "src/message/question.rs"])
        t += "/-- `src/message/tsig.rs`: `enum Algorithm` in source order: (variant, name text, name wire form, hash, output size) -/\n"
        t += "def tsigAlgorithms : List (String × String × List UInt8 × String × Nat) :=\n  ["
        t += ", ".join(f'("{v}", "{txt}", [{", ".join(map(str, w))}], "{h}", {o})' for v, txt, w, h, o in rows) + "]\n"
        t += "/-- `src/message/tsig.rs` `check_mac_size`: the constant in `mac_size < N.max(half_output_size)` -/\n"
        t += f"def TSIG_MIN_MAC_SIZE : Nat := {min_mac}\n"
        t += "/-- `src/message/tsig.rs` `add_tsig_variables`: literal between key name and algorithm name (CLASS, TTL) -/\n"
        t += f"def TSIG_CLASS_TTL : List UInt8 := [{', '.join(map(str, class_ttl))}]\n"
        t += "/-- `src/message/rcode.rs`: `ExtendedRcode::BADTIME` -/\n"
        t += f"def XRCODE_BADTIME : Nat := {badtime}\n"
        t += "/-- `src/rr/rr_type.rs`: `Type::TSIG` -/\n"
        t += f"def TYPE_TSIG : Nat := {type_tsig}\n"
        t += "/-- `src/message/question.rs`: `Qclass::ANY` -/\n"
        t += f"def QCLASS_ANY : Nat := {qany}\n"
        t += "\nend QV.Gen\n"
        return t, {"algorithms": [r[0] for r in rows], "min_mac": min_mac, "badtime": badtime}
    return gen


def register(extra, mod):
    extra.append(("Tsig.lean", gen_tsig(mod)))
