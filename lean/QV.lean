-- Root of the `QV` library: everything that `lake build QV` must check.
import QV.Prelude
import QV.Generated.Consts
import QV.Generated.Tables
import QV.Properties.C14
import QV.Properties.C12
import QV.Properties.C13
