-- Root of the `QV` library: everything that `lake build QV` must check.
import QV.Prelude
import QV.Generated.Consts
import QV.Generated.Tables
import QV.Properties.C14
import QV.Generated.Tsig
import QV.Properties.C11
import QV.Properties.C15
import QV.Generated.Validation
import QV.Properties.C06
import QV.Properties.C20
import QV.Properties.C21
import QV.Properties.C22
import QV.Properties.C17
import QV.Properties.C31
import QV.Properties.C18
import QV.Properties.C19
import QV.Properties.C16
