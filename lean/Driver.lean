import QV.Driver.Main
def main : IO Unit := QV.Driver.main
