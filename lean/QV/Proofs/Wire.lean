/-
  QV.Proofs.Wire — helper lemmas relating `QV.Model.Wire` to `QV.Spec.NameWire`.
-/
import QV.Model.Wire
import QV.Spec.NameWire

namespace QV.Wire
open QV QV.Spec

/-! ### bit-level facts (the model uses the Rust bit operations, the spec uses arithmetic) -/

theorem forall_uint8 (P : UInt8 → Prop) (h : ∀ n, n < 256 → P (UInt8.ofNat n)) : ∀ b, P b := by
  intro b
  have := h b.toNat b.toNat_lt
  simpa using this

theorem isPtr_iff (b : UInt8) : isPtr b = true ↔ specIsPtr b := by
  revert b; apply forall_uint8; unfold isPtr specIsPtr; decide +kernel

theorem ptrOf_eq (a b : UInt8) (h : specIsPtr a) : ptrOf a b = specPtr a b := by
  unfold ptrOf specPtr; unfold specIsPtr at h
  have : a.toNat < 256 := a.toNat_lt
  omega

theorem not_isPtr_of_le63 (b : UInt8) (h : b.toNat ≤ 63) : isPtr b = false := by
  revert b; apply forall_uint8; unfold isPtr; decide +kernel

theorem isPtr_zero : isPtr (0 : UInt8) = false := by decide

theorem toNat_eq_zero_iff (b : UInt8) : b.toNat = 0 ↔ b = 0 := by
  constructor
  · intro h; exact UInt8.toNat_inj.mp (by simpa using h)
  · intro h; subst h; rfl


theorem toNat_pos_of_ne_zero (b : UInt8) (h : b ≠ 0) : 0 < b.toNat := by
  have : b.toNat ≠ 0 := fun e => h ((toNat_eq_zero_iff b).mp e)
  omega

/-! ### parse_compressed_name: soundness (model ⇒ spec) -/

theorem consts : Gen.MAX_LABEL_LEN = 63 ∧ Gen.MAX_WIRE_LEN = 255 ∧ Gen.MAX_N_LABELS = 128 := by
  decide

theorem parseAux_sound (msg : Bytes) (cs i : Nat) (w : List UInt8) (nl : Nat) (f : Option Nat)
    (p : Parsed) (hci : cs ≤ i) (h : parseAux msg cs i w nl f = .ok p) :
    ∃ w' n' k', Decodes msg i cs w' n' k' ∧ p.wire = w ++ w' ∧ p.wire.length ≤ 255 ∧
      p.nlabels = nl + n' ∧ p.len = f.getD (i - cs + k') := by
  obtain ⟨c1, c2, c3⟩ := consts
  fun_induction parseAux msg cs i w nl f generalizing p
  all_goals try (cases h; done)
  case case2 cs i w nl f hi hp h1 hge ih =>
    -- pointer
    obtain ⟨w', n', k', hd, hw, hl, hn, hk⟩ := ih p (Nat.le_refl _) h
    have hsp : specIsPtr msg[i] := (isPtr_iff _).mp hp
    refine ⟨w', n', 2, ?_, hw, hl, hn, ?_⟩
    · have e := ptrOf_eq msg[i] msg[i+1] hsp
      rw [e] at hd hge
      exact Decodes.ptr h1 hsp (by omega) hd
    · cases f <;> simp_all <;> omega
  case case7 cs i w nl f hi hp hl hnl h0 hlen =>
    -- null label
    cases h
    refine ⟨[0], 1, 1, Decodes.null hi h0, rfl, ?_, rfl, ?_⟩
    · simp; omega
    · cases f <;> simp <;> omega
  case case10 cs i w nl f hi hp hl hnl h0 heom hlen ih =>
    -- ordinary label
    obtain ⟨w', n', k', hd, hw, hlw, hn, hk⟩ := ih p (by omega) h
    refine ⟨(msg.extract i (i + msg[i].toNat + 1)).toList ++ w', n' + 1, msg[i].toNat + 1 + k', ?_, ?_, hlw, ?_, ?_⟩
    · exact Decodes.label hi h0 (by omega) (by omega) hd
    · rw [hw]; simp
    · omega
    · cases f <;> simp_all <;> omega

/-! ### completeness (spec ⇒ model) -/

theorem parseAux_complete (msg : Bytes) {i cs : Nat} {w' : List UInt8} {n' k' : Nat}
    (hd : Decodes msg i cs w' n' k') :
    ∀ (w : List UInt8) (nl : Nat) (f : Option Nat), cs ≤ i → (w ++ w').length ≤ 255 →
      2 * nl ≤ w.length →
      parseAux msg cs i w nl f = .ok ⟨w ++ w', nl + n', f.getD (i - cs + k')⟩ := by
  obtain ⟨c1, c2, c3⟩ := consts
  induction hd with
  | null h h0 =>
    intro w nl f hci hl hnl
    rw [parseAux]
    have e1 : ¬ (nl ≥ 128) := by simp at hl; omega
    have e2 : ¬ (w.length + 1 > 255) := by simp at hl; omega
    simp [h, h0, isPtr_zero, c1, c2, c3, e1, e2]
    cases f <;> simp <;> omega
  | @label pos cs w'' n k h h0 h63 hin rest ih =>
    intro w nl f hci hl hnl
    have hne : (msg.extract pos (pos + msg[pos].toNat + 1)).toList.length = msg[pos].toNat + 1 := by
      simp; omega
    have hpos : 0 < msg[pos].toNat := toNat_pos_of_ne_zero _ h0
    have hlt : pos + msg[pos].toNat + 1 < msg.size := by
      cases rest <;> omega
    rw [parseAux]
    have e0 : isPtr msg[pos] = false := not_isPtr_of_le63 _ h63
    have e1 : ¬ (msg[pos].toNat > 63) := by omega
    have e2 : ¬ (nl ≥ 128) := by simp at hl; omega
    have e3 : ¬ (pos + msg[pos].toNat + 1 ≥ msg.size) := by omega
    have e4 : ¬ (w.length + (msg[pos].toNat + 1) > 255) := by simp at hl; omega
    simp only [h, e0, c1, c2, c3, e1, e2, h0, e3, e4, dite_true, if_false, Bool.false_eq_true]
    rw [ih (w ++ (msg.extract pos (pos + msg[pos].toNat + 1)).toList) (nl + 1) f (by omega)
      (by simp at hl ⊢; omega) (by simp; omega)]
    simp
    refine ⟨by omega, ?_⟩
    cases f <;> simp <;> omega
  | @ptr pos cs w'' n k h hp hb rest ih =>
    intro w nl f hci hl hnl
    rw [parseAux]
    have hlt : pos < msg.size := by omega
    have e0 : isPtr msg[pos] = true := (isPtr_iff _).mpr hp
    have e := ptrOf_eq (msg[pos]'hlt) (msg[pos+1]'h) hp
    have e1 : ¬ (ptrOf (msg[pos]'hlt) (msg[pos+1]'h) ≥ cs) := by omega
    simp only [hlt, e0, h, e1, dite_true, if_true, if_false]
    rw [e]
    rw [ih w nl (some (f.getD (pos + 2 - cs))) (Nat.le_refl _) hl hnl]
    simp
    cases f <;> simp <;> omega

/-! ### no panic -/

theorem parseAux_no_panic (msg : Bytes) (cs i : Nat) (w : List UInt8) (nl : Nat) (f : Option Nat)
    (hnl : 2 * nl ≤ w.length) (hw : w.length ≤ 255) :
    parseAux msg cs i w nl f ≠ .panic := by
  obtain ⟨c1, c2, c3⟩ := consts
  fun_induction parseAux msg cs i w nl f
  all_goals try (simp; done)
  case case2 ih => exact ih hnl hw
  case case5 => omega
  case case10 hi hp hl hnl' h0 heom hlen ih =>
    apply ih
    · have := toNat_pos_of_ne_zero _ h0
      simp; omega
    · simp; omega

/-! ### uncompressed parsing and validation -/

/-- the `label_offsets` bookkeeping never changes the outcome and never overflows -/
theorem uncompAux_track (b : Bytes) (off nl : Nat) (hnl : 2 * nl ≤ off) (ho : off ≤ 255) :
    uncompAux b true off nl = uncompAux b false off nl := by
  obtain ⟨c1, c2, c3⟩ := consts
  fun_induction uncompAux b false off nl
  all_goals (rw [uncompAux]; simp_all)
  case case3 => repeat' split
                all_goals first | rfl | omega
  case case4 => repeat' split
                all_goals first | rfl | omega
  case case5 off nl h hl hlen h0 ih =>
    have := toNat_pos_of_ne_zero _ h0
    have e : ¬ (128 ≤ nl) := by omega
    have e2 : ¬ (63 < b[off].toNat) := by omega
    have e3 : ¬ (255 < off + b[off].toNat + 1) := by omega
    simp [e, e2, e3]
    apply ih <;> omega
  case case6 => intro h; omega

theorem uncompAux_no_panic (b : Bytes) (off nl : Nat) : uncompAux b false off nl ≠ .panic := by
  fun_induction uncompAux b false off nl <;> simp_all

theorem uncompAux_sound (b : Bytes) (t : Bool) (off nl e nl' : Nat)
    (h : uncompAux b t off nl = .ok (e, nl')) :
    Decodes b off 0 (b.extract off e).toList (nl' - nl) (e - off) ∧ off < e ∧ e ≤ b.size ∧ e ≤ 255 ∧ nl < nl' := by
  obtain ⟨c1, c2, c3⟩ := consts
  fun_induction uncompAux b t off nl
  all_goals try (cases h; done)
  case case4 off nl hlt hl hp hlen h0 =>
    cases h
    refine ⟨?_, by omega, by omega, by omega, by omega⟩
    have e1 : (b.extract off (off + 1)).toList = [0] := by
      apply List.ext_getElem <;> simp
      · omega
      · intro i h1 h2; have : i = 0 := by omega
        subst this; simpa using h0
    rw [e1]
    have : nl + 1 - nl = 1 := by omega
    rw [this]
    have : off + 1 - off = 1 := by omega
    rw [this]
    exact Decodes.null hlt h0
  case case5 off nl hlt hl hp hlen h0 ih =>
    obtain ⟨hd, h1, h2, h3, h4⟩ := ih h
    refine ⟨?_, by omega, h2, h3, by omega⟩
    have hs : (b.extract off e).toList =
        (b.extract off (off + b[off].toNat + 1)).toList ++ (b.extract (off + b[off].toNat + 1) e).toList := by
      simp only [← Array.toList_append]
      congr 1
      rw [Array.extract_append_extract]
      congr 1 <;> omega
    rw [hs]
    have e1 : nl' - nl = (nl' - (nl + 1)) + 1 := by omega
    have e2 : e - off = b[off].toNat + 1 + (e - (off + b[off].toNat + 1)) := by omega
    rw [e1, e2]
    exact Decodes.label hlt h0 (by omega) (by omega) hd

theorem parseUncompressed_no_panic (b : Bytes) (u : Bool) : parseUncompressed b u ≠ .panic := by
  unfold parseUncompressed
  rw [uncompAux_track b 0 0 (by omega) (by omega)]
  have := uncompAux_no_panic b 0 0
  cases h : uncompAux b false 0 0 <;> simp_all
  split <;> simp

/-- `validate_uncompressed_name` accepts exactly what `parse_uncompressed_name` accepts, with the
    same length. -/
theorem validate_iff_parse (b : Bytes) (u : Bool) (k : Nat) :
    validateUncompressed b u = .ok k ↔ ∃ p, parseUncompressed b u = .ok p ∧ p.len = k := by
  unfold parseUncompressed validateUncompressed
  rw [uncompAux_track b 0 0 (by omega) (by omega)]
  cases h : uncompAux b false 0 0 with
  | ok r =>
    obtain ⟨off, nl⟩ := r
    by_cases hc : (u && decide (off < b.size)) = true
    · simp [hc]
    · simp [hc]
  | err e => simp
  | panic => simp

theorem validate_err_iff_parse (b : Bytes) (u : Bool) (e : NameErr) :
    validateUncompressed b u = .err e ↔ parseUncompressed b u = .err e := by
  unfold parseUncompressed validateUncompressed
  rw [uncompAux_track b 0 0 (by omega) (by omega)]
  cases h : uncompAux b false 0 0 with
  | ok r =>
    obtain ⟨off, nl⟩ := r
    by_cases hc : (u && decide (off < b.size)) = true
    · simp [hc]
    · simp [hc]
  | err e => simp
  | panic => simp

/-- an uncompressed name parsed from the start of a buffer is what the compressed parser yields
    at offset 0 -/
theorem parseUncompressed_compressed (b : Bytes) (p : Parsed)
    (h : parseUncompressed b false = .ok p) : parseCompressed b 0 = .ok p := by
  unfold parseUncompressed at h
  cases hu : uncompAux b true 0 0 with
  | ok r =>
    obtain ⟨off, nl⟩ := r
    rw [hu] at h
    simp at h
    obtain ⟨hd, h1, h2, h3, h4⟩ := uncompAux_sound b true 0 0 off nl hu
    have := parseAux_complete b hd [] 0 none (Nat.le_refl _) (by simp; omega) (by simp)
    unfold parseCompressed
    rw [this, ← h]
    simp
  | err e => rw [hu] at h; cases h
  | panic => rw [hu] at h; cases h

/-! ### skip_compressed_name -/

theorem decodes_length_pos {msg : Bytes} {i cs : Nat} {w : List UInt8} {n k : Nat}
    (hd : Decodes msg i cs w n k) : 0 < w.length ∧ 0 < n ∧ 0 < k := by
  induction hd with
  | null => simp
  | label h h0 h63 hin rest ih => simp; omega
  | ptr h hp hb rest ih => exact ⟨ih.1, ih.2.1, by omega⟩

theorem skipAux_of_decodes (msg : Bytes) {i cs : Nat} {w : List UInt8} {n k : Nat}
    (hd : Decodes msg i cs w n k) :
    ∀ s, s ≤ i → (i - s) + w.length ≤ 255 →
      skipAux (msg.extract s msg.size) (i - s) = .ok (i - s + k) := by
  obtain ⟨c1, c2, c3⟩ := consts
  induction hd with
  | @null pos cs h h0 =>
    intro s hs hl
    rw [skipAux]
    have hsz : pos - s < (msg.extract s msg.size).size := by simp; omega
    have hget : (msg.extract s msg.size)[pos - s] = msg[pos] := by
      rw [Array.getElem_extract]; congr 1; omega
    simp only [hsz, dite_true, hget, h0, isPtr_zero, c1, c2]
    simp at hl ⊢
    omega
  | @label pos cs w'' n k h h0 h63 hin rest ih =>
    intro s hs hl
    have hp := decodes_length_pos rest
    rw [skipAux]
    have hsz : pos - s < (msg.extract s msg.size).size := by simp; omega
    have hget : (msg.extract s msg.size)[pos - s] = msg[pos] := by
      rw [Array.getElem_extract]; congr 1; omega
    have e0 : isPtr msg[pos] = false := not_isPtr_of_le63 _ h63
    have e1 : ¬ (msg[pos].toNat > 63) := by omega
    have e2 : ¬ (pos - s + 1 + msg[pos].toNat > 255) := by simp at hl; omega
    simp only [hsz, dite_true, hget, e0, c1, c2, e1, h0, e2, if_false, Bool.false_eq_true]
    have e3 : pos - s + 1 + msg[pos].toNat = (pos + msg[pos].toNat + 1) - s := by omega
    rw [e3, ih s (by omega) (by simp at hl; omega)]
    congr 1; omega
  | @ptr pos cs w'' n k h hp hb rest ih =>
    intro s hs hl
    have hpz := decodes_length_pos rest
    rw [skipAux]
    have hsz : pos - s < (msg.extract s msg.size).size := by simp; omega
    have hget : (msg.extract s msg.size)[pos - s] = msg[pos]'(by omega) := by
      rw [Array.getElem_extract]; congr 1; omega
    have e0 : isPtr (msg[pos]'(by omega)) = true := (isPtr_iff _).mpr hp
    have e1 : ¬ (pos - s + 1 > 255) := by omega
    simp only [hsz, dite_true, hget, e0, c2, e1, if_true, if_false]

/-- whenever the compressed parser accepts a name at `s`, skipping over it at `s` succeeds and
    reports the same first-chunk length -/
theorem skip_of_parse (msg : Bytes) (s : Nat) (p : Parsed) (h : parseCompressed msg s = .ok p) :
    skipCompressed (msg.extract s msg.size) = .ok p.len := by
  obtain ⟨w', n', k', hd, hw, hl, hn, hk⟩ := parseAux_sound msg s s [] 0 none p (Nat.le_refl _) h
  have := skipAux_of_decodes msg hd s (Nat.le_refl _) (by simp at hw; rw [hw] at hl; omega)
  unfold skipCompressed
  simp at this hk
  rw [this, hk]

end QV.Wire
