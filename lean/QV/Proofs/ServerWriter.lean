/-
  QV.Proofs.ServerWriter — the interface between the request handler and the message writer
  (helpers of C01/C02).

  `WriterSafe` is exactly what the server needs from the writer's own theorems (C12 invariant,
  C13 pointer validity); it is a *hypothesis* of the server theorems until those are merged, and is
  stated call by call so that the writer's owner can discharge it:

    * `I`    the writer invariant (C12 `Inv` ∧ C13 "every stored `PriorName` points at the first
             octet of a label of a name written below the cursor, with exactly `len` labels");
    * `Den s p n`  "in state `s` the prior name `p` is such an anchor and the name it starts is `n`
             up to ASCII case" (what makes a hint *valid*: C13's hint contract);
    * `call` every public call the server makes (`Call`) from an `I`-state whose arguments meet the
             documented contract (`Call.Pre`: names well formed, hint valid) does not panic, gives an
             `I`-state again, keeps QNAME anchor and every valid anchor valid (`Mono`) — whatever it
             returns (`Ok`, `Err(Truncation)`, `Err(OutOfOrder)` …: `with_rollback`);
    * `addQuestion`, `addRr_post`, `addRrset_post`: which anchors / `HintPointerVec` entries are
             valid after a successful call (QNAME; most recent owner; most recent name in RDATA;
             entry *i* of the vector = the *i*-th name written inside the RDATAs);
    * `finish`: from an `I`-state `finish` does not panic (the two `unwrap`s are covered by the
             reservations of `set_edns` / `set_tsig`) provided the MAC is no longer than the
             algorithm's output (the reservation of `signed_len`).

  The rest of the file is the small Hoare logic (`Safe`) used to push these through the server
  model, and the facts about writer calls that hold by mere unfolding (frame properties).
-/
import QV.Model.Server
import QV.Proofs.ServerNames

namespace QV.ServerSafety
open QV QV.Writer QV.Server

/-! ### the hint contract (C13) -/

/-- a hint is *valid* for the name it accompanies: the anchor it resolves to (if any) starts an
    earlier copy of that name. (`write_hinted_name` falls back to the scan when the anchor is
    absent, and ignores an explicit pointer that is not below the cursor.) -/
def HintOK (Den : State → Prior → WName → Prop) (s : State) : Hint → WName → Prop
  | .qname, n => ∀ q, s.qname = some q → Den s q n
  | .mostRecentOwner, n => ∀ q, s.mostRecentOwner = some q → Den s q n
  | .mostRecentNameInRdata, n => ∀ q, s.mostRecentNameInRdata = some q → Den s q n
  | .explicit p, n => p < s.cursor → Den s ⟨p, n.len⟩ n
  | .none, _ => True

/-- the names `write_components` finds in one RDATA, in the order it pushes their pointers onto
    the caller's `HintPointerVec` (mirrors the parse of `Writer.writeComponents`) -/
def compNames : List CompType → List UInt8 → List WName
  | [], _ => []
  | .compressibleName :: ts, rd =>
    match WName.parse rd with
    | none => []
    | some (n, rest) => n :: compNames ts rest
  | .uncompressibleName :: ts, rd =>
    match WName.parse rd with
    | none => []
    | some (n, rest) => n :: compNames ts rest
  | .fixedLen k :: ts, rd => if rd.length < k then [] else compNames ts (rd.drop k)

def rdataNames (cls ty : Nat) (rd : List UInt8) : List WName := compNames (componentTypes cls ty) rd

/-- the writer calls the server makes besides `add_question`, `clear_rrs` and `finish` -/
inductive Call where
  | setId (v : Nat) | setBit (byte mask : Nat) (v : Bool) | setOpcode (v : Nat) | setRcode (v : Nat)
  | setExtendedRcode (v : Nat) | setLimit (v : Nat) | setEdns (p : Nat)
  | setTsig (m : TsigMode) (rr : TsigRr)
  | addRr (sec : RrSection) (hint : Hint) (owner : WName) (ty cls ttl : Nat) (rdata : List UInt8)
  | addRrset (sec : RrSection) (hint : Hint) (owner : WName) (ty cls ttl : Nat)
      (rdatas : List (List UInt8))

def Call.run : Call → M Unit
  | .setId v => Writer.setId v
  | .setBit b m v => Writer.setBit b m v
  | .setOpcode v => Writer.setOpcode v
  | .setRcode v => Writer.setRcode v
  | .setExtendedRcode v => Writer.setExtendedRcode v
  | .setLimit v => Writer.setLimit v
  | .setEdns p => Writer.setEdns p
  | .setTsig m rr => Writer.setTsig m rr
  | .addRr sec h o ty cls ttl rd => addRrOp sec h o ty cls ttl rd
  | .addRrset sec h o ty cls ttl rds => addRrsetOp sec h o ty cls ttl rds

/-- the documented contract of each call -/
def Call.Pre (Den : State → Prior → WName → Prop) (s : State) : Call → Prop
  | .setBit b _ _ => b < Gen.HEADER_SIZE
  | .setTsig m rr => rr.keyName.WF ∧ (tsigAlgName m).WF ∧ rr.timeSigned.length = 6 ∧ rr.serverTime.length = 6
  | .addRr _ h o _ _ _ _ => o.WF ∧ HintOK Den s h o
  | .addRrset _ h o _ _ _ _ => o.WF ∧ HintOK Den s h o
  | _ => True

/-- what every call preserves of the anchors: the QNAME anchor itself, and the validity of every
    anchor that was valid -/
def Mono (Den : State → Prior → WName → Prop) (s s' : State) : Prop :=
  s'.qname = s.qname ∧ ∀ p n, Den s p n → Den s' p n

theorem Mono.refl (Den) (s : State) : Mono Den s s := ⟨rfl, fun _ _ h => h⟩

theorem Mono.trans {Den} {a b c : State} (h1 : Mono Den a b) (h2 : Mono Den b c) : Mono Den a c :=
  ⟨h2.1.trans h1.1, fun p n h => h2.2 p n (h1.2 p n h)⟩

/-- the MAC handed back by the signing function fits the reservation made by `set_tsig` -/
def MacLenOK (macFn : Tsig → List UInt8 → List UInt8) : Prop :=
  ∀ ts msg, (macFn ts msg).length ≤
    (match ts.mode with
     | .request a _ => algOutputSize a
     | .response a _ _ => algOutputSize a
     | .subsequent a _ _ => algOutputSize a
     | .unsigned _ => 0)

/-- **Interface to the writer's theorems** (to be discharged from C12/C13). -/
structure WriterSafe where
  I : State → Prop
  Den : State → Prior → WName → Prop
  /-- the caller's `HintPointerVec` is not part of the writer -/
  I_hv : ∀ s v, I s → I { s with hv := v }
  Den_hv : ∀ s v p n, Den s p n → Den { s with hv := v } p n
  new_I : ∀ buf limit s, Writer.new buf limit = .ok s → I s
  call : ∀ (c : Call) s, I s → c.Pre Den s →
    (c.run s).1 ≠ .panic ∧ I (c.run s).2 ∧ Mono Den s (c.run s).2
  addQuestion : ∀ qn qt qc s, I s → qn.WF →
    (Writer.addQuestion qn qt qc s).1 ≠ .panic ∧ I (Writer.addQuestion qn qt qc s).2 ∧
    (∀ p n, Den s p n → Den (Writer.addQuestion qn qt qc s).2 p n) ∧
    ((Writer.addQuestion qn qt qc s).1 = .ok () → s.sect = .question → s.qdcount = 0 →
      HintOK Den (Writer.addQuestion qn qt qc s).2 .qname qn)
  addRr_post : ∀ sec hint owner ty cls ttl rd s, I s → owner.WF → HintOK Den s hint owner →
    (addRrOp sec hint owner ty cls ttl rd s).1 = .ok () →
    HintOK Den (addRrOp sec hint owner ty cls ttl rd s).2 .mostRecentOwner owner ∧
    ∀ n, (rdataNames cls ty rd).getLast? = some n →
      HintOK Den (addRrOp sec hint owner ty cls ttl rd s).2 .mostRecentNameInRdata n
  addRrset_post : ∀ sec hint owner ty cls ttl rds s, I s → owner.WF → HintOK Den s hint owner →
    rds ≠ [] → (addRrsetOp sec hint owner ty cls ttl rds s).1 = .ok () →
    HintOK Den (addRrsetOp sec hint owner ty cls ttl rds s).2 .mostRecentOwner owner ∧
    (s.hv = some [] → ∀ v : List (Option Nat), (addRrsetOp sec hint owner ty cls ttl rds s).2.hv = some v →
      ∀ i p : Nat, v[i]? = some (some p) →
        ∃ n, (rds.flatMap (rdataNames cls ty))[i]? = some n ∧
          Den (addRrsetOp sec hint owner ty cls ttl rds s).2 ⟨p, n.len⟩ n)
  clearRrs_I : ∀ s, I s → I (clearRrs s).2
  finish : ∀ s macFn, I s → MacLenOK macFn → Writer.finish s macFn ≠ .panic

/-! ### a Hoare logic for computations over the writer state -/

variable (W : WriterSafe)

/-- running `f` from `s`: no panic, the invariant again, anchors monotone, and `Q` on success -/
def Safe {ε α : Type} (f : State → Out ε α × State) (s : State) (Q : α → State → Prop) : Prop :=
  (f s).1 ≠ .panic ∧ W.I (f s).2 ∧ Mono W.Den s (f s).2 ∧ ∀ a, (f s).1 = .ok a → Q a (f s).2

theorem Safe.weaken {ε α : Type} {f : State → Out ε α × State} {s : State} {Q Q' : α → State → Prop}
    (h : Safe W f s Q) (hq : ∀ a s', W.I s' → Mono W.Den s s' → Q a s' → Q' a s') : Safe W f s Q' :=
  ⟨h.1, h.2.1, h.2.2.1, fun a ha => hq a _ h.2.1 h.2.2.1 (h.2.2.2 a ha)⟩

theorem M.bind_apply {α β : Type} (x : M α) (g : α → M β) (s : State) :
    (x >>= g) s = match x s with
      | (.ok a, s') => g a s'
      | (.err e, s') => (.err e, s')
      | (.panic, s') => (.panic, s') := rfl

theorem safe_bind_M {α β : Type} {x : M α} {g : α → M β} {s : State} {Q : α → State → Prop}
    {R : β → State → Prop} (hx : Safe W x s Q)
    (hg : ∀ a s', W.I s' → Mono W.Den s s' → Q a s' → Safe W (g a) s' R) : Safe W (x >>= g) s R := by
  obtain ⟨h1, h2, h3, h4⟩ := hx
  unfold Safe
  rw [M.bind_apply]
  generalize x s = r at h1 h2 h3 h4
  obtain ⟨o, s'⟩ := r
  cases o with
  | ok a =>
    obtain ⟨g1, g2, g3, g4⟩ := hg a s' h2 h3 (h4 a rfl)
    exact ⟨g1, g2, h3.trans g3, g4⟩
  | err e => exact ⟨by simp, h2, h3, fun a ha => by cases ha⟩
  | panic => exact absurd rfl h1

theorem safe_pure_M {α : Type} (a : α) (s : State) (hi : W.I s) {Q : α → State → Prop} (hq : Q a s) :
    Safe W (pure a : M α) s Q :=
  ⟨by simp [pure], hi, Mono.refl _ _, fun b hb => by cases hb; exact hq⟩

/-- a `Call` whose contract is met -/
theorem safe_call (c : Call) (s : State) (hi : W.I s) (hp : c.Pre W.Den s) :
    Safe W c.run s (fun _ _ => True) := by
  obtain ⟨h1, h2, h3⟩ := W.call c s hi hp
  exact ⟨h1, h2, h3, fun _ _ => trivial⟩

/-- hints stay valid along `Mono` as long as the anchor they name is not reassigned -/
theorem hintOK_qname_mono {s s' : State} {n : WName} (h : HintOK W.Den s .qname n)
    (hm : Mono W.Den s s') : HintOK W.Den s' .qname n := by
  intro q hq
  rw [hm.1] at hq
  exact hm.2 q n (h q hq)

/-! ### the same logic for the answer phase, which runs on the writer plus a ghost operation log
    (`PS`); assertions speak about the writer component only -/

/-- running `f` from `s`: no panic, the writer invariant again, anchors monotone, `Q` on success -/
def SafeP {ε α : Type} (f : PS → Out ε α × PS) (s : PS) (Q : α → State → Prop) : Prop :=
  (f s).1 ≠ .panic ∧ W.I (f s).2.w ∧ Mono W.Den s.w (f s).2.w ∧ ∀ a, (f s).1 = .ok a → Q a (f s).2.w

theorem SafeP.weaken {ε α : Type} {f : PS → Out ε α × PS} {s : PS} {Q Q' : α → State → Prop}
    (h : SafeP W f s Q) (hq : ∀ a w', W.I w' → Mono W.Den s.w w' → Q a w' → Q' a w') : SafeP W f s Q' :=
  ⟨h.1, h.2.1, h.2.2.1, fun a ha => hq a _ h.2.1 h.2.2.1 (h.2.2.2 a ha)⟩

theorem safeP_congr {ε α : Type} {f g : PS → Out ε α × PS} {s : PS} {Q : α → State → Prop}
    (h : f s = g s) (hg : SafeP W g s Q) : SafeP W f s Q := by
  unfold SafeP at hg ⊢; rw [h]; exact hg

theorem PM.bind_apply {α β : Type} (x : PM α) (g : α → PM β) (s : PS) :
    (x >>= g) s = match x s with
      | (.ok a, s') => g a s'
      | (.err e, s') => (.err e, s')
      | (.panic, s') => (.panic, s') := rfl

theorem safe_bind_PM {α β : Type} {x : PM α} {g : α → PM β} {s : PS} {Q : α → State → Prop}
    {R : β → State → Prop} (hx : SafeP W x s Q)
    (hg : ∀ a s', W.I s'.w → Mono W.Den s.w s'.w → Q a s'.w → SafeP W (g a) s' R) :
    SafeP W (x >>= g) s R := by
  obtain ⟨h1, h2, h3, h4⟩ := hx
  unfold SafeP
  rw [PM.bind_apply]
  generalize x s = r at h1 h2 h3 h4
  obtain ⟨o, s'⟩ := r
  cases o with
  | ok a =>
    obtain ⟨g1, g2, g3, g4⟩ := hg a s' h2 h3 (h4 a rfl)
    exact ⟨g1, g2, h3.trans g3, g4⟩
  | err e => exact ⟨by simp, h2, h3, fun a ha => by cases ha⟩
  | panic => exact absurd rfl h1

theorem safe_pure_PM {α : Type} (a : α) (s : PS) (hi : W.I s.w) {Q : α → State → Prop} (hq : Q a s.w) :
    SafeP W (pure a : PM α) s Q :=
  ⟨by simp [pure, PM.pure], hi, Mono.refl _ _, fun b hb => by cases hb; exact hq⟩

theorem safe_fail_PM {α : Type} (e : PErr) (s : PS) (hi : W.I s.w) {Q : α → State → Prop} :
    SafeP W (PM.fail e : PM α) s Q :=
  ⟨by simp [PM.fail], hi, Mono.refl _ _, fun b hb => by cases hb⟩

/-- a logged header operation -/
theorem safe_hdrOp (ev : Ev) {m : M Unit} {s : PS} {Q : Unit → State → Prop} (h : Safe W m s.w Q) :
    SafeP W (PM.hdrOp ev m) s (fun _ _ => True) := by
  obtain ⟨h1, h2, h3, _⟩ := h
  unfold SafeP
  dsimp only [PM.hdrOp]
  generalize m s.w = r at h1 h2 h3
  obtain ⟨o, w'⟩ := r
  cases o with
  | ok a => exact ⟨by simp, h2, h3, fun _ _ => trivial⟩
  | err e => exact ⟨by simp, h2, h3, fun _ _ => trivial⟩
  | panic => exact absurd rfl h1

/-- a logged record-adding call: `Some(hv)` when it was made and succeeded, `None` when it was
    optional and did not fit -/
theorem safe_addCall (ev : AddEv) {m : M HV} {s : PS} {Q : HV → State → Prop} (h : Safe W m s.w Q) :
    SafeP W (PM.addCall ev m) s (fun o w' => ∀ hv, o = some hv → Q hv w') := by
  obtain ⟨h1, h2, h3, h4⟩ := h
  unfold SafeP
  dsimp only [PM.addCall]
  generalize m s.w = r at h1 h2 h3 h4
  obtain ⟨o, w'⟩ := r
  cases o with
  | ok a => exact ⟨by simp, h2, h3, fun b hb hv hhv => by cases hb; cases hhv; exact h4 a rfl⟩
  | err e =>
    dsimp only
    split
    · exact ⟨by simp, h2, h3, fun b hb hv hhv => by cases hb; cases hhv⟩
    · exact ⟨by simp, h2, h3, fun b hb => by cases hb⟩
  | panic => exact absurd rfl h1

end QV.ServerSafety
