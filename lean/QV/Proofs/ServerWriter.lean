/-
  QV.Proofs.ServerWriter — the interface between the request handler and the message writer
  (helpers of C01/C02).

  `WriterSafe` is exactly what the server needs from the writer's own theorems (C12 invariant,
  C13 pointer validity); it is a *hypothesis* of the server theorems until those are merged, and is
  stated call by call so that the writer's owner can discharge it:

    * `I`    the writer invariant (C12 `Inv` ∧ C13 "every stored `PriorName` points at the first
             octet of a label of a name written below the cursor, with exactly `len` labels");
    * `Den s p n`  "in state `s` the prior name `p` is such an anchor and the name it starts is `n`
             up to ASCII case" (what makes a hint *valid*: C13's hint contract);
    * `call` every public call the server makes (`Call`) from an `I`-state whose arguments meet the
             documented contract (`Call.Pre`: names well formed, hint valid) does not panic, gives an
             `I`-state again, keeps QNAME anchor and every valid anchor valid (`Mono`) — whatever it
             returns (`Ok`, `Err(Truncation)`, `Err(OutOfOrder)` …: `with_rollback`);
    * `addQuestion`, `addRr_post`, `addRrset_post`: which anchors / `HintPointerVec` entries are
             valid after a successful call (QNAME; most recent owner; most recent name in RDATA;
             entry *i* of the vector = the *i*-th name written inside the RDATAs);
    * `finish`: from an `I`-state `finish` does not panic (the two `unwrap`s are covered by the
             reservations of `set_edns` / `set_tsig`) provided the MAC is no longer than the
             algorithm's output (the reservation of `signed_len`).

  The rest of the file is the small Hoare logic (`Safe`) used to push these through the server
  model, and the facts about writer calls that hold by mere unfolding (frame properties).
-/
import QV.Model.Server
import QV.Proofs.ServerNames
import QV.Proofs.WriterSafe

namespace QV.ServerSafety
open QV QV.Writer QV.Server

/-! The hint contract `HintOK`, the calls `Call` (`run`, `Pre`), `Mono`, `MacLenOK` and the interface
    `WriterSafe` itself are declared in `QV.Proofs.WriterSafe` (same namespace), next to the instance
    `QV.Writer.writerSafe : WriterSafe` proved from C12/C13; `compNames` / `rdataNames` are
    `QV.Writer.compNames` / `QV.Writer.rdataNames`. -/

theorem Mono.refl (Den) (s : State) : Mono Den s s := ⟨rfl, fun _ _ h => h⟩

theorem Mono.trans {Den} {a b c : State} (h1 : Mono Den a b) (h2 : Mono Den b c) : Mono Den a c :=
  ⟨h2.1.trans h1.1, fun p n h => h2.2 p n (h1.2 p n h)⟩

/-! ### a Hoare logic for computations over the writer state -/

variable (W : WriterSafe)

/-- running `f` from `s`: no panic, the invariant again, anchors monotone, and `Q` on success -/
def Safe {ε α : Type} (f : State → Out ε α × State) (s : State) (Q : α → State → Prop) : Prop :=
  (f s).1 ≠ .panic ∧ W.I (f s).2 ∧ Mono W.Den s (f s).2 ∧ ∀ a, (f s).1 = .ok a → Q a (f s).2

theorem Safe.weaken {ε α : Type} {f : State → Out ε α × State} {s : State} {Q Q' : α → State → Prop}
    (h : Safe W f s Q) (hq : ∀ a s', W.I s' → Mono W.Den s s' → Q a s' → Q' a s') : Safe W f s Q' :=
  ⟨h.1, h.2.1, h.2.2.1, fun a ha => hq a _ h.2.1 h.2.2.1 (h.2.2.2 a ha)⟩

theorem safe_bind_M {α β : Type} {x : M α} {g : α → M β} {s : State} {Q : α → State → Prop}
    {R : β → State → Prop} (hx : Safe W x s Q)
    (hg : ∀ a s', W.I s' → Mono W.Den s s' → Q a s' → Safe W (g a) s' R) : Safe W (x >>= g) s R := by
  obtain ⟨h1, h2, h3, h4⟩ := hx
  unfold Safe
  rw [M.bind_apply]
  generalize x s = r at h1 h2 h3 h4
  obtain ⟨o, s'⟩ := r
  cases o with
  | ok a =>
    obtain ⟨g1, g2, g3, g4⟩ := hg a s' h2 h3 (h4 a rfl)
    exact ⟨g1, g2, h3.trans g3, g4⟩
  | err e => exact ⟨by simp, h2, h3, fun a ha => by cases ha⟩
  | panic => exact absurd rfl h1

theorem safe_pure_M {α : Type} (a : α) (s : State) (hi : W.I s) {Q : α → State → Prop} (hq : Q a s) :
    Safe W (pure a : M α) s Q :=
  ⟨by simp [pure], hi, Mono.refl _ _, fun b hb => by cases hb; exact hq⟩

/-- a `Call` whose contract is met -/
theorem safe_call (c : Call) (s : State) (hi : W.I s) (hp : c.Pre W.Den s) :
    Safe W c.run s (fun _ _ => True) := by
  obtain ⟨h1, h2, h3⟩ := W.call c s hi hp
  exact ⟨h1, h2, h3, fun _ _ => trivial⟩

/-- hints stay valid along `Mono` as long as the anchor they name is not reassigned -/
theorem hintOK_qname_mono {s s' : State} {n : WName} (h : HintOK W.Den s .qname n)
    (hm : Mono W.Den s s') : HintOK W.Den s' .qname n := by
  intro q hq
  rw [hm.1] at hq
  exact hm.2 q n (h q hq)

/-! ### the same logic for the answer phase, which runs on the writer plus a ghost operation log
    (`PS`); assertions speak about the writer component only -/

/-- running `f` from `s`: no panic, the writer invariant again, anchors monotone, `Q` on success -/
def SafeP {ε α : Type} (f : PS → Out ε α × PS) (s : PS) (Q : α → State → Prop) : Prop :=
  (f s).1 ≠ .panic ∧ W.I (f s).2.w ∧ Mono W.Den s.w (f s).2.w ∧ ∀ a, (f s).1 = .ok a → Q a (f s).2.w

theorem SafeP.weaken {ε α : Type} {f : PS → Out ε α × PS} {s : PS} {Q Q' : α → State → Prop}
    (h : SafeP W f s Q) (hq : ∀ a w', W.I w' → Mono W.Den s.w w' → Q a w' → Q' a w') : SafeP W f s Q' :=
  ⟨h.1, h.2.1, h.2.2.1, fun a ha => hq a _ h.2.1 h.2.2.1 (h.2.2.2 a ha)⟩

theorem safeP_congr {ε α : Type} {f g : PS → Out ε α × PS} {s : PS} {Q : α → State → Prop}
    (h : f s = g s) (hg : SafeP W g s Q) : SafeP W f s Q := by
  unfold SafeP at hg ⊢; rw [h]; exact hg

theorem PM.bind_apply {α β : Type} (x : PM α) (g : α → PM β) (s : PS) :
    (x >>= g) s = match x s with
      | (.ok a, s') => g a s'
      | (.err e, s') => (.err e, s')
      | (.panic, s') => (.panic, s') := rfl

theorem safe_bind_PM {α β : Type} {x : PM α} {g : α → PM β} {s : PS} {Q : α → State → Prop}
    {R : β → State → Prop} (hx : SafeP W x s Q)
    (hg : ∀ a s', W.I s'.w → Mono W.Den s.w s'.w → Q a s'.w → SafeP W (g a) s' R) :
    SafeP W (x >>= g) s R := by
  obtain ⟨h1, h2, h3, h4⟩ := hx
  unfold SafeP
  rw [PM.bind_apply]
  generalize x s = r at h1 h2 h3 h4
  obtain ⟨o, s'⟩ := r
  cases o with
  | ok a =>
    obtain ⟨g1, g2, g3, g4⟩ := hg a s' h2 h3 (h4 a rfl)
    exact ⟨g1, g2, h3.trans g3, g4⟩
  | err e => exact ⟨by simp, h2, h3, fun a ha => by cases ha⟩
  | panic => exact absurd rfl h1

theorem safe_pure_PM {α : Type} (a : α) (s : PS) (hi : W.I s.w) {Q : α → State → Prop} (hq : Q a s.w) :
    SafeP W (pure a : PM α) s Q :=
  ⟨by simp [pure, PM.pure], hi, Mono.refl _ _, fun b hb => by cases hb; exact hq⟩

theorem safe_fail_PM {α : Type} (e : PErr) (s : PS) (hi : W.I s.w) {Q : α → State → Prop} :
    SafeP W (PM.fail e : PM α) s Q :=
  ⟨by simp [PM.fail], hi, Mono.refl _ _, fun b hb => by cases hb⟩

/-- a logged header operation -/
theorem safe_hdrOp (ev : Ev) {m : M Unit} {s : PS} {Q : Unit → State → Prop} (h : Safe W m s.w Q) :
    SafeP W (PM.hdrOp ev m) s (fun _ _ => True) := by
  obtain ⟨h1, h2, h3, _⟩ := h
  unfold SafeP
  dsimp only [PM.hdrOp]
  generalize m s.w = r at h1 h2 h3
  obtain ⟨o, w'⟩ := r
  cases o with
  | ok a => exact ⟨by simp, h2, h3, fun _ _ => trivial⟩
  | err e => exact ⟨by simp, h2, h3, fun _ _ => trivial⟩
  | panic => exact absurd rfl h1

/-- a logged record-adding call: `Some(hv)` when it was made and succeeded, `None` when it was
    optional and did not fit -/
theorem safe_addCall (ev : AddEv) {m : M HV} {s : PS} {Q : HV → State → Prop} (h : Safe W m s.w Q) :
    SafeP W (PM.addCall ev m) s (fun o w' => ∀ hv, o = some hv → Q hv w') := by
  obtain ⟨h1, h2, h3, h4⟩ := h
  unfold SafeP
  dsimp only [PM.addCall]
  generalize m s.w = r at h1 h2 h3 h4
  obtain ⟨o, w'⟩ := r
  cases o with
  | ok a => exact ⟨by simp, h2, h3, fun b hb hv hhv => by cases hb; cases hhv; exact h4 a rfl⟩
  | err e =>
    dsimp only
    split
    · exact ⟨by simp, h2, h3, fun b hb hv hhv => by cases hb; cases hhv⟩
    · exact ⟨by simp, h2, h3, fun b hb => by cases hb⟩
  | panic => exact absurd rfl h1

end QV.ServerSafety
