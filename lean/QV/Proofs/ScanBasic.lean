/-
  QV.Proofs.ScanBasic — the reader-based scan of the server model (`peek_rr`/`skip`, `read_question`,
  `scanAnNs`) agrees with the specification's message-order scan (`specDelimit`, `specQuestionAt`,
  `scanPlain`) on every octet string.

  Built on C14 (`parseCompressed ↔ DecodesName`, `skip_of_parse`), C15 (reader invariant, accessors)
  and `Proofs/NameWireExec` (the executable spec decoder is the RFC relation).
-/
import QV.Model.Server
import QV.Spec.Server
import QV.Proofs.NameWireExec
import QV.Properties.C15

namespace QV.ServerScan
open QV QV.Wire QV.Reader

theorem extract_getElem? (msg : Bytes) (pos o : Nat) :
    (msg.extract pos msg.size)[o]? = msg[pos + o]? := by
  simp [Array.getElem?_extract]
  intro h; omega

theorem specField16_eq (msg : Bytes) (pos : Nat) :
    Spec.specField16 msg pos = if pos + 2 ≤ msg.size then some (be16 msg pos) else none := by
  unfold Spec.specField16
  by_cases h : pos + 2 ≤ msg.size
  · rw [Array.getElem?_eq_getElem (show pos < msg.size by omega), Array.getElem?_eq_getElem (show pos + 1 < msg.size by omega)]
    simp only [h, if_true]
    rw [Reader.be16_eq msg pos (by omega)]
  · simp only [h, if_false]
    by_cases h1 : pos < msg.size
    · rw [Array.getElem?_eq_getElem h1, Array.getElem?_eq_none (show msg.size ≤ pos + 1 by omega)]
    · rw [Array.getElem?_eq_none (show msg.size ≤ pos by omega)]

theorem be32_split (msg : Bytes) (pos : Nat) : be32 msg pos = be16 msg pos * 65536 + be16 msg (pos + 2) := by
  unfold be32 be16
  rw [show pos + 2 + 1 = pos + 3 from rfl]
  omega

theorem specField32_eq (msg : Bytes) (pos : Nat) :
    Spec.specField32 msg pos = if pos + 4 ≤ msg.size then some (be32 msg pos) else none := by
  unfold Spec.specField32
  rw [specField16_eq, specField16_eq]
  by_cases h : pos + 4 ≤ msg.size
  · simp only [h, if_true, show pos + 2 ≤ msg.size by omega, show pos + 2 + 2 ≤ msg.size by omega, be32_split]
  · simp only [h, if_false]
    by_cases h2 : pos + 2 ≤ msg.size
    · simp [h2, show ¬ pos + 2 + 2 ≤ msg.size by omega]
    · simp [h2]

/-- the executable first-chunk skipper of the spec is the model of `Name::skip_compressed` -/
theorem specSkipName_eq (msg : Bytes) (pos : Nat) : ∀ fuel o, 257 ≤ fuel + o →
    Spec.Server.specSkipName msg pos fuel o = (skipAux (msg.extract pos msg.size) o).toOption := by
  have c := Wire.consts
  obtain ⟨c1, c2, c3⟩ := c
  intro fuel
  induction fuel with
  | zero =>
    intro o h
    rw [skipAux]
    simp only [Spec.Server.specSkipName, c1, c2]
    split
    · split
      · simp [show o + 1 > 255 by omega, Out.toOption]
      · split
        · simp [Out.toOption]
        · split
          · simp [show o + 1 > 255 by omega, Out.toOption]
          · rename_i hx _ _ _
            have : ∀ x : Nat, 255 < o + 1 + x := by intro x; omega
            simp [this, Out.toOption]
    · simp [Out.toOption]
  | succ f ih =>
    intro o h
    rw [skipAux]
    unfold Spec.Server.specSkipName
    rw [← extract_getElem?]
    by_cases hlt : o < (msg.extract pos msg.size).size
    · rw [Array.getElem?_eq_getElem hlt]
      simp only [hlt, dite_true, c1, c2]
      generalize (msg.extract pos msg.size)[o] = b
      by_cases hp : isPtr b = true
      · have hp' := (isPtr_iff b).mp hp
        unfold Spec.specIsPtr at hp'
        simp only [hp, hp', if_true]
        by_cases hl : o + 1 ≤ 255
        · simp [hl, show ¬ o + 1 > 255 by omega, Out.toOption]
        · simp [hl, show o + 1 > 255 by omega, Out.toOption]
      · have hp' : ¬ 192 ≤ b.toNat := fun h => hp ((isPtr_iff b).mpr h)
        simp only [hp, hp', if_false, Bool.false_eq_true]
        by_cases h63 : 63 < b.toNat
        · simp [h63, show b.toNat > 63 from h63, Out.toOption]
        · simp only [h63, show ¬ b.toNat > 63 from h63, if_false]
          by_cases h0 : b = 0
          · simp only [h0, if_true]
            by_cases hl : o + 1 ≤ 255
            · simp [hl, show ¬ o + 1 > 255 by omega, Out.toOption]
            · simp [hl, show o + 1 > 255 by omega, Out.toOption]
          · simp only [h0, if_false]
            by_cases hl : o + 1 + b.toNat > 255
            · simp [hl, Out.toOption]
            · simp only [hl, if_false]
              have := toNat_pos_of_ne_zero b h0
              exact ih _ (by omega)
    · rw [Array.getElem?_eq_none (by omega)]
      have hlt' : ¬ o < msg.size - pos := by simpa using hlt
      simp [hlt', Out.toOption]


/-! ### constants of the generated tables, evaluated -/

theorem T_OPT : Server.T "OPT" = 41 := by decide
theorem T_TSIG : Server.T "TSIG" = 250 := by decide
theorem RC_FORMERR : Server.RC "FORMERR" = 1 := by decide
theorem RC_SERVFAIL : Server.RC "SERVFAIL" = 2 := by decide
theorem RC_NOTIMP : Server.RC "NOTIMP" = 4 := by decide
theorem RC_REFUSED : Server.RC "REFUSED" = 5 := by decide
theorem RC_NOERROR : Server.RC "NOERROR" = 0 := by decide
theorem XRC_FORMERR : Server.XRC "FORMERR" = 1 := by decide
theorem XRC_BADVERS : Server.XRC "BADVERSBADSIG" = 16 := by decide
theorem QT_IXFR : Server.QT "IXFR" = 251 := by decide
theorem QT_AXFR : Server.QT "AXFR" = 252 := by decide
theorem QT_MAILB : Server.QT "MAILB" = 253 := by decide
theorem QT_MAILA : Server.QT "MAILA" = 254 := by decide
theorem QC_ANY_eq : Writer.QC_ANY = 255 := by decide

/-! ### delimiting a record -/

/-- `specDelimit` in closed form: the model's first-chunk skipper, then the ten fixed octets and
    RDLENGTH octets inside the message -/
theorem specDelimit_eq (msg : Bytes) (pos : Nat) :
    Spec.Server.specDelimit msg pos =
      match skipAux (msg.extract pos msg.size) 0 with
      | .ok k =>
        if pos + k + 10 ≤ msg.size ∧ pos + k + 10 + be16 msg (pos + k + 8) ≤ msg.size then
          some ⟨pos, pos + k, be16 msg (pos + k), be16 msg (pos + k + 2), be32 msg (pos + k + 4),
                be16 msg (pos + k + 8), pos + k + 10 + be16 msg (pos + k + 8)⟩
        else none
      | _ => none := by
  unfold Spec.Server.specDelimit
  rw [specSkipName_eq msg pos 300 0 (by omega)]
  cases skipAux (msg.extract pos msg.size) 0 with
  | ok k =>
    simp only [Out.toOption, specField16_eq, specField32_eq]
    by_cases h : pos + k + 10 ≤ msg.size
    · simp only [h, true_and, show pos + k + 2 ≤ msg.size by omega, show pos + k + 2 + 2 ≤ msg.size by omega,
        show pos + k + 4 + 4 ≤ msg.size by omega, show pos + k + 8 + 2 ≤ msg.size by omega, if_true]
    · simp only [h, false_and, if_false, show ¬ pos + k + 8 + 2 ≤ msg.size by omega]
      split <;> simp_all
  | err e => simp [Out.toOption]
  | panic => simp [Out.toOption]

/-- `peek_rr` succeeds exactly where the spec can delimit a record, and its accessors return the
    spec's fields -/
theorem peekRr_spec (r : Reader) (hi : Inv r) :
    match Spec.Server.specDelimit r.octets r.cursor with
    | some d => peekRr r = .ok ⟨r, d.ownerEnd, d.next⟩ ∧ d.pos = r.cursor ∧ r.cursor ≤ d.ownerEnd ∧
        d.next = d.ownerEnd + 10 + d.rdlen ∧ d.next ≤ r.octets.size ∧
        d.ty = be16 r.octets d.ownerEnd ∧ d.cls = be16 r.octets (d.ownerEnd + 2) ∧
        d.rawTtl = be32 r.octets (d.ownerEnd + 4) ∧ d.rdlen = be16 r.octets (d.ownerEnd + 8)
    | none => ∃ e, peekRr r = .err e := by
  rw [specDelimit_eq]
  have hc : ¬ r.cursor > r.octets.size := by have := hi.2; omega
  unfold peekRr delimitRr skipAtCursor skipCompressed
  simp only [hc, if_false]
  cases hs : skipAux (r.octets.extract r.cursor r.octets.size) 0 with
  | ok k =>
    simp only
    unfold readU16Get
    by_cases h : r.cursor + k + 10 ≤ r.octets.size
    · simp only [show ¬ r.cursor + k + 8 > r.octets.size by omega, if_false,
        show r.cursor + k + 8 + 2 ≤ r.octets.size by omega, if_true, h, true_and]
      by_cases h2 : r.cursor + k + 10 + be16 r.octets (r.cursor + k + 8) ≤ r.octets.size
      · simp only [h2, if_true, show ¬ r.cursor + k + 10 + be16 r.octets (r.cursor + k + 8) > r.octets.size by omega,
          if_false]
        and_intros <;> first | rfl | trivial | omega
      · simp only [h2, if_false, show r.cursor + k + 10 + be16 r.octets (r.cursor + k + 8) > r.octets.size by omega,
          if_true]
        exact ⟨_, rfl⟩
    · simp only [h, false_and, if_false]
      by_cases h3 : r.cursor + k + 8 > r.octets.size
      · simp only [h3, if_true]; exact ⟨_, rfl⟩
      · simp only [h3, if_false, show ¬ r.cursor + k + 8 + 2 ≤ r.octets.size by omega]; exact ⟨_, rfl⟩
  | err e => exact ⟨_, rfl⟩
  | panic =>
    have := skipAtCursor_no_panic r hi
    unfold skipAtCursor skipCompressed at this
    simp only [hc, if_false] at this
    exact absurd hs this

/-- the accessors of a `PeekRr` whose fixed part lies inside the message -/
theorem peek_accessors (r : Reader) (oe nx : Nat) (h : oe + 10 ≤ nx) (h2 : nx ≤ r.octets.size) :
    (⟨r, oe, nx⟩ : PeekRr).rrType = .ok (be16 r.octets oe) ∧
    (⟨r, oe, nx⟩ : PeekRr).cls = .ok (be16 r.octets (oe + 2)) ∧
    (⟨r, oe, nx⟩ : PeekRr).rawTtl = .ok (be32 r.octets (oe + 4)) ∧
    (⟨r, oe, nx⟩ : PeekRr).ttl = .ok (ttlFrom (be32 r.octets (oe + 4))) ∧
    (⟨r, oe, nx⟩ : PeekRr).rdlength = .ok (be16 r.octets (oe + 8)) := by
  simp only [PeekRr.rrType, PeekRr.cls, PeekRr.rawTtl, PeekRr.ttl, PeekRr.rdlength, sliceBe]
  have e1 : oe + 2 ≤ r.octets.size := by omega
  have e2 : oe + 2 + 2 ≤ r.octets.size := by omega
  have e3 : oe + 4 + 4 ≤ r.octets.size := by omega
  have e4 : oe + 8 + 2 ≤ r.octets.size := by omega
  simp [e1, e2, e3, e4]

/-! ### the question -/

theorem specQuestionAt_eq (msg : Bytes) (pos : Nat) :
    Spec.specQuestionAt msg pos =
      match parseCompressed msg pos with
      | .ok p => if pos + p.len + 4 ≤ msg.size then
          some (p.wire, be16 msg (pos + p.len), be16 msg (pos + p.len + 2), pos + p.len + 4) else none
      | _ => none := by
  unfold Spec.specQuestionAt
  rw [Spec.specDecodeName_eq_parse]
  cases parseCompressed msg pos with
  | ok p =>
    simp only [specField16_eq]
    by_cases h : pos + p.len + 4 ≤ msg.size
    · simp only [h, if_true, show pos + p.len + 2 ≤ msg.size by omega, show pos + p.len + 2 + 2 ≤ msg.size by omega]
    · simp only [h, if_false, show ¬ pos + p.len + 2 + 2 ≤ msg.size by omega]
      split <;> simp_all
  | err e => rfl
  | panic => rfl

/-- `read_question` succeeds exactly where the spec finds a question, with the same fields and the
    same next position; otherwise it fails (never panics) and leaves the reader alone -/
theorem readQuestion_spec (r : Reader) :
    match Spec.specQuestionAt r.octets r.cursor with
    | some (w, t, c, nx) => readQuestion r = (.ok ⟨w, t, c⟩, { r with cursor := nx })
    | none => ∃ e, readQuestion r = (.err e, r) := by
  rw [specQuestionAt_eq]
  unfold readQuestion
  cases hp : parseCompressed r.octets r.cursor with
  | ok p =>
    have hin := parse_inside _ _ _ hp
    simp only
    unfold readU16At
    simp only [show ¬ r.cursor + p.len > r.octets.size by omega, if_false]
    by_cases h : r.cursor + p.len + 4 ≤ r.octets.size
    · simp only [h, if_true, show r.cursor + p.len + 2 ≤ r.octets.size by omega,
        show ¬ r.cursor + p.len + 2 > r.octets.size by omega, if_false,
        show r.cursor + p.len + 2 + 2 ≤ r.octets.size by omega]
    · simp only [h, if_false]
      by_cases h2 : r.cursor + p.len + 2 ≤ r.octets.size
      · simp only [h2, if_true, show ¬ r.cursor + p.len + 2 > r.octets.size by omega, if_false,
          show ¬ r.cursor + p.len + 2 + 2 ≤ r.octets.size by omega]
        exact ⟨_, rfl⟩
      · simp only [h2, if_false]; exact ⟨_, rfl⟩
  | err e => exact ⟨_, rfl⟩
  | panic => exact absurd hp (C14.C14_no_panic _ _)

/-! ### answer + authority sections -/

theorem scanAnNs_spec (msg : Bytes) : ∀ (n : Nat) (r : Reader), Inv r → r.octets = msg →
    match Spec.Server.scanPlain msg n r.cursor with
    | some pos => Server.scanAnNs n r = some { r with cursor := pos } ∧ pos ≤ msg.size ∧ r.cursor ≤ pos
    | none => Server.scanAnNs n r = none := by
  intro n
  induction n with
  | zero =>
    intro r hi ho
    simp only [Spec.Server.scanPlain, Server.scanAnNs]
    have := hi.2
    subst ho
    and_intros <;> first | rfl | trivial | omega
  | succ n ih =>
    intro r hi ho
    subst ho
    simp only [Spec.Server.scanPlain, Server.scanAnNs]
    have hp := peekRr_spec r hi
    cases hd : Spec.Server.specDelimit r.octets r.cursor with
    | none =>
      rw [hd] at hp
      obtain ⟨e, he⟩ := hp
      simp only [he]
    | some d =>
      rw [hd] at hp
      obtain ⟨hpk, hpos, hle, hnx, hsz, hty, hcl, httl, hrl⟩ := hp
      obtain ⟨a1, _, _, _, _⟩ := peek_accessors r d.ownerEnd d.next (by omega) hsz
      simp only [hpk, a1, T_OPT, T_TSIG, ← hty]
      by_cases ht : d.ty = 41 ∨ d.ty = 250
      · simp only [ht, if_true]
      · simp only [ht, if_false]
        have hi' : Inv (PeekRr.skip ⟨r, d.ownerEnd, d.next⟩) := ⟨hi.1, hsz⟩
        have := ih (PeekRr.skip ⟨r, d.ownerEnd, d.next⟩) hi' rfl
        simp only [PeekRr.skip] at this ⊢
        cases hs : Spec.Server.scanPlain r.octets n d.next with
        | none => rw [hs] at this; exact this
        | some pos =>
          rw [hs] at this
          simp only at this ⊢
          exact ⟨this.1, this.2.1, by have := this.2.2; omega⟩

end QV.ServerScan
