/-
  QV.Proofs.WriterCheckSession — `C12_full` for one segment, up to the pointer audit: what
  `Driver.runModel` observes of a session (statuses, what the getters report, finished message,
  MAC) is what `run` / `finish` compute, and `Spec.Message.checkSession` on it is `"ok"` as soon as
  `auditPointers` passes.
-/
import QV.Proofs.WriterSegment

namespace QV.Writer
open QV QV.Wire QV.Spec QV.ServerSafety

/-- what the driver's observer records, for sessions without `clear_rrs` that do not panic -/
theorem go_eq (macFn : Tsig → List UInt8 → List UInt8) : ∀ (ops : List Op) (ss : Session) (acc : List String)
    (pre : List Bytes), (∀ op ∈ ops, op ≠ .clearRrs) → (∀ r ∈ (run ss ops).2, r ≠ .panic) →
    Driver.runModel.go true macFn ss ops acc pre =
      match finish (run ss ops).1.w macFn with
      | .ok (m, mc) => ⟨acc.reverse ++ obs ss ops ++ ["ok"], some m, mc, pre.reverse⟩
      | _ => ⟨acc.reverse ++ obs ss ops ++ ["panic"], none, none, pre.reverse⟩ := by
  intro ops
  induction ops with
  | nil =>
    intro ss acc pre _ _
    simp only [Driver.runModel.go, run, obs, List.append_nil, if_true]
    cases finish ss.w macFn with
    | ok p => obtain ⟨m, mc⟩ := p; simp
    | err e => simp
    | panic => simp
  | cons op ops ih =>
    intro ss acc pre hno hnp
    have h1 := hno op List.mem_cons_self
    have hno' : ∀ op' ∈ ops, op' ≠ .clearRrs := fun o h => hno o (List.mem_cons_of_mem _ h)
    by_cases hg : op = .getters
    · subst hg
      have hstep : step ss .getters = (.ok (), ss) := rfl
      have hgo : Driver.runModel.go true macFn ss (.getters :: ops) acc pre =
          Driver.runModel.go true macFn ss ops (Driver.gettersStr ss.w :: acc) pre := rfl
      rw [hgo]
      unfold run at hnp ⊢
      simp only [hstep] at hnp ⊢
      cases hrun : run ss ops with
      | mk ss'' rs =>
        rw [hrun] at hnp
        have := ih ss (Driver.gettersStr ss.w :: acc) pre hno'
          (by rw [hrun]; exact fun r hr => hnp r (List.mem_cons_of_mem _ hr))
        rw [hrun] at this
        rw [this]
        simp [obs, hstep, List.reverse_cons, List.append_assoc]
    · have hgo : Driver.runModel.go true macFn ss (op :: ops) acc pre =
          match step ss op with
          | (.panic, _) => ⟨(("panic" :: acc).reverse), none, none, pre.reverse⟩
          | (r, ss') => Driver.runModel.go true macFn ss' ops (Driver.statusStr r :: acc) pre := by
        cases op <;> first
          | exact absurd rfl h1
          | exact absurd rfl hg
          | rfl
      rw [hgo, obs_ne ss op ops hg]
      unfold run at hnp ⊢
      cases hs : step ss op with
      | mk r ss' =>
        rw [hs] at hnp
        cases r with
        | panic => exact absurd rfl (hnp _ (by simp))
        | ok u =>
          simp only [] at hnp ⊢
          cases hrun : run ss' ops with
          | mk ss'' rs =>
            rw [hrun] at hnp
            have := ih ss' (Driver.statusStr (.ok u) :: acc) pre hno'
              (by rw [hrun]; exact fun r hr => hnp r (List.mem_cons_of_mem _ hr))
            rw [hrun] at this
            rw [this]
            simp [List.reverse_cons, List.append_assoc]
        | err e =>
          simp only [] at hnp ⊢
          cases hrun : run ss' ops with
          | mk ss'' rs =>
            rw [hrun] at hnp
            have := ih ss' (Driver.statusStr (.err e) :: acc) pre hno'
              (by rw [hrun]; exact fun r hr => hnp r (List.mem_cons_of_mem _ hr))
            rw [hrun] at this
            rw [this]
            simp [List.reverse_cons, List.append_assoc]

theorem statusStr_ne_panic (r : Out WriterErr Unit) (h : r ≠ .panic) : (Driver.statusStr r == "panic") = false := by
  cases r with
  | ok u => cases u; decide
  | err e => cases e <;> decide
  | panic => exact absurd rfl h

theorem g_ne_panic (x : String) : ("g=" ++ x == "panic") = false := by
  have : "g=" ++ x ≠ "panic" := by
    intro h
    have h2 := congrArg String.toList h
    rw [String.toList_append] at h2
    have h3 : ("g=" : String).toList = ['g', '='] := by decide
    have h4 : ("panic" : String).toList = ['p', 'a', 'n', 'i', 'c'] := by decide
    rw [h3, h4] at h2
    simp at h2
  simpa using this

theorem gettersStr_ne_panic (s : State) : (Driver.gettersStr s == "panic") = false := by
  unfold Driver.gettersStr
  simp only [String.append_assoc]
  exact g_ne_panic _

theorem contains_panic_false : ∀ (ops : List Op) (ss : Session), (∀ r ∈ (run ss ops).2, r ≠ .panic) →
    (obs ss ops ++ ["ok"]).contains "panic" = false := by
  intro ops
  induction ops with
  | nil => intro ss _; show (["ok"] : List String).contains "panic" = false; decide
  | cons op ops ih =>
    intro ss hnp
    unfold run at hnp
    have htail : (obs (step ss op).2 ops ++ ["ok"]).contains "panic" = false := by
      apply ih
      cases hs : step ss op with
      | mk r ss' =>
        rw [hs] at hnp
        cases r with
        | panic => exact absurd rfl (hnp _ (by simp))
        | ok u =>
          simp only at hnp ⊢
          cases hrun : run ss' ops with
          | mk ss'' rs => rw [hrun] at hnp; exact fun r hr => hnp r (List.mem_cons_of_mem _ hr)
        | err e =>
          simp only at hnp ⊢
          cases hrun : run ss' ops with
          | mk ss'' rs => rw [hrun] at hnp; exact fun r hr => hnp r (List.mem_cons_of_mem _ hr)
    by_cases hg : op = .getters
    · subst hg
      have hobs : obs ss (.getters :: ops) = Driver.gettersStr ss.w :: obs (step ss .getters).2 ops := rfl
      rw [hobs]
      simp only [List.cons_append, List.contains_cons, Bool.or_eq_false_iff]
      exact ⟨by rw [Bool.beq_comm]; exact gettersStr_ne_panic _, htail⟩
    · rw [obs_ne ss op ops hg]
      simp only [List.cons_append, List.contains_cons, Bool.or_eq_false_iff]
      refine ⟨?_, htail⟩
      rw [Bool.beq_comm]
      apply statusStr_ne_panic
      intro hp
      cases hs : step ss op with
      | mk r ss' =>
        rw [hs] at hnp hp
        simp only at hp
        subst hp
        exact hnp _ (by simp) rfl

/-- the MAC `finish` returns: none for an unsigned TSIG, what the signing function gave otherwise -/
theorem finishTsig_mac {macFn : Tsig → List UInt8 → List UInt8} {ts : Tsig} {s s' : State} {len : Nat}
    {mac : Option (List UInt8)} (h : finishTsig macFn (some ts) s = (.ok (len, mac), s')) :
    (isUnsigned ts.mode = true → mac = none) ∧
    (isUnsigned ts.mode = false → ∃ msg, mac = some (macFn ts msg)) := by
  unfold finishTsig at h
  simp only [M.bind_apply, M.gets_apply] at h
  by_cases hc : s.cursor > s.octets.size
  · rw [if_pos hc] at h; cases h
  rw [if_neg hc] at h
  simp only [] at h
  cases hmode : ts.mode with
  | request a k =>
    rw [hmode] at h
    simp only [] at h
    obtain ⟨e1, _, _⟩ := tsigTail_inv (ts := ts) (mc := some (macFn ts (s.octets.extract 0 s.cursor).toList))
      (by rw [hmode]; exact h)
    exact ⟨(fun hx => by cases hx), fun _ => ⟨_, e1⟩⟩
  | response a m k =>
    rw [hmode] at h
    simp only [] at h
    obtain ⟨e1, _, _⟩ := tsigTail_inv (ts := ts) (mc := some (macFn ts (s.octets.extract 0 s.cursor).toList))
      (by rw [hmode]; exact h)
    exact ⟨(fun hx => by cases hx), fun _ => ⟨_, e1⟩⟩
  | subsequent a m k =>
    rw [hmode] at h
    simp only [] at h
    obtain ⟨e1, _, _⟩ := tsigTail_inv (ts := ts) (mc := some (macFn ts (s.octets.extract 0 s.cursor).toList))
      (by rw [hmode]; exact h)
    exact ⟨(fun hx => by cases hx), fun _ => ⟨_, e1⟩⟩
  | unsigned n =>
    rw [hmode] at h
    simp only [] at h
    obtain ⟨e1, _, _⟩ := tsigTail_inv (ts := ts) (mc := none) (by rw [hmode]; exact h)
    exact ⟨fun _ => e1, (fun hx => by cases hx)⟩

theorem finish_mac_shape (macFn : Tsig → List UInt8 → List UInt8) (s : State) (ts : Tsig) (hts : s.tsig = some ts)
    (m : Bytes) (mac : Option (List UInt8)) (hf : finish s macFn = .ok (m, mac)) :
    (isUnsigned ts.mode = true → mac = none) ∧
    (isUnsigned ts.mode = false → ∃ msg, mac = some (macFn ts msg)) := by
  unfold finish at hf
  cases hw : finishWithMac macFn s with
  | mk r sF =>
    rw [hw] at hf
    cases r with
    | err e => cases hf
    | panic => cases hf
    | ok p =>
      obtain ⟨len, mc⟩ := p
      simp only [Out.ok.injEq, Prod.mk.injEq] at hf
      obtain ⟨_, rfl⟩ := hf
      unfold finishWithMac at hw
      simp only [M.bind_apply, M.gets_apply, hts] at hw
      cases h1 : finishCounts s.qdcount s.ancount s.nscount s.arcount s with
      | mk r1 s1 =>
        rw [h1] at hw
        cases r1 with
        | err e => cases hw
        | panic => cases hw
        | ok u1 =>
          simp only at hw
          cases h2 : finishOpt s.edns s1 with
          | mk r2 s2 =>
            rw [h2] at hw
            cases r2 with
            | err e => cases hw
            | panic => cases hw
            | ok u2 => exact finishTsig_mac hw

/-- **`C12_full` for sessions of one segment, up to the pointer audit.** For every buffer, limit
    (at most 65535), initial mode and every sequence of typed calls without `clear_rrs` that respects
    the hint contract, with a MAC of the size the specification expects (`hsz`: for a signing TSIG mode the MAC given
    has the algorithm's output size): the session observed by
    `Driver.runModel` (status strings, what the getters report, finished message, MAC) passes
    `Spec.Message.checkSession` as soon as the pointer audit `auditPointers` of the decoded message
    passes — every other check of the executable specification (no panic, the message decodes, the
    walk with failure justification and the getters, header, questions and records by item mode,
    OPT, TSIG, size) is proved. -/
theorem checkSession_one_segment (buf : Bytes) (limit : Nat) (mode : CMode) (s : State) (ops : List Op)
    (mac : Option (List UInt8)) (hnew : Writer.new buf limit = .ok s)
    (hr : Respects { w := { s with mode := mode } } ops) (ht : ∀ op ∈ ops, ApiTyped op) (hlim : limit ≤ 65535)
    (hv : ∀ v, Op.setLimit v ∈ ops → v ≤ 65535) (hmac : MacLenOK (fun _ _ => mac.getD []))
    (hno : ∀ op ∈ ops, op ≠ .clearRrs)
    (hsz : ∀ ts, (run { w := { s with mode := mode } } ops).1.w.tsig = some ts → isUnsigned ts.mode = false →
      (mac.getD []).length = (toATsig ts).macLen) :
    ∃ (m : Bytes) (d : Message.Decoded) (aF : Message.AState),
      (Driver.runModel { w := { s with mode := mode } } ops mac true).msg = some m ∧
      Message.specDecodeMsg m = some d ∧
      (Message.auditPointers d aF.itemModes.reverse aF.mode = .ok () →
        Message.checkSession buf.size limit (Driver.toSpecMode mode) (ops.map Driver.toSpecOp)
          (Driver.runModel { w := { s with mode := mode } } ops mac true).statuses
          ((Driver.runModel { w := { s with mode := mode } } ops mac true).pre ++ [m])
          (Driver.runModel { w := { s with mode := mode } } ops mac true).mac = "ok") := by
  have hI0 : I { s with mode := mode } := (safe_setMode mode s (new_i buf limit s hnew)).2
  obtain ⟨hnp, hIR⟩ := run_I { w := { s with mode := mode } } ops hI0 hr
  have hml : ∀ m mc ts, finish (run { w := { s with mode := mode } } ops).1.w (fun _ _ => mac.getD []) = .ok (m, mc) →
      (run { w := { s with mode := mode } } ops).1.w.tsig = some ts → (mc.getD []).length = (toATsig ts).macLen := by
    intro m mc ts hf hts
    obtain ⟨h1, h2⟩ := finish_mac_shape _ _ ts hts m mc hf
    cases hu : isUnsigned ts.mode with
    | true =>
      rw [h1 hu]
      cases hm : ts.mode with
      | unsigned n => simp [toATsig, hm, Message.ATsig.macLen]
      | request a k => rw [hm] at hu; cases hu
      | response a x k => rw [hm] at hu; cases hu
      | subsequent a x k => rw [hm] at hu; cases hu
    | false =>
      obtain ⟨msg, hmc⟩ := h2 hu
      rw [hmc]
      exact hsz ts hts hu
  obtain ⟨m0, mc0, hf0⟩ := finish_ok (fun _ _ => mac.getD []) hmac _ hIR
  have hrun : Driver.runModel { w := { s with mode := mode } } ops mac true =
      ⟨obs { w := { s with mode := mode } } ops ++ ["ok"], some m0, mc0, []⟩ := by
    unfold Driver.runModel
    simp only
    rw [go_eq _ ops _ [] [] hno hnp, hf0]
    simp
  obtain ⟨m, mc, d, aF, hf, hd, hw, _⟩ := segment_reduces_to_audit (fun _ _ => mac.getD []) hmac buf limit s hnew hlim
    mode ops (fun op h => (ht op h).1) (fun op h => (ht op h).2.1) hr hv
    (fun op h => ⟨hno op h, (ht op h).2.2⟩) hml mc0
    (fun m' mc' hf' => by
      rw [hf0] at hf'
      simp only [Out.ok.injEq, Prod.mk.injEq] at hf'
      rw [← hf'.2]
      cases mc0 with
      | none => exact Or.inl rfl
      | some x => exact Or.inr rfl)
  rw [hf0] at hf
  simp only [Out.ok.injEq, Prod.mk.injEq] at hf
  obtain ⟨rfl, rfl⟩ := hf
  refine ⟨m0, d, aF, by rw [hrun], hd, fun haud => ?_⟩
  rw [hrun]
  simp only [List.nil_append]
  unfold Message.checkSession
  simp only [contains_panic_false ops _ hnp, Bool.false_eq_true, if_false, hd, hw, haud]

/-- **`checkSession` accepts every session without `clear_rrs`**: on what the driver's observer
    records from the model — status strings, the finished message, the MAC — the specification's
    judge returns `"ok"`; nothing is assumed about the pointer audit -/
theorem checkSession_no_clear (buf : Bytes) (limit : Nat) (mode : CMode) (s : State) (ops : List Op)
    (mac : Option (List UInt8)) (hnew : Writer.new buf limit = .ok s)
    (hr : Respects { w := { s with mode := mode } } ops) (ht : ∀ op ∈ ops, ApiTyped op) (hlim : limit ≤ 65535)
    (hv : ∀ v, Op.setLimit v ∈ ops → v ≤ 65535) (hmac : MacLenOK (fun _ _ => mac.getD []))
    (hno : ∀ op ∈ ops, op ≠ .clearRrs)
    (hsz : ∀ ts, (run { w := { s with mode := mode } } ops).1.w.tsig = some ts → isUnsigned ts.mode = false →
      (mac.getD []).length = (toATsig ts).macLen) :
    Message.checkSession buf.size limit (Driver.toSpecMode mode) (ops.map Driver.toSpecOp)
      (Driver.runModel { w := { s with mode := mode } } ops mac true).statuses
      ((Driver.runModel { w := { s with mode := mode } } ops mac true).pre ++
        (Driver.runModel { w := { s with mode := mode } } ops mac true).msg.toList)
      (Driver.runModel { w := { s with mode := mode } } ops mac true).mac = "ok" := by
  have hI0 : I { s with mode := mode } := (safe_setMode mode s (new_i buf limit s hnew)).2
  obtain ⟨hnp, hIR⟩ := run_I { w := { s with mode := mode } } ops hI0 hr
  have hml : ∀ m mc ts, finish (run { w := { s with mode := mode } } ops).1.w (fun _ _ => mac.getD []) = .ok (m, mc) →
      (run { w := { s with mode := mode } } ops).1.w.tsig = some ts → (mc.getD []).length = (toATsig ts).macLen := by
    intro m mc ts hf hts
    obtain ⟨h1, h2⟩ := finish_mac_shape _ _ ts hts m mc hf
    cases hu : isUnsigned ts.mode with
    | true =>
      rw [h1 hu]
      cases hm : ts.mode with
      | unsigned n => simp [toATsig, hm, Message.ATsig.macLen]
      | request a k => rw [hm] at hu; cases hu
      | response a x k => rw [hm] at hu; cases hu
      | subsequent a x k => rw [hm] at hu; cases hu
    | false =>
      obtain ⟨msg, hmc⟩ := h2 hu
      rw [hmc]
      exact hsz ts hts hu
  obtain ⟨m0, mc0, hf0⟩ := finish_ok (fun _ _ => mac.getD []) hmac _ hIR
  have hrun : Driver.runModel { w := { s with mode := mode } } ops mac true =
      ⟨obs { w := { s with mode := mode } } ops ++ ["ok"], some m0, mc0, []⟩ := by
    unfold Driver.runModel
    simp only
    rw [go_eq _ ops _ [] [] hno hnp, hf0]
    simp
  obtain ⟨m, mc, d, aF, hf, hd, hw, haud⟩ := segment_reduces_to_audit (fun _ _ => mac.getD []) hmac buf limit s hnew hlim
    mode ops (fun op h => (ht op h).1) (fun op h => (ht op h).2.1) hr hv
    (fun op h => ⟨hno op h, (ht op h).2.2⟩) hml mc0
    (fun m' mc' hf' => by
      rw [hf0] at hf'
      simp only [Out.ok.injEq, Prod.mk.injEq] at hf'
      rw [← hf'.2]
      cases mc0 with
      | none => exact Or.inl rfl
      | some x => exact Or.inr rfl)
  rw [hf0] at hf
  simp only [Out.ok.injEq, Prod.mk.injEq] at hf
  obtain ⟨rfl, rfl⟩ := hf
  rw [hrun]
  simp only [List.nil_append, Option.toList]
  unfold Message.checkSession
  simp only [contains_panic_false ops _ hnp, Bool.false_eq_true, if_false, hd, hw, haud]

end QV.Writer
