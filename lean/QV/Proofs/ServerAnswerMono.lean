/-
  QV.Proofs.ServerAnswerMono — more room does not hurt: a writer operation of the answering phase that,
  in some room, is accepted — or rejected for a reason other than `Truncation` — has exactly the same
  outcome with `d` more octets of room, and leaves the same state (up to the room).  The converse of
  Proofs/ServerAnswerLimit.lean's `Sim`; with it, "rejected with `Truncation` in the big room" implies
  "not accepted in the small room" (C10 row 3, the failure direction of the two-run comparison).
-/
import QV.Proofs.ServerAnswerLimit

namespace QV.ServerAnswer
open QV QV.Writer QV.Server

/-- outcomes other than `Truncation` (and panics) persist when room is added -/
def MonoR {α} (f : M α) : Prop :=
  ∀ (d : Nat) (s : State), match f s with
    | (.ok a, s') => f (lift d s) = (.ok a, lift d s')
    | (.err e, s') => e ≠ .Truncation → f (lift d s) = (.err e, lift d s')
    | (.panic, _) => True

theorem monoR_bind {α β} {f : M α} {g : α → M β} (hf : MonoR f) (hg : ∀ a, MonoR (g a)) : MonoR (f >>= g) := by
  intro d s
  have h1 := hf d s
  simp only [M.bind_apply]
  rcases hfs : f s with ⟨(a | e | _), s1⟩
  · rw [hfs] at h1
    simp only at h1 ⊢
    rw [h1]
    simp only
    exact hg a d s1
  · rw [hfs] at h1
    simp only at h1 ⊢
    intro he
    rw [h1 he]
  · trivial

theorem monoR_pure {α} (a : α) : MonoR (pure a : M α) := fun _ _ => rfl
theorem monoR_fail {α} (e : WriterErr) : MonoR (M.fail e : M α) := fun _ _ _ => rfl
theorem monoR_panic {α} : MonoR (M.panic : M α) := fun _ _ => trivial

theorem monoR_gets {α} (f : State → α) (hf : ∀ d s, f (lift d s) = f s) : MonoR (M.gets f) := by
  intro d s
  simp only [M.gets_apply]
  rw [hf]

theorem monoR_gets_bind {α β} {f : State → α} {g : α → M β} (hf : ∀ d s, f (lift d s) = f s)
    (hg : ∀ a, MonoR (g a)) : MonoR (M.gets f >>= g) := monoR_bind (monoR_gets f hf) hg

theorem monoR_modify (f : State → State) (hc : ∀ d s, f (lift d s) = lift d (f s)) : MonoR (M.modify f) := by
  intro d s
  simp only [M.modify_apply]
  rw [hc]

theorem monoR_tryPush (dd : List UInt8) : MonoR (tryPush dd) := by
  intro d s
  have e1 : (lift d s).available = s.available + d := rfl
  have e2 : (lift d s).cursor = s.cursor := rfl
  have e3 : (lift d s).octets = s.octets := rfl
  unfold tryPush
  simp only [e1, e2, e3]
  by_cases h1 : s.available < s.cursor
  · simp only [h1, if_true]
  · simp only [h1, if_false]
    by_cases h2 : s.available - s.cursor ≥ dd.length
    · simp only [h2, if_true]
      by_cases h3 : s.cursor + dd.length ≤ s.octets.size
      · simp only [h3, if_true]
        rw [if_neg (by omega), if_pos (by omega)]
        rfl
      · simp only [h3, if_false]
    · simp only [h2, if_false]
      intro he; exact absurd rfl he

theorem monoR_write (pos : Nat) (dd : List UInt8) : MonoR (write pos dd) := by
  intro d s
  have e3 : (lift d s).octets = s.octets := rfl
  unfold write
  simp only [e3]
  by_cases h : pos + dd.length ≤ s.octets.size
  · simp only [h, if_true]; rfl
  · simp only [h, if_false]

theorem monoR_hvPush (p : Option Nat) : MonoR (hvPush p) := by
  unfold hvPush
  refine monoR_modify _ (fun d s => ?_)
  show (match s.hv with
    | some v => if v.length < Gen.HINT_POINTER_VEC_SIZE then { lift d s with hv := some (v ++ [p]) } else lift d s
    | none => lift d s) = _
  cases s.hv with
  | none => rfl
  | some v => simp only []; split <;> rfl

theorem monoR_setCtx (c : NameCtx) : MonoR (setCtx c) :=
  monoR_modify _ (fun _ _ => rfl)

theorem monoR_ghostLabels (p : Nat) (l : List Label) (b : Bool) : MonoR (ghostLabels p l b) :=
  monoR_modify _ (fun _ _ => rfl)

theorem monoR_pushPointer (p : Nat) : MonoR (pushPointer p) := by
  unfold pushPointer
  exact monoR_gets_bind (fun _ _ => rfl) fun ev => monoR_bind (monoR_tryPush _) fun _ =>
    monoR_modify _ (fun _ _ => rfl)

theorem monoR_writeUncompressedName (n : WName) : MonoR (writeUncompressedName n) := by
  unfold writeUncompressedName
  exact monoR_gets_bind (fun _ _ => rfl) fun cur => monoR_bind (monoR_tryPush _) fun _ =>
    monoR_bind (monoR_ghostLabels _ _ _) fun _ => monoR_pure _

theorem monoR_writeCompressedUnhintedName (n : WName) : MonoR (writeCompressedUnhintedName n) := by
  unfold writeCompressedUnhintedName
  refine monoR_gets_bind (fun _ _ => rfl) fun dcs => monoR_gets_bind (fun _ _ => rfl) fun cur => ?_
  cases dcs with
  | panic => exact monoR_panic
  | err e => exact monoR_panic
  | ok r =>
    cases r with
    | none => exact monoR_writeUncompressedName n
    | some m =>
      simp only []
      split
      · exact monoR_bind (monoR_pushPointer _) fun _ => monoR_pure _
      · exact monoR_bind (monoR_tryPush _) fun _ => monoR_bind (monoR_ghostLabels _ _ _) fun _ =>
          monoR_bind (monoR_pushPointer _) fun _ => monoR_pure _

theorem monoR_writeUnhintedName (n : WName) : MonoR (writeUnhintedName n) := by
  unfold writeUnhintedName
  refine monoR_gets_bind (fun _ _ => rfl) fun mode => ?_
  split
  · exact monoR_writeCompressedUnhintedName n
  · exact monoR_writeUncompressedName n

theorem monoR_pushHinted (p : Prior) : MonoR (pushHinted p) := by
  unfold pushHinted
  exact monoR_bind (monoR_pushPointer _) fun _ => monoR_pure _

theorem monoR_writeHintedName (h : Hint) (n : WName) : MonoR (writeHintedName h n) := by
  unfold writeHintedName
  refine monoR_gets_bind (fun _ _ => rfl) fun mode => ?_
  split
  · exact monoR_writeUncompressedName n
  · split
    · exact monoR_writeCompressedUnhintedName n
    · cases h with
      | qname =>
        refine monoR_gets_bind (fun _ _ => rfl) fun q => ?_
        cases q with
        | some q => exact monoR_pushHinted q
        | none => exact monoR_writeCompressedUnhintedName n
      | mostRecentOwner =>
        refine monoR_gets_bind (fun _ _ => rfl) fun q => ?_
        cases q with
        | some q => exact monoR_pushHinted q
        | none => exact monoR_writeCompressedUnhintedName n
      | mostRecentNameInRdata =>
        refine monoR_gets_bind (fun _ _ => rfl) fun q => ?_
        cases q with
        | some q => exact monoR_pushHinted q
        | none => exact monoR_writeCompressedUnhintedName n
      | explicit p =>
        refine monoR_gets_bind (fun _ _ => rfl) fun cur => ?_
        split
        · exact monoR_pushHinted _
        · exact monoR_writeCompressedUnhintedName n
      | none => exact monoR_writeCompressedUnhintedName n

theorem monoR_writeComponents (ts : List CompType) (rd : List UInt8) : MonoR (writeComponents ts rd) := by
  induction ts generalizing rd with
  | nil =>
    unfold writeComponents
    split
    · exact monoR_pure _
    · exact monoR_tryPush _
  | cons t ts ih =>
    cases t with
    | compressibleName =>
      unfold writeComponents
      cases WName.parse rd with
      | none => exact monoR_fail _
      | some p =>
        obtain ⟨n, rest⟩ := p
        exact monoR_bind (monoR_setCtx _) fun _ => monoR_bind (monoR_writeUnhintedName n) fun p =>
          monoR_bind (monoR_setCtx _) fun _ =>
          monoR_bind (monoR_modify _ (fun _ _ => rfl)) fun _ =>
          monoR_bind (monoR_hvPush _) fun _ => ih rest
    | uncompressibleName =>
      unfold writeComponents
      cases WName.parse rd with
      | none => exact monoR_fail _
      | some p =>
        obtain ⟨n, rest⟩ := p
        exact monoR_bind (monoR_setCtx _) fun _ => monoR_bind (monoR_writeUncompressedName n) fun p =>
          monoR_bind (monoR_setCtx _) fun _ =>
          monoR_bind (monoR_modify _ (fun _ _ => rfl)) fun _ =>
          monoR_bind (monoR_hvPush _) fun _ => ih rest
    | fixedLen k =>
      unfold writeComponents
      split
      · exact monoR_fail _
      · exact monoR_bind (monoR_tryPush _) fun _ => ih _

theorem monoR_writeRdata (cls ty : Nat) (rd : List UInt8) : MonoR (writeRdata cls ty rd) := by
  unfold writeRdata
  cases componentTypes cls ty with
  | none => exact monoR_panic
  | some ts => exact monoR_writeComponents ts rd

theorem monoR_rrTail (cls ty : Nat) (rd : List UInt8) (st : Nat) : MonoR (rrTail cls ty rd st) := by
  unfold rrTail
  refine monoR_bind (monoR_modify _ (fun _ _ => rfl)) fun _ =>
    monoR_bind (monoR_writeRdata cls ty rd) fun _ => monoR_gets_bind (fun _ _ => rfl) fun cur' => ?_
  split
  · exact monoR_panic
  · exact monoR_write _ _


theorem monoR_rrCheck (cls ty : Nat) (rd : List UInt8) : MonoR (rrCheck cls ty rd) := by
  intro d s
  have hT := monoR_rrTail cls ty rd s.cursor d s
  unfold rrCheck
  simp only [M.bind_apply, M.gets_apply]
  have e1 : (lift d s).available = s.available + d := rfl
  have e2 : (lift d s).cursor = s.cursor := rfl
  rw [e1, e2]
  by_cases h1 : s.available < s.cursor
  · simp only [h1, if_true]
    exact trivial
  · simp only [h1, if_false]
    by_cases h2 : s.available - s.cursor < 2
    · simp only [h2, if_true]
      show WriterErr.Truncation ≠ .Truncation → _
      intro he; exact absurd rfl he
    · simp only [h2, if_false]
      rw [if_neg (by omega), if_neg (by omega)]
      exact hT

theorem monoR_addRr (hint : Hint) (owner : WName) (ty cls ttl : Nat) (rd : List UInt8) :
    MonoR (addRr hint owner ty cls ttl rd) := by
  rw [addRr_eq]
  exact monoR_bind (monoR_setCtx _) fun _ => monoR_bind (monoR_writeHintedName hint owner) fun p =>
    monoR_bind (monoR_setCtx _) fun _ =>
    monoR_bind (monoR_modify _ (fun _ _ => rfl)) fun _ =>
    monoR_bind (monoR_tryPush _) fun _ => monoR_bind (monoR_tryPush _) fun _ =>
    monoR_bind (monoR_tryPush _) fun _ => monoR_rrCheck cls ty rd

theorem monoR_addRrset (owner : WName) (ty cls ttl : Nat) :
    ∀ (rds : List (List UInt8)) (hint : Hint) (n : Nat), MonoR (addRrset hint owner ty cls ttl rds n) := by
  intro rds
  induction rds with
  | nil => intro hint n; unfold addRrset; exact monoR_pure _
  | cons rd rest ih =>
    intro hint n
    unfold addRrset
    exact monoR_bind (monoR_addRr hint owner ty cls ttl rd) fun _ => ih _ _

theorem monoR_changeSection (sec : RrSection) : MonoR (changeSection sec) := by
  intro d s
  unfold changeSection
  have hs : (lift d s).sect = s.sect := rfl
  rw [hs]
  cases sec <;> cases hsec : s.sect <;> simp only [] <;> first | rfl | (intro _; rfl) | trivial

theorem monoR_setCount (sec : RrSection) (n : Nat) : MonoR (setCount sec n) := by
  unfold setCount
  refine monoR_modify _ (fun d s => ?_)
  cases sec <;> rfl

theorem monoR_withRollback {α} {f : M α} (hf : MonoR f) : MonoR (withRollback f) := by
  intro d s
  have h := hf d s
  rw [withRollback_apply, withRollback_apply]
  rcases hfs : f s with ⟨(a | e | _), s1⟩
  · rw [hfs] at h
    simp only at h ⊢
    rw [h]
  · rw [hfs] at h
    simp only at h ⊢
    intro he
    rw [h he]
    rfl
  · trivial

/-- **`add_*_rrset`: accepted, or rejected for a reason other than `Truncation`, in some room ⇒ the
    same with more room** -/
theorem monoR_addRrsetOp (sec : RrSection) (hint : Hint) (owner : WName) (ty cls ttl : Nat)
    (rds : List (List UInt8)) : MonoR (addRrsetOp sec hint owner ty cls ttl rds) := by
  unfold addRrsetOp
  refine monoR_withRollback (monoR_bind (monoR_changeSection sec) fun _ =>
    monoR_bind (monoR_addRrset owner ty cls (ttlFrom ttl) rds hint 0) fun n =>
    monoR_gets_bind (fun d s => getCount_lift sec d s) fun c => ?_)
  split
  · exact monoR_fail _
  · split
    · exact monoR_fail _
    · exact monoR_setCount _ _

theorem monoR_addRrOp (sec : RrSection) (hint : Hint) (owner : WName) (ty cls ttl : Nat)
    (rd : List UInt8) : MonoR (addRrOp sec hint owner ty cls ttl rd) := by
  unfold addRrOp
  refine monoR_withRollback (monoR_bind (monoR_changeSection sec) fun _ =>
    monoR_bind (monoR_addRr hint owner ty cls (ttlFrom ttl) rd) fun _ =>
    monoR_gets_bind (fun d s => getCount_lift sec d s) fun c => ?_)
  split
  · exact monoR_fail _
  · exact monoR_setCount _ _

/-- **the failure direction, call level**: a call rejected with `Truncation` in the bigger room is not
    accepted in the smaller one, nor rejected there for another reason -/
theorem addRrsetOp_trunc_down (sec : RrSection) (hint : Hint) (owner : WName) (ty cls ttl : Nat)
    (rds : List (List UInt8)) (d : Nat) (s t : State)
    (h : addRrsetOp sec hint owner ty cls ttl rds (lift d s) = (.err .Truncation, t)) :
    (∃ s', addRrsetOp sec hint owner ty cls ttl rds s = (.err .Truncation, s')) ∨
    (addRrsetOp sec hint owner ty cls ttl rds s).1 = .panic := by
  have hm := monoR_addRrsetOp sec hint owner ty cls ttl rds d s
  rcases hr : addRrsetOp sec hint owner ty cls ttl rds s with ⟨(u | e | _), s'⟩
  · rw [hr] at hm; simp only at hm; rw [hm] at h; cases h
  · rw [hr] at hm
    simp only at hm
    by_cases he : e = .Truncation
    · subst he; exact Or.inl ⟨s', rfl⟩
    · rw [hm he] at h; cases h; exact absurd rfl he
  · exact Or.inr rfl

end QV.ServerAnswer
