/-
  QV.Proofs.QuestionOctets — a QNAME that is not compressed decodes to its own octets, and its
  first-chunk length is its length. Used for C03's "the response repeats the question
  octet-for-octet".
-/
import QV.Proofs.ServerProps

namespace QV.ServerScan
open QV QV.Spec

/-- the first octet of a decoded name is a label length (≤ 63), never a pointer -/
theorem decodes_head {msg : Bytes} {pos cs : Nat} {w : List UInt8} {n k : Nat}
    (hd : Decodes msg pos cs w n k) : ∃ x rest, w = x :: rest ∧ x.toNat ≤ 63 := by
  induction hd with
  | null h h0 => exact ⟨0, [], rfl, by decide⟩
  | @label pos cs w n k h h0 h63 hin rest ih =>
    rw [chunk_cons msg pos _ h hin]
    exact ⟨msg[pos], _, rfl, h63⟩
  | ptr h hp hb rest ih => exact ih

theorem extract_split (msg : Bytes) (a b c : Nat) (h1 : a ≤ b) (h2 : b ≤ c) :
    (msg.extract a c).toList = (msg.extract a b).toList ++ (msg.extract b c).toList := by
  simp only [← Array.toList_append]
  congr 1
  rw [Array.extract_append_extract]
  congr 1 <;> omega

/-- if the octets at `pos` are literally the decoded name, no pointer was followed: the name
    occupies exactly its own length -/
theorem decodes_literal_len {msg : Bytes} {pos cs : Nat} {w : List UInt8} {n k : Nat}
    (hd : Decodes msg pos cs w n k) (hl : (msg.extract pos (pos + w.length)).toList = w) : k = w.length := by
  induction hd with
  | null h h0 => rfl
  | @label pos cs w n k h h0 h63 hin rest ih =>
    have hcl : (msg.extract pos (pos + msg[pos].toNat + 1)).toList.length = msg[pos].toNat + 1 := by
      simp; omega
    rw [List.length_append, hcl] at hl ⊢
    -- the message is long enough: both sides of `hl` have the same length
    have hlen := congrArg List.length hl
    simp only [Array.length_toList, Array.size_extract, List.length_append, hcl] at hlen
    rw [extract_split msg pos (pos + msg[pos].toNat + 1) _ (by omega) (by omega)] at hl
    have := List.append_inj_right hl (by rw [hcl])
    have e : pos + (msg[pos].toNat + 1 + w.length) = pos + msg[pos].toNat + 1 + w.length := by omega
    rw [e] at this
    have := ih this
    omega
  | @ptr pos cs w n k h hp hb rest ih =>
    obtain ⟨x, r, hw, hx⟩ := decodes_head rest
    exfalso
    have hlt : pos < msg.size := by omega
    have h0 : (msg.extract pos (pos + w.length)).toList[0]? = some (msg[pos]'hlt) := by
      rw [Array.getElem?_toList, Array.getElem?_extract]
      have : 0 < min (pos + w.length) msg.size - pos := by rw [hw]; simp; omega
      simp [this, hlt]
    rw [hl, hw] at h0
    simp at h0
    unfold specIsPtr at hp
    rw [← h0] at hp
    omega

/-- **C03, octet for octet.** If the request's QNAME is not compressed — the octets at offset 12
    are the decoded QNAME itself — then the question the spec decodes, re-encoded, *is* the
    request's question section: QNAME, QTYPE and QCLASS octet for octet. -/
theorem question_octets_eq_request (req : Bytes) (w : List UInt8) (t c nx : Nat)
    (hq : specQuestionAt req 12 = some (w, t, c, nx))
    (hlit : (req.extract 12 (12 + w.length)).toList = w) :
    w ++ u16be t ++ u16be c = (req.extract 12 (12 + w.length + 4)).toList := by
  rw [specQuestionAt_eq] at hq
  cases hp : Wire.parseCompressed req 12 with
  | ok p =>
    rw [hp] at hq
    simp only at hq
    by_cases hle : 12 + p.len + 4 ≤ req.size
    · simp only [hle, if_true, Option.some.injEq, Prod.mk.injEq] at hq
      obtain ⟨h1, h2, h3, _⟩ := hq
      subst h1 h2 h3
      obtain ⟨hd, _⟩ := (C14.C14_parse_ok_iff req 12 p).mp hp
      have hk := decodes_literal_len hd hlit
      rw [hk] at hle ⊢
      rw [extract_split req 12 (12 + p.wire.length) _ (by omega) (by omega), hlit]
      rw [extract_split req (12 + p.wire.length) (12 + p.wire.length + 2) _ (by omega) (by omega)]
      rw [List.append_assoc]
      congr 1
      have f16 : ∀ a, a + 2 ≤ req.size → u16be (be16 req a) = (req.extract a (a + 2)).toList := by
        intro a ha
        unfold be16
        rw [u16be_hdr]
        apply List.ext_getElem
        · simp; omega
        · intro i h1 h2
          have : i = 0 ∨ i = 1 := by simp at h1; omega
          rcases this with rfl | rfl
          · simp [Array.getD, show a < req.size by omega]
          · simp [Array.getD, show a + 1 < req.size by omega]
      rw [f16 _ (by omega), f16 _ (by omega)]
    · simp only [hle, if_false] at hq; cases hq
  | err e => rw [hp] at hq; cases hq
  | panic => rw [hp] at hq; cases hq

end QV.ServerScan
