/-
  QV.Proofs.WriterShape — the structural layout invariant of the writer in every compression mode
  (`SLay`): below the cursor the buffer is the header, then QDCOUNT question items, then — as long
  as the message is at most 65535 octets — exactly as many record items as the section counts say
  (minus the reserved OPT/TSIG), each with an RDLENGTH field that leads to the next one.
-/
import QV.Proofs.WriterItems
import QV.Proofs.WriterPhys
import QV.Proofs.WriterHeader
import QV.Proofs.WriterLayout
import QV.Proofs.WriterSect

namespace QV.Writer
open QV QV.Wire QV.Spec

structure RIt where
  a : Nat
  k : Nat
  rdlen : Nat

/-- question items from `p` to `e` -/
def QChain (s : State) : List (Nat × Nat) → Nat → Nat → Prop
  | [], p, e => p = e
  | (a, k) :: r, p, e => a = p ∧ Item s a k ∧ QChain s r (a + k + 4) e

/-- record items from `p` to `e` -/
def RChain (s : State) : List RIt → Nat → Nat → Prop
  | [], p, e => p = e
  | it :: r, p, e => it.a = p ∧ Item s it.a it.k ∧ be16 s.octets (it.a + it.k + 8) = it.rdlen ∧
      RChain s r (it.a + it.k + 10 + it.rdlen) e

theorem qchain_le {s : State} : ∀ {qs : List (Nat × Nat)} {p e : Nat}, QChain s qs p e → p ≤ e := by
  intro qs
  induction qs with
  | nil => intro p e h; exact Nat.le_of_eq h
  | cons x r ih =>
    intro p e h
    obtain ⟨a, k⟩ := x
    obtain ⟨h1, _, h3⟩ := h
    have := ih h3; omega

theorem rchain_le {s : State} : ∀ {rs : List RIt} {p e : Nat}, RChain s rs p e → p ≤ e := by
  intro rs
  induction rs with
  | nil => intro p e h; exact Nat.le_of_eq h
  | cons x r ih =>
    intro p e h
    obtain ⟨h1, _, _, h3⟩ := h
    have := ih h3; omega

theorem qchain_move {s s' : State} {e : Nat} (hit : ∀ a k, a + k + 4 ≤ e → Item s a k → Item s' a k) :
    ∀ {qs : List (Nat × Nat)} {p : Nat}, QChain s qs p e → QChain s' qs p e := by
  intro qs
  induction qs with
  | nil => intro p h; exact h
  | cons x r ih =>
    intro p h
    obtain ⟨a, k⟩ := x
    obtain ⟨h1, h2, h3⟩ := h
    exact ⟨h1, hit a k (qchain_le h3) h2, ih h3⟩

theorem rchain_move {s s' : State} {e lo : Nat}
    (hit : ∀ a k, lo ≤ a → a + k + 10 ≤ e → Item s a k → Item s' a k)
    (hb : ∀ i, lo ≤ i → i + 2 ≤ e → be16 s'.octets i = be16 s.octets i) :
    ∀ {rs : List RIt} {p : Nat}, lo ≤ p → RChain s rs p e → RChain s' rs p e := by
  intro rs
  induction rs with
  | nil => intro p _ h; exact h
  | cons x r ih =>
    intro p hp h
    obtain ⟨h1, h2, h3, h4⟩ := h
    have := rchain_le h4
    exact ⟨h1, hit _ _ (by omega) (by omega) h2, by rw [hb _ (by omega) (by omega)]; exact h3,
      ih (by omega) h4⟩

theorem qchain_snoc {s : State} {a k : Nat} : ∀ {qs : List (Nat × Nat)} {p : Nat}, QChain s qs p a →
    Item s a k → QChain s (qs ++ [(a, k)]) p (a + k + 4) := by
  intro qs
  induction qs with
  | nil => intro p h hi; exact ⟨h.symm, hi, rfl⟩
  | cons x r ih =>
    intro p h hi
    obtain ⟨a', k'⟩ := x
    obtain ⟨h1, h2, h3⟩ := h
    exact ⟨h1, h2, ih h3 hi⟩

theorem rchain_append {s : State} {m : Nat} : ∀ {rs rs2 : List RIt} {p e : Nat}, RChain s rs p m →
    RChain s rs2 m e → RChain s (rs ++ rs2) p e := by
  intro rs
  induction rs with
  | nil => intro rs2 p e h h2; rw [h]; exact h2
  | cons x r ih =>
    intro rs2 p e h h2
    obtain ⟨h1, hi, hb, h3⟩ := h
    exact ⟨h1, hi, hb, ih h3 h2⟩

/-- the records `finish` will still append -/
def pend (s : State) : Nat := (if s.edns.isSome then 1 else 0) + (if s.tsig.isSome then 1 else 0)

/-- **the structural layout invariant** -/
structure SLay (s : State) : Prop where
  q : ∃ qs, QChain s qs 12 s.rrStart ∧ qs.length = s.qdcount
  r : s.cursor ≤ 65535 → ∃ rs, RChain s rs s.rrStart s.cursor ∧
    rs.length + pend s = s.ancount + s.nscount + s.arcount
  sq : s.sect = .question → s.cursor = s.rrStart

theorem be16_congr {o o' : Bytes} {i : Nat} (h0 : o'[i]? = o[i]?) (h1 : o'[i+1]? = o[i+1]?) :
    be16 o' i = be16 o i := by
  unfold be16
  rw [getD_of_getElem? h0, getD_of_getElem? h1]

/-- the layout only depends on the octets from 12 up to the cursor, the cursor, `rr_start`, the
    recorded label starts, the counts and the section -/
theorem slay_congr {s s' : State} (h : SLay s) (hw : WInv s) (hrr : s.rrStart ≤ s.cursor)
    (hpre : ∀ i, 12 ≤ i → i < s.cursor → s'.octets[i]? = s.octets[i]?)
    (hc : s'.cursor = s.cursor) (hr : s'.rrStart = s.rrStart)
    (hg : ∀ g ∈ s.gLabels, g ∈ s'.gLabels)
    (hqd : s'.qdcount = s.qdcount) (hcnt : s'.ancount + s'.nscount + s'.arcount = s.ancount + s.nscount + s.arcount)
    (hp : pend s' = pend s) (hs : s'.sect = s.sect) : SLay s' := by
  have hit : ∀ a k, a + k ≤ s.cursor → Item s a k → Item s' a k := fun a k hk it =>
    item_move (lo := 12) it hw.g12 (fun i h1 h2 => hpre i h1 (by omega)) (by rw [hc]; exact hk)
      (fun g hgm _ => hg g hgm)
  refine ⟨?_, ?_, by rw [hs, hc, hr]; exact h.sq⟩
  · obtain ⟨qs, h1, h2⟩ := h.q
    refine ⟨qs, ?_, by rw [hqd]; exact h2⟩
    rw [hr]
    exact qchain_move (fun a k hk it => hit a k (by omega) it) h1
  · intro hle
    rw [hc] at hle
    obtain ⟨rs, h1, h2⟩ := h.r hle
    refine ⟨rs, ?_, by rw [hp, hcnt]; exact h2⟩
    rw [hr, hc]
    have h12 : 12 ≤ s.rrStart := by
      obtain ⟨qs, hq, _⟩ := h.q
      exact qchain_le hq
    refine rchain_move (lo := 12) (fun a k _ hk it => hit a k (by omega) it) ?_ h12 h1
    intro i hi hle2
    exact be16_congr (hpre i hi (by omega)) (hpre (i + 1) (by omega) (by omega))


/-! ### records -/

/-- one record as a chain link (when the message stays within 65535 octets) -/
theorem rchain_one {s s' : State} {k : Nat} (hit : Item s' s.cursor k) (hlen : s.cursor + k + 10 ≤ s'.cursor)
    (hb : be16 s'.octets (s.cursor + k + 8) = (s'.cursor - (s.cursor + k + 10)) % 65536)
    (hle : s'.cursor ≤ 65535) :
    RChain s' [⟨s.cursor, k, s'.cursor - (s.cursor + k + 10)⟩] s.cursor s'.cursor := by
  refine ⟨rfl, hit, ?_, ?_⟩
  · show be16 s'.octets (s.cursor + k + 8) = _
    rw [hb, Nat.mod_eq_of_lt (by omega)]
  · show s.cursor + k + 10 + (s'.cursor - (s.cursor + k + 10)) = s'.cursor
    omega

/-- a chain of an extension of the state -/
theorem rchain_ext {s s' : State} (e : Ext s s') {rs : List RIt} {p : Nat}
    (h : RChain s rs p s.cursor) : RChain s' rs p s.cursor :=
  rchain_move (lo := 0) (fun _ _ _ _ it => item_ext it e)
    (fun i _ hi => be16_congr (e.pre i (by omega)) (e.pre (i + 1) (by omega))) (Nat.zero_le _) h

/-- **an RRset, structurally**: one item per RDATA -/
theorem addRrset_items {track : Prop} {s0 : State} (owner : WName) (ty cls ttl : Nat) (hwf : owner.WF) :
    ∀ (rds : List (List UInt8)) (hint : Hint) (n : Nat) (names : List WName) (on0 : Option WName)
      (s s' : State) (cnt : Nat),
      (∃ loc o, RecSt track s0 s names loc o on0 ∧ HintOK s hint owner) →
      addRrset hint owner ty cls ttl rds n s = (.ok cnt, s') → s'.cursor ≤ 65535 →
      ∃ its, RChain s' its s.cursor s'.cursor ∧ its.length = rds.length := by
  intro rds
  induction rds with
  | nil =>
    intro hint n names on0 s s' cnt _ h _
    simp only [addRrset, M.pure_apply] at h
    cases h
    exact ⟨[], rfl, rfl⟩
  | cons rd rds ih =>
    intro hint n names on0 s s' cnt ⟨loc, o, hrec, hh⟩ h hle
    unfold addRrset at h
    obtain ⟨_, s1, h1, h2⟩ := M.bind_ok_inv h
    obtain ⟨_, hok⟩ := sp_addRr (track := track) (s0 := s0) (names := names) hint owner ty cls ttl rd hwf s
      ⟨loc, o, on0, hrec, hh⟩
    obtain ⟨p, hrec1⟩ := hok () s1 h1
    obtain ⟨k, hit, hlen, hb, _, _, _⟩ := addRr_item hint owner ty cls ttl rd s s1 hrec.winv hwf hh h1
    have e2 : Ext s1 s' := by
      have := frame_addRrset .mostRecentOwner owner ty cls ttl rds (n + 1) s1
      rw [h2] at this; exact this
    have hle1 : s1.cursor ≤ 65535 := by have := e2.cur; omega
    obtain ⟨its, hch, hl⟩ := ih .mostRecentOwner (n + 1) (names ++ rdataNames cls ty rd) (some owner) s1 s' cnt
      ⟨_, p, hrec1, recSt_ownerHint hrec1⟩ h2 hle
    have h1c := rchain_ext e2 (rchain_one hit hlen hb hle1)
    exact ⟨_ :: its, rchain_append h1c hch, by simp [hl]⟩


theorem item_fields {s s' : State} {a k : Nat} (h : Item s a k) (ho : s'.octets = s.octets)
    (hc : s'.cursor = s.cursor) (hg : s'.gLabels = s.gLabels) : Item s' a k := by
  unfold Item at h ⊢
  rw [ho, hc, hg]; exact h

/-- records appended to a laid-out message -/
theorem slay_add_records {s s1 s' : State} {n : Nat} (h : SLay s) (e : Ext s s1)
    (hch : s1.cursor ≤ 65535 → ∃ its, RChain s1 its s.cursor s1.cursor ∧ its.length = n)
    (ho : s'.octets = s1.octets) (hc : s'.cursor = s1.cursor) (hg : s'.gLabels = s1.gLabels)
    (hr : s'.rrStart = s1.rrStart) (hqd : s'.qdcount = s1.qdcount)
    (hcnt : s'.ancount + s'.nscount + s'.arcount = s1.ancount + s1.nscount + s1.arcount + n)
    (hp : pend s' = pend s1) (hs : s'.sect ≠ .question) : SLay s' := by
  have hp1 : pend s1 = pend s := by unfold pend; rw [e.edns, e.tsig]
  refine ⟨?_, ?_, fun hq => absurd hq hs⟩
  · obtain ⟨qs, h1, h2⟩ := h.q
    refine ⟨qs, ?_, by rw [hqd, e.qd]; exact h2⟩
    rw [hr, e.rrStart]
    exact qchain_move (fun a k _ it => item_fields (item_ext it e) ho hc hg) h1
  · intro hle
    rw [hc] at hle
    have hle0 : s.cursor ≤ 65535 := by have := e.cur; omega
    obtain ⟨rs, h1, h2⟩ := h.r hle0
    obtain ⟨its, h3, h4⟩ := hch hle
    refine ⟨rs ++ its, ?_, ?_⟩
    · rw [hr, hc, e.rrStart]
      have hall := rchain_append (rchain_ext e h1) h3
      exact rchain_move (lo := 0) (fun a k _ _ it => item_fields it ho hc hg)
        (fun i _ _ => by rw [ho]) (Nat.zero_le _) hall
    · rw [List.length_append, hp, hp1, hcnt, e.an, e.ns, e.ar, ← h4]; omega

theorem pend_setCount (sec : RrSection) (n : Nat) (s : State) : pend (setCount sec n s).2 = pend s := by
  cases sec <;> rfl

/-- **`add_*_rr` keeps the layout** -/
theorem slay_addRrOp (sec : RrSection) (hint : Hint) (owner : WName) (ty cls ttl : Nat) (rd : List UInt8)
    (s s' : State) (hI : I s) (h : SLay s) (hwf : owner.WF) (hh : HintOK s hint owner)
    (hok : addRrOp sec hint owner ty cls ttl rd s = (.ok (), s')) : SLay s' := by
  obtain ⟨s1, s2, h1, h2, _, hs'⟩ := addRrOp_ok_inv sec hint owner ty cls ttl rd s s' hok
  obtain ⟨c1, c2, c3, c4, c5, c6, c7⟩ := changeSection_spec sec s
  have hfr1 := frame_changeSection sec s
  rw [h1] at hfr1 c2 c3 c4 c5 c6 c7
  simp only at hfr1 c2 c3 c4 c5 c6 c7
  have w1 : WInv s1 := winv_ext hI.winv hfr1 c7 c3 c4 c5
  have hh1 : HintOK s1 hint owner := hintOK_ext hh hfr1 c3 c4 c5 c6
  obtain ⟨k, hit, hlen, hb, _, _, _⟩ := addRr_item hint owner ty cls (ttlFrom ttl) rd s1 s2 w1 hwf hh1 h2
  have e2 : Ext s1 s2 := by
    have := frame_addRr hint owner ty cls (ttlFrom ttl) rd s1
    rw [h2] at this; exact this
  have e := Ext.trans hfr1 e2
  have hsect : s2.sect = toSect sec := by
    have := (changeSection_ok_inv sec s s1 h1).1
    have hk := keepsSect_addRr hint owner ty cls (ttlFrom ttl) rd s1
    rw [h2] at hk
    rw [hk, this]
  refine slay_add_records (n := 1) h e ?_ (by rw [hs']; cases sec <;> rfl) (by rw [hs']; cases sec <;> rfl)
    (by rw [hs']; cases sec <;> rfl) (by rw [hs']; cases sec <;> rfl) (by rw [hs']; cases sec <;> rfl)
    ?_ (by rw [hs']; exact pend_setCount _ _ _) ?_
  · intro hle
    have := rchain_one (s := s1) hit hlen hb hle
    rw [c6] at this
    exact ⟨_, this, rfl⟩
  · rw [hs']; cases sec <;> simp only [setCount, M.modify_apply, getCount] <;> omega
  · rw [hs']
    have : (setCount sec (getCount sec s2 + 1) s2).2.sect = s2.sect := by cases sec <;> rfl
    rw [this, hsect]; cases sec <;> simp [toSect]


/-- **`add_*_rrset` keeps the layout** -/
theorem slay_addRrsetOp (sec : RrSection) (hint : Hint) (owner : WName) (ty cls ttl : Nat)
    (rds : List (List UInt8)) (s s' : State) (hI : I s) (h : SLay s) (hwf : owner.WF)
    (hh : HintOK s hint owner)
    (hok : addRrsetOp sec hint owner ty cls ttl rds s = (.ok (), s')) : SLay s' := by
  obtain ⟨s1, s2, n, h1, h2, _, hs'⟩ := addRrsetOp_ok_inv sec hint owner ty cls ttl rds s s' hok
  obtain ⟨c1, c2, c3, c4, c5, c6, c7⟩ := changeSection_spec sec s
  have hfr1 := frame_changeSection sec s
  have hgp := changeSection_gPtrs sec s
  rw [h1] at hfr1 c2 c3 c4 c5 c6 c7 hgp
  simp only at hfr1 c2 c3 c4 c5 c6 c7 hgp
  have w1 : WInv s1 := winv_ext hI.winv hfr1 c7 c3 c4 c5
  have hh1 : HintOK s1 hint owner := hintOK_ext hh hfr1 c3 c4 c5 c6
  have r0 := recSt_init hI.winv hI.log
  have hr1 : RecSt (s.hv = some []) s s1 [] [] s.mostRecentOwner none :=
    recSt_step r0 hfr1 w1 c2 c5 c4 c3 hgp
  have hn := addRrset_count owner ty cls (ttlFrom ttl) rds hint 0 s1 s2 n h2
  have e2 : Ext s1 s2 := by
    have := frame_addRrset hint owner ty cls (ttlFrom ttl) rds 0 s1
    rw [h2] at this; exact this
  have e := Ext.trans hfr1 e2
  have hsect : s2.sect = toSect sec := by
    have := (changeSection_ok_inv sec s s1 h1).1
    have hk := keepsSect_addRrset owner ty cls (ttlFrom ttl) rds hint 0 s1
    rw [h2] at hk
    rw [hk, this]
  refine slay_add_records (n := n) h e ?_ (by rw [hs']; cases sec <;> rfl) (by rw [hs']; cases sec <;> rfl)
    (by rw [hs']; cases sec <;> rfl) (by rw [hs']; cases sec <;> rfl) (by rw [hs']; cases sec <;> rfl)
    ?_ (by rw [hs']; exact pend_setCount _ _ _) ?_
  · intro hle
    obtain ⟨its, hch, hl⟩ := addRrset_items (track := s.hv = some []) (s0 := s) owner ty cls (ttlFrom ttl) hwf rds
      hint 0 [] none s1 s2 n ⟨[], _, hr1, hh1⟩ h2 hle
    rw [c6] at hch
    exact ⟨its, hch, by rw [hl, hn]; omega⟩
  · rw [hs']; cases sec <;> simp only [setCount, M.modify_apply, getCount] <;> omega
  · rw [hs']
    have : (setCount sec (getCount sec s2 + n) s2).2.sect = s2.sect := by cases sec <;> rfl
    rw [this, hsect]; cases sec <;> simp [toSect]

/-! ### the question -/

/-- the question, structurally: a name item at the old cursor, then four octets -/
theorem addQuestionBody_item (qn : WName) (qt qc : Nat) (s s' : State) (hw : WInv s) (hwf : qn.WF)
    (h : addQuestionBody qn qt qc s = (.ok (), s')) :
    ∃ k, Item s' s.cursor k ∧ s'.cursor = s.cursor + k + 4 ∧ NameIs s' s.cursor s.mode qn ∧
      BytesAt s'.octets (s.cursor + k) (u16be qt ++ u16be qc) ∧
      (∀ g, g ∈ s'.gLabels → g ∈ s.gLabels ∨ PhysLab s'.octets s.cursor g) := by
  unfold addQuestionBody at h
  obtain ⟨_, sA, hA, h⟩ := M.bind_ok_inv h
  obtain ⟨p, sB, hB, h⟩ := M.bind_ok_inv h
  obtain ⟨_, sC, hC, h⟩ := M.bind_ok_inv h
  obtain ⟨_, sD, hD, h⟩ := M.bind_ok_inv h
  obtain ⟨_, sE, hE, hF⟩ := M.bind_ok_inv h
  simp only [setCtx, M.modify_apply, Prod.mk.injEq, true_and] at hA hC hD
  subst hA
  have e1 := ext_setCtx s .qname
  have wA : WInv { s with gCtx := .qname } := winv_ext hw e1 rfl rfl rfl rfl
  have hs := writeUnhintedName_spec qn _ wA hwf
  have hf := frame_writeUnhintedName qn { s with gCtx := .qname }
  rw [hB] at hs hf
  obtain ⟨_, _, _, _, _, ⟨ls, hrd, hmtB⟩, hck, hprovB, hdisB⟩ := hs.ok p rfl
  have hcurB : s.cursor ≤ sB.cursor := hf.cur
  simp only at hck hrd hcurB hmtB hprovB hdisB
  have itB : Item sB s.cursor (sB.cursor - s.cursor) := item_of_reads hrd hck (by omega)
  have nmB : NameIs sB s.cursor s.mode qn := nameIs_of_reads hrd hmtB
    (fun hm => rootEndB_of_wire hwf (hdisB hm).1 (by have := (hdisB hm).2; omega))
  unfold tryPushU16 at hE hF
  obtain ⟨eE, zE⟩ := tryPush_ok_inv hE
  obtain ⟨eF, zF⟩ := tryPush_ok_inv hF
  have hl2 : ∀ x, (u16be x).length = 2 := fun _ => rfl
  have cC : sC.cursor = sB.cursor := by rw [← hC]
  have oC : sC.octets = sB.octets := by rw [← hC]
  have gC : sC.gLabels = sB.gLabels := by rw [← hC]
  have cD : sD.cursor = sB.cursor := by rw [← hD]; split <;> exact cC
  have oD : sD.octets = sB.octets := by rw [← hD]; split <;> exact oC
  have gD : sD.gLabels = sB.gLabels := by rw [← hD]; split <;> exact gC
  have cE : sE.cursor = sB.cursor + 2 := by rw [eE]; simp [pushed, hl2, cD]
  have cF : s'.cursor = sB.cursor + 4 := by rw [eF]; simp [pushed, hl2, cE]
  have preF : ∀ i, i < sB.cursor → s'.octets[i]? = sB.octets[i]? := by
    intro i hi
    rw [eF, pushed_get_lt _ _ _ (by omega), eE, pushed_get_lt _ _ _ (by omega), oD]
  have gF : ∀ g ∈ sB.gLabels, g ∈ s'.gLabels := by
    intro g hg
    rw [eF, eE]
    show g ∈ sD.gLabels
    rw [gD]; exact hg
  have gF' : s'.gLabels = sB.gLabels := by rw [eF, eE]; exact gD
  refine ⟨sB.cursor - s.cursor, ?_, by omega, ?_, ?_, ?prov⟩
  case prov =>
    intro g hg
    rw [gF'] at hg
    rcases hprovB g hg with h1 | h1
    · exact Or.inl h1
    · exact Or.inr (physLab_frame hck h1 (fun i _ h2 => preF i (by omega)))
  · exact item_move (lo := 0) itB (fun _ _ => Nat.zero_le _) (fun i _ hi => preF i (by omega)) (by omega)
      (fun g hg _ => gF g hg)
  · exact nameIs_frame (lo := 0) nmB (fun _ _ => Nat.zero_le _) (fun i _ hi => preF i hi) (by omega) gF
  · rw [show s.cursor + (sB.cursor - s.cursor) = sB.cursor by omega]
    have tqt : BytesAt s'.octets sB.cursor (u16be qt) := by
      intro i hi
      rw [hl2] at hi
      rw [eF, pushed_get_lt _ _ _ (by omega), eE]
      have := bytesAt_writeAt sD.octets sD.cursor (u16be qt) zE i (by rw [hl2]; exact hi)
      show (writeAt sD.octets sD.cursor (u16be qt))[sB.cursor + i]? = _
      rw [cD] at this ⊢
      exact this
    have tqc : BytesAt s'.octets (sB.cursor + 2) (u16be qc) := by
      intro i hi
      rw [hl2] at hi
      rw [eF]
      have := bytesAt_writeAt sE.octets sE.cursor (u16be qc) zF i (by rw [hl2]; exact hi)
      show (writeAt sE.octets sE.cursor (u16be qc))[sB.cursor + 2 + i]? = _
      rw [cE] at this ⊢
      exact this
    exact bytesAt_append_intro tqt (by rw [hl2]; exact tqc)

/-- **`add_question` keeps the layout** -/
theorem slay_addQuestion (qn : WName) (qt qc : Nat) (s s' : State) (hI : I s) (h : SLay s) (hwf : qn.WF)
    (hok : addQuestion qn qt qc s = (.ok (), s')) : SLay s' := by
  obtain ⟨s3, hsq, hb, hs'⟩ := addQuestion_ok_inv qn qt qc s s' hok
  obtain ⟨k, hit, hcur, _, _⟩ := addQuestionBody_item qn qt qc s s3 hI.winv hwf hb
  have e : Ext s s3 := by
    have := frame_addQuestionBody qn qt qc s
    rw [hb] at this; exact this
  have hcr := h.sq hsq
  have hk := keepsSect_addQuestionBody qn qt qc s
  rw [hb] at hk
  simp only at hk
  have hit' : ∀ a k, Item s3 a k → Item s' a k := fun a k it => item_fields it (by rw [hs']) (by rw [hs']) (by rw [hs'])
  refine ⟨?_, ?_, ?_⟩
  · obtain ⟨qs, h1, h2⟩ := h.q
    refine ⟨qs ++ [(s.cursor, k)], ?_, ?_⟩
    · have hq3 : QChain s3 qs 12 s.cursor := by
        rw [hcr]; exact qchain_move (fun a k _ it => item_ext it e) h1
      have := qchain_snoc hq3 hit
      have hrs : s'.rrStart = s.cursor + k + 4 := by rw [hs']; exact hcur
      rw [hrs]
      exact qchain_move (fun a k _ it => hit' a k it) this
    · rw [hs']; show _ = s3.qdcount + 1; rw [e.qd, List.length_append, h2]; rfl
  · intro hle
    refine ⟨[], ?_, ?_⟩
    · rw [hs']; exact rfl
    · have hle0 : s.cursor ≤ 65535 := by
        rw [hs'] at hle
        have : s.cursor ≤ s3.cursor := e.cur
        have hle' : s3.cursor ≤ 65535 := hle
        omega
      obtain ⟨rs, hr1, hr2⟩ := h.r hle0
      have hnil : rs = [] := by
        cases rs with
        | nil => rfl
        | cons x r =>
          obtain ⟨hx1, hx2, _, hx4⟩ := hr1
          have := rchain_le hx4
          have := hx2.2.2
          omega
      subst hnil
      have hp : pend s' = pend s := by rw [hs']; unfold pend; show _ = _; rw [e.edns, e.tsig]
      rw [hp, hs']
      show _ = s3.ancount + s3.nscount + s3.arcount
      rw [e.an, e.ns, e.ar]; exact hr2
  · intro _; rw [hs']


/-! ### the calls that do not write names -/

theorem pend_of_isSome {s s' : State} (he : s'.edns.isSome = s.edns.isSome) (ht : s'.tsig.isSome = s.tsig.isSome) :
    pend s' = pend s := by
  unfold pend; rw [he, ht]

theorem slay_hdrOnly {s s' : State} (h : SLay s) (hI : I s) (k : HdrOnly s s') : SLay s' :=
  slay_congr h hI.winv hI.inv.rr_hi (fun i hi _ => k.pre i hi) k.cursor k.rrStart
    (fun g hg => by rw [k.gl]; exact hg) k.qd (by rw [k.an, k.ns, k.ar]) (pend_of_isSome k.edns k.tsig) k.sect

theorem slay_same {s s' : State} (h : SLay s) (hI : I s) (e : Same s s') : SLay s' :=
  slay_congr h hI.winv hI.inv.rr_hi (fun i _ hi => e.pre i hi) e.cursor e.rrStart
    (fun g hg => by rw [e.gLabels]; exact hg) e.qd (by rw [e.an, e.ns, e.ar])
    (by unfold pend; rw [e.edns, e.tsig]) e.sect

/-- only the bookkeeping of the counts changed -/
theorem slay_counts {s s' : State} (h : SLay s) (ho : s'.octets = s.octets) (hc : s'.cursor = s.cursor)
    (hg : s'.gLabels = s.gLabels) (hr : s'.rrStart = s.rrStart) (hqd : s'.qdcount = s.qdcount)
    (hs : s'.sect = s.sect) {d : Nat} (hp : pend s' = pend s + d)
    (hcnt : s'.ancount + s'.nscount + s'.arcount = s.ancount + s.nscount + s.arcount + d) : SLay s' := by
  refine ⟨?_, ?_, by rw [hs, hc, hr]; exact h.sq⟩
  · obtain ⟨qs, h1, h2⟩ := h.q
    exact ⟨qs, by rw [hr]; exact qchain_move (fun a k _ it => item_fields it ho hc hg) h1, by rw [hqd]; exact h2⟩
  · intro hle
    rw [hc] at hle
    obtain ⟨rs, h1, h2⟩ := h.r hle
    refine ⟨rs, ?_, by rw [hp, hcnt]; omega⟩
    rw [hr, hc]
    exact rchain_move (lo := 0) (fun a k _ _ it => item_fields it ho hc hg) (fun i _ _ => by rw [ho])
      (Nat.zero_le _) h1

theorem slay_setEdns (p : Nat) (s : State) (h : SLay s) (hI : I s) : SLay (setEdns p s).2 := by
  unfold setEdns
  repeat' split
  all_goals first
    | exact h
    | skip
  rename_i h1 h2 h3
  have hn : s.edns = none := by cases he : s.edns <;> simp_all
  refine slay_counts (d := 1) h rfl rfl rfl rfl rfl rfl ?_ ?_
  · unfold pend; simp [hn]; omega
  · show s.ancount + s.nscount + (s.arcount + 1) = _; omega

theorem slay_setTsig (m : TsigMode) (rr : TsigRr) (s : State) (h : SLay s) (hI : I s) :
    SLay (setTsig m rr s).2 := by
  unfold setTsig
  repeat' split
  all_goals first
    | exact h
    | skip
  rename_i h1 h2 h3
  have hn : s.tsig = none := by cases he : s.tsig <;> simp_all
  refine slay_counts (d := 1) h rfl rfl rfl rfl rfl rfl ?_ ?_
  · unfold pend; simp [hn]
  · show s.ancount + s.nscount + (s.arcount + 1) = _; omega

theorem slay_clearRrs (s : State) (h : SLay s) (hI : I s) : SLay (clearRrs s).2 := by
  simp only [clearRrs, M.modify_apply]
  have hrr := hI.inv.rr_hi
  refine ⟨?_, ?_, fun _ => rfl⟩
  · obtain ⟨qs, h1, h2⟩ := h.q
    refine ⟨qs, ?_, h2⟩
    show QChain _ qs 12 s.rrStart
    refine qchain_move (e := s.rrStart) (fun a k hk it => ?_) h1
    refine item_move (lo := 0) it (fun _ _ => Nat.zero_le _) (fun _ _ _ => rfl) (by show a + k ≤ s.rrStart; omega) ?_
    intro g hg hga
    show g ∈ s.gLabels.filter (· < s.rrStart)
    simp only [List.mem_filter, decide_eq_true_eq]
    exact ⟨hg, by omega⟩
  · intro _
    refine ⟨[], rfl, ?_⟩
    show 0 + pend _ = 0 + 0 + _
    unfold pend
    simp

theorem slay_new (buf : Bytes) (limit : Nat) (s : State) (h : Writer.new buf limit = .ok s) : SLay s := by
  unfold Writer.new at h
  dsimp only at h
  split at h
  · cases h
  · have hs := Out.ok.inj h
    have h1 : s.rrStart = 12 := by rw [← hs]; rfl
    have h2 : s.cursor = 12 := by rw [← hs]; rfl
    have h3 : s.qdcount = 0 ∧ s.ancount = 0 ∧ s.nscount = 0 ∧ s.arcount = 0 ∧ s.edns = none ∧ s.tsig = none := by
      rw [← hs]; exact ⟨rfl, rfl, rfl, rfl, rfl, rfl⟩
    refine ⟨⟨[], by rw [h1]; rfl, by rw [h3.1]; rfl⟩, fun _ => ⟨[], by rw [h1, h2]; rfl, ?_⟩, fun _ => by rw [h1, h2]⟩
    unfold pend
    rw [h3.2.1, h3.2.2.1, h3.2.2.2.1, h3.2.2.2.2.1, h3.2.2.2.2.2]
    rfl

end QV.Writer
