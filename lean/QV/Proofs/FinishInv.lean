/-
  QV.Proofs.FinishInv — `finish` read backwards: whenever `finish` succeeds on a writer whose TSIG
  slot is empty, the finished message is the writer's content with the four counts filled in,
  followed — exactly when the EDNS slot is set — by the eleven octets of the OPT record.

  (`finish_plain`/`finish_edns` in WriterView need room hypotheses; here the room is *derived* from
  the success of `finish`, so the statement applies to the writer state after any answering phase.)
-/
import QV.Proofs.WriterView

namespace QV.Writer
open QV

theorem bind_ok_inv {α β} {x : M α} {f : α → M β} {s s'' : State} {b : β}
    (h : (x >>= f) s = (.ok b, s'')) : ∃ a s', x s = (.ok a, s') ∧ f a s' = (.ok b, s'') := by
  rw [bind_apply] at h
  rcases hx : x s with ⟨(a | e | _), s'⟩
  · rw [hx] at h; exact ⟨a, s', rfl, h⟩
  · rw [hx] at h; cases h
  · rw [hx] at h; cases h

theorem write_inv {pos : Nat} {data : List UInt8} {s s' : State} {u : Unit}
    (h : write pos data s = (.ok u, s')) :
    pos + data.length ≤ s.octets.size ∧ s' = { s with octets := writeAt s.octets pos data } := by
  unfold write at h
  split at h
  · rename_i hc
    simp only [Prod.mk.injEq, Out.ok.injEq] at h
    exact ⟨hc, h.2.symm⟩
  · cases h

/-- a successful `try_push` had room, below the limit and in the buffer -/
theorem tryPush_inv {data : List UInt8} {s s' : State} {u : Unit} (h : tryPush data s = (.ok u, s')) :
    s.cursor + data.length ≤ s.available ∧ s.cursor + data.length ≤ s.octets.size ∧
    s'.cursor = s.cursor + data.length ∧ s'.available = s.available ∧ s'.octets.size = s.octets.size := by
  have hroom : s.cursor + data.length ≤ s.available ∧ s.cursor + data.length ≤ s.octets.size := by
    rw [tryPush_v0] at h; unfold V0.tryPush at h
    split at h
    · cases h
    · split at h
      · rcases hw : write s.cursor data s with ⟨(a | e | _), s1⟩
        · have := (write_inv hw).1
          omega
        · rw [hw] at h; cases h
        · rw [hw] at h; cases h
      · cases h
  rw [tryPush_ok _ _ hroom.1 hroom.2] at h
  simp only [Prod.mk.injEq, Out.ok.injEq] at h
  refine ⟨hroom.1, hroom.2, ?_, ?_, ?_⟩
  · rw [← h.2]
  · rw [← h.2]
  · rw [← h.2]; simp only [writeAt_size]

/-- a successful `add_rr` of a root-owned record without RDATA had room for its eleven octets -/
theorem addRr_root_room {ty cls ttl : Nat} {s0 s' : State} {u : Unit} (hty : componentTypes cls ty = some [])
    (h : addRr .none WName.root ty cls ttl [] s0 = (.ok u, s')) :
    s0.cursor + 11 ≤ s0.available ∧ s0.cursor + 11 ≤ s0.octets.size := by
  rw [addRr_v0] at h; unfold V0.addRr at h
  obtain ⟨_, s1, h1, h⟩ := bind_ok_inv h
  have e1 : s1.cursor = s0.cursor ∧ s1.available = s0.available ∧ s1.octets.size = s0.octets.size ∧
      s1.mode = s0.mode := by
    cases h1; exact ⟨rfl, rfl, rfl, rfl⟩
  obtain ⟨p, s2, h2, h⟩ := bind_ok_inv h
  have e2 : s1.cursor + 1 ≤ s1.available ∧ s1.cursor + 1 ≤ s1.octets.size ∧
      s2.cursor = s1.cursor + 1 ∧ s2.available = s1.available ∧ s2.octets.size = s1.octets.size := by
    rw [writeHintedName_v0] at h2; unfold V0.writeHintedName at h2
    rw [if_pos (Or.inr (by rw [root_wire]; decide))] at h2
    rw [writeUncompressedName_v0] at h2; unfold V0.writeUncompressedName at h2
    rcases ht : tryPush WName.root.wire s1 with ⟨(a | e | _), sx⟩
    · rw [ht] at h2
      obtain ⟨r1, r2, r3, r4, r5⟩ := tryPush_inv ht
      rw [root_wire] at r1 r2 r3
      simp only [ghostLabels, modify_apply, Prod.mk.injEq, Out.ok.injEq] at h2
      refine ⟨r1, r2, ?_, ?_, ?_⟩
      · rw [← h2.2]; exact r3
      · rw [← h2.2]; exact r4
      · rw [← h2.2]; exact r5
    · rw [ht] at h2; cases h2
    · rw [ht] at h2; cases h2
  obtain ⟨_, s3, h3, h⟩ := bind_ok_inv h
  have e3 : s3.cursor = s2.cursor ∧ s3.available = s2.available ∧ s3.octets.size = s2.octets.size := by
    cases h3; exact ⟨rfl, rfl, rfl⟩
  obtain ⟨_, s4, h4, h⟩ := bind_ok_inv h
  have e4 : s4.cursor = s3.cursor ∧ s4.available = s3.available ∧ s4.octets.size = s3.octets.size := by
    cases h4; exact ⟨rfl, rfl, rfl⟩
  obtain ⟨_, s5, h5, h⟩ := bind_ok_inv h
  have e5 := tryPush_inv h5
  obtain ⟨_, s6, h6, h⟩ := bind_ok_inv h
  have e6 := tryPush_inv h6
  obtain ⟨_, s7, h7, h⟩ := bind_ok_inv h
  have e7 := tryPush_inv h7
  rw [u16be_length] at e5 e6
  rw [u32be_length] at e7
  rw [bind_ok (get_apply _)] at h
  split at h
  · cases h
  · split at h
    · cases h
    · rename_i ha hb
      obtain ⟨_, s8, h8, h⟩ := bind_ok_inv h
      have e8 : s8.cursor = s7.cursor + 2 ∧ s8.octets.size = s7.octets.size := by
        cases h8; exact ⟨rfl, rfl⟩
      rw [show V0.componentTypes cls ty = [] by simp [V0.componentTypes, hty]] at h
      obtain ⟨_, s9, h9, h⟩ := bind_ok_inv h
      have e9 : s9 = s8 := by cases h9; rfl
      rw [bind_ok (get_apply _)] at h
      split at h
      · cases h
      · have e10 := (write_inv h).1
        rw [u16be_length, e9, e8.2] at e10
        omega

theorem unwrap_ok_inv {α} {m : M α} {s s' : State} {a : α} (h : unwrap m s = (.ok a, s')) :
    m s = (.ok a, s') := by
  unfold unwrap at h
  rcases hm : m s with ⟨(x | e | _), s1⟩
  · rw [hm] at h; exact h
  · rw [hm] at h; cases h
  · rw [hm] at h; cases h

theorem optRecord_length' (e : Edns) : (optRecord e).length = 11 := by
  simp [optRecord, u16be, u32be]

/-- `finishEdns_k` with the room stated at the cursor -/
theorem finishEdns_k' (s4 : State) (e : Edns) (h1 : s4.cursor ≤ s4.available)
    (h2 : s4.cursor + 11 ≤ s4.octets.size) :
    ∃ s1, (∀ {β} (k : M β), (do
        M.modify fun s => { s with available := s.available + Gen.OPT_RECORD_SIZE }
        unwrap (addRr .none WName.root T_OPT e.payload ((e.upper * 16777216) % 4294967296) [])
        k) s4 = k s1) ∧
      s1.octets = writeAt s4.octets s4.cursor (optRecord e) ∧ s1.cursor = s4.cursor + 11 := by
  have hty : componentTypes e.payload T_OPT = some [] := by rw [T_OPT_eq]; exact componentTypes_opt41 _
  obtain ⟨s1, hadd, hoct, hcur1⟩ := addRr_root_empty T_OPT e.payload ((e.upper * 16777216) % 4294967296)
    { s4 with available := s4.available + Gen.OPT_RECORD_SIZE } hty
    (by show s4.cursor + 11 ≤ s4.available + 11; omega) (by show s4.cursor + 11 ≤ s4.octets.size; omega)
  refine ⟨s1, ?_, ?_, hcur1⟩
  · intro β k
    rw [bind_ok (modify_apply _ _)]
    have hun : unwrap (addRr .none WName.root T_OPT e.payload ((e.upper * 16777216) % 4294967296) [])
        { s4 with available := s4.available + Gen.OPT_RECORD_SIZE } = (.ok (), s1) := by
      unfold unwrap; rw [hadd]
    rw [bind_ok hun]
  · rw [hoct, T_OPT_eq]; rfl

/-- `finish` read backwards, for a writer without a pending TSIG record -/
theorem finish_inv (s : State) (macFn : Tsig → List UInt8 → List UInt8) (ht : s.tsig = none)
    (hsz : 12 ≤ s.octets.size) (b : Bytes) (mac : Option (List UInt8)) (h : finish s macFn = .ok (b, mac)) :
    mac = none ∧
    (match s.edns with
     | none => b = (withCounts s).extract 0 s.cursor
     | some e => b = (writeAt (withCounts s) s.cursor (optRecord e)).extract 0 (s.cursor + 11)) := by
  cases he : s.edns with
  | none =>
    rw [finish_plain s macFn ht he hsz] at h
    simp only [Out.ok.injEq, Prod.mk.injEq] at h
    exact ⟨h.2.symm, h.1.symm⟩
  | some e =>
    simp only
    have hroom : s.cursor ≤ s.available ∧ s.cursor + 11 ≤ s.octets.size := by
      unfold finish at h; rw [finishWithMac_v0] at h; unfold V0.finishWithMac at h
      have c : Gen.QDCOUNT_START = 4 ∧ Gen.ANCOUNT_START = 6 ∧ Gen.NSCOUNT_START = 8 ∧ Gen.ARCOUNT_START = 10 :=
        ⟨rfl, rfl, rfl, rfl⟩
      obtain ⟨c1, c2, c3, c4⟩ := c
      rw [bind_ok (get_apply _)] at h
      simp only [he, ht] at h
      rw [c1, c2, c3, c4] at h
      rw [writeCounts_k s _ hsz] at h
      split at h
      · rename_i len mac' s' heq
        obtain ⟨_, s1, h1, heq⟩ := bind_ok_inv heq
        obtain ⟨_, s2, h2, heq⟩ := bind_ok_inv heq
        have hr := addRr_root_room (by rw [T_OPT_eq]; exact componentTypes_opt41 _) (unwrap_ok_inv h2)
        rw [modify_apply] at h1
        simp only [Prod.mk.injEq] at h1
        rw [← h1.2] at hr
        have : Gen.OPT_RECORD_SIZE = 11 := rfl
        have hz : (withCounts s).size = s.octets.size := by simp only [withCounts, writeAt_size]
        simp only [this, hz] at hr
        omega
      · cases h
      · cases h
    have hz : ({ s with octets := withCounts s } : State).octets.size = s.octets.size := by
      simp only [withCounts, writeAt_size]
    obtain ⟨s1, hk, ho, hc⟩ := finishEdns_k' { s with octets := withCounts s } e hroom.1
      (by rw [hz]; exact hroom.2)
    unfold finish at h; rw [finishWithMac_v0] at h; unfold V0.finishWithMac at h
    have c : Gen.QDCOUNT_START = 4 ∧ Gen.ANCOUNT_START = 6 ∧ Gen.NSCOUNT_START = 8 ∧ Gen.ARCOUNT_START = 10 :=
      ⟨rfl, rfl, rfl, rfl⟩
    obtain ⟨c1, c2, c3, c4⟩ := c
    rw [bind_ok (get_apply _)] at h
    simp only [he, ht] at h
    rw [c1, c2, c3, c4] at h
    rw [writeCounts_k s _ hsz] at h
    rw [hk] at h
    rw [bind_ok (get_apply _), pure_apply] at h
    simp only [ho, hc, Out.ok.injEq, Prod.mk.injEq] at h
    exact ⟨h.2.symm, h.1.symm⟩

/-- the OPT record `finish` appends: owner root, TYPE 41, CLASS = the payload size, a TTL whose
    version and flag octets are 0, RDLENGTH 0 -/
theorem optRecord_shape (e : Edns) :
    optRecord e = [0] ++ u16be 41 ++ u16be e.payload ++ [UInt8.ofNat e.upper, 0, 0, 0] ++ u16be 0 := by
  have a1 : e.upper * 16777216 % 4294967296 / 16777216 % 256 = e.upper % 256 := by omega
  have a2 : e.upper * 16777216 % 4294967296 / 65536 % 256 = 0 := by omega
  have a3 : e.upper * 16777216 % 4294967296 / 256 % 256 = 0 := by omega
  have a4 : e.upper * 16777216 % 4294967296 % 256 = 0 := by omega
  have a5 : UInt8.ofNat (e.upper % 256) = UInt8.ofNat e.upper := by
    apply UInt8.toNat_inj.mp
    simp [UInt8.toNat_ofNat]
  unfold optRecord u32be
  rw [a1, a2, a3, a4, a5]
  rfl

theorem extract_writeAt_tail (a : Bytes) (pos : Nat) (d : List UInt8) (h : pos + d.length ≤ a.size) :
    ((writeAt a pos d).extract 0 (pos + d.length)).size = pos + d.length ∧
    ((writeAt a pos d).extract 0 (pos + d.length)).toList.drop pos = d := by
  have hs : ((writeAt a pos d).extract 0 (pos + d.length)).size = pos + d.length := by
    rw [Array.size_extract, writeAt_size]; omega
  refine ⟨hs, ?_⟩
  apply List.ext_getElem?
  intro i
  rw [List.getElem?_drop, Array.getElem?_toList, Array.getElem?_extract, writeAt_getElem?]
  simp only [writeAt_size, Nat.zero_add, Nat.sub_zero]
  rw [Nat.min_eq_left h]
  by_cases hi : i < d.length
  · rw [if_pos (by omega), if_pos ⟨by omega, by omega, by omega⟩]
    congr 1; omega
  · rw [if_neg (by omega)]
    exact (List.getElem?_eq_none (by omega)).symm

/-- **what `finish` appends** when no TSIG is pending and the EDNS slot is set: the message ends
    with the eleven octets of the OPT record; when the slot is empty, nothing is appended -/
theorem finish_inv_tail (s : State) (macFn : Tsig → List UInt8 → List UInt8) (ht : s.tsig = none)
    (hsz : 12 ≤ s.octets.size) (b : Bytes) (mac : Option (List UInt8)) (h : finish s macFn = .ok (b, mac)) :
    mac = none ∧
    (match s.edns with
     | none => b = (withCounts s).extract 0 s.cursor
     | some e => b.size = s.cursor + 11 ∧ b.toList.drop s.cursor = optRecord e ∧
        ∀ i, i < s.cursor → b[i]? = (withCounts s)[i]?) := by
  obtain ⟨hm, hb⟩ := finish_inv s macFn ht hsz b mac h
  refine ⟨hm, ?_⟩
  cases he : s.edns with
  | none => rw [he] at hb; exact hb
  | some e =>
    rw [he] at hb
    simp only at hb ⊢
    -- room, again from the success of `finish`
    have hroom : s.cursor + 11 ≤ s.octets.size := by
      by_cases hc : s.cursor + 11 ≤ s.octets.size
      · exact hc
      · exfalso
        unfold finish at h; rw [finishWithMac_v0] at h; unfold V0.finishWithMac at h
        rw [bind_ok (get_apply _)] at h
        simp only [he, ht] at h
        rw [show Gen.QDCOUNT_START = 4 from rfl, show Gen.ANCOUNT_START = 6 from rfl,
          show Gen.NSCOUNT_START = 8 from rfl, show Gen.ARCOUNT_START = 10 from rfl] at h
        rw [writeCounts_k s _ hsz] at h
        split at h
        · rename_i len mac' s' heq
          obtain ⟨_, s1, h1, heq⟩ := bind_ok_inv heq
          obtain ⟨_, s2, h2, heq⟩ := bind_ok_inv heq
          have hr := addRr_root_room (by rw [T_OPT_eq]; exact componentTypes_opt41 _) (unwrap_ok_inv h2)
          rw [modify_apply] at h1
          simp only [Prod.mk.injEq] at h1
          rw [← h1.2] at hr
          have hz : (withCounts s).size = s.octets.size := by simp only [withCounts, writeAt_size]
          simp only [hz] at hr
          omega
        · cases h
        · cases h
    have hz : (withCounts s).size = s.octets.size := by simp only [withCounts, writeAt_size]
    have l := optRecord_length' e
    obtain ⟨t1, t2⟩ := extract_writeAt_tail (withCounts s) s.cursor (optRecord e) (by rw [hz, l]; exact hroom)
    rw [l] at t1 t2
    rw [hb]
    refine ⟨t1, t2, ?_⟩
    intro i hi
    rw [Array.getElem?_extract, writeAt_getElem?]
    simp only [writeAt_size, Nat.zero_add, Nat.sub_zero]
    rw [if_pos (by omega), if_neg (by omega)]

end QV.Writer
