/-
  QV.Proofs.WriterWalk — the walk of the executable specification (`QV.Spec.Message.walk`) over the
  calls of a segment (a session without `clear_rrs`; `getters` left out): run on the statuses the
  model reports and the decoded finished message, it never rejects — every successful call is
  accepted by `absOk`, every failure is `justified` — and arrives at the final check `checkSegment`
  in an abstract state that describes the final writer state.
-/
import QV.Proofs.WriterExtents
import QV.Proofs.WriterCfg
import QV.Proofs.WriterGetters

namespace QV.Writer
open QV QV.Wire QV.Spec QV.ServerSafety

/-- the item counter of the abstract state counts the items -/
def IdxOK (a : Message.AState) : Prop :=
  a.itemIdx = a.questions.length + a.an.length + a.ns.length + a.ar.length

def added : Op → Nat
  | .addQuestion _ _ _ => 1
  | .addRr _ _ _ _ _ _ _ _ => 1
  | .addRrset _ _ _ _ _ _ rds _ => rds.length
  | _ => 0

def bodyLen (b : Body) : Nat := b.qs.length + b.an.length + b.ns.length + b.ar.length

theorem bodyLen_step (b : Body) (op : Op) (hnc : op ≠ .clearRrs) : bodyLen (bodyStep b op) = bodyLen b + added op := by
  cases op <;> try rfl
  · simp [bodyStep, bodyLen, added]; omega
  · rename_i sec _ _ _ _ _ _ _; cases sec <;> simp [bodyStep, Body.add, bodyLen, added] <;> omega
  · rename_i sec _ _ _ _ _ _ _; cases sec <;> simp [bodyStep, Body.add, bodyLen, added] <;> omega
  · exact absurd rfl hnc

theorem statusStr_err_ne_ok (e : WriterErr) : (Driver.statusStr (.err e) == "ok") = false := by
  cases e <;> decide

theorem sameAbs_keep {s s' : State} {a : Message.AState} (h : AbsNum s a) (e : Same s s') : AbsNum s' a :=
  absNum_of h ⟨by rw [e.edns], e.tsig, e.sect, e.qd, e.an, e.ns, e.ar, e.limit, e.available, e.cursor, e.size, e.mode⟩
    (SameAbs.refl a)


theorem absOk_idx (op : Op) (a a' : Message.AState) (d : Message.Decoded) (hnc : op ≠ .clearRrs)
    (habs : Message.absOk a d (Driver.toSpecOp op) = .ok a') (hi : IdxOK a) :
    IdxOK a' ∧ a'.itemIdx = a.itemIdx + added op := by
  unfold IdxOK at hi ⊢
  cases op with
  | clearRrs => exact absurd rfl hnc
  | addQuestion n t c =>
    simp only [Driver.toSpecOp, Message.absOk] at habs
    cases he : Message.endOf d a.itemIdx with
    | none => rw [he] at habs; cases habs
    | some e =>
      rw [he] at habs
      simp only [Except.ok.injEq] at habs; subst habs
      refine ⟨?_, rfl⟩
      show a.itemIdx + 1 = (_ :: a.questions).length + a.an.length + a.ns.length + a.ar.length
      rw [List.length_cons]; omega
  | addRr sec hn o ty cls ttl rd hv =>
    obtain ⟨_, _, _, g4, _, _, _, _, g9, g10, g11, g12, _⟩ := absOk_addRrs_inv habs
    simp only [List.length_cons, List.length_nil] at g9 g10 g11 g12
    refine ⟨?_, by rw [g12]; rfl⟩
    rw [g4]
    rcases secNum_cases sec with ⟨_, h⟩ | ⟨_, h⟩ | ⟨_, h⟩ <;> simp [h] at g9 g10 g11 <;> omega
  | addRrset sec hn o ty cls ttl rds hv =>
    obtain ⟨_, _, _, g4, _, _, _, _, g9, g10, g11, g12, _⟩ := absOk_addRrs_inv habs
    refine ⟨?_, by rw [g12]; rfl⟩
    rw [g4]
    rcases secNum_cases sec with ⟨_, h⟩ | ⟨_, h⟩ | ⟨_, h⟩ <;> simp [h] at g9 g10 g11 <;> omega
  | setTsig m rr =>
    simp only [Driver.toSpecOp, Message.absOk] at habs
    split at habs
    · cases habs
    · simp only [Except.ok.injEq] at habs; subst habs; exact ⟨hi, rfl⟩
  | setId v => simp only [Driver.toSpecOp, Message.absOk, Except.ok.injEq] at habs; subst habs; exact ⟨hi, rfl⟩
  | setQr v => simp only [Driver.toSpecOp, Message.absOk, Except.ok.injEq] at habs; subst habs; exact ⟨hi, rfl⟩
  | setAa v => simp only [Driver.toSpecOp, Message.absOk, Except.ok.injEq] at habs; subst habs; exact ⟨hi, rfl⟩
  | setTc v => simp only [Driver.toSpecOp, Message.absOk, Except.ok.injEq] at habs; subst habs; exact ⟨hi, rfl⟩
  | setRd v => simp only [Driver.toSpecOp, Message.absOk, Except.ok.injEq] at habs; subst habs; exact ⟨hi, rfl⟩
  | setRa v => simp only [Driver.toSpecOp, Message.absOk, Except.ok.injEq] at habs; subst habs; exact ⟨hi, rfl⟩
  | setOpcode v => simp only [Driver.toSpecOp, Message.absOk, Except.ok.injEq] at habs; subst habs; exact ⟨hi, rfl⟩
  | setRcode v => simp only [Driver.toSpecOp, Message.absOk, Except.ok.injEq] at habs; subst habs; exact ⟨hi, rfl⟩
  | setLimit v => simp only [Driver.toSpecOp, Message.absOk, Except.ok.injEq] at habs; subst habs; exact ⟨hi, rfl⟩
  | setMode v => simp only [Driver.toSpecOp, Message.absOk, Except.ok.injEq] at habs; subst habs; exact ⟨hi, rfl⟩
  | getters => simp only [Driver.toSpecOp, Message.absOk, Except.ok.injEq] at habs; subst habs; exact ⟨hi, rfl⟩
  | setExtendedRcode v =>
    simp only [Driver.toSpecOp, Message.absOk] at habs
    (repeat' split at habs) <;> first
      | (simp only [Except.ok.injEq] at habs; subst habs; exact ⟨hi, rfl⟩)
      | cases habs
  | setEdns v =>
    simp only [Driver.toSpecOp, Message.absOk] at habs
    (repeat' split at habs) <;> first
      | (simp only [Except.ok.injEq] at habs; subst habs; exact ⟨hi, rfl⟩)
      | cases habs
  | updateTimeSigned v =>
    simp only [Driver.toSpecOp, Message.absOk] at habs
    (repeat' split at habs) <;> first
      | (simp only [Except.ok.injEq] at habs; subst habs; exact ⟨hi, rfl⟩)
      | cases habs
  | template n f =>
    simp only [Driver.toSpecOp, Message.absOk] at habs
    (repeat' split at habs) <;> first
      | (simp only [Except.ok.injEq] at habs; subst habs; exact ⟨hi, rfl⟩)
      | cases habs
  | templateSubsequent n f m =>
    simp only [Driver.toSpecOp, Message.absOk] at habs
    (repeat' split at habs) <;> first
      | (simp only [Except.ok.injEq] at habs; subst habs; exact ⟨hi, rfl⟩)
      | cases habs


theorem walk_default (a : Message.AState) (sop : Message.SOp) (sops : List Message.SOp) (st : String)
    (sts : List String) (msgs : List Bytes) (d : Message.Decoded) (mac : Option (List UInt8))
    (h1 : sop ≠ .getters) (h2 : sop ≠ .clearRrs) :
    Message.walk false a (sop :: sops) (st :: sts) msgs (some d) mac =
      (if st == "ok" then do
        let s' ← Message.absOk a d sop
        Message.walk false s' sops sts msgs (some d) mac
      else if false || Message.justified a sop st then Message.walk false a sops sts msgs (some d) mac
      else throw s!"failure {st} is not justified (remaining space {Message.remaining a})") := by
  cases sop <;> first
    | exact absurd rfl h1
    | exact absurd rfl h2
    | rfl
    | simp only [Message.walk]


/-- the abstract state lists the questions and records given, and the mode of every item, in the
    order of the message -/
structure AbsContent (a : Message.AState) (b : Body) (mb : MBody) : Prop where
  qs : a.questions.reverse = b.qs.map specQ
  an : a.an.reverse = b.an.map specR
  ns : a.ns.reverse = b.ns.map specR
  ar : a.ar.reverse = b.ar.map specR
  modes : a.itemModes.reverse = (mb.qs ++ mb.an ++ mb.ns ++ mb.ar).map Driver.toSpecMode

theorem mapM_given_specR (o : WName) (ty cls ttl : Nat) : ∀ (rds : List (List UInt8)) (fss : List (List Message.Field)),
    rds.mapM (Message.givenRdata ty cls) = some fss →
    fss.map (fun fs => (⟨o.wire, ty, cls, Message.ttlOf ttl, fs⟩ : Message.Record)) =
      (rds.map fun rd => (⟨o, ty, cls, ttlFrom ttl, rd⟩ : RRec)).map specR := by
  intro rds
  induction rds with
  | nil => intro fss h; simp at h; subst h; rfl
  | cons rd rds ih =>
    intro fss h
    simp only [List.mapM_cons] at h
    cases hx : Message.givenRdata ty cls rd with
    | none => rw [hx] at h; cases h
    | some fs =>
      rw [hx] at h
      cases hxs : rds.mapM (Message.givenRdata ty cls) with
      | none => rw [hxs] at h; cases h
      | some fss' =>
        rw [hxs] at h
        cases h
        simp only [List.map_cons, ih fss' hxs]
        congr 1
        simp only [specR, hx, Option.getD_some]
        rfl

theorem changeSection_fst_hv (sec : RrSection) (s : State) (v : Option HV) :
    (changeSection sec { s with hv := v }).1 = (changeSection sec s).1 := by
  unfold changeSection
  cases sec <;> simp only [] <;> (try (cases s.sect <;> rfl))

theorem nil_of_len {α β : Type} {l : List α} {l' : List β} (hl : l.length = l'.length) (hn : l' = []) : l = [] := by
  rw [hn] at hl; exact List.eq_nil_of_length_eq_zero hl

/-- the content of the abstract state follows the successful calls -/
theorem absOk_content {P : CMode → Prop} (ss : Session) (op : Op) (a a' : Message.AState) (d : Message.Decoded)
    (b : Body) (mb : MBody) (hL : CLay P ss.w b mb) (hA : AbsNum ss.w a) (hC : AbsContent a b mb)
    (hnc : op ≠ .clearRrs) (hok : (step ss op).1 = .ok ())
    (habs : Message.absOk a d (Driver.toSpecOp op) = .ok a') :
    AbsContent a' (bodyStep b op) (mbodyStep ss.w.mode mb op) := by
  obtain ⟨ml1, ml2, ml3⟩ := hL.ml
  have hmode := hA.mode
  -- sections later than the one written to are empty
  have hsec : ∀ sec, (changeSection sec ss.w).1 = .ok () →
      (sec = .answer → b.ns = [] ∧ b.ar = []) ∧ (sec = .authority → b.ar = []) := by
    intro sec hcs
    cases hc : changeSection sec ss.w with
    | mk r s1 =>
      rw [hc] at hcs
      simp only at hcs
      subst hcs
      obtain ⟨_, hA1, hB1⟩ := changeSection_ok_inv sec ss.w s1 hc
      refine ⟨fun h => ?_, fun h => ?_⟩
      · rcases hA1 h with h1 | h1
        · exact ⟨(hL.sq h1).2.2.1, (hL.sq h1).2.2.2⟩
        · exact hL.sa h1
      · have hne := hB1 h
        cases hsx : ss.w.sect with
        | question => exact (hL.sq hsx).2.2.2
        | answer => exact (hL.sa hsx).2
        | authority => exact hL.su hsx
        | additional => exact absurd hsx hne
  have addrecs : ∀ (sec : RrSection) (o : WName) (ty cls ttl : Nat) (rds : List (List UInt8)),
      ((sec = .answer → b.ns = [] ∧ b.ar = []) ∧ (sec = .authority → b.ar = [])) →
      Message.absOk a d (.addRrs (Driver.secNum sec) o.wire ty cls ttl rds) = .ok a' →
      AbsContent a' (b.add sec (rds.map fun rd => ⟨o, ty, cls, ttlFrom ttl, rd⟩))
        (mb.add sec (List.replicate rds.length ss.w.mode)) := by
    intro sec o ty cls ttl rds hemp h
    simp only [Message.absOk] at h
    cases hm : rds.mapM (Message.givenRdata ty cls) with
    | none => rw [hm] at h; cases h
    | some fss =>
      rw [hm] at h
      simp only at h
      have hrecs := mapM_given_specR o ty cls ttl rds fss hm
      split at h
      · cases h
      · cases he : Message.endOf d (a.itemIdx + rds.length - 1) with
        | none => rw [he] at h; cases h
        | some e =>
          rw [he] at h
          simp only at h
          have hmodes : (List.replicate rds.length a.mode ++ a.itemModes).reverse =
              (mb.qs ++ mb.an ++ mb.ns ++ mb.ar).map Driver.toSpecMode ++
                (List.replicate rds.length ss.w.mode).map Driver.toSpecMode := by
            rw [List.reverse_append, hC.modes, List.reverse_replicate, hmode, List.map_replicate]
          cases sec with
          | answer =>
            obtain ⟨e1, e2⟩ := hemp.1 rfl
            have m1 := nil_of_len ml2 e1; have m2 := nil_of_len ml3 e2
            simp only [Driver.secNum, if_true] at h
            simp only [Except.ok.injEq] at h; subst h
            refine ⟨hC.qs, ?_, hC.ns, hC.ar, ?_⟩
            · show (_ ++ a.an).reverse = _
              rw [List.reverse_append, List.reverse_reverse, hC.an, hrecs]; simp [Body.add]
            · show (List.replicate rds.length a.mode ++ a.itemModes).reverse = _
              rw [hmodes]; simp [MBody.add, m1, m2]
          | authority =>
            have e2 := hemp.2 rfl
            have m2 := nil_of_len ml3 e2
            simp only [Driver.secNum, Nat.reduceEqDiff, if_false, if_true] at h
            simp only [Except.ok.injEq] at h; subst h
            refine ⟨hC.qs, hC.an, ?_, hC.ar, ?_⟩
            · show (_ ++ a.ns).reverse = _
              rw [List.reverse_append, List.reverse_reverse, hC.ns, hrecs]; simp [Body.add]
            · show (List.replicate rds.length a.mode ++ a.itemModes).reverse = _
              rw [hmodes]; simp [MBody.add, m2]
          | additional =>
            simp only [Driver.secNum, Nat.reduceEqDiff, if_false] at h
            simp only [Except.ok.injEq] at h; subst h
            refine ⟨hC.qs, hC.an, hC.ns, ?_, ?_⟩
            · show (_ ++ a.ar).reverse = _
              rw [List.reverse_append, List.reverse_reverse, hC.ar, hrecs]; simp [Body.add]
            · show (List.replicate rds.length a.mode ++ a.itemModes).reverse = _
              rw [hmodes]; simp [MBody.add]
  cases op with
  | clearRrs => exact absurd rfl hnc
  | addQuestion n t c =>
    have hok' : (addQuestion n t c ss.w).1 = .ok () := by rw [← liftW_fst]; exact hok
    cases hq : addQuestion n t c ss.w with
    | mk r s' =>
      rw [hq] at hok'; simp only at hok'; subst hok'
      obtain ⟨s3, hsq, _, _⟩ := addQuestion_ok_inv n t c ss.w s' hq
      obtain ⟨_, e1, e2, e3⟩ := hL.sq hsq
      have m1 := nil_of_len ml1 e1; have m2 := nil_of_len ml2 e2; have m3 := nil_of_len ml3 e3
      simp only [Driver.toSpecOp, Message.absOk] at habs
      cases he : Message.endOf d a.itemIdx with
      | none => rw [he] at habs; cases habs
      | some e =>
        rw [he] at habs
        simp only [Except.ok.injEq] at habs; subst habs
        refine ⟨?_, hC.an, hC.ns, hC.ar, ?_⟩
        · show (_ :: a.questions).reverse = _
          rw [List.reverse_cons, hC.qs]; simp [bodyStep, specQ]
        · show (a.mode :: a.itemModes).reverse = _
          rw [List.reverse_cons, hC.modes, hmode]
          simp [mbodyStep, m1, m2, m3]
  | addRr sec hn o ty cls ttl rd hv =>
    have hok' : (addRrOp sec (resolveHint ss.hvs hn) o ty cls ttl rd { ss.w with hv := hv.map (hvGet ss.hvs) }).1 =
        .ok () := by rw [← withHv_fst]; exact hok
    cases hq : addRrOp sec (resolveHint ss.hvs hn) o ty cls ttl rd { ss.w with hv := hv.map (hvGet ss.hvs) } with
    | mk r s' =>
      rw [hq] at hok'; simp only at hok'; subst hok'
      obtain ⟨s1, s2, h1, _, _, _⟩ := addRrOp_ok_inv sec _ o ty cls ttl rd _ s' hq
      have hcs : (changeSection sec ss.w).1 = .ok () := by
        rw [← changeSection_fst_hv sec ss.w (hv.map (hvGet ss.hvs)), h1]
      have := addrecs sec o ty cls ttl [rd] (hsec sec hcs) habs
      simpa [bodyStep, mbodyStep] using this
  | addRrset sec hn o ty cls ttl rds hv =>
    have hok' : (addRrsetOp sec (resolveHint ss.hvs hn) o ty cls ttl rds { ss.w with hv := hv.map (hvGet ss.hvs) }).1 =
        .ok () := by rw [← withHv_fst]; exact hok
    cases hq : addRrsetOp sec (resolveHint ss.hvs hn) o ty cls ttl rds { ss.w with hv := hv.map (hvGet ss.hvs) } with
    | mk r s' =>
      rw [hq] at hok'; simp only at hok'; subst hok'
      obtain ⟨s1, s2, n, h1, _, _, _⟩ := addRrsetOp_ok_inv sec _ o ty cls ttl rds _ s' hq
      have hcs : (changeSection sec ss.w).1 = .ok () := by
        rw [← changeSection_fst_hv sec ss.w (hv.map (hvGet ss.hvs)), h1]
      have := addrecs sec o ty cls ttl rds (hsec sec hcs) habs
      simpa [bodyStep, mbodyStep] using this
  | setTsig m rr =>
    simp only [Driver.toSpecOp, Message.absOk] at habs
    split at habs
    · cases habs
    · simp only [Except.ok.injEq] at habs; subst habs; exact ⟨hC.qs, hC.an, hC.ns, hC.ar, hC.modes⟩
  | setId v => simp only [Driver.toSpecOp, Message.absOk, Except.ok.injEq] at habs; subst habs; exact ⟨hC.qs, hC.an, hC.ns, hC.ar, hC.modes⟩
  | setQr v => simp only [Driver.toSpecOp, Message.absOk, Except.ok.injEq] at habs; subst habs; exact ⟨hC.qs, hC.an, hC.ns, hC.ar, hC.modes⟩
  | setAa v => simp only [Driver.toSpecOp, Message.absOk, Except.ok.injEq] at habs; subst habs; exact ⟨hC.qs, hC.an, hC.ns, hC.ar, hC.modes⟩
  | setTc v => simp only [Driver.toSpecOp, Message.absOk, Except.ok.injEq] at habs; subst habs; exact ⟨hC.qs, hC.an, hC.ns, hC.ar, hC.modes⟩
  | setRd v => simp only [Driver.toSpecOp, Message.absOk, Except.ok.injEq] at habs; subst habs; exact ⟨hC.qs, hC.an, hC.ns, hC.ar, hC.modes⟩
  | setRa v => simp only [Driver.toSpecOp, Message.absOk, Except.ok.injEq] at habs; subst habs; exact ⟨hC.qs, hC.an, hC.ns, hC.ar, hC.modes⟩
  | setOpcode v => simp only [Driver.toSpecOp, Message.absOk, Except.ok.injEq] at habs; subst habs; exact ⟨hC.qs, hC.an, hC.ns, hC.ar, hC.modes⟩
  | setRcode v => simp only [Driver.toSpecOp, Message.absOk, Except.ok.injEq] at habs; subst habs; exact ⟨hC.qs, hC.an, hC.ns, hC.ar, hC.modes⟩
  | setLimit v => simp only [Driver.toSpecOp, Message.absOk, Except.ok.injEq] at habs; subst habs; exact ⟨hC.qs, hC.an, hC.ns, hC.ar, hC.modes⟩
  | setMode v => simp only [Driver.toSpecOp, Message.absOk, Except.ok.injEq] at habs; subst habs; exact ⟨hC.qs, hC.an, hC.ns, hC.ar, hC.modes⟩
  | getters => simp only [Driver.toSpecOp, Message.absOk, Except.ok.injEq] at habs; subst habs; exact ⟨hC.qs, hC.an, hC.ns, hC.ar, hC.modes⟩
  | _ =>
    simp only [Driver.toSpecOp, Message.absOk] at habs
    (repeat' split at habs) <;> first
      | (simp only [Except.ok.injEq] at habs; subst habs; exact ⟨hC.qs, hC.an, hC.ns, hC.ar, hC.modes⟩)
      | cases habs

def NonEmptySet : Op → Prop
  | .addRrset _ _ _ _ _ _ rds _ => rds ≠ []
  | _ => True

/-- the arguments of a call are values of the types of the Rust API: `Name`s, 16-bit types / classes /
    IDs / payload sizes, 4-bit opcodes and RCODEs, RDATA of at most 65535 octets, non-empty `RdataSet`s -/
def ApiTyped (op : Op) : Prop := op.Typed ∧ ApiBounds op ∧ NonEmptySet op

theorem toSpecOp_ne (op : Op) (h1 : op ≠ .clearRrs) (h2 : op ≠ .getters) :
    Driver.toSpecOp op ≠ .getters ∧ Driver.toSpecOp op ≠ .clearRrs := by
  cases op <;> first
    | exact absurd rfl h1
    | exact absurd rfl h2
    | (constructor <;> (intro h; simp only [Driver.toSpecOp] at h; try cases h))

theorem absOk_addQuestion_cur {a a' : Message.AState} {d : Message.Decoded} {n : Message.Name} {t c : Nat}
    (h : Message.absOk a d (.addQuestion n t c) = .ok a') : Message.endOf d a.itemIdx = some a'.cur := by
  simp only [Message.absOk] at h
  cases he : Message.endOf d a.itemIdx with
  | none => rw [he] at h; cases h
  | some e => rw [he] at h; simp only [Except.ok.injEq] at h; subst h; rfl

theorem absOk_hdr (op : Op) (a a' : Message.AState) (d : Message.Decoded)
    (habs : Message.absOk a d (Driver.toSpecOp op) = .ok a') : a'.hdr = hdrStep a.hdr op := by
  cases op with
  | addQuestion n t c =>
    simp only [Driver.toSpecOp, Message.absOk] at habs
    cases he : Message.endOf d a.itemIdx with
    | none => rw [he] at habs; cases habs
    | some e => rw [he] at habs; simp only [Except.ok.injEq] at habs; subst habs; rfl
  | addRr sec hn o ty cls ttl rd hv =>
    simp only [Driver.toSpecOp, Message.absOk] at habs
    (repeat' split at habs) <;> first
      | (simp only [Except.ok.injEq] at habs; subst habs; rfl)
      | cases habs
  | addRrset sec hn o ty cls ttl rds hv =>
    simp only [Driver.toSpecOp, Message.absOk] at habs
    (repeat' split at habs) <;> first
      | (simp only [Except.ok.injEq] at habs; subst habs; rfl)
      | cases habs
  | setTsig m rr =>
    simp only [Driver.toSpecOp, Message.absOk] at habs
    split at habs
    · cases habs
    · simp only [Except.ok.injEq] at habs; subst habs; rfl
  | setQr v => simp only [Driver.toSpecOp, Message.absOk, Except.ok.injEq] at habs; subst habs; rfl
  | setAa v => simp only [Driver.toSpecOp, Message.absOk, Except.ok.injEq] at habs; subst habs; rfl
  | setTc v => simp only [Driver.toSpecOp, Message.absOk, Except.ok.injEq] at habs; subst habs; rfl
  | setRd v => simp only [Driver.toSpecOp, Message.absOk, Except.ok.injEq] at habs; subst habs; rfl
  | setRa v => simp only [Driver.toSpecOp, Message.absOk, Except.ok.injEq] at habs; subst habs; rfl
  | _ =>
    simp only [Driver.toSpecOp, Message.absOk] at habs
    (repeat' split at habs) <;> first
      | (simp only [Except.ok.injEq] at habs; subst habs; rfl)
      | cases habs

theorem hdrStep_z (h : Message.Header) (op : Op) : (hdrStep h op).z = h.z := by cases op <;> rfl

/-- what the driver records for every call: the status, or for `getters` what they report -/
def obs (ss : Session) : List Op → List String
  | [] => []
  | op :: ops =>
    (match op with
      | .getters => Driver.gettersStr ss.w
      | _ => Driver.statusStr (step ss op).1) :: obs (step ss op).2 ops

theorem obs_ne (ss : Session) (op : Op) (ops : List Op) (h : op ≠ .getters) :
    obs ss (op :: ops) = Driver.statusStr (step ss op).1 :: obs (step ss op).2 ops := by
  cases op <;> first
    | exact absurd rfl h
    | rfl

/-- **the walk of the specification over a segment**: on the statuses the model reports and the
    decoded finished message, `walk` accepts every call and reaches `checkSegment` in an abstract
    state that describes the final writer state -/
theorem walk_segment_k {sR : State} (hcurR : sR.cursor ≤ 65535) (d : Message.Decoded)
    (mac' : Option (List UInt8)) (rest : List Message.SOp) (sts : List String) (msgs : List Bytes)
    (hpre : ∀ s, WInv s → s.rrStart ≤ s.cursor → Seg s sR → ∀ qs rs, QChainC s qs 12 s.rrStart →
      RChainC s rs s.rrStart s.cursor →
      (d.extents.map (·.2)).take (qs.length + rs.length) = qs.map qEnd ++ rs.map rEnd) :
    ∀ (ops : List Op) (ss : Session) (b : Body) (mb : MBody) (a : Message.AState),
      I ss.w → CLay (fun _ => True) ss.w b mb → AbsNum ss.w a → IdxOK a → a.itemIdx = bodyLen b →
      a.hdr = specHeader ss.w.octets → a.hdr.z = 0 → AbsContent a b mb → AbsCfg ss.w a →
      (∀ op ∈ ops, op.Typed ∧ ApiBounds op) →
      Respects ss ops → (∀ op ∈ ops, op ≠ .clearRrs ∧ NonEmptySet op) → (run ss ops).1.w = sR →
      ∃ aF, AbsNum sR aF ∧ aF.hdr = specHeader sR.octets ∧ aF.hdr.z = 0 ∧
        AbsContent aF (bodyRun b ops (run ss ops).2) (mrun ss mb ops) ∧ AbsCfg sR aF ∧
        Message.walk false a (ops.map Driver.toSpecOp ++ rest) (obs ss ops ++ sts) msgs (some d) mac' =
          Message.walk false aF rest sts msgs (some d) mac' ∧
        IdxOK aF ∧ aF.itemIdx = bodyLen (bodyRun b ops (run ss ops).2) := by
  intro ops
  induction ops with
  | nil =>
    intro ss b mb a hI hL hA hidx hlen hh hz hC hG _ _ _ hfin
    refine ⟨a, by rw [← hfin]; exact hA, by rw [← hfin]; exact hh, hz, hC, by rw [← hfin]; exact hG, ?_, hidx, hlen⟩
    simp [run, obs]
  | cons op ops ih =>
    intro ss b mb a hI hL hA hidx hlen hh hz hC hG ht hr hno hfin
    obtain ⟨hop, hrest⟩ := hr
    have ht' : ∀ op' ∈ ops, op'.Typed ∧ ApiBounds op' := fun op' h => ht op' (List.mem_cons_of_mem _ h)
    have hno' : ∀ op' ∈ ops, op' ≠ .clearRrs ∧ NonEmptySet op' :=
      fun op' h => hno op' (List.mem_cons_of_mem _ h)
    by_cases hng : op = .getters
    · -- `getters`: nothing changes; what they report is what the specification expects
      subst hng
      have hstep : step ss .getters = (.ok (), ss) := rfl
      rw [hstep] at hrest
      unfold run at hfin
      simp only [hstep] at hfin
      cases hrun : run ss ops with
      | mk ss'' rs =>
        rw [hrun] at hfin
        simp only at hfin
        obtain ⟨aF, hAF, hF1, hF2, hF3, hF4, hw, hF5, hF6⟩ := ih ss b mb a hI hL hA hidx hlen hh hz hC hG ht' hrest hno'
          (by rw [hrun]; exact hfin)
        rw [hrun] at hF3 hF6
        refine ⟨aF, hAF, hF1, hF2, ?_, hF4, ?_, hF5, ?_⟩
        · unfold run mrun
          simp only [hstep, hrun]
          simpa [bodyRun, bodyStep, mbodyStep] using hF3
        rotate_left
        · unfold run
          simp only [hstep, hrun]
          simpa [bodyRun, bodyStep] using hF6
        · have hg := gettersStr_eq ss.w a hA hh hG
          simp only [List.map_cons, Driver.toSpecOp, obs, List.cons_append, Message.walk, hg, beq_self_eq_true,
            Bool.or_true, if_true]
          rw [hstep]
          exact hw
    have hhs := hdr_step ss op hI.inv (ht op List.mem_cons_self).1
    obtain ⟨hnp, hI'⟩ := step_I ss op hI hop
    obtain ⟨hnc, hnes⟩ := hno op List.mem_cons_self
    have hL' := clay_step ss op b mb hI hL hop (fun _ _ => trivial)
    obtain ⟨hs1, hs2⟩ := toSpecOp_ne op hnc hng
    have hjust := step_justified ss op a hI hop hA
    have hsame := step_err_same ss op hI.inv
    unfold run at hfin
    unfold run mrun
    rw [obs_ne ss op ops hng]
    cases hs : step ss op with
    | mk r ss' =>
      rw [hs] at hnp hI' hrest hL' hfin hjust hsame hhs
      cases r with
      | panic => exact absurd rfl hnp
      | err e =>
        simp only [reduceCtorEq, if_false] at hL' hfin ⊢
        have hA' : AbsNum ss'.w a := sameAbs_keep hA (hsame e rfl)
        cases hrun : run ss' ops with
        | mk ss'' rs =>
          rw [hrun] at hfin
          have hh' : a.hdr = specHeader ss'.w.octets := by
            have := hhs (by simp)
            simp only [reduceCtorEq, if_false] at this
            rw [this]; exact hh
          have hG' : AbsCfg ss'.w a := absCfg_same hG (hsame e rfl)
          obtain ⟨aF, hAF, hF1, hF2, hF3, hF4, hw, hF5, hF6⟩ := ih ss' b mb a hI' hL' hA' hidx hlen hh' hz hC hG' ht' hrest hno'
            (by rw [hrun]; exact hfin)
          rw [hrun] at hF3 hF6
          refine ⟨aF, hAF, hF1, hF2, by simpa [bodyRun] using hF3, hF4, ?_, hF5, by simpa [bodyRun] using hF6⟩
          simp only [List.map_cons, List.cons_append]
          rw [walk_default _ _ _ _ _ _ _ _ hs1 hs2, statusStr_err_ne_ok]
          simp only [Bool.false_eq_true, if_false, Bool.false_or, hjust e rfl, if_true]
          exact hw
      | ok u =>
        simp only [if_true] at hL' hfin ⊢
        cases hrun : run ss' ops with
        | mk ss'' rs =>
          rw [hrun] at hfin
          simp only at hfin
          -- the rest of the segment
          have hseg : Seg ss'.w sR := by
            have := run_seg ss' ops hI' hL' hrest (fun h => (hno' _ h).1 rfl)
            rw [hrun] at this; rw [← hfin]; exact this
          have hc65 : ss'.w.cursor ≤ 65535 := by have := hseg.pres.cur; omega
          obtain ⟨qs', hq', hqm', _, _⟩ := hL'.q
          obtain ⟨rs', hr', hrm', _, _⟩ := hL'.r hc65
          have hN : qs'.length + rs'.length = a.itemIdx + added op := by
            have h1 := congrArg List.length hqm'
            have h2 := congrArg List.length hrm'
            simp only [List.length_map, List.length_append] at h1 h2
            have := bodyLen_step b op hnc
            unfold bodyLen at this hlen
            omega
          have hpfx := hpre ss'.w hI'.winv hI'.inv.rr_hi hseg qs' rs' hq' hr'
          have hend : 0 < added op → Message.endOf d (a.itemIdx + added op - 1) = some ss'.w.cursor := by
            intro hpos
            have := endOf_last hq' hr' (by omega) hpfx
            rw [hN] at this; exact this
          have hok : (step ss op).1 = .ok () := by rw [hs]
          have hw' : (step ss op).2.w = ss'.w := by rw [hs]
          -- `absOk` goes through
          have hAP : AbsPre a d op := by
            cases op with
            | addQuestion n t c => simp only [AbsPre]; rw [show a.itemIdx = a.itemIdx + added (.addQuestion n t c) - 1 by simp [added], hend (by simp [added])]; rfl
            | addRr sec hn o ty cls ttl rd hv => simp only [AbsPre]; rw [show a.itemIdx = a.itemIdx + added (.addRr sec hn o ty cls ttl rd hv) - 1 by simp [added], hend (by simp [added])]; rfl
            | addRrset sec hn o ty cls ttl rds hv =>
              have hne : rds ≠ [] := hnes
              have hpos : 0 < rds.length := List.length_pos_iff.mpr hne
              refine ⟨hne, ?_⟩
              have := hend (by simpa [added] using hpos)
              simp only [added] at this
              rw [this]; rfl
            | _ => trivial
          obtain ⟨a', habs⟩ := absOk_succeeds ss op a d hI hA hok hAP
          have hcur : movesCursor op = true → a'.cur = (step ss op).2.w.cursor := by
            intro hm
            rw [hw']
            cases op with
            | addQuestion n t c =>
              have h1 := absOk_addQuestion_cur habs
              have h2 := hend (by simp [added])
              simp only [added, Nat.add_sub_cancel] at h2
              rw [h2] at h1; exact (Option.some.inj h1).symm
            | addRr sec hn o ty cls ttl rd hv =>
              obtain ⟨_, _, _, _, _, _, _, _, _, _, _, _, h1⟩ := absOk_addRrs_inv habs
              have h2 := hend (by simp [added])
              simp only [added, List.length_cons, List.length_nil] at h1 h2
              rw [h2] at h1; exact (Option.some.inj h1).symm
            | addRrset sec hn o ty cls ttl rds hv =>
              obtain ⟨_, _, _, _, _, _, _, _, _, _, _, _, h1⟩ := absOk_addRrs_inv habs
              have hne : rds ≠ [] := hnes
              have h2 := hend (by simpa [added] using List.length_pos_iff.mpr hne)
              simp only [added] at h2
              rw [h2] at h1; exact (Option.some.inj h1).symm
            | clearRrs => exact absurd rfl hnc
            | _ => cases hm
          have hA' : AbsNum ss'.w a' := by
            have := absNum_step ss op a a' d hI hop hA hok habs hcur
            rw [hw'] at this; exact this
          obtain ⟨hidx', hidxeq⟩ := absOk_idx op a a' d hnc habs hidx
          have hlen' : a'.itemIdx = bodyLen (bodyStep b op) := by
            rw [hidxeq, bodyLen_step b op hnc, hlen]
          have hah := absOk_hdr op a a' d habs
          have hh' : a'.hdr = specHeader ss'.w.octets := by
            have := hhs (by simp)
            simp only [if_true] at this
            rw [this, hah, hh]
          have hz' : a'.hdr.z = 0 := by rw [hah, hdrStep_z]; exact hz
          have hC' := absOk_content ss op a a' d b mb hL hA hC hnc hok habs
          have hG' : AbsCfg ss'.w a' := by
            have := cfg_step ss op a a' d hI hG (ht op List.mem_cons_self).2 hok habs
            rw [hw'] at this; exact this
          obtain ⟨aF, hAF, hF1, hF2, hF3, hF4, hw, hF5, hF6⟩ := ih ss' (bodyStep b op) _ a' hI' hL' hA' hidx' hlen' hh' hz' hC' hG'
            ht' hrest hno' (by rw [hrun]; exact hfin)
          rw [hrun] at hF3 hF6
          refine ⟨aF, hAF, hF1, hF2, by simpa [bodyRun] using hF3, hF4, ?_, hF5, by simpa [bodyRun] using hF6⟩
          simp only [List.map_cons, List.cons_append]
          rw [walk_default _ _ _ _ _ _ _ _ hs1 hs2]
          have hokstr : (Driver.statusStr (.ok u) == "ok") = true := by cases u; decide
          rw [hokstr]
          simp only [if_true, habs]
          exact hw


theorem walk_segment {sR : State} (hcurR : sR.cursor ≤ 65535) (d : Message.Decoded) (m : Bytes)
    (mac' : Option (List UInt8))
    (hpre : ∀ s, WInv s → s.rrStart ≤ s.cursor → Seg s sR → ∀ qs rs, QChainC s qs 12 s.rrStart →
      RChainC s rs s.rrStart s.cursor →
      (d.extents.map (·.2)).take (qs.length + rs.length) = qs.map qEnd ++ rs.map rEnd) :
    ∀ (ops : List Op) (ss : Session) (b : Body) (mb : MBody) (a : Message.AState),
      I ss.w → CLay (fun _ => True) ss.w b mb → AbsNum ss.w a → IdxOK a → a.itemIdx = bodyLen b →
      a.hdr = specHeader ss.w.octets → a.hdr.z = 0 → AbsContent a b mb → AbsCfg ss.w a →
      (∀ op ∈ ops, op.Typed ∧ ApiBounds op) →
      Respects ss ops → (∀ op ∈ ops, op ≠ .clearRrs ∧ NonEmptySet op) → (run ss ops).1.w = sR →
      ∃ aF, AbsNum sR aF ∧ aF.hdr = specHeader sR.octets ∧ aF.hdr.z = 0 ∧
        AbsContent aF (bodyRun b ops (run ss ops).2) (mrun ss mb ops) ∧ AbsCfg sR aF ∧
        Message.walk false a (ops.map Driver.toSpecOp) (obs ss ops ++ ["ok"]) [m] (some d) mac' =
          Message.checkSegment false aF d m.size mac' := by
  intro ops ss b mb a h1 h2 h3 h4 h5 h6 h7 h8 h9 h10 h11 h12 h13
  obtain ⟨aF, x1, x2, x3, x4, x5, x6, _, _⟩ := walk_segment_k hcurR d mac' [] ["ok"] [m] hpre ops ss b mb a h1 h2 h3 h4 h5 h6
    h7 h8 h9 h10 h11 h12 h13
  refine ⟨aF, x1, x2, x3, x4, x5, ?_⟩
  rw [List.append_nil] at x6
  rw [x6]
  simp [Message.walk]

/-- **the walk of `checkSession` from a fresh writer**, for sessions without `clear_rrs` and `getters`
    whose limits are at most 65535: run on the statuses of the model and on the decoded finished
    message, `walk` accepts every call (successful calls by `absOk`, failed calls because they are
    `justified`) and equals the final check `checkSegment` in an abstract state describing the final
    writer state -/
theorem walk_from_new (macFn : Tsig → List UInt8 → List UInt8) (hmac : MacLenOK macFn)
    (buf : Bytes) (limit : Nat) (s0 : State) (hnew : Writer.new buf limit = .ok s0) (hlim : limit ≤ 65535)
    (mode : CMode) (ops : List Op) (ht : ∀ op ∈ ops, op.Typed) (hb : ∀ op ∈ ops, ApiBounds op)
    (hr : Respects { w := { s0 with mode := mode } } ops) (hv : ∀ v, Op.setLimit v ∈ ops → v ≤ 65535)
    (hno : ∀ op ∈ ops, op ≠ .clearRrs ∧ NonEmptySet op) (mac' : Option (List UInt8)) :
    ∃ m mac d aF, finish (run { w := { s0 with mode := mode } } ops).1.w macFn = .ok (m, mac) ∧
      Message.specDecodeMsg m = some d ∧ AbsNum (run { w := { s0 with mode := mode } } ops).1.w aF ∧
      aF.hdr = d.msg.header ∧ aF.hdr.z = 0 ∧
      AbsContent aF (bodyRun {} ops (run { w := { s0 with mode := mode } } ops).2)
        (mrun { w := { s0 with mode := mode } } {} ops) ∧
      AbsCfg (run { w := { s0 with mode := mode } } ops).1.w aF ∧
      Message.walk false
          { mode := Driver.toSpecMode mode, buflen := buf.size, limit := min limit buf.size }
          (ops.map Driver.toSpecOp)
          (obs { w := { s0 with mode := mode } } ops ++ ["ok"]) [m] (some d) mac' =
        Message.checkSegment false aF d m.size mac' := by
  have hI0 : I { s0 with mode := mode } := (safe_setMode mode s0 (new_i buf limit s0 hnew)).2
  have hL0 : CLay (fun _ => True) { s0 with mode := mode } {} {} := clay_new buf limit s0 hnew mode trivial
  have hA0 := absNum_new buf limit s0 hnew mode
  have hIR := (run_I { w := { s0 with mode := mode } } ops hI0 hr).2
  have hLR := clay_run { w := { s0 with mode := mode } } ops {} {} hI0 hL0 hr (fun _ _ => trivial)
  have hT := typed_run ops { w := { s0 with mode := mode } } {}
    ⟨(fun _ h => by cases h), (fun _ h => by cases h), (fun _ h => by cases h), (fun _ h => by cases h)⟩ ht
  have hlimR := run_limit { w := { s0 with mode := mode } } ops hI0 hr (new_limit buf limit s0 hnew hlim) hv
  obtain ⟨m, mac, hf⟩ := finish_ok macFn hmac _ hIR
  have hsz := session_size_le macFn buf limit s0 hnew hlim mode ops hr hv m mac hf
  generalize hsR : (run { w := { s0 with mode := mode } } ops).1.w = sR at hIR hLR hlimR hf
  generalize hB : bodyRun {} ops (run { w := { s0 with mode := mode } } ops).2 = B at hLR hT
  generalize hMB : mrun { w := { s0 with mode := mode } } {} ops = MB at hLR
  have hst : ∀ r ∈ B.an ++ B.ns ++ B.ar, LayoutStable r := by
    intro r hx
    have hr : r.Typed := by
      rcases List.mem_append.mp hx with h1 | h1
      · rcases List.mem_append.mp h1 with h2 | h2
        · exact hT.an r h2
        · exact hT.ns r h2
      · exact hT.ar r h1
    exact layoutStable_of_lt hr.2.1 hr.2.2.1
  have hcurR : sR.cursor ≤ 65535 := by
    have := hIR.inv.cur_av; have := hIR.inv.av_lim; omega
  obtain ⟨d, hd, _⟩ := extents_prefix macFn hIR.winv hIR.inv.rr_hi (Seg.refl sR) hIR hLR hst m mac hf hsz
  have hpre : ∀ s, WInv s → s.rrStart ≤ s.cursor → Seg s sR → ∀ qs rs, QChainC s qs 12 s.rrStart →
      RChainC s rs s.rrStart s.cursor →
      (d.extents.map (·.2)).take (qs.length + rs.length) = qs.map qEnd ++ rs.map rEnd := by
    intro s hw hrr hseg qs rs hq hr'
    obtain ⟨d', hd', h⟩ := extents_prefix macFn hw hrr hseg hIR hLR hst m mac hf hsz
    rw [hd] at hd'
    cases hd'
    exact h qs rs hq hr'
  have hG0 : AbsCfg { s0 with mode := mode }
      { mode := Driver.toSpecMode mode, buflen := buf.size, limit := min limit buf.size } := by
    have g := clay_new (P := fun _ => True) buf limit s0 hnew mode trivial
    have he : s0.edns = none ∧ s0.tsig = none := by
      unfold Writer.new at hnew
      dsimp only at hnew
      split at hnew
      · cases hnew
      · have hs := Out.ok.inj hnew
        constructor <;> (rw [← hs])
    exact ⟨by show none = Option.map _ s0.edns; rw [he.1]; rfl, by show none = Option.map _ s0.tsig; rw [he.2]; rfl,
      (fun e h => by have h' : s0.edns = some e := h; rw [he.1] at h'; cases h'),
      (fun ts h => by have h' : s0.tsig = some ts := h; rw [he.2] at h'; cases h')⟩
  obtain ⟨aF, hAF, hF1, hF2, hF3, hF4, hw⟩ := walk_segment hcurR d m mac' hpre ops { w := { s0 with mode := mode } } {} {} _
    hI0 hL0 hA0 rfl rfl (by show _ = specHeader s0.octets; rw [hdr_new buf limit s0 hnew]) rfl
    ⟨rfl, rfl, rfl, rfl, rfl⟩ hG0 (fun op h => ⟨ht op h, hb op h⟩) hr hno hsR
  obtain ⟨d2, _, _, _, _, hd2, hh2, _⟩ := finish_refines macFn sR B MB hIR hLR hst m mac hf hsz
  rw [hd] at hd2
  cases hd2
  rw [hB, hMB] at hF3
  exact ⟨m, mac, d, aF, hf, hd, hAF, by rw [hF1, hh2], hF2, hF3, hF4, hw⟩

end QV.Writer
