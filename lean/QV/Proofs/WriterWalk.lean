/-
  QV.Proofs.WriterWalk — the walk of the executable specification (`QV.Spec.Message.walk`) over the
  calls of a segment (a session without `clear_rrs`; `getters` left out): run on the statuses the
  model reports and the decoded finished message, it never rejects — every successful call is
  accepted by `absOk`, every failure is `justified` — and arrives at the final check `checkSegment`
  in an abstract state that describes the final writer state.
-/
import QV.Proofs.WriterExtents

namespace QV.Writer
open QV QV.Wire QV.Spec QV.ServerSafety

/-- the item counter of the abstract state counts the items -/
def IdxOK (a : Message.AState) : Prop :=
  a.itemIdx = a.questions.length + a.an.length + a.ns.length + a.ar.length

def added : Op → Nat
  | .addQuestion _ _ _ => 1
  | .addRr _ _ _ _ _ _ _ _ => 1
  | .addRrset _ _ _ _ _ _ rds _ => rds.length
  | _ => 0

def bodyLen (b : Body) : Nat := b.qs.length + b.an.length + b.ns.length + b.ar.length

theorem bodyLen_step (b : Body) (op : Op) (hnc : op ≠ .clearRrs) : bodyLen (bodyStep b op) = bodyLen b + added op := by
  cases op <;> try rfl
  · simp [bodyStep, bodyLen, added]; omega
  · rename_i sec _ _ _ _ _ _ _; cases sec <;> simp [bodyStep, Body.add, bodyLen, added] <;> omega
  · rename_i sec _ _ _ _ _ _ _; cases sec <;> simp [bodyStep, Body.add, bodyLen, added] <;> omega
  · exact absurd rfl hnc

theorem statusStr_err_ne_ok (e : WriterErr) : (Driver.statusStr (.err e) == "ok") = false := by
  cases e <;> decide

theorem sameAbs_keep {s s' : State} {a : Message.AState} (h : AbsNum s a) (e : Same s s') : AbsNum s' a :=
  absNum_of h ⟨by rw [e.edns], e.tsig, e.sect, e.qd, e.an, e.ns, e.ar, e.limit, e.available, e.cursor, e.size, e.mode⟩
    (SameAbs.refl a)


theorem absOk_idx (op : Op) (a a' : Message.AState) (d : Message.Decoded) (hnc : op ≠ .clearRrs)
    (habs : Message.absOk a d (Driver.toSpecOp op) = .ok a') (hi : IdxOK a) :
    IdxOK a' ∧ a'.itemIdx = a.itemIdx + added op := by
  unfold IdxOK at hi ⊢
  cases op with
  | clearRrs => exact absurd rfl hnc
  | addQuestion n t c =>
    simp only [Driver.toSpecOp, Message.absOk] at habs
    cases he : Message.endOf d a.itemIdx with
    | none => rw [he] at habs; cases habs
    | some e =>
      rw [he] at habs
      simp only [Except.ok.injEq] at habs; subst habs
      refine ⟨?_, rfl⟩
      show a.itemIdx + 1 = (_ :: a.questions).length + a.an.length + a.ns.length + a.ar.length
      rw [List.length_cons]; omega
  | addRr sec hn o ty cls ttl rd hv =>
    obtain ⟨_, _, _, g4, _, _, _, _, g9, g10, g11, g12, _⟩ := absOk_addRrs_inv habs
    simp only [List.length_cons, List.length_nil] at g9 g10 g11 g12
    refine ⟨?_, by rw [g12]; rfl⟩
    rw [g4]
    rcases secNum_cases sec with ⟨_, h⟩ | ⟨_, h⟩ | ⟨_, h⟩ <;> simp [h] at g9 g10 g11 <;> omega
  | addRrset sec hn o ty cls ttl rds hv =>
    obtain ⟨_, _, _, g4, _, _, _, _, g9, g10, g11, g12, _⟩ := absOk_addRrs_inv habs
    refine ⟨?_, by rw [g12]; rfl⟩
    rw [g4]
    rcases secNum_cases sec with ⟨_, h⟩ | ⟨_, h⟩ | ⟨_, h⟩ <;> simp [h] at g9 g10 g11 <;> omega
  | setTsig m rr =>
    simp only [Driver.toSpecOp, Message.absOk] at habs
    split at habs
    · cases habs
    · simp only [Except.ok.injEq] at habs; subst habs; exact ⟨hi, rfl⟩
  | setId v => simp only [Driver.toSpecOp, Message.absOk, Except.ok.injEq] at habs; subst habs; exact ⟨hi, rfl⟩
  | setQr v => simp only [Driver.toSpecOp, Message.absOk, Except.ok.injEq] at habs; subst habs; exact ⟨hi, rfl⟩
  | setAa v => simp only [Driver.toSpecOp, Message.absOk, Except.ok.injEq] at habs; subst habs; exact ⟨hi, rfl⟩
  | setTc v => simp only [Driver.toSpecOp, Message.absOk, Except.ok.injEq] at habs; subst habs; exact ⟨hi, rfl⟩
  | setRd v => simp only [Driver.toSpecOp, Message.absOk, Except.ok.injEq] at habs; subst habs; exact ⟨hi, rfl⟩
  | setRa v => simp only [Driver.toSpecOp, Message.absOk, Except.ok.injEq] at habs; subst habs; exact ⟨hi, rfl⟩
  | setOpcode v => simp only [Driver.toSpecOp, Message.absOk, Except.ok.injEq] at habs; subst habs; exact ⟨hi, rfl⟩
  | setRcode v => simp only [Driver.toSpecOp, Message.absOk, Except.ok.injEq] at habs; subst habs; exact ⟨hi, rfl⟩
  | setLimit v => simp only [Driver.toSpecOp, Message.absOk, Except.ok.injEq] at habs; subst habs; exact ⟨hi, rfl⟩
  | setMode v => simp only [Driver.toSpecOp, Message.absOk, Except.ok.injEq] at habs; subst habs; exact ⟨hi, rfl⟩
  | getters => simp only [Driver.toSpecOp, Message.absOk, Except.ok.injEq] at habs; subst habs; exact ⟨hi, rfl⟩
  | setExtendedRcode v =>
    simp only [Driver.toSpecOp, Message.absOk] at habs
    (repeat' split at habs) <;> first
      | (simp only [Except.ok.injEq] at habs; subst habs; exact ⟨hi, rfl⟩)
      | cases habs
  | setEdns v =>
    simp only [Driver.toSpecOp, Message.absOk] at habs
    (repeat' split at habs) <;> first
      | (simp only [Except.ok.injEq] at habs; subst habs; exact ⟨hi, rfl⟩)
      | cases habs
  | updateTimeSigned v =>
    simp only [Driver.toSpecOp, Message.absOk] at habs
    (repeat' split at habs) <;> first
      | (simp only [Except.ok.injEq] at habs; subst habs; exact ⟨hi, rfl⟩)
      | cases habs
  | template n f =>
    simp only [Driver.toSpecOp, Message.absOk] at habs
    (repeat' split at habs) <;> first
      | (simp only [Except.ok.injEq] at habs; subst habs; exact ⟨hi, rfl⟩)
      | cases habs
  | templateSubsequent n f m =>
    simp only [Driver.toSpecOp, Message.absOk] at habs
    (repeat' split at habs) <;> first
      | (simp only [Except.ok.injEq] at habs; subst habs; exact ⟨hi, rfl⟩)
      | cases habs


theorem walk_default (a : Message.AState) (sop : Message.SOp) (sops : List Message.SOp) (st : String)
    (sts : List String) (msgs : List Bytes) (d : Message.Decoded) (mac : Option (List UInt8))
    (h1 : sop ≠ .getters) (h2 : sop ≠ .clearRrs) :
    Message.walk false a (sop :: sops) (st :: sts) msgs (some d) mac =
      (if st == "ok" then do
        let s' ← Message.absOk a d sop
        Message.walk false s' sops sts msgs (some d) mac
      else if false || Message.justified a sop st then Message.walk false a sops sts msgs (some d) mac
      else throw s!"failure {st} is not justified (remaining space {Message.remaining a})") := by
  cases sop <;> first
    | exact absurd rfl h1
    | exact absurd rfl h2
    | rfl
    | simp only [Message.walk]


def NonEmptySet : Op → Prop
  | .addRrset _ _ _ _ _ _ rds _ => rds ≠ []
  | _ => True

theorem toSpecOp_ne (op : Op) (h1 : op ≠ .clearRrs) (h2 : op ≠ .getters) :
    Driver.toSpecOp op ≠ .getters ∧ Driver.toSpecOp op ≠ .clearRrs := by
  cases op <;> first
    | exact absurd rfl h1
    | exact absurd rfl h2
    | (constructor <;> (intro h; simp only [Driver.toSpecOp] at h; try cases h))

theorem absOk_addQuestion_cur {a a' : Message.AState} {d : Message.Decoded} {n : Message.Name} {t c : Nat}
    (h : Message.absOk a d (.addQuestion n t c) = .ok a') : Message.endOf d a.itemIdx = some a'.cur := by
  simp only [Message.absOk] at h
  cases he : Message.endOf d a.itemIdx with
  | none => rw [he] at h; cases h
  | some e => rw [he] at h; simp only [Except.ok.injEq] at h; subst h; rfl

theorem absOk_hdr (op : Op) (a a' : Message.AState) (d : Message.Decoded)
    (habs : Message.absOk a d (Driver.toSpecOp op) = .ok a') : a'.hdr = hdrStep a.hdr op := by
  cases op with
  | addQuestion n t c =>
    simp only [Driver.toSpecOp, Message.absOk] at habs
    cases he : Message.endOf d a.itemIdx with
    | none => rw [he] at habs; cases habs
    | some e => rw [he] at habs; simp only [Except.ok.injEq] at habs; subst habs; rfl
  | addRr sec hn o ty cls ttl rd hv =>
    simp only [Driver.toSpecOp, Message.absOk] at habs
    (repeat' split at habs) <;> first
      | (simp only [Except.ok.injEq] at habs; subst habs; rfl)
      | cases habs
  | addRrset sec hn o ty cls ttl rds hv =>
    simp only [Driver.toSpecOp, Message.absOk] at habs
    (repeat' split at habs) <;> first
      | (simp only [Except.ok.injEq] at habs; subst habs; rfl)
      | cases habs
  | setTsig m rr =>
    simp only [Driver.toSpecOp, Message.absOk] at habs
    split at habs
    · cases habs
    · simp only [Except.ok.injEq] at habs; subst habs; rfl
  | setQr v => simp only [Driver.toSpecOp, Message.absOk, Except.ok.injEq] at habs; subst habs; rfl
  | setAa v => simp only [Driver.toSpecOp, Message.absOk, Except.ok.injEq] at habs; subst habs; rfl
  | setTc v => simp only [Driver.toSpecOp, Message.absOk, Except.ok.injEq] at habs; subst habs; rfl
  | setRd v => simp only [Driver.toSpecOp, Message.absOk, Except.ok.injEq] at habs; subst habs; rfl
  | setRa v => simp only [Driver.toSpecOp, Message.absOk, Except.ok.injEq] at habs; subst habs; rfl
  | _ =>
    simp only [Driver.toSpecOp, Message.absOk] at habs
    (repeat' split at habs) <;> first
      | (simp only [Except.ok.injEq] at habs; subst habs; rfl)
      | cases habs

theorem hdrStep_z (h : Message.Header) (op : Op) : (hdrStep h op).z = h.z := by cases op <;> rfl

/-- **the walk of the specification over a segment**: on the statuses the model reports and the
    decoded finished message, `walk` accepts every call and reaches `checkSegment` in an abstract
    state that describes the final writer state -/
theorem walk_segment {sR : State} (hcurR : sR.cursor ≤ 65535) (d : Message.Decoded) (m : Bytes)
    (mac' : Option (List UInt8))
    (hpre : ∀ s, WInv s → s.rrStart ≤ s.cursor → Seg s sR → ∀ qs rs, QChainC s qs 12 s.rrStart →
      RChainC s rs s.rrStart s.cursor →
      (d.extents.map (·.2)).take (qs.length + rs.length) = qs.map qEnd ++ rs.map rEnd) :
    ∀ (ops : List Op) (ss : Session) (b : Body) (mb : MBody) (a : Message.AState),
      I ss.w → CLay (fun _ => True) ss.w b mb → AbsNum ss.w a → IdxOK a → a.itemIdx = bodyLen b →
      a.hdr = specHeader ss.w.octets → a.hdr.z = 0 → (∀ op ∈ ops, op.Typed) →
      Respects ss ops → (∀ op ∈ ops, op ≠ .clearRrs ∧ op ≠ .getters ∧ NonEmptySet op) → (run ss ops).1.w = sR →
      ∃ aF, AbsNum sR aF ∧ aF.hdr = specHeader sR.octets ∧ aF.hdr.z = 0 ∧
        Message.walk false a (ops.map Driver.toSpecOp) ((run ss ops).2.map Driver.statusStr ++ ["ok"]) [m] (some d) mac' =
          Message.checkSegment false aF d m.size mac' := by
  intro ops
  induction ops with
  | nil =>
    intro ss b mb a hI hL hA hidx hlen hh hz _ _ _ hfin
    refine ⟨a, by rw [← hfin]; exact hA, by rw [← hfin]; exact hh, hz, ?_⟩
    simp [run, Message.walk]
  | cons op ops ih =>
    intro ss b mb a hI hL hA hidx hlen hh hz ht hr hno hfin
    obtain ⟨hop, hrest⟩ := hr
    have ht' : ∀ op' ∈ ops, op'.Typed := fun op' h => ht op' (List.mem_cons_of_mem _ h)
    have hhs := hdr_step ss op hI.inv (ht op List.mem_cons_self)
    obtain ⟨hnp, hI'⟩ := step_I ss op hI hop
    obtain ⟨hnc, hng, hnes⟩ := hno op List.mem_cons_self
    have hno' : ∀ op' ∈ ops, op' ≠ .clearRrs ∧ op' ≠ .getters ∧ NonEmptySet op' :=
      fun op' h => hno op' (List.mem_cons_of_mem _ h)
    have hL' := clay_step ss op b mb hI hL hop (fun _ _ => trivial)
    obtain ⟨hs1, hs2⟩ := toSpecOp_ne op hnc hng
    have hjust := step_justified ss op a hI hop hA
    have hsame := step_err_same ss op hI.inv
    unfold run at hfin ⊢
    cases hs : step ss op with
    | mk r ss' =>
      rw [hs] at hnp hI' hrest hL' hfin hjust hsame hhs
      cases r with
      | panic => exact absurd rfl hnp
      | err e =>
        simp only [reduceCtorEq, if_false] at hL' hfin ⊢
        have hA' : AbsNum ss'.w a := sameAbs_keep hA (hsame e rfl)
        cases hrun : run ss' ops with
        | mk ss'' rs =>
          rw [hrun] at hfin
          have hh' : a.hdr = specHeader ss'.w.octets := by
            have := hhs (by simp)
            simp only [reduceCtorEq, if_false] at this
            rw [this]; exact hh
          obtain ⟨aF, hAF, hF1, hF2, hw⟩ := ih ss' b mb a hI' hL' hA' hidx hlen hh' hz ht' hrest hno'
            (by rw [hrun]; exact hfin)
          rw [hrun] at hw
          refine ⟨aF, hAF, hF1, hF2, ?_⟩
          simp only [List.map_cons, List.cons_append]
          rw [walk_default _ _ _ _ _ _ _ _ hs1 hs2, statusStr_err_ne_ok]
          simp only [Bool.false_eq_true, if_false, Bool.false_or, hjust e rfl, if_true]
          exact hw
      | ok u =>
        simp only [if_true] at hL' hfin ⊢
        cases hrun : run ss' ops with
        | mk ss'' rs =>
          rw [hrun] at hfin
          simp only at hfin
          -- the rest of the segment
          have hseg : Seg ss'.w sR := by
            have := run_seg ss' ops hI' hL' hrest (fun h => (hno' _ h).1 rfl)
            rw [hrun] at this; rw [← hfin]; exact this
          have hc65 : ss'.w.cursor ≤ 65535 := by have := hseg.pres.cur; omega
          obtain ⟨qs', hq', hqm', _, _⟩ := hL'.q
          obtain ⟨rs', hr', hrm', _, _⟩ := hL'.r hc65
          have hN : qs'.length + rs'.length = a.itemIdx + added op := by
            have h1 := congrArg List.length hqm'
            have h2 := congrArg List.length hrm'
            simp only [List.length_map, List.length_append] at h1 h2
            have := bodyLen_step b op hnc
            unfold bodyLen at this hlen
            omega
          have hpfx := hpre ss'.w hI'.winv hI'.inv.rr_hi hseg qs' rs' hq' hr'
          have hend : 0 < added op → Message.endOf d (a.itemIdx + added op - 1) = some ss'.w.cursor := by
            intro hpos
            have := endOf_last hq' hr' (by omega) hpfx
            rw [hN] at this; exact this
          have hok : (step ss op).1 = .ok () := by rw [hs]
          have hw' : (step ss op).2.w = ss'.w := by rw [hs]
          -- `absOk` goes through
          have hAP : AbsPre a d op := by
            cases op with
            | addQuestion n t c => simp only [AbsPre]; rw [show a.itemIdx = a.itemIdx + added (.addQuestion n t c) - 1 by simp [added], hend (by simp [added])]; rfl
            | addRr sec hn o ty cls ttl rd hv => simp only [AbsPre]; rw [show a.itemIdx = a.itemIdx + added (.addRr sec hn o ty cls ttl rd hv) - 1 by simp [added], hend (by simp [added])]; rfl
            | addRrset sec hn o ty cls ttl rds hv =>
              have hne : rds ≠ [] := hnes
              have hpos : 0 < rds.length := List.length_pos_iff.mpr hne
              refine ⟨hne, ?_⟩
              have := hend (by simpa [added] using hpos)
              simp only [added] at this
              rw [this]; rfl
            | _ => trivial
          obtain ⟨a', habs⟩ := absOk_succeeds ss op a d hI hA hok hAP
          have hcur : movesCursor op = true → a'.cur = (step ss op).2.w.cursor := by
            intro hm
            rw [hw']
            cases op with
            | addQuestion n t c =>
              have h1 := absOk_addQuestion_cur habs
              have h2 := hend (by simp [added])
              simp only [added, Nat.add_sub_cancel] at h2
              rw [h2] at h1; exact (Option.some.inj h1).symm
            | addRr sec hn o ty cls ttl rd hv =>
              obtain ⟨_, _, _, _, _, _, _, _, _, _, _, _, h1⟩ := absOk_addRrs_inv habs
              have h2 := hend (by simp [added])
              simp only [added, List.length_cons, List.length_nil] at h1 h2
              rw [h2] at h1; exact (Option.some.inj h1).symm
            | addRrset sec hn o ty cls ttl rds hv =>
              obtain ⟨_, _, _, _, _, _, _, _, _, _, _, _, h1⟩ := absOk_addRrs_inv habs
              have hne : rds ≠ [] := hnes
              have h2 := hend (by simpa [added] using List.length_pos_iff.mpr hne)
              simp only [added] at h2
              rw [h2] at h1; exact (Option.some.inj h1).symm
            | clearRrs => exact absurd rfl hnc
            | _ => cases hm
          have hA' : AbsNum ss'.w a' := by
            have := absNum_step ss op a a' d hI hop hA hok habs hcur
            rw [hw'] at this; exact this
          obtain ⟨hidx', hidxeq⟩ := absOk_idx op a a' d hnc habs hidx
          have hlen' : a'.itemIdx = bodyLen (bodyStep b op) := by
            rw [hidxeq, bodyLen_step b op hnc, hlen]
          have hah := absOk_hdr op a a' d habs
          have hh' : a'.hdr = specHeader ss'.w.octets := by
            have := hhs (by simp)
            simp only [if_true] at this
            rw [this, hah, hh]
          have hz' : a'.hdr.z = 0 := by rw [hah, hdrStep_z]; exact hz
          obtain ⟨aF, hAF, hF1, hF2, hw⟩ := ih ss' (bodyStep b op) _ a' hI' hL' hA' hidx' hlen' hh' hz' ht' hrest hno'
            (by rw [hrun]; exact hfin)
          rw [hrun] at hw
          refine ⟨aF, hAF, hF1, hF2, ?_⟩
          simp only [List.map_cons, List.cons_append]
          rw [walk_default _ _ _ _ _ _ _ _ hs1 hs2]
          have hokstr : (Driver.statusStr (.ok u) == "ok") = true := by cases u; decide
          rw [hokstr]
          simp only [if_true, habs]
          exact hw


/-- **the walk of `checkSession` from a fresh writer**, for sessions without `clear_rrs` and `getters`
    whose limits are at most 65535: run on the statuses of the model and on the decoded finished
    message, `walk` accepts every call (successful calls by `absOk`, failed calls because they are
    `justified`) and equals the final check `checkSegment` in an abstract state describing the final
    writer state -/
theorem walk_from_new (macFn : Tsig → List UInt8 → List UInt8) (hmac : MacLenOK macFn)
    (buf : Bytes) (limit : Nat) (s0 : State) (hnew : Writer.new buf limit = .ok s0) (hlim : limit ≤ 65535)
    (mode : CMode) (ops : List Op) (ht : ∀ op ∈ ops, op.Typed)
    (hr : Respects { w := { s0 with mode := mode } } ops) (hv : ∀ v, Op.setLimit v ∈ ops → v ≤ 65535)
    (hno : ∀ op ∈ ops, op ≠ .clearRrs ∧ op ≠ .getters ∧ NonEmptySet op) (mac' : Option (List UInt8)) :
    ∃ m mac d aF, finish (run { w := { s0 with mode := mode } } ops).1.w macFn = .ok (m, mac) ∧
      Message.specDecodeMsg m = some d ∧ AbsNum (run { w := { s0 with mode := mode } } ops).1.w aF ∧
      aF.hdr = d.msg.header ∧ aF.hdr.z = 0 ∧
      Message.walk false
          { mode := Driver.toSpecMode mode, buflen := buf.size, limit := min limit buf.size }
          (ops.map Driver.toSpecOp)
          ((run { w := { s0 with mode := mode } } ops).2.map Driver.statusStr ++ ["ok"]) [m] (some d) mac' =
        Message.checkSegment false aF d m.size mac' := by
  have hI0 : I { s0 with mode := mode } := (safe_setMode mode s0 (new_i buf limit s0 hnew)).2
  have hL0 : CLay (fun _ => True) { s0 with mode := mode } {} {} := clay_new buf limit s0 hnew mode trivial
  have hA0 := absNum_new buf limit s0 hnew mode
  have hIR := (run_I { w := { s0 with mode := mode } } ops hI0 hr).2
  have hLR := clay_run { w := { s0 with mode := mode } } ops {} {} hI0 hL0 hr (fun _ _ => trivial)
  have hT := typed_run ops { w := { s0 with mode := mode } } {}
    ⟨(fun _ h => by cases h), (fun _ h => by cases h), (fun _ h => by cases h), (fun _ h => by cases h)⟩ ht
  have hlimR := run_limit { w := { s0 with mode := mode } } ops hI0 hr (new_limit buf limit s0 hnew hlim) hv
  obtain ⟨m, mac, hf⟩ := finish_ok macFn hmac _ hIR
  have hsz := session_size_le macFn buf limit s0 hnew hlim mode ops hr hv m mac hf
  generalize hsR : (run { w := { s0 with mode := mode } } ops).1.w = sR at hIR hLR hlimR hf
  generalize bodyRun {} ops (run { w := { s0 with mode := mode } } ops).2 = B at hLR hT
  generalize mrun { w := { s0 with mode := mode } } {} ops = MB at hLR
  have hst : ∀ r ∈ B.an ++ B.ns ++ B.ar, LayoutStable r := by
    intro r hx
    have hr : r.Typed := by
      rcases List.mem_append.mp hx with h1 | h1
      · rcases List.mem_append.mp h1 with h2 | h2
        · exact hT.an r h2
        · exact hT.ns r h2
      · exact hT.ar r h1
    exact layoutStable_of_lt hr.2.1 hr.2.2.1
  have hcurR : sR.cursor ≤ 65535 := by
    have := hIR.inv.cur_av; have := hIR.inv.av_lim; omega
  obtain ⟨d, hd, _⟩ := extents_prefix macFn hIR.winv hIR.inv.rr_hi (Seg.refl sR) hIR hLR hst m mac hf hsz
  have hpre : ∀ s, WInv s → s.rrStart ≤ s.cursor → Seg s sR → ∀ qs rs, QChainC s qs 12 s.rrStart →
      RChainC s rs s.rrStart s.cursor →
      (d.extents.map (·.2)).take (qs.length + rs.length) = qs.map qEnd ++ rs.map rEnd := by
    intro s hw hrr hseg qs rs hq hr'
    obtain ⟨d', hd', h⟩ := extents_prefix macFn hw hrr hseg hIR hLR hst m mac hf hsz
    rw [hd] at hd'
    cases hd'
    exact h qs rs hq hr'
  obtain ⟨aF, hAF, hF1, hF2, hw⟩ := walk_segment hcurR d m mac' hpre ops { w := { s0 with mode := mode } } {} {} _
    hI0 hL0 hA0 rfl rfl (by show _ = specHeader s0.octets; rw [hdr_new buf limit s0 hnew]) rfl ht hr hno hsR
  obtain ⟨d2, _, _, _, _, hd2, hh2, _⟩ := finish_refines macFn sR B MB hIR hLR hst m mac hf hsz
  rw [hd] at hd2
  cases hd2
  exact ⟨m, mac, d, aF, hf, hd, hAF, by rw [hF1, hh2], hF2, hw⟩

end QV.Writer
