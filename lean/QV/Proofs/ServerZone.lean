/-
  QV.Proofs.ServerZone — what the QUERY handler relies on in the zone and catalog models
  (helpers of C01, layer L2):

  * zone lookups: a checked lookup never panics; an unchecked one panics only for a name with
    fewer labels than the apex (C06) and never answers `WrongZone`; the RRsets and the child-zone
    name handed back come from the tree (`NodeOK`), the child-zone name is a suffix of the name
    looked up, hence a well-formed name;
  * the catalog built by `mkCatalog`: the entry `lookup` returns carries the index of its own
    zone, which is in range, and its name is a suffix of the QNAME (C22) — so the unchecked lookup
    of `answer`/`answer_any` is made on a name at or below the apex.
-/
import QV.Proofs.ServerWriter
import QV.Properties.C22
import QV.Properties.C06

namespace QV.ServerSafety
open QV QV.Writer QV.Server

/-! ### wire length of label lists -/

def wlen : List Label → Nat
  | [] => 1
  | l :: r => l.length + 1 + wlen r

theorem wire_length (ls : List Label) : (⟨ls⟩ : WName).wire.length = wlen ls := by
  unfold WName.wire
  induction ls with
  | nil => rfl
  | cons l r ih =>
    simp only [List.flatMap_cons, WName.encLabel, List.cons_append, List.length_cons, List.append_assoc,
      List.length_append] at ih ⊢
    simp only [wlen]; omega

theorem wf_iff (ls : List Label) : (⟨ls⟩ : WName).WF ↔ LabelsOK ls ∧ wlen ls ≤ 255 := by
  unfold WName.WF
  rw [wire_length, consts63.1, consts63.2]
  rfl

theorem wlen_append (a b : List Label) : wlen (a ++ b) + 1 = wlen a + wlen b := by
  induction a with
  | nil => simp [wlen]; omega
  | cons l r ih => simp only [List.cons_append, wlen]; omega

theorem wf_suffix {a b : List Label} (h : a <:+ b) (hb : (⟨b⟩ : WName).WF) : (⟨a⟩ : WName).WF := by
  obtain ⟨t, rfl⟩ := h
  rw [wf_iff] at hb ⊢
  refine ⟨fun l hl => hb.1 l (by simp [hl]), ?_⟩
  have := wlen_append t a
  have h1 : 1 ≤ wlen t := by cases t <;> simp only [wlen] <;> omega
  omega

theorem wlen_map (ls : List Label) (f : Label → Label) (hf : ∀ l, (f l).length = l.length) :
    wlen (ls.map f) = wlen ls := by
  induction ls with
  | nil => rfl
  | cons l r ih => simp only [List.map_cons, wlen, ih, hf]

/-- case folding keeps a name well formed -/
theorem fold_wf (n : WName) (h : n.WF) : (unfold (fold n)).WF := by
  obtain ⟨ls⟩ := n
  rw [wf_iff] at h
  unfold unfold fold
  rw [wf_iff, wlen_map _ _ (fun l => by simp [NameL.lowerLabel])]
  refine ⟨fun l hl => ?_, h.2⟩
  obtain ⟨l', hl', rfl⟩ := List.mem_map.mp hl
  simpa [NameL.lowerLabel] using h.1 l' hl'

/-! ### `Name::eq_or_subdomain_of` -/

theorem eqOrSub_iff (self other : NameL.Name) :
    NameL.eqOrSubdomainOf self other = true ↔ other <:+ self := by
  simp only [NameL.eqOrSubdomainOf, Bool.and_eq_true, decide_eq_true_eq]
  constructor
  · intro ⟨hl, ha⟩
    have h2 : other.reverse.length ≤ self.reverse.length := by simpa using hl
    exact List.reverse_prefix.mp ((Catalog.zip_all_prefix_iff _ _ h2).mp ha)
  · intro hs
    have hl : other.length ≤ self.length := hs.length_le
    have h2 : other.reverse.length ≤ self.reverse.length := by simpa using hl
    exact ⟨hl, (Catalog.zip_all_prefix_iff _ _ h2).mpr (List.reverse_prefix.mpr hs)⟩

/-! ### the zone tree -/

open QV.Zone in
/-- every RRset stored in the tree satisfies `P` -/
inductive NodeOK (P : Zone.Rrset → Prop) : Zone.Node → Prop
  | mk (rrsets : List Zone.Rrset) (children : List (NameL.Label × Zone.Node)) :
      (∀ r ∈ rrsets, P r) → (∀ l c, (l, c) ∈ children → NodeOK P c) → NodeOK P (.mk rrsets children)

theorem childGet_mem (children : List (NameL.Label × Zone.Node)) (l : NameL.Label) (sub : Zone.Node)
    (h : Zone.childGet children l = some sub) : ∃ k, (k, sub) ∈ children := by
  induction children with
  | nil => simp [Zone.childGet] at h
  | cons kv rest ih =>
    obtain ⟨k, v⟩ := kv
    simp only [Zone.childGet] at h
    split at h
    · cases h; exact ⟨k, by simp⟩
    · obtain ⟨k', hk'⟩ := ih h; exact ⟨k', by simp [hk']⟩

theorem lookupRrset_mem (rrsets : List Zone.Rrset) (t : Nat) (r : Zone.Rrset)
    (h : Zone.lookupRrset rrsets t = some r) : r ∈ rrsets := by
  induction rrsets with
  | nil => simp [Zone.lookupRrset] at h
  | cons s rest ih =>
    simp only [Zone.lookupRrset] at h
    split at h
    · cases h; simp
    · simp [ih h]

/-- what the node search returns comes from the tree, and a child-zone name consists of labels of
    the path already walked in front of the starting name -/
theorem lookupImpl_spec (P : Zone.Rrset → Prop) (sbc : Bool) :
    ∀ (path : List NameL.Label) (node : Zone.Node) (nm : NameL.Name) (atApex : Bool), NodeOK P node →
      Zone.lookupImpl sbc node nm path atApex ≠ .wrongZone ∧
      (∀ rrsets sos, Zone.lookupImpl sbc node nm path atApex = .found rrsets sos → ∀ r ∈ rrsets, P r) ∧
      (∀ c ns, Zone.lookupImpl sbc node nm path atApex = .referral c ns →
        P ns ∧ ∃ k, c = (path.take k).reverse ++ nm) := by
  intro path
  induction path with
  | nil =>
    intro node nm atApex hok
    cases hok with
    | mk rrsets children h1 h2 =>
      unfold Zone.lookupImpl
      split
      · rename_i ns hns
        refine ⟨by simp, fun _ _ h => (by cases h), fun c ns' h => ?_⟩
        cases h
        split at hns
        · exact ⟨h1 _ (lookupRrset_mem _ _ _ hns), 0, by simp⟩
        · cases hns
      · refine ⟨by simp, fun rr sos h => ?_, fun _ _ h => by cases h⟩
        cases h; exact h1
  | cons l rest ih =>
    intro node nm atApex hok
    cases hok with
    | mk rrsets children h1 h2 =>
      unfold Zone.lookupImpl
      split
      · rename_i ns hns
        refine ⟨by simp, fun _ _ h => (by cases h), fun c ns' h => ?_⟩
        cases h
        split at hns
        · exact ⟨h1 _ (lookupRrset_mem _ _ _ hns), 0, by simp⟩
        · cases hns
      · simp only
        cases hc : Zone.childGet children l with
        | some sub =>
          obtain ⟨k, hk⟩ := childGet_mem _ _ _ hc
          obtain ⟨g1, g2, g3⟩ := ih sub (l :: nm) false (h2 k sub hk)
          refine ⟨g1, g2, fun c ns h => ?_⟩
          obtain ⟨hp, j, hj⟩ := g3 c ns h
          exact ⟨hp, j + 1, by simp [hj]⟩
        | none =>
          simp only
          cases hw : Zone.childGet children NameL.asterisk with
          | some w =>
            obtain ⟨k, hk⟩ := childGet_mem _ _ _ hw
            refine ⟨by simp, fun rr sos h => ?_, fun _ _ h => by cases h⟩
            cases h
            cases h2 k w hk with
            | mk wr wc g1 g2 => exact g1
          | none => exact ⟨by simp, fun _ _ h => (by cases h), fun _ _ h => by cases h⟩

/-! ### zones built through `HashMapTreeZone::add` only hold non-empty RRsets -/

theorem rrsetsAdd_nonempty (eqv : Zone.Eqv) (cls t ttl : Nat) (rd : Zone.Rdata) :
    ∀ (rrsets res : List Zone.Rrset), (∀ r ∈ rrsets, r.rdatas ≠ []) →
      Zone.rrsetsAdd eqv cls t ttl rd rrsets = .ok res → ∀ r ∈ res, r.rdatas ≠ [] := by
  intro rrsets
  induction rrsets with
  | nil =>
    intro res _ h r hr
    simp only [Zone.rrsetsAdd] at h
    cases h; simp at hr; subst hr; simp
  | cons s rest ih =>
    intro res hne h r hr
    simp only [Zone.rrsetsAdd] at h
    split at h
    · split at h
      · cases h
      · cases h
        simp only [List.mem_cons] at hr
        rcases hr with rfl | hr
        · simp only [Zone.rdataInsert]
          split
          · exact hne s (by simp)
          · simp
        · exact hne r (by simp [hr])
    · split at h
      · cases h
        simp only [List.mem_cons] at hr
        rcases hr with rfl | rfl | hr
        · simp
        · exact hne _ (by simp)
        · exact hne r (by simp [hr])
      · cases hrec : Zone.rrsetsAdd eqv cls t ttl rd rest with
        | error e => rw [hrec] at h; cases h
        | ok r' =>
          rw [hrec] at h
          cases h
          simp only [List.mem_cons] at hr
          rcases hr with rfl | hr
          · exact hne _ (by simp)
          · exact ih r' (fun x hx => hne x (by simp [hx])) hrec r hr

theorem childSet_mem (children : List (NameL.Label × Zone.Node)) (l : NameL.Label) (n : Zone.Node)
    (k : NameL.Label) (c : Zone.Node) (h : (k, c) ∈ Zone.childSet children l n) :
    c = n ∨ (k, c) ∈ children := by
  induction children with
  | nil => simp [Zone.childSet] at h; exact Or.inl h.2
  | cons kv rest ih =>
    obtain ⟨k', v'⟩ := kv
    simp only [Zone.childSet] at h
    split at h
    · simp only [List.mem_cons, Prod.mk.injEq] at h
      rcases h with ⟨_, rfl⟩ | h
      · exact Or.inl rfl
      · exact Or.inr (by simp [h])
    · simp only [List.mem_cons, Prod.mk.injEq] at h
      rcases h with ⟨rfl, rfl⟩ | h
      · exact Or.inr (by simp)
      · rcases ih h with h | h
        · exact Or.inl h
        · exact Or.inr (by simp [h])

theorem nodeOK_empty (P : Zone.Rrset → Prop) : NodeOK P Zone.Node.empty :=
  NodeOK.mk _ _ (fun _ h => by cases h) (fun _ _ h => by cases h)

theorem addAt_nodeOK (eqv : Zone.Eqv) (cls t ttl : Nat) (rd : Zone.Rdata) :
    ∀ (path : List NameL.Label) (node : Zone.Node), NodeOK (fun r => r.rdatas ≠ []) node →
      NodeOK (fun r => r.rdatas ≠ []) (Zone.addAt eqv cls t ttl rd node path).1 := by
  intro path
  induction path with
  | nil =>
    intro node hok
    cases hok with
    | mk rrsets children h1 h2 =>
      simp only [Zone.addAt]
      cases hr : Zone.rrsetsAdd eqv cls t ttl rd rrsets with
      | ok rr' => exact NodeOK.mk _ _ (rrsetsAdd_nonempty eqv cls t ttl rd rrsets rr' h1 hr) h2
      | error e => exact NodeOK.mk _ _ h1 h2
  | cons l rest ih =>
    intro node hok
    cases hok with
    | mk rrsets children h1 h2 =>
      simp only [Zone.addAt]
      refine NodeOK.mk _ _ h1 (fun k c hc => ?_)
      rcases childSet_mem _ _ _ _ _ hc with rfl | hc
      · apply ih
        cases hg : Zone.childGet children l with
        | none => exact nodeOK_empty _
        | some sub =>
          obtain ⟨k', hk'⟩ := childGet_mem _ _ _ hg
          exact h2 k' sub hk'
      · exact h2 k c hc

theorem build_nodeOK (eqv : Zone.Eqv) (apex : NameL.Name) (cls : Nat) (glue : Zone.GluePolicy)
    (rs : List Zone.Rec) :
    NodeOK (fun r => r.rdatas ≠ []) (Zone.build eqv (Zone.Zone.new apex cls glue) rs).root := by
  unfold Zone.build
  have : ∀ (rs : List Zone.Rec) (z : Zone.Zone), NodeOK (fun r => r.rdatas ≠ []) z.root →
      NodeOK (fun r => r.rdatas ≠ []) (rs.foldl (fun z r => (Zone.addM eqv z r).1) z).root := by
    intro rs
    induction rs with
    | nil => intro z h; exact h
    | cons r rest ih =>
      intro z h
      apply ih
      unfold Zone.addM
      dsimp only
      split
      · exact h
      · split
        · exact h
        · exact addAt_nodeOK eqv _ _ _ _ _ _ h
  exact this rs _ (nodeOK_empty _)

/-- what the handler relies on in a zone: the apex is a name, no stored RRset is empty
    (`RdataSetOwned` is never empty) -/
structure ZoneOK (z : Zone.Zone) : Prop where
  apex_wf : (unfold z.apex).WF
  rrsets : NodeOK (fun r => r.rdatas ≠ []) z.root

/-- outcome of `lookup_base` on a well-formed name that — when the lookup is `unchecked` — lies at
    or below the apex: never a panic; `WrongZone` only from a checked lookup; everything handed
    back is usable by the writer -/
theorem lookupBase_cases (z : Zone.Zone) (hz : ZoneOK z) (name : NameL.Name) (o : Zone.Opts)
    (hname : (unfold name).WF) (hsub : o.unchecked = true → z.apex <:+ name) :
    (Zone.lookupBase z name o = .ok .wrongZone ∧ o.unchecked = false) ∨
    ∃ b, Zone.lookupBase z name o = .ok b ∧ b ≠ .wrongZone ∧
      (∀ rrsets sos, b = .found rrsets sos → ∀ r ∈ rrsets, r.rdatas ≠ []) ∧
      (∀ c ns, b = .referral c ns → ns.rdatas ≠ [] ∧ (unfold c).WF) := by
  unfold Zone.lookupBase
  by_cases hc : (!o.unchecked && !NameL.eqOrSubdomainOf name z.apex) = true
  · left
    simp only [hc, if_true]
    simp only [Bool.and_eq_true, Bool.not_eq_true'] at hc
    exact ⟨trivial, hc.1⟩
  · right
    have hs : z.apex <:+ name := by
      cases hu : o.unchecked with
      | true => exact hsub hu
      | false =>
        rw [hu] at hc
        simp only [Bool.not_false, Bool.true_and, Bool.not_eq_true', Bool.not_eq_false] at hc
        exact (eqOrSub_iff _ _).mp hc
    have hl : ¬ name.length < z.apex.length := by have := hs.length_le; omega
    simp only [hc, if_false, hl]
    obtain ⟨g1, g2, g3⟩ := lookupImpl_spec (fun r => r.rdatas ≠ []) o.searchBelowCuts
      (Zone.relPath z.apex.length name) z.root z.apex true hz.rrsets
    refine ⟨_, rfl, g1, g2, fun c ns h => ?_⟩
    obtain ⟨hp, k, hk⟩ := g3 c ns h
    refine ⟨hp, ?_⟩
    obtain ⟨t, rfl⟩ := hs
    have hm : (t ++ z.apex).length - z.apex.length = t.length := by simp
    have htk : List.take t.length (t ++ z.apex) = t := by simp
    unfold Zone.relPath at hk
    rw [hm, htk] at hk
    have h1 : (List.take k t.reverse).reverse <:+ t := by
      have hp : List.take k t.reverse <+: t.reverse := List.take_prefix k t.reverse
      have := List.reverse_suffix.mpr hp
      simpa using this
    have h2 : c <:+ t ++ z.apex := by
      obtain ⟨u, hu⟩ := h1
      exact ⟨u, by rw [hk, ← List.append_assoc, hu]⟩
    exact wf_suffix h2 hname

/-! ### the catalog built by `mkCatalog` -/

open QV.Catalog QV.Spec.Catalog in
/-- after inserts only, every binding of the specification map is one of the inserted entries,
    filed under its own key -/
theorem specRun_inserts {μ : Type} (P : Catalog.Entry μ → Prop) (ops : List (Catalog.Op μ))
    (hops : ∀ op ∈ ops, ∃ e, op = .insert e ∧ P e) (m : SMap (Catalog.Entry μ))
    (hm : ∀ k e, sfind m k = some e → P e ∧ keyOf e = k) :
    ∀ k e, sfind (ops.foldl specStep m) k = some e → P e ∧ keyOf e = k := by
  induction ops generalizing m with
  | nil => exact hm
  | cons op rest ih =>
    obtain ⟨e0, rfl, hp0⟩ := hops op (by simp)
    refine ih (fun op hop => hops op (by simp [hop])) _ ?_
    intro k e h
    simp only [specStep, sfind_sinsert] at h
    split at h
    · rename_i hk; cases h; exact ⟨hp0, hk.symm⟩
    · exact hm k e h

open QV.Catalog QV.Spec.Catalog in
/-- **the zone `handle_query` indexes exists and is the one whose apex is a suffix of the QNAME**:
    the entry returned by the catalog lookup carries its own index into `cfg.zones` (so the
    `M.panic` after `cfg.zones[e.zone]?` is unreachable), and its name is a suffix of the name
    looked up (C22) -/
theorem mkCatalog_lookup (zs : List ZoneEntry) (n : DName) (cls : Nat) (e : Catalog.Entry Unit)
    (h : Catalog.lookup (mkCatalog zs) n cls = some e) :
    ∃ ze, zs[e.zone]? = some ze ∧ e.name = ze.apex.labels ∧ e.kind = ze.kind ∧
      foldName ze.apex.labels <:+ foldName n := by
  let mk : ZoneEntry × Nat → Catalog.Op Unit := fun p => .insert ⟨p.1.apex.labels, p.1.cls, p.1.kind, p.2, ()⟩
  have hrun : mkCatalog zs = Catalog.run (zs.zipIdx.map mk) := by
    unfold mkCatalog Catalog.run
    rw [List.foldl_map]
    rfl
  rw [hrun] at h
  have hl := C22.C22_lookup_longest (zs.zipIdx.map mk) n cls
  rw [h] at hl
  obtain ⟨s, hs, hf, _⟩ := hl
  have := specRun_inserts (μ := Unit)
    (fun e => ∃ ze, zs[e.zone]? = some ze ∧ e.name = ze.apex.labels ∧ e.kind = ze.kind)
    (zs.zipIdx.map mk)
    (fun op hop => by
      obtain ⟨p, hp, rfl⟩ := List.mem_map.mp hop
      exact ⟨_, rfl, p.1, List.mem_zipIdx_iff_getElem?.mp hp, rfl, rfl⟩)
    [] (fun k e h => by simp [sfind] at h) (cls, s) e hf
  obtain ⟨⟨ze, h1, h2, h3⟩, hk⟩ := this
  refine ⟨ze, h1, h2, h3, ?_⟩
  have : foldName e.name = s := by
    have := congrArg Prod.snd hk
    simpa [keyOf] using this
  rw [← h2, this]; exact hs

/-- so the name handed to the unchecked lookup lies at or below the apex of the zone -/
theorem fold_suffix (apex qn : WName) (h : Spec.Catalog.foldName apex.labels <:+ Spec.Catalog.foldName qn.labels) :
    fold apex <:+ fold qn := h

end QV.ServerSafety
